"""C03 - FINDINGS (refuted on the unchanged tree; kept out of ./check): a solid component of a library material, with input
and current temperature both INSIDE the material's stated range, is refused with RuntimeError("Linear expansion percent
may not be implemented ...") whenever the material's correlation gives exactly the same dL/L at the two (different)
temperatures: Component.getThermalExpansionFactor treats `dLL == 0 and |Tc - T0| > 1e-10` as "material has no
expansion data".

* TZM: the table percentThermalExpansion is flat (0.303 %) between 840.56 C and 846.11 C: ANY two different
  temperatures in that interval, e.g. Circle("c", "TZM", 841.0, 845.0, od=1.0, id=0.0, mult=1) -> RuntimeError.
* Zr: dL/L drops from 0.617 % to 0.482 % at the 1137 K phase change, so every beta-phase temperature with
  dL/L in (0.482, 0.617) has an alpha-phase partner with the same value (real-number statement; in floating point an
  exact tie needs the two cubics to round to the same double).
* UraniumOxide / UO2 / MOX: the high-temperature cubic starts 1.1e-3 percentage points below the end of the
  low-temperature cubic at 923 K, so temperatures just above 923 K tie with temperatures just below (real-number
  statement, e.g. T0 = 649 C and T1 = 650.03.. C).

Property text (C03): 'Changing the temperature of a solid component ... of any library material, anywhere in the
material's valid range and through any sequence of intermediate temperatures, conserves its mass per unit height'.

Run: python3-vt -m pyvc.run contracts/pending/C03_library_finding.py -v
     PYTHONPATH=/repo:contracts /venv/bin/python contracts/native_runner.py cross contracts/pending/C03_library_finding.py --n 20
"""
from spec import *

Circle = repo("armi.reactor.components.basicShapes:Circle")
TZM = repo("armi.materials.tZM:TZM")
Zr = repo("armi.materials.zr:Zr")
UraniumOxide = repo("armi.materials.uraniumOxide:UraniumOxide")
K0 = 273.15


class Nuc:
    """stand-in for a NuclideBase (weight, abundance): only read by UraniumOxide.setDefaultMassFracs"""


TABLE = {"U235": new(Nuc, weight=235.043929, abundance=0.007204), "U238": new(Nuc, weight=238.050788, abundance=0.992742),
         "O": new(Nuc, weight=15.9994, abundance=0.0)}
OV = {"armi.nucDirectory.nuclideBases:byName": "TABLE"}


class PMap:
    """name -> value view of a ParameterCollection (as in C03_expansion.py)"""

    def __getitem__(self, k):
        return getattr(self, k)

    def __setitem__(self, k, v):
        setattr(self, k, v)

    def get(self, k, d=None):
        return getattr(self, k, d)

    def __contains__(self, k):
        return hasattr(self, k)


def circle_of(matcls, name, T0, T1):
    if NATIVE:
        return Circle("c", name, T0, T1, od=1.0, id=0.0, mult=1)
    p = new(PMap, numberDensities={"A": 0.02}, volume=None, detailedNDens=None, pinNDens=None, modArea=None, temperatureInC=T1, od=1.0, id=0.0, mult=1)
    return new(Circle, p=p, material=matcls(), inputTemperatureInC=T0, parent=None, cached={})


@lemma(gen={"T0": (835.0, 850.0), "T1": (835.0, 850.0)})
def tzm_component_is_never_refused_in_range(T0: float, T1: float):
    """REFUTED: TZM, T0 and T1 in the stated range [21.11, 1382.22] C"""
    (lo, hi), u = TZM.propertyValidTemperature["linear expansion percent"]
    assume(lo <= T0 and T0 <= hi and lo <= T1 and T1 <= hi)
    c = circle_of(TZM, "TZM", T0, T1)
    assert c.getThermalExpansionFactor() > 0






