"""C04 - layout creation: the depth-first flattening of the object tree that Database.writeToDB stores
(`layout/type, name, serialNum, indexInData, numChildren, location(+type), material, temperatures, gridIndex`) and the
way back from the flat lists to the tree (Layout.computeAncestors), composed.

The lemmas run the real `Layout.__init__` -> `Layout._createLayout` (recursive pre-order walk with its `sorted(list(comp))`
over the real `Composite.__iter__/__len__/__lt__` and `IndexLocation.getCompleteIndices`), `_packLocations`, the real
`Layout.__getitem__` and `Layout.computeAncestors` on trees of REAL armi objects (Composite / Assembly / Circle)
allocated with new() (no __init__: the constructors need the parameter-collection metaclass machinery); the attributes
given are the ones the constructors set and the layout reads (name, parent, _children, p.serialNum, spatialLocator,
spatialGrid; for components inputTemperatureInC, p.temperatureInC, material, and the dimensions p.od / p.id by which
`Component.__lt__` orders sibling components - real `Circle.getBoundingCircleOuterDiameter/getCircleInnerDiameter`,
`Component.getDimension`).

Shapes are ENUMERATED COMPLETELY: every ordered rooted tree with up to 5 nodes as a parent vector par[i] < i (children in
index order; 1 + 1 + 2 + 6 + 24 vectors); the class of every node is enumerated too (stated per lemma); serial numbers,
child locations and temperatures are SYMBOLIC.  The expected layout is computed by the harness from the PARENT VECTOR
(naive recursive pre-order walk), never from the objects' child lists.

Stand-ins: `PStub` (parameter collection: serialNum, temperatureInC), `Mat` (a material: only its class name is read),
`allSubclasses_contract` replaces Layout.allSubclasses (`cls.__subclasses__()` of the grid classes - a registry used
only by _initComps, not by anything asserted here): assumed contract = returns some set of classes (here: the empty set).
"""
from spec import *

layout = repo("armi.bookkeeping.db.layout")
Layout = repo("armi.bookkeeping.db.layout:Layout")
Composite = repo("armi.reactor.composites:Composite")
Assembly = repo("armi.reactor.assemblies:Assembly")
Circle = repo("armi.reactor.components.basicShapes:Circle")
IndexLocation = repo("armi.reactor.grids.locations:IndexLocation")
CoordinateLocation = repo("armi.reactor.grids.locations:CoordinateLocation")


class PStub:
    """stand-in for the parameter collection of a node: `serialNum` (and `temperatureInC`, `od`, `id` of a component)
    are read; p[key] is the parameter of that name"""

    def __getitem__(self, key):
        return getattr(self, key)


class Mat:
    """stand-in for a material object: only its class name is stored in the layout"""


def allSubclasses_contract(cls):
    """assumed contract of Layout.allSubclasses: some set of classes (what it contains is irrelevant to the layout lists)"""
    return set()


STUBS = {"armi.bookkeeping.db.layout:Layout.allSubclasses": "allSubclasses_contract"}


# ---------------------------------------------------------------------------------------------- shapes and the naive walk
def kids(n, par, i):
    return [j for j in range(1, n) if par[j] == i]


def preorder(n, par, i):
    """naive pre-order walk from the parent vector: the node, then each child's walk, children in child order"""
    out = [i]
    for k in kids(n, par, i):
        out = out + preorder(n, par, k)
    return out


def subtree(n, par, i):
    return preorder(n, par, i)


def cls_of(n, par, i, bits):
    """class of node i: inner nodes (and the root) Composite / Assembly by their bit; a childless node is a Circle
    component when its parent's bit is set and all its siblings are childless too (a block-like parent: components are
    only ever siblings of components), else a Composite"""
    if len(kids(n, par, i)) > 0 or i == 0:
        return Assembly if bits[i] else Composite
    sibs = kids(n, par, par[i])
    if bits[par[i]] and all(len(kids(n, par, x)) == 0 for x in sibs):
        return Circle
    return Composite


def mk_tree(n, par, bits, sns, locs, temps):
    """n real objects linked as the parent vector says (children in index order).  Child m sits at grid-less
    IndexLocation(locs[m], 0, 0); the root at a free coordinate."""
    nodes = []
    for i in range(n):
        c = cls_of(n, par, i, bits)
        p = new(PStub, serialNum=sns[i])
        loc = CoordinateLocation(0.0, 0.0, 0.0, None) if i == 0 else IndexLocation(locs[i], 0, 0, None)
        if c is Circle:
            p.temperatureInC = temps[i][1]
            p.od = temps[i][2]
            p.id = temps[i][3]
            nodes.append(new(Circle, name="n%d" % i, parent=None, _children=[], p=p, spatialLocator=loc, spatialGrid=None,
                             inputTemperatureInC=temps[i][0], material=new(Mat)))
        else:
            nodes.append(new(c, name="n%d" % i, parent=None, _children=[], p=p, spatialLocator=loc, spatialGrid=None))
    for i in range(1, n):
        nodes[par[i]]._children.append(nodes[i])
        nodes[i].parent = nodes[par[i]]
    return nodes


def positive(name):
    """an arbitrary real > 0 (natively: made positive instead of being drawn until it is)"""
    v = sym_real(name)
    if NATIVE:
        return abs(v) + 0.01
    assume(v > 0)
    return v


def natural(name):
    """an arbitrary integer >= 0"""
    v = sym_int(name)
    if NATIVE:
        return abs(v)
    assume(v >= 0)
    return v


def below(name, hi):
    """an arbitrary real in [0, hi) for hi > 0"""
    v = sym_real(name)
    if NATIVE:
        return hi * ((abs(v) / 10.0) % 1.0)
    assume(0 <= v and v < hi)
    return v


FIXED_SNS = [7, 3, 9, 1, 5]


def symbols(n, par, ordered, fixed_sns=False):
    """symbolic contents of the n nodes.  Serial numbers pairwise different (parameter collections hand them out from a
    counter) - symbolic, or with fixed_sns the concrete numbers 7, 3, 9, 1, 5 (the 5-node lemmas: the dictionary keyed
    by symbolic serial numbers is what makes them slow; the layout code only stores them and uses them as keys); a
    circle's inner diameter below its outer one.  ordered=True: every child sits at a location above its previous
    sibling's and (components) has a larger outer diameter - i.e. the child lists are in the order in which
    Composite.__lt__ / Component.__lt__ sort; ordered=False: locations and diameters of siblings are unrelated."""
    if fixed_sns:
        sns = FIXED_SNS[:n]
    else:
        sns = [sym_int("sn%d" % m) for m in range(n)]
        for m in range(n):
            for q in range(m):
                assume(sns[m] != sns[q])
    locs, temps = [], []
    for m in range(n):
        prev = [x for x in kids(n, par, par[m]) if x < m] if m > 0 else []
        if ordered and len(prev) > 0:
            loc = locs[prev[-1]] + 1 + natural("dloc%d" % m)
            od = temps[prev[-1]][2] + positive("dod%d" % m)
        else:
            loc = sym_int("loc%d" % m)
            od = positive("od%d" % m)
        locs.append(loc)
        temps.append((sym_real("tin%d" % m), sym_real("thot%d" % m), od, below("id%d" % m, od)))
    return sns, locs, temps


def bits_of(n, tmask):
    return [(tmask // (2 ** m)) % 2 == 1 for m in range(n)]


def same_seq(xs, ys):
    if len(xs) != len(ys):
        return False
    for k in range(len(xs)):
        if not same(xs[k], ys[k]):
            return False
    return True


def both(a, b):
    """conjunction of two already evaluated conditions (one obligation per topic instead of one per node)"""
    return a and b


def row_is(lay, sn, q):
    """Layout[sn] is the q-th entry of every list"""
    row = lay[sn]
    c1 = len(row) == 9 and row[0] == lay.type[q] and row[1] == lay.name[q] and row[5] == lay.locationType[q] and row[8] == lay.material[q]
    c2 = row[2] == lay.serialNum[q]
    c3 = row[3] == lay.indexInData[q]
    c4 = row[4] == lay.numChildren[q]
    c5 = same(row[6], lay.location[q])
    c6 = same(row[7], lay.temperatures[q])
    return both(both(both(c1, c2), both(c3, c4)), both(c5, c6))


def own_entries_ok(lay, q, j, c, n, par, sns, locs, temps):
    """the entries of object j, found at position q: class, name, serial number, number of children, location, grid
    index, temperatures, material"""
    c1 = lay.type[q] == c.__name__ and lay.name[q] == "n%d" % j and lay.gridIndex[q] is None
    c2 = lay.serialNum[q] == sns[j]
    c3 = lay.numChildren[q] == len(kids(n, par, j))
    if j == 0:
        loc = tuple(lay.location[q])
        c4 = lay.locationType[q] == layout.LOC_COORD and len(loc) == 3
        c5 = both(loc[0] == 0.0, both(loc[1] == 0.0, loc[2] == 0.0))
    else:
        loc = tuple(lay.location[q])
        c4 = lay.locationType[q] == layout.LOC_INDEX and len(loc) == 3
        c5 = both(loc[0] == locs[j], both(loc[1] == 0, loc[2] == 0))
    t = lay.temperatures[q]
    if c is Circle:
        c6 = lay.material[q] == "Mat" and len(t) == 2
        c7 = both(t[0] == temps[j][0], t[1] == temps[j][1])
    else:
        c6 = lay.material[q] == "" and len(t) == 2
        c7 = both(t[0] == -900, t[1] == -900)
    return both(both(both(c1, c2), both(c3, c4)), both(c5, both(c6, c7)))


def check_layout_in_child_order(n, par, tmask, ordered, fixed_sns=False):
    """the layout of the tree must be the pre-order walk IN CHILD ORDER.  `ordered`: the children of every node are
    already in the order of Composite.__lt__ / Component.__lt__ (hypothesis of the lemmas of this file; not of the
    finding lemma in contracts/pending)"""
    bits = bits_of(n, tmask)
    sns, locs, temps = symbols(n, par, ordered, fixed_sns)
    nodes = mk_tree(n, par, bits, sns, locs, temps)
    lay = Layout((layout.DB_MAJOR, layout.DB_MINOR), comp=nodes[0])
    pre = preorder(n, par, 0)
    assert len(pre) == n
    for lst in (lay.type, lay.name, lay.serialNum, lay.indexInData, lay.numChildren, lay.locationType, lay.location,
                lay.gridIndex, lay.temperatures, lay.material):
        assert len(lst) == n, "one entry per object in every layout list"
    order_ok, own_ok, index_ok = True, True, True
    for q in range(n):
        j = pre[q]
        c = cls_of(n, par, j, bits)
        is_j = lay.serialNum[q] == sns[j]
        order_ok = both(order_ok, is_j)
        own_ok = both(own_ok, own_entries_ok(lay, q, j, c, n, par, sns, locs, temps))
        same_type_before = [r for r in range(q) if cls_of(n, par, pre[r], bits) is c]
        is_k = lay.indexInData[q] == len(same_type_before)
        index_ok = both(index_ok, is_k)
    assert order_ok, "serial numbers in pre-order, children in child order"
    assert own_ok, "every object's own entries (class, name, children, location, temperatures, material) at its pre-order position"
    assert index_ok, "indexInData counts the objects of the same class laid out before"
    # grouping by class: the objects of each class in layout order (what Database._writeParams iterates)
    for c in (Composite, Assembly, Circle):
        want = [nodes[j] for j in pre if cls_of(n, par, j, bits) is c]
        if len(want) > 0:
            assert same_seq(lay.groupedComps[c], want), "groupedComps: the objects of a class, in layout order"
    assert len([c for c in lay.groupedComps]) == len(set(cls_of(n, par, j, bits).__name__ for j in range(n)))
    # the way back: parents from the flat lists = the real parents (round trip `same tree ... child order`)
    anc = Layout.computeAncestors(lay.serialNum, lay.numChildren)
    assert len(anc) == n and anc[0] is None, "the root has no parent"
    anc_ok = True
    for q in range(1, n):
        assert anc[q] is not None
        is_p = anc[q] == nodes[pre[q]].parent.p.serialNum
        anc_ok = both(anc_ok, is_p)
    assert anc_ok, "computeAncestors on the created layout: the real parent of every object"
    # look-up by serial number
    rows_ok = True
    for q in range(n):
        rows_ok = both(rows_ok, row_is(lay, sns[pre[q]], q))
    assert rows_ok, "Layout[sn]: that object's row"


@lemma(gen={"n": (1, 3), "p2": (0, 1), "tmask": (0, 7)}, stubs=STUBS)
def layout_is_the_preorder_walk_up_to_3_nodes(n: int, p2: int, tmask: int):
    """every tree shape with <= 3 nodes x EVERY assignment of classes (inner: Composite/Assembly; childless: Circle
    components under a block-like parent, else Composite; 2^n bit patterns), child lists in sorted order; symbolic
    serial numbers, locations, diameters, temperatures: every layout list is the pre-order walk in child order,
    indexInData counts per class, groupedComps groups in layout order, computeAncestors gives back every real parent,
    Layout[sn] is that object's row"""
    n = choose(n, 1, 3)
    p2 = choose(p2, 0, 1 if n > 2 else 0)
    tmask = choose(tmask, 0, 2 ** n - 1)
    check_layout_in_child_order(n, [0, 0, p2], tmask, True)


@lemma(gen={"p2": (0, 1), "p3": (0, 2), "tmask": (0, 15)}, stubs=STUBS)
def layout_is_the_preorder_walk_4_nodes(p2: int, p3: int, tmask: int):
    """the same for the 6 parent vectors with 4 nodes x all 16 class patterns"""
    p2 = choose(p2, 0, 1)
    p3 = choose(p3, 0, 2)
    tmask = choose(tmask, 0, 15)
    check_layout_in_child_order(4, [0, 0, p2, p3], tmask, True)


TMASKS5 = [0, 31, 21, 10, 6, 25]


@lemma(gen={"p2": (0, 1), "p3": (0, 2), "p4": (0, 3), "t": (0, 2)}, stubs=STUBS)
def layout_is_the_preorder_walk_5_nodes(p2: int, p3: int, p4: int, t: int):
    """the 24 parent vectors with 5 nodes x 3 class assignments (bit patterns 00000, 11111, 10101), serial numbers
    7, 3, 9, 1, 5, everything else symbolic"""
    p2 = choose(p2, 0, 1)
    p3 = choose(p3, 0, 2)
    p4 = choose(p4, 0, 3)
    t = choose(t, 0, 2)
    check_layout_in_child_order(5, [0, 0, p2, p3, p4], TMASKS5[t], True, True)


@lemma(gen={"p2": (0, 1), "p3": (0, 2), "p4": (0, 3), "t": (3, 5)}, stubs=STUBS)
def layout_is_the_preorder_walk_5_nodes_other_classes(p2: int, p3: int, p4: int, t: int):
    """the 24 parent vectors with 5 nodes x the class patterns 01010, 00110, 11001"""
    p2 = choose(p2, 0, 1)
    p3 = choose(p3, 0, 2)
    p4 = choose(p4, 0, 3)
    t = choose(t, 3, 5)
    check_layout_in_child_order(5, [0, 0, p2, p3, p4], TMASKS5[t], True, True)


# ---------------------------------------------------------------------------------------------- any child locations
def check_layout_is_a_preorder_flattening(n, par, tmask, fixed_sns=False):
    """children at ARBITRARY locations / diameters (ties included): whatever order _createLayout gives the children, the
    flat lists must still describe the same tree.  Objects are found in the layout by their (concrete, unique) names."""
    bits = bits_of(n, tmask)
    sns, locs, temps = symbols(n, par, False, fixed_sns)
    nodes = mk_tree(n, par, bits, sns, locs, temps)
    lay = Layout((layout.DB_MAJOR, layout.DB_MINOR), comp=nodes[0])
    assert len(lay.serialNum) == n and len(lay.numChildren) == n and len(lay.type) == n and len(lay.indexInData) == n and len(lay.name) == n
    pos = []
    for j in range(n):
        where = [q for q in range(n) if lay.name[q] == "n%d" % j]
        assert len(where) == 1, "every object is laid out exactly once"
        pos.append(where[0])
    assert pos[0] == 0, "the root comes first"
    anc = Layout.computeAncestors(lay.serialNum, lay.numChildren)
    assert len(anc) == n and anc[0] is None
    own_ok, anc_ok, rows_ok = True, True, True
    for j in range(n):
        q = pos[j]
        c = cls_of(n, par, j, bits)
        own_ok = both(own_ok, own_entries_ok(lay, q, j, c, n, par, sns, locs, temps))
        sub = preorder(n, par, j)
        assert sorted(pos[x] for x in sub) == list(range(q, q + len(sub))), "a subtree is one contiguous run starting at its root (pre-order)"
        if j > 0:
            assert anc[q] is not None
            is_p = anc[q] == sns[par[j]]
            anc_ok = both(anc_ok, is_p)
        assert lay.indexInData[q] == len([x for x in range(n) if pos[x] < q and cls_of(n, par, x, bits) is c]), "index among the objects of its class"
        assert same(lay.groupedComps[c][lay.indexInData[q]], nodes[j]), "groupedComps[class][indexInData] is the object"
        rows_ok = both(rows_ok, row_is(lay, sns[j], q))
    assert own_ok, "every object's own entries travel with it"
    assert anc_ok, "computeAncestors gives back the real parent"
    assert rows_ok, "Layout[sn]: that object's row"


@lemma(gen={"n": (1, 4), "p2": (0, 1), "p3": (0, 2), "t": (0, 2)}, stubs=STUBS)
def any_child_locations_layout_describes_the_same_tree_up_to_4_nodes(n: int, p2: int, p3: int, t: int):
    """every tree shape with <= 4 nodes x 3 class assignments, children at ARBITRARY symbolic locations / diameters (the
    sorted() in _createLayout may lay siblings out in another order - every outcome of the sort is followed): each
    object once, the root first, every subtree a contiguous run, the object's own entries, indexInData / groupedComps,
    computeAncestors = the real parent, Layout[sn] = its row; symbolic serial numbers"""
    n = choose(n, 1, 4)
    p2 = choose(p2, 0, 1 if n > 2 else 0)
    p3 = choose(p3, 0, 2 if n > 3 else 0)
    t = choose(t, 0, 2)
    check_layout_is_a_preorder_flattening(n, [0, 0, p2, p3], [0, 2 ** n - 1, 10][t])


@lemma(gen={"p2": (0, 1), "p3": (0, 2), "p4": (0, 3)}, stubs=STUBS)
def any_child_locations_layout_describes_the_same_tree_5_composites(p2: int, p3: int, p4: int):
    """the 24 parent vectors with 5 nodes, all Composite, arbitrary symbolic child locations; serial numbers 7, 3, 9, 1, 5"""
    p2 = choose(p2, 0, 1)
    p3 = choose(p3, 0, 2)
    p4 = choose(p4, 0, 3)
    check_layout_is_a_preorder_flattening(5, [0, 0, p2, p3, p4], 0, True)


@lemma(gen={"p2": (0, 1), "p3": (0, 2), "p4": (0, 1)}, stubs=STUBS)
def any_child_locations_layout_describes_the_same_tree_5_mixed(p2: int, p3: int, p4: int):
    """the parent vectors with 5 nodes whose last node hangs under node 0 or 1 (12 of 24), classes by the bit pattern
    10101 (assemblies, circles under block-like parents, composites), arbitrary symbolic child locations and circle
    diameters; serial numbers 7, 3, 9, 1, 5"""
    p2 = choose(p2, 0, 1)
    p3 = choose(p3, 0, 2)
    p4 = choose(p4, 0, 1)
    check_layout_is_a_preorder_flattening(5, [0, 0, p2, p3, p4], 21, True)


@lemma(gen={"p2": (0, 1), "p3": (0, 2), "p4": (2, 3)}, stubs=STUBS)
def any_child_locations_layout_describes_the_same_tree_5_mixed_deep(p2: int, p3: int, p4: int):
    """the other 12 parent vectors with 5 nodes (last node under node 2 or 3), same classes"""
    p2 = choose(p2, 0, 1)
    p3 = choose(p3, 0, 2)
    p4 = choose(p4, 2, 3)
    check_layout_is_a_preorder_flattening(5, [0, 0, p2, p3, p4], 21, True)


# ---------------------------------------------------------------------------------------------- objects that cannot be ordered
@lemma(gen={"k": (2, 4), "bad": (0, 3)}, stubs=STUBS)
def children_without_location_are_refused_not_laid_out_arbitrarily(k: int, bad: int, deep: bool):
    """a node with k = 2..4 children one of which has no spatialLocator cannot be put in a stable order: creating the
    layout raises ValueError (nothing is written) instead of storing some order"""
    k = choose(k, 2, 4)
    bad = choose(bad, 0, k - 1)
    n = k + 1
    par = [0] * n
    sns, locs, temps = symbols(n, par, False)
    nodes = mk_tree(n, par, [False] * n, sns, locs, temps)
    nodes[1 + bad].spatialLocator = None
    try:
        Layout((layout.DB_MAJOR, layout.DB_MINOR), comp=nodes[0])
        raised = False
    except ValueError:
        raised = True
    assert raised


# ---------------------------------------------------------------------------------------------- grids of the objects
HexGrid = repo("armi.reactor.grids.hexagonal:HexGrid")


def same_params(a, b):
    """two (grid class name, GridParameters) entries are equal"""
    return a == b


@lemma(gen={"k": (1, 3), "gmask": (0, 7), "smask": (0, 7), "pa": (0.1, 30.0), "pb": (0.1, 30.0)}, stubs=STUBS)
def grid_index_points_at_the_objects_own_grid_parameters(k: int, gmask: int, smask: int, pa: float, pb: float):
    """a root with k = 1..3 children; child m has a real HexGrid (gmask bit m; pitch pa or pb by smask bit m, pa != pb
    symbolic) or no grid; the root has a grid of pitch pa: gridIndex is None exactly for the objects without grid, and
    for the others gridParams[gridIndex] is (class name, that grid's reduce()) - the constructor arguments from which
    the grid is rebuilt on load; equal parameters are stored once, different ones get different indices"""
    k = choose(k, 1, 3)
    gmask = choose(gmask, 0, 2 ** k - 1)
    smask = choose(smask, 0, 2 ** k - 1)
    assume(pa > 0 and pb > 0 and pa != pb)
    n = k + 1
    par = [0] * n
    sns, locs, temps = symbols(n, par, True, True)
    nodes = mk_tree(n, par, [False] * n, sns, locs, temps)
    has = [True] + [(gmask // (2 ** m)) % 2 == 1 for m in range(k)]
    useb = [False] + [(smask // (2 ** m)) % 2 == 1 for m in range(k)]
    for i in range(n):
        if has[i]:
            nodes[i].spatialGrid = HexGrid.fromPitch(pb if useb[i] else pa, numRings=1, armiObject=nodes[i])
    lay = Layout((layout.DB_MAJOR, layout.DB_MINOR), comp=nodes[0])
    assert len(lay.gridIndex) == n
    for q in range(n):
        if not has[q]:
            assert lay.gridIndex[q] is None, "no grid: no index"
        else:
            gi = lay.gridIndex[q]
            assert gi is not None and 0 <= gi and gi < len(lay.gridParams)
            want = ("HexGrid", nodes[q].spatialGrid.reduce())
            assert same_params(lay.gridParams[gi], want), "the index points at this object's own grid parameters"
    for a in range(len(lay.gridParams)):
        for b in range(a):
            assert not same_params(lay.gridParams[a], lay.gridParams[b]), "equal parameters are stored once"
    distinct = len(set(useb[i] for i in range(n) if has[i]))
    assert len(lay.gridParams) == distinct, "as many stored grids as there are different parameter sets"
