"""Run harness lemmas natively on the real armi (python with armi importable).

  native_runner.py cross <harness.py> --seed S --n N      random inputs satisfying the hypotheses
  native_runner.py replay <harness.py> <lemma> '<json inputs>'

Output: one JSON document on stdout.
"""
import importlib.util
import inspect
import json
import math
import os
import random
import sys
import traceback

HERE = os.path.dirname(os.path.abspath(__file__))
sys.path.insert(0, HERE)
import spec  # noqa: E402


def load(path):
    name = "h_" + os.path.splitext(os.path.basename(path))[0]
    sp = importlib.util.spec_from_file_location(name, path)
    mod = importlib.util.module_from_spec(sp)
    sys.modules[name] = mod
    sp.loader.exec_module(mod)
    return mod


def lemmas(mod):
    out = []
    for n, f in vars(mod).items():
        if callable(f) and hasattr(f, "_lemma_opts") and getattr(f, "__module__", None) == mod.__name__:
            out.append((n, f))
    return out


INTS = [0, 1, -1, 2, -2, 3, -3, 4, 5, 6, 7, -7, 10, 12, 13, 25, 99, 100, -100, 1000]


def gen_value(rng, ann, g):
    if g is not None:
        if isinstance(g, (list, tuple)) and len(g) == 2 and all(isinstance(x, (int, float)) for x in g):
            lo, hi = g
            if ann is int:
                return rng.randint(lo, hi)
            return rng.uniform(lo, hi)
        if isinstance(g, (list, tuple)):
            return rng.choice(list(g))
    if ann is int:
        r = rng.random()
        if r < 0.5:
            return rng.choice(INTS)
        if r < 0.9:
            return rng.randint(-30, 30)
        return rng.randint(-5000, 5000)
    if ann is float:
        r = rng.random()
        if r < 0.2:
            return float(rng.choice(INTS))
        if r < 0.6:
            return rng.uniform(-10, 10)
        return rng.uniform(-1000, 1000) if r < 0.9 else rng.uniform(0, 1e-3)
    if ann is bool:
        return rng.random() < 0.5
    raise TypeError("cannot generate %r" % (ann,))


def apply_stubs(mod, f):
    """stubs={"pkg.mod:func": "harnessFunction"}: the callee is replaced by its contract natively too"""
    import importlib

    undo = []
    for q, fname in (f._lemma_opts.get("stubs") or {}).items():
        modname, attr = q.split(":")
        m = importlib.import_module(modname)
        owner = m
        parts = attr.split(".")
        for p in parts[:-1]:
            owner = getattr(owner, p)
        undo.append((owner, parts[-1], getattr(owner, parts[-1])))
        setattr(owner, parts[-1], getattr(mod, fname))
    for q, gname in (f._lemma_opts.get("overrides") or {}).items():
        modname, attr = q.split(":")
        m = importlib.import_module(modname)
        undo.append((m, attr, getattr(m, attr)))
        setattr(m, attr, getattr(mod, gname))
    return undo


def run_one(f, kwargs):
    undo = apply_stubs(sys.modules[f.__module__], f)
    try:
        return _run_one(f, kwargs)
    finally:
        for owner, name, orig in undo:
            setattr(owner, name, orig)


def _run_one(f, kwargs):
    try:
        f(**kwargs)
        return "pass", None
    except spec.Skip:
        return "skip", None
    except AssertionError as e:
        tb = traceback.extract_tb(sys.exc_info()[2])
        line = [fr.lineno for fr in tb if fr.name == f.__name__]
        return "fail", "AssertionError at L%s %s" % (line[-1] if line else "?", e)
    except Exception as e:  # noqa
        tb = traceback.extract_tb(sys.exc_info()[2])
        line = [fr.lineno for fr in tb if fr.name == f.__name__]
        return "fail", "uncaught %s: %s at L%s" % (type(e).__name__, e, line[-1] if line else "?")


def conv(v):
    if isinstance(v, list) and len(v) == 2 and all(isinstance(x, int) for x in v):
        return v[0] / v[1]
    return v


def main():
    mode = sys.argv[1]
    path = sys.argv[2]
    mod = load(path)
    if mode == "replay":
        name = sys.argv[3]
        inputs = json.loads(sys.argv[4])
        f = dict(lemmas(mod))[name]
        sig = inspect.signature(f)
        kw = {}
        for p in sig.parameters.values():
            v = inputs.get(p.name)
            if p.annotation is float:
                v = conv(v) if isinstance(v, list) else float(v)
            kw[p.name] = v
        spec._inputs = dict(inputs)
        r, msg = run_one(f, kw)
        print(json.dumps({"result": r, "message": msg, "inputs": {k: repr(v) for k, v in kw.items()}}))
        return
    seed = int(sys.argv[sys.argv.index("--seed") + 1]) if "--seed" in sys.argv else 0
    n = int(sys.argv[sys.argv.index("--n") + 1]) if "--n" in sys.argv else 200
    out = {}
    for name, f in lemmas(mod):
        opts = f._lemma_opts
        if opts.get("native") is False:
            out[name] = {"native": False}
            continue
        rng = random.Random("%s/%s" % (seed, name))
        spec._rng = rng
        sig = inspect.signature(f)
        gen = opts.get("gen", {})
        passed = skipped = 0
        fails = []
        distinct = set()
        tries = 0
        while passed < n and tries < n * 20:
            tries += 1
            kw = {p.name: gen_value(rng, p.annotation, gen.get(p.name)) for p in sig.parameters.values()}
            r, msg = run_one(f, kw)
            if r == "pass":
                passed += 1
                distinct.add(tuple(sorted((k, repr(v)) for k, v in kw.items())))
            elif r == "skip":
                skipped += 1
            else:
                fails.append({"inputs": kw, "message": msg})
                if len(fails) >= 3:
                    break
        out[name] = {"native": True, "passed": passed, "skipped": skipped, "distinct": len(distinct), "fails": fails}
    print(json.dumps(out))


if __name__ == "__main__":
    main()
