"""C19 - the identifiers of a nuclide encode its atomic number, mass number and isomeric state without collision."""
from spec import *

nuclideBases = repo("armi.nucDirectory.nuclideBases")
NuclideBase = repo("armi.nucDirectory.nuclideBases:NuclideBase")


def nuclide(z, a, state):
    """a NuclideBase WITHOUT the registering constructor (global directory, element table): the id methods read only
    z, a and state (class invariant established by INuclide.__init__: z = element.z, a, state as given)"""
    return new(NuclideBase, z=z, a=a, state=state)


def mcnp_number(z, a, state):
    """documented MCNP ZAID: Z*1000 + A, metastable states add 300 + 100*m to A; Am-242 / Am-242m are swapped"""
    if z == 95 and a == 242:
        return z * 1000 + (a if state == 1 else a + 300 + 100 * max(state, 1))
    return z * 1000 + a + (300 + 100 * state if state > 0 else 0)


GEN = {"z": (1, 118), "a": (1, 299), "state": [0, 1, 2, 3], "z2": (1, 118), "a2": (1, 299), "state2": [0, 1, 2, 3]}


@lemma(gen=GEN)
def mcnp_id_is_the_documented_number(z: int, a: int, state: int):
    """for ALL 1 <= z <= 118, 1 <= a <= 299, 0 <= state <= 3 (symbolic): the digits of getMcnpId() read as a number"""
    assume(1 <= z <= 118 and 1 <= a <= 299 and 0 <= state <= 3)
    n = int(nuclide(z, a, state).getMcnpId())
    assert n == mcnp_number(z, a, state), "ZZZAAA with the metastable offset"
    assert n // 1000 == z, "the atomic number is read back from the identifier"
    ap = n % 1000
    if not (z == 95 and a == 242):
        # decoding, for ground and first metastable states of physical mass numbers (a <= 299)
        assert implies(state <= 1, (state == 1) == (ap >= 400) and a == ap - 400 * state), "state and mass number are read back"
    else:
        assert implies(state <= 1, (state == 1) == (ap < 400)), "Am-242: the ground state carries the offset"


def same_chain(z, a, z2, a2):
    """two isotopes of one element less than 100 mass numbers apart (every real isotopic chain)"""
    return z == z2 and -100 < a - a2 < 100


@lemma(gen=GEN)
def mcnp_ids_do_not_collide(z: int, a: int, state: int, z2: int, a2: int, state2: int):
    """for ALL pairs in 1..118 x 1..299 x 0..3: equal MCNP ids only for equal (z, a, state), provided both are ground /
    first metastable states OR the two belong to one isotopic chain (same z, mass numbers < 100 apart); outside that
    (e.g. A=100 state 2 against A=200 state 1) the MCNP convention itself collides"""
    assume(1 <= z <= 118 and 1 <= a <= 299 and 0 <= state <= 3 and 1 <= z2 <= 118 and 1 <= a2 <= 299 and 0 <= state2 <= 3)
    n1, n2 = int(nuclide(z, a, state).getMcnpId()), int(nuclide(z2, a2, state2).getMcnpId())
    assert implies(n1 == n2, z == z2), "different elements never share an id"
    assert implies(n1 == n2 and ((state <= 1 and state2 <= 1) or same_chain(z, a, z2, a2)), a == a2 and state == state2)


@lemma(gen=GEN)
def aaazzzs_id_encodes_mass_number_atomic_number_and_state(z: int, a: int, state: int, z2: int, a2: int, state2: int):
    """for ALL z in 1..118, a in 1..299, state in 0..3: the digits of getAAAZZZSId() are A, Z (3 digits), S"""
    assume(1 <= z <= 118 and 1 <= a <= 299 and 0 <= state <= 3 and 1 <= z2 <= 118 and 1 <= a2 <= 299 and 0 <= state2 <= 3)
    n = int(nuclide(z, a, state).getAAAZZZSId())
    assert n == a * 10000 + z * 10 + state
    assert n % 10 == state and (n // 10) % 1000 == z and n // 10000 == a, "decodes back to (a, z, state)"
    n2 = int(nuclide(z2, a2, state2).getAAAZZZSId())
    assert implies(n == n2, z == z2 and a == a2 and state == state2), "no two nuclides share an AAAZZZS id"


# ------------------------------------------------------------------------------------------ names and labels (strings)
# Pure string formats: enumerated COMPLETELY over the mass numbers 0..299 (the table ends at A = 295), the isomeric
# states 0..3 of the table and both symbol lengths (1 and 2 letters; only the length and the letters-only nature of
# the symbol enter the code).  One case split (choose) per symbol length x state x hundred of A; the 100 mass
# numbers of a hundred are an unrolled loop over the real static methods.
Element = repo("armi.nucDirectory.elements:Element")
LAST = "0123456789" "ABCDEFGHIJ" "KLMNOPQRST" "UVWXYZabcd"
SYMBOLS = ["U", "PU"]
SUFFIX = ["", "M", "M2", "M3"]


def element(symbol, z):
    """an Element WITHOUT the registering constructor: symbol, z and the (initially empty) isotope list"""
    return new(Element, symbol=symbol, z=z, nuclides=[])


def leading_letters(s):
    k = 0
    while k < len(s) and s[k].isalpha():
        k += 1
    return s[:k]


def leading_digits(s):
    k = 0
    while k < len(s) and s[k].isdigit():
        k += 1
    return s[:k]


@lemma(gen={"symLen": [1, 2], "state": [0, 1, 2, 3], "hundred": [0, 1, 2]})
def name_and_database_name_spell_out_symbol_mass_number_and_state(symLen: int, state: int, hundred: int):
    sym = SYMBOLS[choose(symLen, 1, 2) - 1]
    state = choose(state, 0, 3)
    hundred = choose(hundred, 0, 2)
    el = element(sym, 92)
    seen = {}
    for a in range(100 * hundred, 100 * hundred + 100):
        name = NuclideBase._createName(el, a, state)
        assert name not in seen
        seen[name] = a
        # decoding: the symbol is the leading run of letters, the mass number the following run of digits, then the state
        assert leading_letters(name) == sym, "symbol read back"
        rest = name[len(sym):]
        assert int(leading_digits(rest)) == a and len(leading_digits(rest)) == len(str(a)), "mass number read back"
        assert rest[len(leading_digits(rest)):] == SUFFIX[state] and SUFFIX.index(rest[len(leading_digits(rest)):]) == state, "state read back"
        nb = new(NuclideBase, name=name)
        db = nb.getDatabaseName()
        assert db[0] == "n" and db[1:].upper() == name and db[1:] == name.capitalize(), "database name: n + the name (capitalised), same information"
    assert len(seen) == 100


@lemma(gen={"symLen": [1, 2], "state": [0, 1, 2, 3], "hundred": [0, 1, 2]})
def label_encodes_symbol_state_and_the_low_digits_of_the_mass_number(symLen: int, state: int, hundred: int):
    """the label keeps the last 3 (one-letter symbol) / last 2 (two-letter symbol) digits of A: within an isotopic
    chain (mass numbers < 100 apart) it identifies (a, state); the hundreds digit of A is NOT recoverable from the
    label of a two-letter element (known limitation: 'PU39' would also be Pu-139)"""
    symLen = choose(symLen, 1, 2)
    sym = SYMBOLS[symLen - 1]
    state = choose(state, 0, 3)
    hundred = choose(hundred, 0, 2)
    el = element(sym, 94)
    seen = {}
    for a in range(100 * hundred, 100 * hundred + 100):
        label = NuclideBase._createLabel(el, a, state)
        assert label not in seen, "no collision within 100 consecutive mass numbers"
        seen[label] = a
        assert len(label) <= 4, "fits the 4 characters of the ISOTXS nuclide label"
        assert label[:symLen] == sym and not label[symLen].isalpha(), "symbol read back (the next character is a digit)"
        idx = LAST.index(label[-1])
        assert idx // 10 == state and idx % 10 == a % 10, "state and last digit of A read back from the last character"
        mid = label[symLen:-1]
        assert mid.isdigit() and int(mid) == (a % (1000 if symLen == 1 else 100)) // 10, "the remaining low digits of A"
        if symLen == 1:
            assert int(mid) * 10 + idx % 10 == a, "one-letter symbols: the whole mass number"


@lemma(gen={"symLen": [1, 2], "hundred": [0, 1, 2]})
def serpent_id_spells_out_symbol_mass_number_and_metastability(symLen: int, hundred: int):
    """getSerpentId, enumerated as above for the ground state and the first metastable state (the format has a single
    'm' flag: states 1, 2, 3 of one (z, a) are not distinguished by it - not one of the directory's lookup keys)"""
    sym = SYMBOLS[choose(symLen, 1, 2) - 1]
    hundred = choose(hundred, 0, 2)
    el = element(sym, 92)
    seen = {}
    for a in range(100 * hundred, 100 * hundred + 100):
        for state in (0, 1):
            sid = new(NuclideBase, element=el, a=a, state=state).getSerpentId()
            assert sid not in seen
            seen[sid] = (a, state)
            head, tail = sid.split("-")
            assert head.upper() == sym and head == sym.capitalize()
            assert int(leading_digits(tail)) == a and tail[len(leading_digits(tail)):] == ("m" if state else "")
    assert len(seen) == 200


@lemma
def mc2_ids_are_the_stored_library_labels():
    """getMcc2Id / getMcc3Id* return what INuclide.__init__ stored (read from mcc-nuclides.yaml by the factory);
    getMcc3Id is the ENDF/B-VII.1 label"""
    nb = new(NuclideBase, mcc2id="U-2355", mcc3idEndfbVII0="U235_7", mcc3idEndfbVII1="U235_71")
    assert nb.getMcc2Id() == "U-2355" and nb.getMcc3IdEndfbVII0() == "U235_7" and nb.getMcc3IdEndfbVII1() == "U235_71"
    assert nb.getMcc3Id() == nb.getMcc3IdEndfbVII1()
