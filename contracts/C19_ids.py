"""C19 - the identifiers of a nuclide encode its atomic number, mass number and isomeric state without collision."""
from spec import *

nuclideBases = repo("armi.nucDirectory.nuclideBases")
NuclideBase = repo("armi.nucDirectory.nuclideBases:NuclideBase")


def nuclide(z, a, state):
    """a NuclideBase WITHOUT the registering constructor (global directory, element table): the id methods read only
    z, a and state (class invariant established by INuclide.__init__: z = element.z, a, state as given)"""
    return new(NuclideBase, z=z, a=a, state=state)


def mcnp_number(z, a, state):
    """documented MCNP ZAID: Z*1000 + A, metastable states add 300 + 100*m to A; Am-242 / Am-242m are swapped"""
    if z == 95 and a == 242:
        return z * 1000 + (a if state == 1 else a + 300 + 100 * max(state, 1))
    return z * 1000 + a + (300 + 100 * state if state > 0 else 0)


GEN = {"z": (1, 118), "a": (1, 299), "state": [0, 1, 2, 3], "z2": (1, 118), "a2": (1, 299), "state2": [0, 1, 2, 3]}


@lemma(gen=GEN)
def mcnp_id_is_the_documented_number(z: int, a: int, state: int):
    """for ALL 1 <= z <= 118, 1 <= a <= 299, 0 <= state <= 3 (symbolic): the digits of getMcnpId() read as a number"""
    assume(1 <= z <= 118 and 1 <= a <= 299 and 0 <= state <= 3)
    n = int(nuclide(z, a, state).getMcnpId())
    assert n == mcnp_number(z, a, state), "ZZZAAA with the metastable offset"
    assert n // 1000 == z, "the atomic number is read back from the identifier"
    ap = n % 1000
    if not (z == 95 and a == 242):
        # decoding, for ground and first metastable states of physical mass numbers (a <= 299)
        assert implies(state <= 1, (state == 1) == (ap >= 400) and a == ap - 400 * state), "state and mass number are read back"
    else:
        assert implies(state <= 1, (state == 1) == (ap < 400)), "Am-242: the ground state carries the offset"


def same_chain(z, a, z2, a2):
    """two isotopes of one element less than 100 mass numbers apart (every real isotopic chain)"""
    return z == z2 and -100 < a - a2 < 100


@lemma(gen=GEN)
def mcnp_ids_do_not_collide(z: int, a: int, state: int, z2: int, a2: int, state2: int):
    """for ALL pairs in 1..118 x 1..299 x 0..3: equal MCNP ids only for equal (z, a, state), provided both are ground /
    first metastable states OR the two belong to one isotopic chain (same z, mass numbers < 100 apart); outside that
    (e.g. A=100 state 2 against A=200 state 1) the MCNP convention itself collides"""
    assume(1 <= z <= 118 and 1 <= a <= 299 and 0 <= state <= 3 and 1 <= z2 <= 118 and 1 <= a2 <= 299 and 0 <= state2 <= 3)
    n1, n2 = int(nuclide(z, a, state).getMcnpId()), int(nuclide(z2, a2, state2).getMcnpId())
    assert implies(n1 == n2, z == z2), "different elements never share an id"
    assert implies(n1 == n2 and ((state <= 1 and state2 <= 1) or same_chain(z, a, z2, a2)), a == a2 and state == state2)


@lemma(gen=GEN)
def aaazzzs_id_encodes_mass_number_atomic_number_and_state(z: int, a: int, state: int, z2: int, a2: int, state2: int):
    """for ALL z in 1..118, a in 1..299, state in 0..3: the digits of getAAAZZZSId() are A, Z (3 digits), S"""
    assume(1 <= z <= 118 and 1 <= a <= 299 and 0 <= state <= 3 and 1 <= z2 <= 118 and 1 <= a2 <= 299 and 0 <= state2 <= 3)
    n = int(nuclide(z, a, state).getAAAZZZSId())
    assert n == a * 10000 + z * 10 + state
    assert n % 10 == state and (n // 10) % 1000 == z and n // 10000 == a, "decodes back to (a, z, state)"
    n2 = int(nuclide(z2, a2, state2).getAAAZZZSId())
    assert implies(n == n2, z == z2 and a == a2 and state == state2), "no two nuclides share an AAAZZZS id"


# ------------------------------------------------------------------------------------------ names and labels (strings)
# Pure string formats: enumerated COMPLETELY over the mass numbers 0..299 (the table ends at A = 295), the isomeric
# states 0..3 of the table and both symbol lengths (1 and 2 letters; only the length and the letters-only nature of
# the symbol enter the code).  One case split (choose) per symbol length x state x hundred of A; the 100 mass
# numbers of a hundred are an unrolled loop over the real static methods.
Element = repo("armi.nucDirectory.elements:Element")
LAST = "0123456789" "ABCDEFGHIJ" "KLMNOPQRST" "UVWXYZabcd"
SYMBOLS = ["U", "PU"]
SUFFIX = ["", "M", "M2", "M3"]


def element(symbol, z):
    """an Element WITHOUT the registering constructor: symbol, z and the (initially empty) isotope list"""
    return new(Element, symbol=symbol, z=z, nuclides=[])


def leading_letters(s):
    k = 0
    while k < len(s) and s[k].isalpha():
        k += 1
    return s[:k]


def leading_digits(s):
    k = 0
    while k < len(s) and s[k].isdigit():
        k += 1
    return s[:k]


@lemma(gen={"symLen": [1, 2], "state": [0, 1, 2, 3], "hundred": [0, 1, 2]})
def name_and_database_name_spell_out_symbol_mass_number_and_state(symLen: int, state: int, hundred: int):
    sym = SYMBOLS[choose(symLen, 1, 2) - 1]
    state = choose(state, 0, 3)
    hundred = choose(hundred, 0, 2)
    el = element(sym, 92)
    seen = {}
    for a in range(100 * hundred, 100 * hundred + 100):
        name = NuclideBase._createName(el, a, state)
        assert name not in seen
        seen[name] = a
        # decoding: the symbol is the leading run of letters, the mass number the following run of digits, then the state
        assert leading_letters(name) == sym, "symbol read back"
        rest = name[len(sym):]
        assert int(leading_digits(rest)) == a and len(leading_digits(rest)) == len(str(a)), "mass number read back"
        assert rest[len(leading_digits(rest)):] == SUFFIX[state] and SUFFIX.index(rest[len(leading_digits(rest)):]) == state, "state read back"
        nb = new(NuclideBase, name=name)
        db = nb.getDatabaseName()
        assert db[0] == "n" and db[1:].upper() == name and db[1:] == name.capitalize(), "database name: n + the name (capitalised), same information"
    assert len(seen) == 100


@lemma(gen={"symLen": [1, 2], "state": [0, 1, 2, 3], "hundred": [0, 1, 2]})
def label_encodes_symbol_state_and_the_low_digits_of_the_mass_number(symLen: int, state: int, hundred: int):
    """the label keeps the last 3 (one-letter symbol) / last 2 (two-letter symbol) digits of A: within an isotopic
    chain (mass numbers < 100 apart) it identifies (a, state); the hundreds digit of A is NOT recoverable from the
    label of a two-letter element (known limitation: 'PU39' would also be Pu-139)"""
    symLen = choose(symLen, 1, 2)
    sym = SYMBOLS[symLen - 1]
    state = choose(state, 0, 3)
    hundred = choose(hundred, 0, 2)
    el = element(sym, 94)
    seen = {}
    for a in range(100 * hundred, 100 * hundred + 100):
        label = NuclideBase._createLabel(el, a, state)
        assert label not in seen, "no collision within 100 consecutive mass numbers"
        seen[label] = a
        assert len(label) <= 4, "fits the 4 characters of the ISOTXS nuclide label"
        assert label[:symLen] == sym and not label[symLen].isalpha(), "symbol read back (the next character is a digit)"
        idx = LAST.index(label[-1])
        assert idx // 10 == state and idx % 10 == a % 10, "state and last digit of A read back from the last character"
        mid = label[symLen:-1]
        assert mid.isdigit() and int(mid) == (a % (1000 if symLen == 1 else 100)) // 10, "the remaining low digits of A"
        if symLen == 1:
            assert int(mid) * 10 + idx % 10 == a, "one-letter symbols: the whole mass number"


@lemma(gen={"symLen": [1, 2], "hundred": [0, 1, 2]})
def serpent_id_spells_out_symbol_mass_number_and_metastability(symLen: int, hundred: int):
    """getSerpentId, enumerated as above for the ground state and the first metastable state (the format has a single
    'm' flag: states 1, 2, 3 of one (z, a) are not distinguished by it - not one of the directory's lookup keys)"""
    sym = SYMBOLS[choose(symLen, 1, 2) - 1]
    hundred = choose(hundred, 0, 2)
    el = element(sym, 92)
    seen = {}
    for a in range(100 * hundred, 100 * hundred + 100):
        for state in (0, 1):
            sid = new(NuclideBase, element=el, a=a, state=state).getSerpentId()
            assert sid not in seen
            seen[sid] = (a, state)
            head, tail = sid.split("-")
            assert head.upper() == sym and head == sym.capitalize()
            assert int(leading_digits(tail)) == a and tail[len(leading_digits(tail)):] == ("m" if state else "")
    assert len(seen) == 200


@lemma
def mc2_ids_are_the_stored_library_labels():
    """getMcc2Id / getMcc3Id* return what INuclide.__init__ stored (read from mcc-nuclides.yaml by the factory);
    getMcc3Id is the ENDF/B-VII.1 label"""
    nb = new(NuclideBase, mcc2id="U-2355", mcc3idEndfbVII0="U235_7", mcc3idEndfbVII1="U235_71")
    assert nb.getMcc2Id() == "U-2355" and nb.getMcc3IdEndfbVII0() == "U235_7" and nb.getMcc3IdEndfbVII1() == "U235_71"
    assert nb.getMcc3Id() == nb.getMcc3IdEndfbVII1()


# ------------------------------------------------------------------------------------------ element membership, registration
def key(n):
    return (n.a, n.z, n.state)


GEN_EL = {"n0": [0, 1, 2], "a0": (230, 236), "s0": [0, 1], "a1": (234, 240), "s1": [0, 1], "a": (228, 242), "s": [0, 1]}


@lemma(gen=GEN_EL)
def element_append_lists_the_isotope_once_and_keeps_the_chain_sorted(n0: int, a0: int, s0: int, a1: int, s1: int, a: int, s: int):
    """Element.append with 0..2 isotopes already listed (enumerated; mass numbers and states symbolic, list sorted
    as append leaves it).  Hypothesis (INuclide.__eq__ compares hash((a, z, state))): hashes of different
    (a, z, state) of the chain differ."""
    n0 = choose(n0, 0, 2)
    el = element("U", 92)
    old = [new(NuclideBase, z=92, a=a0, state=s0), new(NuclideBase, z=92, a=a1, state=s1)][:n0]
    assume(implies(n0 == 2, (a0, s0) < (a1, s1)))
    nb = new(NuclideBase, z=92, a=a, state=s)
    for x in old:
        assume(implies(key(x) != key(nb), hash(key(x)) != hash(key(nb))))
    el.nuclides = list(old)
    el.append(nb)
    listed = el.nuclides
    if any(key(x) == key(nb) for x in old):
        assert len(listed) == n0 and all(same(listed[i], old[i]) for i in range(n0)), "an isotope already listed is not listed twice"
    else:
        assert len(listed) == n0 + 1 and sum(1 for x in listed if same(x, nb)) == 1, "the isotope is listed exactly once"
        assert all(any(same(x, y) for y in listed) for x in old), "nothing listed before is lost"
    assert all((listed[i].a, listed[i].state) < (listed[i + 1].a, listed[i + 1].state) for i in range(len(listed) - 1)), "sorted by (a, state), no duplicates"
    assert all(x.z == el.z for x in listed), "every listed isotope has the element's atomic number"


# an initially EMPTY directory: the module-level maps of nuclideBases are replaced (in both runs) by these
DIR_INSTANCES = []
DIR_BY_NAME = {}
DIR_BY_DBNAME = {}
DIR_BY_LABEL = {}
DIR_BY_MCNP = {}
DIR_BY_AZS = {}
URANIUM = new(Element, symbol="U", z=92, name="uranium", nuclides=[])
PLUTONIUM = new(Element, symbol="PU", z=94, name="plutonium", nuclides=[])
ELEMENTS_BY_NAME = {"uranium": URANIUM}
ELEMENTS_PU = {"plutonium": PLUTONIUM}  # one element per table: Element.__eq__ hashes strings / enums (outside the subset)
DIRECTORY = {
    "armi.nucDirectory.nuclideBases:instances": "DIR_INSTANCES", "armi.nucDirectory.nuclideBases:byName": "DIR_BY_NAME",
    "armi.nucDirectory.nuclideBases:byDBName": "DIR_BY_DBNAME", "armi.nucDirectory.nuclideBases:byLabel": "DIR_BY_LABEL",
    "armi.nucDirectory.nuclideBases:byMcnpId": "DIR_BY_MCNP", "armi.nucDirectory.nuclideBases:byAAAZZZSId": "DIR_BY_AZS",
    "armi.nucDirectory.elements:byName": "ELEMENTS_BY_NAME",
}


def empty_directory():
    """(the native run executes many cases in one process: start each from the empty directory)"""
    for d in (DIR_BY_NAME, DIR_BY_DBNAME, DIR_BY_LABEL, DIR_BY_MCNP, DIR_BY_AZS):
        d.clear()
    del DIR_INSTANCES[:]
    URANIUM.nuclides = []
    PLUTONIUM.nuclides = []


@lemma(overrides=DIRECTORY, gen={"a": [233, 235, 238], "state": [0, 1], "a2": [234, 235, 239], "state2": [0, 1]})
def constructor_registers_the_nuclide_under_every_identifier_and_its_element(a: int, state: int, a2: int, state2: int):
    """the REAL NuclideBase constructor (INuclide.__init__, addGlobalNuclide, Element.append) on an initially empty
    directory, for uranium isotopes a in {233, 235, 238}, a2 in {234, 235, 239}, states 0..1 (enumerated, concrete
    because the identifiers are dictionary keys): every identifier retrieves that same nuclide, a second nuclide
    does not disturb the first, an identical one is refused and changes nothing"""
    a = choose(a, 233, 238)
    a2 = choose(a2, 234, 239)
    assume(a in (233, 235, 238) and a2 in (234, 235, 239))
    state = choose(state, 0, 1)
    state2 = choose(state2, 0, 1)
    empty_directory()
    el = ELEMENTS_BY_NAME["uranium"]
    nb = NuclideBase(el, a, 235.04, 0.0072, state, 2.2e16)
    assert nb.z == el.z and same(nb.element, el), "the nuclide belongs to the element with its atomic number"
    assert len(el.nuclides) == 1 and same(el.nuclides[0], nb), "and is listed by it"

    def retrievable(n):
        return (same(nuclideBases.byName[n.name], n) and same(nuclideBases.byLabel[n.label], n)
                and same(nuclideBases.byDBName[n.getDatabaseName()], n) and same(nuclideBases.byMcnpId[n.getMcnpId()], n)
                and same(nuclideBases.byAAAZZZSId[n.getAAAZZZSId()], n))

    assert retrievable(nb), "every identifier retrieves that same nuclide"
    assert len(nuclideBases.instances) == 1 and len(nuclideBases.byName) == 1 and len(nuclideBases.byMcnpId) == 1
    try:
        other = NuclideBase(el, a2, 238.05, 0.0, state2, 1.4e17)
        refused = False
    except ValueError:
        refused = True
    assert refused == ((a, state) == (a2, state2)), "a nuclide with the same identifiers is refused, any other accepted"
    assert retrievable(nb), "the first nuclide is still retrieved by all its identifiers"
    if refused:
        assert len(nuclideBases.instances) == 1 and len(nuclideBases.byName) == 1 and len(el.nuclides) == 1, "a refused nuclide leaves no trace"
    else:
        assert retrievable(other) and len(nuclideBases.instances) == 2 and len(nuclideBases.byAAAZZZSId) == 2
        assert len(el.nuclides) == 2 and any(same(x, other) for x in el.nuclides) and any(same(x, nb) for x in el.nuclides)


DIRECTORY_PU = {
    "armi.nucDirectory.nuclideBases:instances": "DIR_INSTANCES", "armi.nucDirectory.nuclideBases:byName": "DIR_BY_NAME",
    "armi.nucDirectory.nuclideBases:byDBName": "DIR_BY_DBNAME", "armi.nucDirectory.nuclideBases:byLabel": "DIR_BY_LABEL",
    "armi.nucDirectory.nuclideBases:byMcnpId": "DIR_BY_MCNP", "armi.nucDirectory.nuclideBases:byAAAZZZSId": "DIR_BY_AZS",
    "armi.nucDirectory.elements:byName": "ELEMENTS_PU",
}


@lemma(overrides=DIRECTORY_PU, gen={"state": [0, 1, 2, 3]})
def nuclides_with_the_same_label_are_refused_without_a_trace(state: int):
    """Pu-239 and Pu-139 (any state 0..3, enumerated) have the same 4-character label (two-letter symbol: the hundreds
    digit of A is dropped) but different names: the second is refused and the directory is unchanged"""
    state = choose(state, 0, 3)
    empty_directory()
    el = ELEMENTS_PU["plutonium"]
    first = NuclideBase(el, 239, 239.05, 0.0, state, 7.6e11)
    try:
        NuclideBase(el, 139, 139.0, 0.0, state, 1.0)
        refused = False
    except ValueError:
        refused = True
    assert refused, "no two nuclides share a label"
    assert len(nuclideBases.instances) == 1 and len(nuclideBases.byName) == 1 and len(nuclideBases.byDBName) == 1
    assert len(nuclideBases.byLabel) == 1 and len(nuclideBases.byMcnpId) == 1 and len(nuclideBases.byAAAZZZSId) == 1
    assert same(nuclideBases.byLabel[first.label], first) and same(nuclideBases.byName[first.name], first)
    assert len(el.nuclides) == 1 and same(el.nuclides[0], first)


# ------------------------------------------------------------------------------------------ natural isotopics
@lemma(gen={"a0": (170, 190), "a1": (170, 190), "a2": [0, 181], "s0": [0, 1], "s1": [0, 1], "ab0": [0.0, 0.00012, 0.5], "ab1": [0.0, 0.99988, 0.5], "ab2": [0.0, 1.0]})
def natural_isotopics_are_the_isotopes_with_an_abundance_whatever_their_state(a0: int, s0: int, ab0: float, a1: int, s1: int, ab1: float, a2: int, ab2: float):
    """Element.getNaturalIsotopics on an element listing three entries with symbolic mass number, isomeric state and
    abundance: exactly the isotopes (a > 0; a = 0 is the natural-element placeholder) with a positive abundance are
    returned, in list order, whatever their isomeric state (Ta-180m is a naturally occurring ISOMER); so the abundances
    returned sum to the sum over the element's isotopes - one when those sum to one."""
    assume(a0 > 0 and a1 > 0 and a2 >= 0 and ab0 >= 0 and ab1 >= 0 and ab2 >= 0 and 0 <= s0 and s0 <= 3 and 0 <= s1 and s1 <= 3)
    el = element("Ta", 73)
    n0 = new(NuclideBase, z=73, a=a0, state=s0, abundance=ab0)
    n1 = new(NuclideBase, z=73, a=a1, state=s1, abundance=ab1)
    n2 = new(NuclideBase, z=73, a=a2, state=0, abundance=ab2)
    el.nuclides = [n0, n1, n2]
    nat = el.getNaturalIsotopics()
    assert (any(same(x, n0) for x in nat)) == (ab0 > 0), "an isotope with an abundance is natural, isomer or not"
    assert (any(same(x, n1) for x in nat)) == (ab1 > 0)
    assert (any(same(x, n2) for x in nat)) == (ab2 > 0 and a2 > 0), "the a = 0 placeholder of the natural element is not an isotope"
    assert len(nat) == (1 if ab0 > 0 else 0) + (1 if ab1 > 0 else 0) + (1 if (ab2 > 0 and a2 > 0) else 0), "each once, nothing else"
    total = sum([x.abundance for x in nat])
    assert eq(total, ab0 + ab1 + (ab2 if a2 > 0 else 0.0)), "the natural abundances returned are all of the element's"
