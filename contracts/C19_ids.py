"""C19 - the identifiers of a nuclide encode its atomic number, mass number and isomeric state without collision."""
from spec import *

nuclideBases = repo("armi.nucDirectory.nuclideBases")
NuclideBase = repo("armi.nucDirectory.nuclideBases:NuclideBase")


def nuclide(z, a, state):
    """a NuclideBase WITHOUT the registering constructor (global directory, element table): the id methods read only
    z, a and state (class invariant established by INuclide.__init__: z = element.z, a, state as given)"""
    return new(NuclideBase, z=z, a=a, state=state)


def mcnp_number(z, a, state):
    """documented MCNP ZAID: Z*1000 + A, metastable states add 300 + 100*m to A; Am-242 / Am-242m are swapped"""
    if z == 95 and a == 242:
        return z * 1000 + (a if state == 1 else a + 300 + 100 * max(state, 1))
    return z * 1000 + a + (300 + 100 * state if state > 0 else 0)


GEN = {"z": (1, 118), "a": (1, 299), "state": [0, 1, 2, 3], "z2": (1, 118), "a2": (1, 299), "state2": [0, 1, 2, 3]}


@lemma(gen=GEN)
def mcnp_id_is_the_documented_number(z: int, a: int, state: int):
    """for ALL 1 <= z <= 118, 1 <= a <= 299, 0 <= state <= 3 (symbolic): the digits of getMcnpId() read as a number"""
    assume(1 <= z <= 118 and 1 <= a <= 299 and 0 <= state <= 3)
    n = int(nuclide(z, a, state).getMcnpId())
    assert n == mcnp_number(z, a, state), "ZZZAAA with the metastable offset"
    assert n // 1000 == z, "the atomic number is read back from the identifier"
