"""C10 - REFUTED ON THE UNCHANGED TREE (kept out of ./check): a refused merge must leave the target unchanged.

Property text: inputs that conflict "are rejected with an error leaving the target unchanged".  The real code changes
the target before it detects the conflict (see each lemma).  Run:
  cd /verif; python3-vt -m pyvc.run contracts/pending/C10_libmerge_finding.py -v
"""
import numpy as np

from spec import *

NuclideMetadata = repo("armi.nuclearDataIO.nuclearFileMetadata:NuclideMetadata")
NuclideXSMetadata = repo("armi.nuclearDataIO.nuclearFileMetadata:NuclideXSMetadata")
XSNuclide = repo("armi.nuclearDataIO.xsNuclides:XSNuclide")
IsotxsLibrary = repo("armi.nuclearDataIO.xsLibraries:IsotxsLibrary")
ImmutablePropertyError = repo("armi.utils.properties:ImmutablePropertyError")


# ---- helpers copied from contracts/C10_libmerge.py (the engine does not import one harness from another)
def bits(mask):
    return [mask % 2 == 1, (mask // 2) % 2 == 1, (mask // 4) % 2 == 1]


class Holder:
    """stand-in for the library holding a file-level metadata object: only .nuclides (list of objects with a real
    NuclideMetadata in .isotxsMetadata) is used by the metadata merge"""


def holder(fis, chiFlag):
    nm = NuclideMetadata()
    nm["fisFlag"] = fis
    nm["chiFlag"] = chiFlag
    return new(Holder, nuclides=[new(Holder, isotxsMetadata=nm)])


def file_meta(ng, up, label, chi, names):
    m = NuclideXSMetadata()
    m["numGroups"] = ng
    m["maxUpScatterGroups"] = up
    m["libraryLabel"] = label
    if chi is not None:
        m["chi"] = chi
        m["fileWideChiFlag"] = 1
    else:
        m["fileWideChiFlag"] = 0
    m.fileNames = names
    return m


def nuclide(lib, label, mask, w, v):
    """a real XSNuclide carrying the data kinds of `mask` (1 neutron/ISOTXS, 2 gamma/GAMISO, 4 production/PMATRX):
    for each kind its metadata (one symbolic entry w[k]) and its data (2-group arrays built from v[k])"""
    n = XSNuclide(lib, label)
    hasN, hasG, hasP = bits(mask)
    if hasN:
        n.isotxsMetadata["amass"] = w[0]
        n.micros.fission = np.array([v[0], v[0] + 1.0])
        n.micros.nGamma = np.array([2.0 * v[0], v[0]])
    if hasG:
        n.gamisoMetadata["amass"] = w[1]
        n.gammaXS.total = np.array([v[1], v[1] + 1.0])
    if hasP:
        n.pmatrxMetadata["numLegendre"] = w[2]
        n.neutronHeating = np.array([v[2], v[2] + 1.0])
        n.gammaHeating = np.array([v[2] + 2.0, v[2]])
    return n


def first(a):
    return None if a is None else a[0]


def observe(n):
    """observable content of a nuclide: metadata entries and the leading value of every data array"""
    return [n.isotxsMetadata["amass"], n.gamisoMetadata["amass"], n.pmatrxMetadata["numLegendre"],
            len(n.isotxsMetadata), len(n.gamisoMetadata), len(n.pmatrxMetadata),
            first(n.micros.fission), first(n.micros.nGamma), first(n.gammaXS.total), first(n.gammaXS.fission),
            first(n.neutronHeating), first(n.gammaHeating), first(n.neutronDamage)]


def same_content(o1, o2):
    return all([(x is None and y is None) or (x is not None and y is not None and eq(x, y)) for x, y in zip(o1, o2)])


def try_nuclide_merge(a, b):
    try:
        a.merge(b)
        return False
    except AttributeError:
        return True


G_NUC = {"ma": (0, 7), "mb": (0, 7), "wa0": (0, 1), "wb0": (0, 1), "wa1": (0, 1), "wb1": (0, 1), "wa2": (0, 1), "wb2": (0, 1)}



@lemma(gen=G_NUC)
def refused_nuclide_merge_leaves_the_target_unchanged(ma: int, mb: int, wa0: int, wa1: int, wa2: int, wb0: int, wb1: int, wb2: int,
                                                      x0: float, x1: float, x2: float, y0: float, y1: float, y2: float):
    """XSNuclide.merge: 8 x 8 kind sets; whenever AttributeError is raised the observable content of the target (and
    of the source) is what it was before."""
    ma = choose(ma, 0, 7)
    mb = choose(mb, 0, 7)
    lib = IsotxsLibrary()
    A = nuclide(lib, "U235AA", ma, [wa0, wa1, wa2], [x0, x1, x2])
    B = nuclide(lib, "U235AA", mb, [wb0, wb1, wb2], [y0, y1, y2])
    beforeA, beforeB = observe(A), observe(B)
    if try_nuclide_merge(A, B):
        assert same_content(observe(A), beforeA), "refused merge: target unchanged"
        assert same_content(observe(B), beforeB), "refused merge: source unchanged"


# ---- library helpers copied from contracts/C10_libmerge.py
properties = repo("armi.utils.properties")
LABELS = ["U235AA", "U238AB"]
KIND_META = ["isotxsMetadata", "gamisoMetadata", "pmatrxMetadata"]


def xs_library(kind, labelmask, en, eg, dose, ngroups, w, v):
    """a real IsotxsLibrary as one of the readers leaves it: kind 0 = ISOTXS (neutron group bounds, velocity, ISOTXS
    metadata, nuclides with neutron data), 1 = GAMISO (gamma group bounds), 2 = PMATRX (both group structures and dose
    conversion factors); nuclide labels of labelmask out of LABELS"""
    lib = IsotxsLibrary()
    if kind == 0:
        lib.neutronEnergyUpperBounds = np.array([en, en + 1.0])
        lib.neutronVelocity = np.array([en, 2.0])
    elif kind == 1:
        lib.gammaEnergyUpperBounds = np.array([eg, eg + 1.0])
    else:
        lib.neutronEnergyUpperBounds = np.array([en, en + 1.0])
        lib.gammaEnergyUpperBounds = np.array([eg, eg + 1.0])
        lib.neutronDoseConversionFactors = np.array([dose, 1.0])
        lib.gammaDoseConversionFactors = np.array([dose, 2.0])
    getattr(lib, KIND_META[kind])["numGroups"] = ngroups
    getattr(lib, KIND_META[kind]).fileNames = ["file%d" % kind]
    for i in range(2):
        if bits(labelmask)[i]:
            lib[LABELS[i]] = nuclide(lib, LABELS[i], [1, 2, 4][kind], w, v)
    return lib


def prop(lib, name):
    """value of a write-once library property, None when it has not been set (read the way numGroups reads it)"""
    properties.unlockImmutableProperties(lib)
    val = getattr(lib, name)
    properties.lockImmutableProperties(lib)
    return val


PROPS = ["neutronEnergyUpperBounds", "neutronVelocity", "gammaEnergyUpperBounds", "neutronDoseConversionFactors", "gammaDoseConversionFactors"]


def observe_library(lib):
    out = [first(prop(lib, p)) for p in PROPS]
    for m in KIND_META:
        out.append(getattr(lib, m)["numGroups"])
    for lab in LABELS:
        if lab in lib:
            o = observe(lib[lab])
            out.extend(o[:3] + o[6:])  # metadata values and data of the nuclide
        else:
            out.extend([None] * 10)
    return out, lib.nuclideLabels


def try_library_merge(a, b):
    try:
        a.merge(b)
        return None
    except (ImmutablePropertyError, OSError, AttributeError) as e:
        return e


G_LIB = {"ka": (0, 2), "kb": (0, 2), "la": (0, 3), "lb": (0, 3), "ena": [1.0, 2.0, 1.0], "enb": [1.0, 2.0, 1.0], "ega": [1.0, 2.0, 1.0], "egb": [1.0, 2.0, 1.0],
         "da": [1.0, 2.0, 1.0], "db": [1.0, 2.0, 1.0], "ga": (2, 3), "gb": (2, 3), "w": (0, 1)}


@lemma(gen=G_LIB)
def refused_library_merge_leaves_the_target_unchanged(ka: int, kb: int, la: int, lb: int, ena: float, enb: float, ega: float, egb: float,
                                                      da: float, db: float, ga: int, gb: int, w: int, x: float, y: float):
    """IsotxsLibrary.merge, 3 x 3 library kinds x 4 x 4 label sets: whenever the merge raises, the observable content of
    the target (labels, nuclide data and metadata, library properties, file metadata) is what it was before."""
    ka, kb = choose(ka, 0, 2), choose(kb, 0, 2)
    la, lb = choose(la, 0, 3), choose(lb, 0, 3)
    wv = [w, w, w]
    A = xs_library(ka, la, ena, ega, da, ga, wv, [x, x, x])
    B = xs_library(kb, lb, enb, egb, db, gb, wv, [y, y, y])
    before, labels = observe_library(A)
    if try_library_merge(A, B) is not None:
        after, labelsAfter = observe_library(A)
        assert labelsAfter == labels, "refused merge: no nuclide added"
        assert same_content(after, before), "refused merge: target unchanged"


@lemma(gen={"va": [1.0, 2.0, 3.0], "vb": [1.0, 2.0, 3.0]})
def library_merge_does_not_depend_on_the_order_velocity(e: float, va: float, vb: float):
    """two ISOTXS libraries with the same group structure and their own mean neutron velocities: the merged content
    must not depend on the merge order (or the different velocities must be refused)"""
    def lib(v):
        l = IsotxsLibrary()
        l.neutronEnergyUpperBounds = np.array([e, e + 1.0])
        l.neutronVelocity = np.array([v, 2.0])
        return l
    A, B, A2, B2 = lib(va), lib(vb), lib(va), lib(vb)
    e1 = try_library_merge(A, B)
    e2 = try_library_merge(B2, A2)
    assert (e1 is None) == (e2 is None)
    if e1 is None:
        assert eq(prop(A, "neutronVelocity")[0], prop(B2, "neutronVelocity")[0]), "same velocity in either order"


@lemma(gen={"g1": (1, 2), "g2": (1, 2), "f1": (0, 1), "c1": (0, 0)})
def refused_file_metadata_merge_leaves_the_nuclides_unchanged(g1: int, g2: int, f1: int, c1: int, x: float):
    """NuclideXSMetadata.merge with a file-wide chi: when the merge is refused (different group counts) the nuclides of
    the holders must be unchanged"""
    A = file_meta(g1, 0, "LIB-A", np.array([x, 1.0 - x]), ["ISOAA"])
    B = file_meta(g2, 0, "LIB-B", None, ["ISOAB"])
    hA, hB = holder(f1, c1), holder(f1, c1)
    try:
        A.merge(B, hA, hB, "ISOTXS", OSError)
    except OSError:
        assert hA.nuclides[0].isotxsMetadata["chiFlag"] == c1 and hB.nuclides[0].isotxsMetadata["chiFlag"] == c1, "refused: nuclides unchanged"
