"""C13 - the arithmetic of the symmetry conversions: scaling of volume-integrated block parameters.

Executed (real, re-read from /repo on every run): ThirdCoreHexToFullCoreChanger._scaleBlockVolIntegratedParams,
Assembly.scaleParamsToNewSymmetryFactor, geometryConverters._scaleParamsInBlock / _scaleFluxValues /
_generateListOfParamsToScale, EdgeAssemblyChanger.scaleParamsRelatedToSymmetry.

Stand-ins for collaborators (their stated contract is what the lemmas assume about them):
  PMap        a block's parameter collection viewed as a name -> value map (item and attribute access),
  PDef / PDefs  parameter definitions: a name, whether the parameter is volume integrated, its categories, whether it was
              assigned since the last geometry transformation; PDefs.atLocation / inCategory / since filter on exactly
              those records (the real ParameterDefinitionCollection does this with enum.Flag / bit masks, outside the
              mathematical-integer subset) and `.names` lists the names in definition order,
  BlockStub   a block: parameters, volume, symmetry factor,
  AssemStub / CoreStub  for scaleParamsRelatedToSymmetry only: a sequence of blocks; the assemblies on the two symmetry lines.
Values (powers, fluxes, volumes, symmetry factors) are symbolic reals; the SHAPE is fixed per lemma: 2 energy groups,
1..2 blocks per assembly, the parameter set {power (volume integrated scalar), mgFlux / adjMgFlux (volume integrated
multigroup flux), reactionRates (volume integrated list), an unset volume-integrated parameter, a label (str), and
non-volume-integrated bystanders}.
"""
import numpy as np

from spec import *

ThirdCoreHexToFullCoreChanger = repo("armi.reactor.converters.geometryConverters:ThirdCoreHexToFullCoreChanger")
EdgeAssemblyChanger = repo("armi.reactor.converters.geometryConverters:EdgeAssemblyChanger")
gc = repo("armi.reactor.converters.geometryConverters")
Assembly = repo("armi.reactor.assemblies:Assembly")
ParamLocation = repo("armi.reactor.parameters.parameterDefinitions:ParamLocation")
Category = repo("armi.reactor.parameters.parameterDefinitions:Category")


class PMap:
    def __getitem__(self, k):
        return getattr(self, k)

    def __setitem__(self, k, v):
        setattr(self, k, v)


class PDef:
    pass


class PDefs:
    """parameter definitions of the block type (see module docstring for the contract)"""

    def atLocation(self, loc):
        return new(PDefs, defs=[d for d in self.defs if d.volumeIntegrated and loc is ParamLocation.VOLUME_INTEGRATED])

    def inCategory(self, cat):
        return new(PDefs, defs=[d for d in self.defs if cat in d.categories])

    def since(self, mask):
        return new(PDefs, defs=[d for d in self.defs if d.assignedSinceTransformation and mask == 8])

    @property
    def names(self):
        return [d.name for d in self.defs]

    def __iter__(self):
        return iter(self.defs)


class BlockStub:
    def getVolume(self):
        return self.volume

    def getSymmetryFactor(self):
        return self.symmetryFactor

    def hasFlags(self, spec, exact=False):
        return True


def pdef(name, volInt, cats=(), assigned=True):
    return new(PDef, name=name, volumeIntegrated=volInt, categories=cats, assignedSinceTransformation=assigned)


FLUXCATS = (Category.fluxQuantities, Category.multiGroupQuantities)


def blockdefs(assigned=True):
    return new(PDefs, defs=[pdef("power", True, (), assigned), pdef("mgFlux", True, FLUXCATS, assigned), pdef("adjMgFlux", True, FLUXCATS, assigned),
                            pdef("reactionRates", True, (), assigned), pdef("unset", True, (), assigned), pdef("label", True, (), assigned),
                            pdef("flux", False, (Category.fluxQuantities,), assigned), pdef("temperature", False, (), assigned)])


def block(power, f1, f2, g1, g2, r1, r2, flux, temperature, volume, factor, defs):
    p = new(PMap, power=power, mgFlux=[f1, f2], adjMgFlux=[g1, g2], reactionRates=[r1, r2], unset=None, label="fuel", flux=flux,
            fluxAdj=0.0, fluxGamma=0.0, temperature=temperature, paramDefs=defs)
    return new(BlockStub, p=p, volume=volume, symmetryFactor=factor)


GENV = {"power": (-1e6, 1e6), "f1": (0.0, 1e14), "f2": (0.0, 1e14), "g1": (-10.0, 10.0), "g2": (-10.0, 10.0), "r1": (-5.0, 5.0), "r2": (-5.0, 5.0),
        "flux": (0.0, 1e12), "temperature": (300.0, 900.0), "s1": [1.0, 2.0, 3.0], "s2": [1.0, 2.0, 3.0], "v": (1.0, 500.0), "vs": (1.0, 500.0)}


# ----------------------------------------------------------------------------- centre assembly: x3 and back
@lemma(gen=GENV)
def centre_block_is_tripled_and_restored_exactly(power: float, f1: float, f2: float, g1: float, g2: float, r1: float, r2: float, flux: float, temperature: float):
    """ThirdCoreHexToFullCoreChanger._scaleBlockVolIntegratedParams: "up" multiplies every listed (volume-integrated)
    parameter by exactly 3 - scalars and lists element by element -, leaves unset ones unset and everything that is
    not listed untouched; "down" after "up" restores every value exactly."""
    ch = new(ThirdCoreHexToFullCoreChanger, listOfVolIntegratedParamsToScale=["power", "mgFlux", "adjMgFlux", "reactionRates", "unset"])
    b = block(power, f1, f2, g1, g2, r1, r2, flux, temperature, 10.0, 1.0, blockdefs())
    ch._scaleBlockVolIntegratedParams(b, "up")
    assert eq(b.p.power, 3 * power), "full-core centre = 3 x its third"
    assert len(b.p.mgFlux) == 2 and eq(b.p.mgFlux[0], 3 * f1) and eq(b.p.mgFlux[1], 3 * f2), "lists are scaled element by element"
    assert len(b.p.reactionRates) == 2 and eq(b.p.reactionRates[0], 3 * r1) and eq(b.p.reactionRates[1], 3 * r2)
    assert eq(b.p.adjMgFlux[0], 3 * g1) and eq(b.p.adjMgFlux[1], 3 * g2)
    assert b.p.unset is None
    assert eq(b.p.flux, flux) and eq(b.p.temperature, temperature) and b.p.label == "fuel", "frame: nothing else is touched"
    ch._scaleBlockVolIntegratedParams(b, "down")
    assert eq(b.p.power, power) and eq(b.p.mgFlux[0], f1) and eq(b.p.mgFlux[1], f2) and eq(b.p.adjMgFlux[0], g1) and eq(b.p.adjMgFlux[1], g2), "restored exactly"
    assert eq(b.p.reactionRates[0], r1) and eq(b.p.reactionRates[1], r2) and len(b.p.mgFlux) == 2 and len(b.p.reactionRates) == 2
    assert b.p.unset is None and eq(b.p.flux, flux) and eq(b.p.temperature, temperature) and b.p.label == "fuel"


@lemma(gen=dict(GENV, c=(0.0, 1e6), v1=(0.0, 1e6), v2=(0.0, 1e6)))
def full_core_total_is_three_times_the_third_core_total(c: float, v1: float, v2: float):
    """the x3 relation of a volume-integrated total: the centre assembly (holding its third, c) is scaled by
    _scaleBlockVolIntegratedParams and counts ONCE, every other assembly is represented by itself and two images
    carrying the same value: total = 3c + 3(v1 + v2) = 3 x (c + v1 + v2)"""
    ch = new(ThirdCoreHexToFullCoreChanger, listOfVolIntegratedParamsToScale=["power"])
    centre = block(c, 0.0, 0.0, 0.0, 0.0, 0.0, 0.0, 0.0, 300.0, 10.0, 1.0, blockdefs())
    third = c + v1 + v2
    ch._scaleBlockVolIntegratedParams(centre, "up")
    full = centre.p.power + 3 * v1 + 3 * v2
    assert eq(full, 3 * third)
    ch._scaleBlockVolIntegratedParams(centre, "down")
    assert eq(centre.p.power + v1 + v2, third), "and back"


# ----------------------------------------------------------------------------- symmetry factor of a moved assembly
@lemma(gen=GENV)
def symmetry_factor_scaling_there_and_back_restores(power: float, f1: float, f2: float, g1: float, g2: float, r1: float, r2: float, flux: float, temperature: float, s1: float, s2: float):
    """Assembly.scaleParamsToNewSymmetryFactor (an assembly moved from a cell with symmetry factor s1 to one with s2 and
    back): stored value x symmetry factor (the whole-hexagon value) is conserved by each step, the round trip restores
    every value exactly, only volume-integrated parameters are touched, unset and text values are skipped."""
    assume(s1 > 0 and s2 > 0)
    defs = blockdefs()
    b0 = block(power, f1, f2, g1, g2, r1, r2, flux, temperature, 10.0, s2, defs)
    b1 = block(2 * power, f2, f1, g2, g1, r2, r1, flux, temperature, 10.0, s2, defs)
    a = new(Assembly, _children=[b0, b1], name="A0001")
    a.scaleParamsToNewSymmetryFactor(s1)  # the blocks now report s2; they were at s1
    assert eq(b0.p.power * s2, power * s1) and eq(b1.p.power * s2, 2 * power * s1), "whole-hexagon value conserved"
    assert len(b0.p.mgFlux) == 2 and eq(b0.p.mgFlux[0] * s2, f1 * s1) and eq(b0.p.mgFlux[1] * s2, f2 * s1)
    assert len(b0.p.reactionRates) == 2 and eq(b0.p.reactionRates[1] * s2, r2 * s1) and eq(b1.p.reactionRates[1] * s2, r1 * s1)
    assert b0.p.unset is None and b0.p.label == "fuel", "unset / text values skipped"
    assert eq(b0.p.flux, flux) and eq(b0.p.temperature, temperature) and eq(b1.p.flux, flux), "frame: not volume integrated, not touched"
    b0.symmetryFactor = s1
    b1.symmetryFactor = s1
    a.scaleParamsToNewSymmetryFactor(s2)  # moved back
    assert eq(b0.p.power, power) and eq(b1.p.power, 2 * power) and eq(b0.p.mgFlux[0], f1) and eq(b0.p.mgFlux[1], f2), "restored exactly"
    assert eq(b0.p.adjMgFlux[0], g1) and eq(b0.p.reactionRates[0], r1) and eq(b0.p.reactionRates[1], r2) and eq(b1.p.mgFlux[0], f2)
    assert b0.p.unset is None and b0.p.label == "fuel" and eq(b0.p.flux, flux) and eq(b0.p.temperature, temperature)


# ----------------------------------------------------------------------------- edge assemblies: two halves -> one hexagon
@lemma(gen=dict(GENV, x=(0.0, 1e6), y=(0.0, 1e6)))
def two_halves_combine_into_the_full_hexagon(x: float, y: float, f1: float, f2: float, h1: float, h2: float, flux: float, temperature: float, v: float, vs: float):
    """_scaleParamsInBlock(b, twin, lists): a volume-integrated scalar becomes the sum of the two halves; a multigroup
    flux becomes the group-wise sum and the scalar flux its total divided by the combined volume; the twin and every
    parameter that is not volume integrated are untouched.  (A half holding exactly 0 is skipped by the code: the
    documented precondition is that the twin is the IDENTICAL symmetric image, for which skipping is the same as adding.)"""
    assume(v > 0 and vs > 0)
    b = block(x, f1, f2, 0.0, 0.0, 0.0, 0.0, flux, temperature, v, 2.0, blockdefs())
    t = block(y, h1, h2, 0.0, 0.0, 0.0, 0.0, flux, temperature, vs, 2.0, blockdefs())
    gc._scaleParamsInBlock(b, t, (["power", "mgFlux", "unset"], ["mgFlux", "adjMgFlux"]))
    if x != 0:
        assert eq(b.p.power, x + y), "full hexagon = the two halves"
    if x == y:
        assert eq(b.p.power, 2 * x), "identical halves: twice the half"
    if f1 != 0 or f2 != 0:
        assert len(b.p.mgFlux) == 2 and eq(b.p.mgFlux[0], f1 + h1) and eq(b.p.mgFlux[1], f2 + h2), "group-wise sum"
        assert eq(b.p.flux * (v + vs), f1 + h1 + f2 + h2), "scalar flux = total volume-integrated flux / combined volume"
    else:
        assert eq(b.p.flux, flux)
    assert b.p.unset is None and eq(b.p.temperature, temperature) and eq(b.p.adjMgFlux[0], 0.0) and b.p.label == "fuel", "frame"
    assert eq(t.p.power, y) and eq(t.p.mgFlux[0], h1) and eq(t.p.mgFlux[1], h2) and eq(t.p.flux, flux), "the twin is untouched"


@lemma(gen=dict(GENV, which=(0, 2)))
def flux_halves_set_the_matching_scalar_flux(f1: float, f2: float, h1: float, h2: float, v: float, vs: float, which: int):
    """_scaleFluxValues for each of the three multigroup fluxes: mgFlux -> flux, adjMgFlux -> fluxAdj,
    mgFluxGamma -> fluxGamma; the other two scalar fluxes are untouched"""
    assume(v > 0 and vs > 0)
    which = choose(which, 0, 2)
    name = ["mgFlux", "adjMgFlux", "mgFluxGamma"][which]
    b = block(1.0, 0.0, 0.0, 0.0, 0.0, 0.0, 0.0, 7.0, 300.0, v, 2.0, blockdefs())
    t = block(1.0, 0.0, 0.0, 0.0, 0.0, 0.0, 0.0, 7.0, 300.0, vs, 2.0, blockdefs())
    b.p.fluxAdj, b.p.fluxGamma = 8.0, 9.0
    b.p[name] = [f1, f2]
    t.p[name] = [h1, h2]
    gc._scaleFluxValues(b, t, name)
    tot = f1 + h1 + f2 + h2
    assert eq(b.p[name][0], f1 + h1) and eq(b.p[name][1], f2 + h2) and len(b.p[name]) == 2
    assert eq((b.p.flux if which == 0 else b.p.fluxAdj if which == 1 else b.p.fluxGamma) * (v + vs), tot)
    assert which == 0 or eq(b.p.flux, 7.0)
    assert which == 1 or eq(b.p.fluxAdj, 8.0)
    assert which == 2 or eq(b.p.fluxGamma, 9.0)
    assert eq(t.p[name][0], h1) and eq(t.p[name][1], h2)


# ----------------------------------------------------------------------------- which parameters are scaled
class AssemStub:
    def __iter__(self):
        return iter(self.blocks)


class CoreStub:
    def getFirstBlock(self):
        return self.first

    def getAssembliesOnSymmetryLine(self, line):
        return list(self.lower) if line == 1 else list(self.upper) if line == 3 else []


@lemma(gen={"subset": (0, 3)})
def the_parameters_to_scale_are_the_volume_integrated_ones(subset: int):
    """_generateListOfParamsToScale (every definition assigned since the last geometry transformation): the list is
    exactly the volume-integrated parameters in definition order - none of the others -, restricted to (and ordered by)
    a non-empty subset; the flux list is the multigroup flux quantities."""
    subset = choose(subset, 0, 3)
    b = block(1.0, 1.0, 1.0, 1.0, 1.0, 1.0, 1.0, 1.0, 300.0, 1.0, 1.0, blockdefs(True))
    core = new(CoreStub, first=b, lower=[], upper=[])
    sub = [None, [], ["temperature", "power"], ["mgFlux", "flux", "power", "nosuch"]][subset]
    vol, flx = gc._generateListOfParamsToScale(core, sub)
    assert flx == ["mgFlux", "adjMgFlux"], "multigroup flux quantities"
    if subset <= 1:
        assert vol == ["power", "mgFlux", "adjMgFlux", "reactionRates", "unset", "label"], "every volume-integrated parameter, no other"
    elif subset == 2:
        assert vol == ["power"], "a requested parameter that is not volume integrated is not scaled"
    else:
        assert vol == ["mgFlux", "power"]


@lemma(gen=dict(GENV, x0=(1.0, 1e6), x1=(1.0, 1e6), y0=(1.0, 1e6), y1=(1.0, 1e6), nb=(1, 2)))
def edge_scaling_pairs_the_blocks_of_the_two_symmetry_lines(x0: float, x1: float, y0: float, y1: float, temperature: float, nb: int):
    """EdgeAssemblyChanger.scaleParamsRelatedToSymmetry: every block of an assembly on the 0-degree line receives the
    value of the block at the same height of its twin on the 120-degree line (1..2 blocks); twins and bystanders untouched"""
    assume(x0 != 0 and x1 != 0)
    nb = choose(nb, 1, 2)
    defs = blockdefs()
    lows = [block(x0, 0.0, 0.0, 0.0, 0.0, 0.0, 0.0, 1.0, temperature, 5.0, 2.0, defs), block(x1, 0.0, 0.0, 0.0, 0.0, 0.0, 0.0, 1.0, temperature, 5.0, 2.0, defs)][:nb]
    ups = [block(y0, 0.0, 0.0, 0.0, 0.0, 0.0, 0.0, 1.0, temperature, 5.0, 2.0, defs), block(y1, 0.0, 0.0, 0.0, 0.0, 0.0, 0.0, 1.0, temperature, 5.0, 2.0, defs)][:nb]
    core = new(CoreStub, first=lows[0], lower=[new(AssemStub, blocks=lows)], upper=[new(AssemStub, blocks=ups)])
    EdgeAssemblyChanger.scaleParamsRelatedToSymmetry(core, ["power"])
    assert eq(lows[0].p.power, x0 + y0) and eq(ups[0].p.power, y0)
    if nb == 2:
        assert eq(lows[1].p.power, x1 + y1) and eq(ups[1].p.power, y1)
    assert eq(lows[0].p.temperature, temperature) and eq(lows[0].p.flux, 1.0)


# ----------------------------------------------------------------------------- the same on numpy-array values
@lemma(gen=dict(GENV, h1=(0.0, 1e14), h2=(0.0, 1e14), q1=(-5.0, 5.0), q2=(-5.0, 5.0)))
def array_valued_parameters_are_scaled_element_by_element(f1: float, f2: float, h1: float, h2: float, r1: float, r2: float, q1: float, q2: float, s1: float, s2: float,
                                                          v: float, vs: float):
    """The lemmas above hold the multigroup values as python LISTS.  A reactor loaded from a database or written by a
    physics kernel holds them as numpy ARRAYS (the code branches on `type(x) is list` / `isinstance(x, Iterable)`): the
    same statements - x3 and back, whole-hexagon value conserved under a symmetry-factor change, two halves summed
    group by group (never concatenated, never broadcast into a different length) - for array values."""
    assume(s1 > 0 and s2 > 0 and v > 0 and vs > 0)
    defs = blockdefs()
    ch = new(ThirdCoreHexToFullCoreChanger, listOfVolIntegratedParamsToScale=["mgFlux", "reactionRates"])
    b = block(1.0, 0.0, 0.0, 0.0, 0.0, 0.0, 0.0, 0.0, 300.0, v, s2, defs)
    b.p.mgFlux, b.p.reactionRates = np.array([f1, f2]), np.array([r1, r2])
    ch._scaleBlockVolIntegratedParams(b, "up")
    assert len(b.p.mgFlux) == 2 and eq(b.p.mgFlux[0], 3 * f1) and eq(b.p.mgFlux[1], 3 * f2), "x3 element by element"
    assert len(b.p.reactionRates) == 2 and eq(b.p.reactionRates[0], 3 * r1) and eq(b.p.reactionRates[1], 3 * r2)
    ch._scaleBlockVolIntegratedParams(b, "down")
    assert len(b.p.mgFlux) == 2 and eq(b.p.mgFlux[0], f1) and eq(b.p.mgFlux[1], f2) and eq(b.p.reactionRates[0], r1) and eq(b.p.reactionRates[1], r2), "restored"
    # symmetry factor s1 -> s2
    a = new(Assembly, _children=[b], name="A0001")
    a.scaleParamsToNewSymmetryFactor(s1)
    assert len(b.p.mgFlux) == 2 and eq(b.p.mgFlux[0] * s2, f1 * s1) and eq(b.p.mgFlux[1] * s2, f2 * s1), "whole-hexagon value conserved"
    assert len(b.p.reactionRates) == 2 and eq(b.p.reactionRates[1] * s2, r2 * s1)
    # two halves
    e = block(1.0, 0.0, 0.0, 0.0, 0.0, 0.0, 0.0, 5.0, 300.0, v, 2.0, defs)
    t = block(1.0, 0.0, 0.0, 0.0, 0.0, 0.0, 0.0, 5.0, 300.0, vs, 2.0, defs)
    e.p.mgFlux, e.p.reactionRates = np.array([f1, f2]), np.array([r1, r2])
    t.p.mgFlux, t.p.reactionRates = np.array([h1, h2]), np.array([q1, q2])
    gc._scaleParamsInBlock(e, t, (["mgFlux", "reactionRates"], ["mgFlux", "adjMgFlux"]))
    if f1 != 0 or f2 != 0:
        assert len(e.p.mgFlux) == 2 and eq(e.p.mgFlux[0], f1 + h1) and eq(e.p.mgFlux[1], f2 + h2), "group-wise sum"
        assert eq(e.p.flux * (v + vs), f1 + h1 + f2 + h2)
    if r1 != 0 or r2 != 0:
        assert len(e.p.reactionRates) == 2 and eq(e.p.reactionRates[0], r1 + q1) and eq(e.p.reactionRates[1], r2 + q2), "array halves are summed, not concatenated"
    assert eq(t.p.mgFlux[0], h1) and eq(t.p.reactionRates[1], q2), "the twin is untouched"
