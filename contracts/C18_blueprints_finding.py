"""C18 - FINDINGS of the blueprint kernels (each lemma asserts the property text and is REFUTED on the unchanged tree; not picked
up by ./check).  Stand-ins as in contracts/C18_blueprints.py (yamlize = YZ, nuclide table with arbitrary weights).

1. lists_of_unequal_length_under_two_components_are_refused
   AssemblyBlueprint._checkParamConsistency files every by-component list under the key 'material modifications for <modName>' -
   the component name is not part of the key, so when two components carry the same modification only the LAST list is
   checked.  Native: 2 blocks, by component {fuel: {U235_wt_frac: [.1, .2, .3]}, clad: {U235_wt_frac: [.1, .2]}} -> accepted
   (fuel alone: ValueError 'had 2 block(s), but 3 ...').  The third entry is then silently never used.
2. accepted_modification_is_applied_even_if_another_one_is_not_for_this_material
   ComponentBlueprint._constructMaterial passes ALL modifications (plus the injected `customIsotopics`) in one call
   mat.applyInputParams(**matMods) and swallows the TypeError 'got an unexpected keyword argument': a material whose
   applyInputParams has a closed signature gets NONE of the requested modifications as soon as one keyword is foreign to it.
   Native: cb.material = 'Sulfur'; cb._constructMaterial(bp, {'TD_frac': 0.5}).fullDensFrac -> 1.0 (Sulfur().applyInputParams(
   TD_frac=0.5) gives 0.5): `customIsotopics` alone is already foreign to Sulfur.applyInputParams(sulfur_density_frac, TD_frac).
3. element_next_to_one_of_its_isotopes_keeps_the_total
   densityTools.expandElementalMassFracsToNuclides writes the expanded isotopes with dict.update: an isotope that is ALSO given
   explicitly is overwritten, its mass fraction is lost.  Native: mf = {'U': 0.5, 'U235': 0.5};
   expandElementalMassFracsToNuclides(mf, [(elements.bySymbol['U'], None)]) -> {'U235': 0.00356, 'U234': 2.7e-05, 'U238': 0.4964},
   sum 0.5 (reached from componentBlueprint.expandElementals when a custom isotopic lists U and U235 and U is flagged for expansion).
"""
from spec import *

AssemblyBlueprint = repo("armi.reactor.blueprints.assemblyBlueprint:AssemblyBlueprint")
MaterialModifications = repo("armi.reactor.blueprints.assemblyBlueprint:MaterialModifications")
ByComponentModifications = repo("armi.reactor.blueprints.assemblyBlueprint:ByComponentModifications")
Modifications = repo("armi.reactor.blueprints.assemblyBlueprint:Modifications")
BlockBlueprint = repo("armi.reactor.blueprints.blockBlueprint:BlockBlueprint")
ComponentBlueprint = repo("armi.reactor.blueprints.componentBlueprint:ComponentBlueprint")
CustomIsotopics = repo("armi.reactor.blueprints.isotopicOptions:CustomIsotopics")
NuclideFlags = repo("armi.reactor.blueprints.isotopicOptions:NuclideFlags")
Element = repo("armi.nucDirectory.elements:Element")
densityTools = repo("armi.utils.densityTools")


class YObject:
    """yamlize.Object: plain attribute storage"""


class YMapBase(YObject):
    """yamlize maps: a wrapper around ONE insertion-ordered dict"""

    def __init__(self, *args, **kwargs):
        self._d = dict(*args, **kwargs)

    def __getattr__(self, n):
        return getattr(self._d, n)

    def __iter__(self):
        return iter(self._d)

    def __len__(self):
        return len(self._d)

    def __contains__(self, k):
        return k in self._d

    def __getitem__(self, k):
        return self._d[k]

    def __setitem__(self, k, v):
        self._d[k] = v


class YKeyedList(YMapBase):
    def __iter__(self):
        return iter(self.values())


class YInert:
    def __init__(self, *a, **k):
        pass


if NATIVE:
    import yamlize as YZ
else:

    class YZ:
        Object = YObject
        Map = YMapBase
        KeyedList = YKeyedList
        Sequence = YInert
        Attribute = YInert
        Typed = YInert
        StrList = YInert
        FloatList = YInert
        IntList = YInert


BLK = {"armi.reactor.blueprints.blockBlueprint:yamlize": "YZ", "armi.reactor.blueprints.componentBlueprint:yamlize": "YZ",
       "armi.reactor.blueprints.assemblyBlueprint:yamlize": "YZ", "armi.reactor.blueprints.isotopicOptions:yamlize": "YZ",
       "armi.reactor.blueprints.componentBlueprint:materials": "MATS"}


def ymap(cls, items, **attrs):
    o = new(cls, **attrs) if NATIVE else new(cls, _d={}, **attrs)
    for k, v in items:
        o[k] = v
    return o


def modifications(byBlock, byComponent):
    bc = ymap(ByComponentModifications, [(c, ymap(Modifications, list(mods.items()))) for c, mods in byComponent.items()])
    return ymap(MaterialModifications, list(byBlock.items()), byComponent=bc)


def refused(f):
    try:
        f()
        return False
    except (ValueError, IndexError):
        return True


@lemma(overrides=BLK, gen={"nFuel": (1, 3), "nClad": (1, 3)})
def lists_of_unequal_length_under_two_components_are_refused(nFuel: int, nClad: int, e: float):
    """2 blocks; the components fuel and clad both carry U235_wt_frac lists, of 1..3 entries each (enumerated)."""
    nFuel, nClad = choose(nFuel, 1, 3), choose(nClad, 1, 3)
    mm = modifications({}, {"fuel": {"U235_wt_frac": [e] * nFuel}, "clad": {"U235_wt_frac": [e] * nClad}})
    a = new(AssemblyBlueprint, name="fuelAssem", blocks=[ymap(BlockBlueprint, [], name="b0"), ymap(BlockBlueprint, [], name="b1")],
            height=[1.0, 1.0], axialMeshPoints=[1, 1], xsTypes=["A", "A"], materialModifications=mm)
    assert refused(a._checkParamConsistency) == (nFuel != 2 or nClad != 2), "lists of unequal length are refused"


class StrictMat:
    """a library material whose applyInputParams has a closed signature (like armi.materials.sulfur.Sulfur): TD_frac only"""

    def __init__(self):
        self.massFrac = {"S": 1.0}
        self.td = 1.0

    def applyInputParams(self, TD_frac=None):
        if TD_frac is not None:
            self.td = TD_frac


class MATS:
    @staticmethod
    def resolveMaterialClassByName(name):
        return StrictMat


class Bp:
    pass


@lemma(overrides=BLK, gen={"td": (0.1, 1.0)})
def accepted_modification_is_applied_even_if_another_one_is_not_for_this_material(td: float):
    """the block asks for TD_frac (which StrictMat accepts); `customIsotopics` is added by _constructMaterial itself."""
    bp = new(Bp, allNuclidesInProblem=["S"], customIsotopics=ymap(CustomIsotopics, []), elementsToExpand=[], nuclideFlags=ymap(NuclideFlags, []))
    cb = new(ComponentBlueprint, name="pool", material="StrictMat", isotopics=None)
    m = cb._constructMaterial(bp, {"TD_frac": td})
    assert eq(m.td, td), "composition / density after the requested material modifications"


class Nuc:
    def __eq__(self, other):
        return self.name == other.name

    def __hash__(self):
        return hash(self.name)


def nuc(name, a, w, ab):
    return new(Nuc, name=name, weight=w, abundance=ab, a=a)


@lemma(gen={"a": (0.0, 0.5), "b": (0.0, 0.5), "w5": (230.0, 240.0), "w8": (230.0, 240.0), "ab": (0.001, 0.999)})
def element_next_to_one_of_its_isotopes_keeps_the_total(a: float, b: float, w5: float, w8: float, ab: float):
    """composition {U: a, U235: b, O16: 1 - a - b}; U expands to U235 / U238 (abundances ab, 1 - ab; arbitrary positive weights)."""
    assume(a > 0 and b > 0 and a + b <= 1 and w5 > 0 and w8 > 0 and 0 < ab < 1)
    elU = new(Element, symbol="U", z=92, name="uranium", nuclides=[nuc("U235", 235, w5, ab), nuc("U238", 238, w8, 1.0 - ab)])
    mf = {"U": a, "U235": b, "O16": 1.0 - a - b}
    densityTools.expandElementalMassFracsToNuclides(mf, [(elU, None)])
    assert eq(sum(mf.values()), 1.0), "the composition still sums to one"
    assert mf["U235"] >= b, "the explicit U235 is still there"
