"""C02 - lemmas that state the property text and are REFUTED on the unchanged tree (not picked up by ./check).

Run:  python3-vt -m pyvc.run contracts/pending/C02_composite_finding.py -v
      PYTHONPATH=/repo:contracts /venv/bin/python contracts/native_runner.py cross contracts/pending/C02_composite_finding.py --n 20

Stand-ins: PMap (parameter collection as a name -> value map), the nuclide table of C02_composite.py, CutBlock (Block with a
given symmetry factor), CompositionSolid (a real Material subclass whose expansion correlation depends on the composition of
the component that holds it - an arbitrary function Q(T, N_A)).
"""
from spec import *

Component = repo("armi.reactor.components.component:Component")
Circle = repo("armi.reactor.components.basicShapes:Circle")
Block = repo("armi.reactor.blocks:Block")
Material = repo("armi.materials.material:Material")
units = repo("armi.utils.units")


class Nuc:
    pass


class PMap:
    def __getitem__(self, k):
        return getattr(self, k)

    def __setitem__(self, k, v):
        setattr(self, k, v)

    def get(self, k, d=None):
        return getattr(self, k, d)

    def __contains__(self, k):
        return hasattr(self, k)


class PDef:
    pass


def nuc(name, w, sym):
    return new(Nuc, name=name, weight=w if NATIVE else uf(sym))


TABLE = {"A": nuc("A", 1.0079, "w1"), "B": nuc("B", 235.04, "w2")}
ELEMENTS = {}


def weight_contract(nucName):
    return TABLE[nucName].weight


OV = {"armi.nucDirectory.nuclideBases:byName": "TABLE", "armi.nucDirectory.elements:bySymbol": "ELEMENTS"}
ST = {"armi.nucDirectory.nucDir:getAtomicWeight": "weight_contract"}
K = units.MOLES_PER_CC_TO_ATOMS_PER_BARN_CM


class CutBlock(Block):
    def getSymmetryFactor(self):
        return self.sf


@lemma(overrides=OV, stubs=ST, gen={"a": (0.001, 0.1), "b": (0.0, 0.1), "V": (0.01, 500.0), "sf": [2.0, 3.0]})
def component_of_a_cut_block_getMasses_agrees_with_getMass(a: float, b: float, V: float, sf: float):
    """KNOWN finding F46 (mass.getMasses.component.cut-block), here as a deductive refutation: for a component of a block
    with symmetry factor sf != 1, ArmiObject.getMasses()[n] uses the whole volume while Component.getMass(n) uses
    volume / sf."""
    assume(TABLE["A"].weight > 0 and TABLE["B"].weight > 0)
    assume(V > 0 and sf > 0 and a > 0 and b >= 0)
    comp = new(Component, p=new(PMap, numberDensities={"A": a, "B": b}, volume=V, detailedNDens=None, pinNDens=None), parent=None, cached={})
    blk = new(CutBlock, name="b", _children=[comp], p=new(PMap), parent=None, cached={}, sf=sf)
    comp.parent = blk
    assert eq(comp.getMasses()["A"], comp.getMass("A")), "getMasses()[n] is the mass of n"


class CompositionSolid(Material):
    """a solid whose expansion depends on the composition of its component: Q(T, N_A)"""

    def linearExpansionPercent(self, Tk=None, Tc=None):
        nA = self.parent.p.numberDensities.get("A", 0.0)
        return (0.001 * Tc + 10.0 * nA) if NATIVE else uf("Q", Tc, nA)




# ----------------------------------------------------------------------------- NEW finding: Cartesian full core
Core = repo("armi.reactor.reactors:Core")
Composite = repo("armi.reactor.composites:Composite")
CartesianBlock = repo("armi.reactor.blocks:CartesianBlock")
geometry = repo("armi.reactor.geometry")


class Loc:
    def getCompleteIndices(self):
        return self.ijk


class SymGrid:
    """stand-in core grid: only its symmetry (a real geometry.SymmetryType) is read"""


@lemma(gen={"i": (-3, 3), "j": (-3, 3), "k": (0, 5)})
def cartesian_block_in_a_full_core_is_not_cut(i: int, j: int, k: int):
    """In a FULL-core Cartesian model no block is cut by a symmetry line, so the factor must be 1 wherever the block sits -
    also when the grid is centred on an assembly ("full core through center assembly", a valid symmetry).
    CartesianBlock.getSymmetryFactor looks only at isThroughCenterAssembly, not at the domain: 4 at (0,0), 2 on i == 0 or j == 0."""
    core = new(Core, name="core", parent=None, spatialGrid=new(SymGrid, symmetry=geometry.SymmetryType.fromStr("full core through center assembly")), _children=[])
    a = new(Composite, name="a", parent=core, _children=[])
    b = new(CartesianBlock, name="b", parent=a, spatialLocator=new(Loc, grid=None, ijk=(i, j, k)), _children=[])
    assert b.getSymmetryFactor() == 1.0, "a block of a full-core model is whole"
