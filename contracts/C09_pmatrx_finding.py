"""C09 - REFUTED ON THE UNCHANGED TREE (kept out of ./check): PMATRX clauses the real code contradicts.  Same real code
and stub as contracts/C09_pmatrx.py.   Run:  cd /verif; python3-vt -m pyvc.run contracts/pending/C09_pmatrx_finding.py -v

  pmatrx_activation_records_are_written       an isotope with NXS = 1 activation cross section cannot be written:
        _rwReactionXS calls record.rwList(values, numGroups) without the item type (TypeError -> OSError)  (known F111)
  pmatrx_third_order_matrix_reads_back        an isotope with MAXORD = 3 is written but cannot be read: the reader looks
        the order-3 matrix up in the empty nOrderProductionMatrix dict (KeyError -> OSError)             (known F112)
"""
import numpy as np

from spec import *

PmatrxIO = repo("armi.nuclearDataIO.cccc.pmatrx:PmatrxIO")
IsotxsLibrary = repo("armi.nuclearDataIO.xsLibraries:IsotxsLibrary")
XSNuclide = repo("armi.nuclearDataIO.xsNuclides:XSNuclide")
F32 = [0.5, -1.25, 3.0, 1024.0, 7.0]


def no_base_lookup(self):
    """contract assumed for XSNuclide.updateBaseNuclide: touches neither the file nor the data"""
    return None


STUBS = {"armi.nuclearDataIO.xsNuclides:XSNuclide.updateBaseNuclide": "no_base_lookup"}


def library(nxs, maxord, a, b):
    """one isotope, one neutron and one gamma group, no heating data; nxs activation cross sections; production matrices
    of the orders 1..maxord (value a + order)"""
    lib = IsotxsLibrary()
    m = lib.pmatrxMetadata
    for key in ["numberCollapsingSpatialRegions", "numGammaGroups", "numNeutronGroups", "maxScatteringOrder", "maxNumberOfCompositions",
                "maxMaterials", "maxNumberOfRegions", "maxNumberOfCollapsingRegions", "_dummy1", "_dummy2"]:
        m[key] = 1
    m["maxScatteringOrder"] = maxord
    m["hasInPlateData"], m["hasDoseConversionFactor"] = False, False
    m["minimumNeutronEnergy"], m["minimumGammaEnergy"] = b, b
    lib.neutronEnergyUpperBounds, lib.gammaEnergyUpperBounds = np.array([b + 1.0]), np.array([b + 2.0])
    nuc = XSNuclide(lib, "U235AA")
    lib["U235AA"] = nuc
    nm = nuc.pmatrxMetadata
    nm["hasNeutronHeatingAndDamage"], nm["maxScatteringOrder"], nm["hasGammaHeating"] = False, maxord, False
    nm["numberNeutronXS"], nm["collapsingRegionNumber"] = nxs, 1
    if nxs > 0:
        nm["activationXS"], nm["activationMT"], nm["activationMTU"] = [np.array([a])] * nxs, [102] * nxs, [0] * nxs
    if maxord >= 1:
        nuc.isotropicProduction = np.array([[a + 1.0]])
    if maxord >= 2:
        nuc.linearAnisotropicProduction = np.array([[a + 2.0]])
    for order in range(3, maxord + 1):
        nuc.nOrderProductionMatrix[order] = np.array([[a + order]])
    return lib


def io(mode, st, lib):
    if "r" in mode:
        get = lambda label: XSNuclide(lib, label)
    else:
        get = lambda label: lib[label]
    return new(PmatrxIO, _fileName="PMATRX", _fileMode=mode, _stream=st, _lib=lib, _metadata=lib.pmatrxMetadata, _getNuclide=get,
               _dummyNuclideKeysAddedToLibrary=[])


@lemma(gen={"nxs": (0, 1), "a": F32, "b": F32}, stubs=STUBS)
def pmatrx_activation_records_are_written(nxs: int, a: float, b: float):
    """NXS = 0..1 activation cross sections: the file has 4 + 1 + NXS records.  REFUTED for NXS = 1 (OSError on writing)."""
    nxs = choose(nxs, 0, 1)
    st = memstream()
    io("wb", st, library(nxs, 0, a, b)).readWrite()
    assert st.nwrites() == 3 * (3 + 1 + nxs), "identification, group structure, isotope names; heading + one record per activation cross section"


@lemma(gen={"maxord": (1, 3), "a": F32, "b": F32}, stubs=STUBS)
def pmatrx_third_order_matrix_reads_back(maxord: int, a: float, b: float):
    """MAXORD = 1..3 production matrices are read back.  REFUTED for MAXORD = 3 (OSError on reading)."""
    maxord = choose(maxord, 1, 3)
    st = memstream()
    io("wb", st, library(0, maxord, a, b)).readWrite()
    assert st.nwrites() == 3 * (3 + 1 + maxord)
    st.seek(0)
    back = IsotxsLibrary()
    io("rb", st, back).readWrite()
    nuc = back["U235AA"]
    assert eq(nuc.isotropicProduction[0, 0], a + 1.0)
    if maxord >= 2:
        assert eq(nuc.linearAnisotropicProduction[0, 0], a + 2.0)
    if maxord >= 3:
        assert eq(nuc.nOrderProductionMatrix[3][0, 0], a + 3.0), "third-order production matrix read back"
