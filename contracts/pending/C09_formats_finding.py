"""C09 - REFUTED ON THE UNCHANGED TREE (kept out of ./check): a PWDINT (likewise RTFLUX / RZFLUX) header whose blocking
factor leaves a band that starts more than one line past the mesh (CCCC formula JL=(M-1)*((NINTJ-1)/NBLOK+1)+1 > NINTJ+1,
e.g. NINTJ=1, NBLOK=3 or NINTJ=5, NBLOK=4) cannot be written: IORecord._rwMatrix asks numpy for an array with a negative
dimension (ValueError) instead of writing the empty record the FORTRAN implied-do produces.  Whether such a header is
"well-formed" is debatable (the file description does not forbid it); bands with JL = NINTJ+1 (empty) work.
Run:  cd /verif; python3-vt -m pyvc.run contracts/pending/C09_formats_finding.py -v
"""
import numpy as np

from spec import *

PwdintStream = repo("armi.nuclearDataIO.cccc.pwdint:PwdintStream")
PwdintData = repo("armi.nuclearDataIO.cccc.pwdint:PwdintData")


@lemma(gen={"p0": [0.5, 1.0, 2.0]})
def pwdint_header_with_a_void_band_round_trips(p0: float):
    data = PwdintData()
    header = {"TIME": 0.0, "POWER": 1.0, "VOL": 1.0, "NINTI": 1, "NINTJ": 1, "NINTK": 1, "NCY": 0, "NBLOK": 3,
              "hname": "PWDINT", "huse": "", "huse2": "", "version": 1, "mult": 1}
    for key in header:
        data.metadata[key] = header[key]
    data.powerDensity = np.array([[[p0]]])
    st = memstream()
    new(PwdintStream, _fileName="PWDINT", _fileMode="wb", _stream=st, _data=data, _metadata=data.metadata).readWrite()
    st.seek(0)
    back = PwdintData()
    new(PwdintStream, _fileName="PWDINT", _fileMode="rb", _stream=st, _data=back, _metadata=back.metadata).readWrite()
    assert eq(back.powerDensity[0, 0, 0], p0)
