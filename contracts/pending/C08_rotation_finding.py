"""C08 finding (refuted on the unchanged tree) - HexBlock.rotate accepts an angle that is not a multiple of 60 degrees and
leaves the block in a state that is no rotation of the old one.

HexBlock.rotate documents "Rotations must be in 60-degree increments" but does not check its argument (only
HexAssembly.rotate does).  For any other angle it ROUNDS the angle to the nearest step for the pins, the per-corner /
per-edge data and the orientation, and applies the EXACT angle to the free-coordinate children and the displacement
vector.  C08: "rotating a hex block ... moves its pins, free-coordinate children, per-corner/per-edge data, displacement
vector and orientation accordingly"; a rotation that is not in 60-degree increments must be refused and change nothing.

Not picked up by ./check (directory contracts/pending).  Run:
  python3-vt -m pyvc.run contracts/pending/C08_rotation_finding.py
Native reproduction (PYTHONPATH=/repo /venv/bin/python):
  import math, armi; armi.configure(permissive=True)
  from armi.reactor.blocks import HexBlock
  from armi.reactor import grids, composites
  b = HexBlock("b"); g = grids.HexGrid.fromPitch(1.0, numRings=0, cornersUp=True); g.armiObject = b; b.spatialGrid = g
  pin = composites.Composite("pin"); pin.spatialLocator = grids.IndexLocation(1, 0, 0, g)
  free = composites.Composite("free"); free.spatialLocator = grids.CoordinateLocation(1.0, 0.0, 0.0, g)
  b.add(pin); b.add(free); b.p.cornerFastFlux = [0., 1., 2., 3., 4., 5.]; b.p.displacementX, b.p.displacementY = 1.0, 0.0
  b.rotate(math.radians(25))
  # observed: no exception; pin still at (1,0,0), cornerFastFlux unchanged, orientation [0,0,0], but
  #           free child at (0.9063, 0.4226) and displacement (0.9063, 0.4226) - rotated by 25 degrees
  # expected: ValueError and an unchanged block (as HexAssembly.rotate(math.radians(25)) does)
Stand-ins as in contracts/C08_rotation.py: PMap / PDefs / Names (parameter collection as a name -> value map; names of
the parameters defined at CORNERS / EDGES).
"""
import math

import numpy as np

from spec import *

HexGrid = repo("armi.reactor.grids.hexagonal:HexGrid")
IndexLocation = repo("armi.reactor.grids.locations:IndexLocation")
MultiIndexLocation = repo("armi.reactor.grids.locations:MultiIndexLocation")
CoordinateLocation = repo("armi.reactor.grids.locations:CoordinateLocation")
HexBlock = repo("armi.reactor.blocks:HexBlock")
Block = repo("armi.reactor.blocks:Block")
HexAssembly = repo("armi.reactor.assemblies:HexAssembly")
Assembly = repo("armi.reactor.assemblies:Assembly")
Composite = repo("armi.reactor.composites:Composite")
ParamLocation = repo("armi.reactor.parameters.parameterDefinitions:ParamLocation")
hexagon = repo("armi.utils.hexagon")

SQRT3 = hexagon.SQRT3

CORNER_NAMES = ["THcornTemp", "cornerFastFlux", "pointsCornerFastFluxFr", "pointsCornerDpa", "pointsCornerDpaRate"]
EDGE_NAMES = ["THedgeTemp", "pointsEdgeFastFluxFr", "pointsEdgeDpa", "pointsEdgeDpaRate"]


class Names:
    pass


class PDefs:
    """stand-in for ParameterDefinitionCollection: atLocation(loc).names = names of the parameters defined at loc"""

    def atLocation(self, loc):
        if loc == ParamLocation.CORNERS:
            return new(Names, names=list(CORNER_NAMES))
        if loc == ParamLocation.EDGES:
            return new(Names, names=list(EDGE_NAMES))
        return new(Names, names=[])


class PMap:
    """Abstract view of a ParameterCollection: a name -> value map (trusted model of `self.p`)."""

    def __getitem__(self, k):
        return getattr(self, k)

    def __setitem__(self, k, v):
        setattr(self, k, v)

    def get(self, k, d=None):
        return getattr(self, k, d)


def hexgrid(pitch, cornersUp):
    us = HexGrid._getRawUnitSteps(pitch, cornersUp)
    return new(
        HexGrid,
        _unitSteps=np.array(us),
        _bounds=(None, None, None),
        _stepDims=((0, 1, 2),),
        _boundDims=((),),
        _offset=np.zeros(3),
        _unitStepLimits=((-3, 3), (-3, 3), (0, 1)),
        _symmetry="",
        _isAxialOnly=False,
        armiObject=None,
        _locations={},
    )


def rot60(x, y):
    """coordinates rotated by 60 degrees counter-clockwise"""
    return x / 2.0 - SQRT3 / 2.0 * y, SQRT3 / 2.0 * x + y / 2.0


def rotk(x, y, k):
    """coordinates rotated by k x 60 degrees counter-clockwise (k a concrete int of either sign)"""
    for _ in range(k % 6):
        x, y = rot60(x, y)
    return x, y


def params(o0, o1, o2, dx, dy, corner, edge, **more):
    """the boundary / orientation / displacement part of a block's parameters"""
    d = dict(
        paramDefs=new(PDefs),
        orientation=np.array((o0, o1, o2)),
        displacementX=dx,
        displacementY=dy,
        THcornTemp=None,
        cornerFastFlux=corner,
        pointsCornerFastFluxFr=None,
        pointsCornerDpa=None,
        pointsCornerDpaRate=None,
        THedgeTemp=None,
        pointsEdgeFastFluxFr=None,
        pointsEdgeDpa=edge,
        pointsEdgeDpaRate=None,
    )
    d.update(more)
    return new(PMap, **d)


def small_block(g, i, j, cx, cy, corner, dx, dy, o2):
    pin = new(Composite, spatialLocator=IndexLocation(i, j, 0, g))
    free = new(Composite, spatialLocator=CoordinateLocation(cx, cy, 0.0, g))
    p = params(0.0, 0.0, o2, dx, dy, list(corner), None)
    return new(HexBlock, spatialGrid=g, _children=[pin, free], p=p), pin, free, p


@lemma(gen={"k": (-12, 12), "f": (0.01, 0.99), "i": (-9, 9), "j": (-9, 9)})
def hex_block_rotate_refuses_an_angle_that_is_not_a_multiple_of_60(
    k: int, f: float, i: int, j: int, cx: float, cy: float,
    c0: float, c1: float, c2: float, c3: float, c4: float, c5: float, dx: float, dy: float, o2: float,
):
    """rad = (k + f) x pi / 3 with an integer k and 0.01 <= f <= 0.99 - not a multiple of 60 degrees, off by at least
    0.6 degrees: HexBlock.rotate must refuse (ValueError, as HexAssembly.rotate does) and change nothing."""
    assume(0.01 <= f and f <= 0.99)
    rad = (k + f) * math.pi / 3
    g = hexgrid(1.0, True)
    corner = [c0, c1, c2, c3, c4, c5]
    s = small_block(g, i, j, cx, cy, corner, dx, dy, o2)
    try:
        s[0].rotate(rad)
        refused = False
    except ValueError:
        refused = True
    assert refused, "an angle that is not a multiple of 60 degrees is refused"
    assert (s[1].spatialLocator.i, s[1].spatialLocator.j) == (i, j)
    assert (s[2].spatialLocator.i, s[2].spatialLocator.j) == (cx, cy)
    assert s[3].cornerFastFlux == corner
    assert (s[3].displacementX, s[3].displacementY) == (dx, dy) and s[3].orientation[2] == o2
