"""C10 - REFUTED ON THE UNCHANGED TREE (kept out of ./check): a refused merge must leave the target unchanged.

Property text: inputs that conflict "are rejected with an error leaving the target unchanged".  The real code changes
the target before it detects the conflict (see each lemma).  Run:
  cd /verif; python3-vt -m pyvc.run contracts/pending/C10_libmerge_finding.py -v
"""
import numpy as np

from spec import *

NuclideMetadata = repo("armi.nuclearDataIO.nuclearFileMetadata:NuclideMetadata")
NuclideXSMetadata = repo("armi.nuclearDataIO.nuclearFileMetadata:NuclideXSMetadata")
XSNuclide = repo("armi.nuclearDataIO.xsNuclides:XSNuclide")
IsotxsLibrary = repo("armi.nuclearDataIO.xsLibraries:IsotxsLibrary")
ImmutablePropertyError = repo("armi.utils.properties:ImmutablePropertyError")


# ---- helpers copied from contracts/C10_libmerge.py (the engine does not import one harness from another)
def bits(mask):
    return [mask % 2 == 1, (mask // 2) % 2 == 1, (mask // 4) % 2 == 1]


class Holder:
    """stand-in for the library holding a file-level metadata object: only .nuclides (list of objects with a real
    NuclideMetadata in .isotxsMetadata) is used by the metadata merge"""


def holder(fis, chiFlag):
    nm = NuclideMetadata()
    nm["fisFlag"] = fis
    nm["chiFlag"] = chiFlag
    return new(Holder, nuclides=[new(Holder, isotxsMetadata=nm)])


def file_meta(ng, up, label, chi, names):
    m = NuclideXSMetadata()
    m["numGroups"] = ng
    m["maxUpScatterGroups"] = up
    m["libraryLabel"] = label
    if chi is not None:
        m["chi"] = chi
        m["fileWideChiFlag"] = 1
    else:
        m["fileWideChiFlag"] = 0
    m.fileNames = names
    return m


def nuclide(lib, label, mask, w, v):
    """a real XSNuclide carrying the data kinds of `mask` (1 neutron/ISOTXS, 2 gamma/GAMISO, 4 production/PMATRX):
    for each kind its metadata (one symbolic entry w[k]) and its data (2-group arrays built from v[k])"""
    n = XSNuclide(lib, label)
    hasN, hasG, hasP = bits(mask)
    if hasN:
        n.isotxsMetadata["amass"] = w[0]
        n.micros.fission = np.array([v[0], v[0] + 1.0])
        n.micros.nGamma = np.array([2.0 * v[0], v[0]])
    if hasG:
        n.gamisoMetadata["amass"] = w[1]
        n.gammaXS.total = np.array([v[1], v[1] + 1.0])
    if hasP:
        n.pmatrxMetadata["numLegendre"] = w[2]
        n.neutronHeating = np.array([v[2], v[2] + 1.0])
        n.gammaHeating = np.array([v[2] + 2.0, v[2]])
    return n


def first(a):
    return None if a is None else a[0]


def observe(n):
    """observable content of a nuclide: metadata entries and the leading value of every data array"""
    return [n.isotxsMetadata["amass"], n.gamisoMetadata["amass"], n.pmatrxMetadata["numLegendre"],
            len(n.isotxsMetadata), len(n.gamisoMetadata), len(n.pmatrxMetadata),
            first(n.micros.fission), first(n.micros.nGamma), first(n.gammaXS.total), first(n.gammaXS.fission),
            first(n.neutronHeating), first(n.gammaHeating), first(n.neutronDamage)]


def same_content(o1, o2):
    return all([(x is None and y is None) or (x is not None and y is not None and eq(x, y)) for x, y in zip(o1, o2)])


def try_nuclide_merge(a, b):
    try:
        a.merge(b)
        return False
    except AttributeError:
        return True


G_NUC = {"ma": (0, 7), "mb": (0, 7), "wa0": (0, 1), "wb0": (0, 1), "wa1": (0, 1), "wb1": (0, 1), "wa2": (0, 1), "wb2": (0, 1)}



@lemma(gen=G_NUC)
def refused_nuclide_merge_leaves_the_target_unchanged(ma: int, mb: int, wa0: int, wa1: int, wa2: int, wb0: int, wb1: int, wb2: int,
                                                      x0: float, x1: float, x2: float, y0: float, y1: float, y2: float):
    """XSNuclide.merge: 8 x 8 kind sets; whenever AttributeError is raised the observable content of the target (and
    of the source) is what it was before."""
    ma = choose(ma, 0, 7)
    mb = choose(mb, 0, 7)
    lib = IsotxsLibrary()
    A = nuclide(lib, "U235AA", ma, [wa0, wa1, wa2], [x0, x1, x2])
    B = nuclide(lib, "U235AA", mb, [wb0, wb1, wb2], [y0, y1, y2])
    beforeA, beforeB = observe(A), observe(B)
    if try_nuclide_merge(A, B):
        assert same_content(observe(A), beforeA), "refused merge: target unchanged"
        assert same_content(observe(B), beforeB), "refused merge: source unchanged"
