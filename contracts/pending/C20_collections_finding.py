"""C20 - lemmas on the component-wise block collections that assert the property text and are REFUTED on the unchanged
tree (findings; not picked up by ./check).  Stand-ins as in contracts/C20_collections.py."""
from spec import *
from C20_collections import *


@lemma(gen={"k": [1, 2, 3, 4]})
def all_lattice_components_are_removed_from_the_representative_block(k: int, l1: bool, l2: bool, l3: bool, l4: bool):
    """_removeLatticeComponents on a block of 1..4 components (enumerated) of which ANY subset are lattice components:
    afterwards no lattice component is left.  REFUTED: the method removes children while it walks the live child
    list, so the component after a removed one is skipped - of two adjacent lattice components the second stays."""
    k = choose(k, 1, 4)
    lattice_case(k, [l1, l2, l3, l4][:k])
