"""C04 - database layout: location packing by kind and its inverse; ancestors from the pre-order layout.

The lemmas call the real functions of armi/bookkeeping/db/layout.py on the real location classes of
armi/reactor/grids/locations.py.  Between `_packLocations*` and `_unpackLocations*` the data goes through an HDF5
dataset (`layout/location`, an N x 3 float64 table read back with `.tolist()`); that transport is the harness
function `stored` (each packed row -> list of three reals; A1: an int survives the float cast).
"""
import numpy as np

from spec import *

layout = repo("armi.bookkeeping.db.layout")
IndexLocation = repo("armi.reactor.grids.locations:IndexLocation")
CoordinateLocation = repo("armi.reactor.grids.locations:CoordinateLocation")
MultiIndexLocation = repo("armi.reactor.grids.locations:MultiIndexLocation")


def stored(locData):
    """transport contract of the `layout/location` dataset: rows of three float64, read back as lists"""
    return [[to_real(v) for v in row] for row in locData]


def mkloc(kind, a, b, c, x, y, z, d, e, f):
    """kind 0: None, 1: IndexLocation(a,b,c), 2: CoordinateLocation(x,y,z), 3: multi [(a,b,c)], 4: multi [(a,b,c),(d,e,f)]"""
    if kind == 0:
        return None
    if kind == 1:
        return IndexLocation(a, b, c, None)
    if kind == 2:
        return CoordinateLocation(x, y, z, None)
    m = MultiIndexLocation(None)
    m.append(IndexLocation(a, b, c, None))
    if kind == 4:
        m.append(IndexLocation(d, e, f, None))
    return m


def expected(kind, a, b, c, x, y, z, d, e, f):
    """what Database._compose must receive for the location: None / index triple / coordinates / list of triples"""
    if kind == 0:
        return None
    if kind == 1:
        return (a, b, c)
    if kind == 2:
        return (x, y, z)
    if kind == 3:
        return [(a, b, c)]
    return [(a, b, c), (d, e, f)]


def same_value(kind, got, exp):
    if kind == 0:
        return got is None
    if kind == 1:
        return isinstance(got, tuple) and len(got) == 3 and got[0] == exp[0] and got[1] == exp[1] and got[2] == exp[2]
    if kind == 2:
        return isinstance(got, tuple) and len(got) == 3 and eq(got[0], exp[0]) and eq(got[1], exp[1]) and eq(got[2], exp[2])
    if not isinstance(got, list) or len(got) != len(exp):
        return False
    ok = True
    for g, w in zip(got, exp):
        ok = ok and isinstance(g, tuple) and len(g) == 3 and g[0] == w[0] and g[1] == w[1] and g[2] == w[2]
    return ok


IG = (-1000, 1000)
KG = [0, 1, 2, 3, 4]


@lemma(gen={"kind": KG, "a": IG, "b": IG, "c": IG, "d": IG, "e": IG, "f": IG})
def one_location_of_each_kind_round_trips(kind: int, a: int, b: int, c: int, x: float, y: float, z: float,
                                          d: int, e: int, f: int):
    """current minor version: _packLocations -> stored -> _unpackLocations gives back kind and value (kinds enumerated)"""
    kind = choose(kind, 0, 4)
    loc = mkloc(kind, a, b, c, x, y, z, d, e, f)
    types, data = layout._packLocations([loc])
    assert len(types) == 1, "one type label per object"
    assert len(data) == (1 if kind < 4 else 2), "one row per location, one per sub-location of a multi-location"
    back = layout._unpackLocations(types, stored(data))
    assert len(back) == 1
    assert same_value(kind, back[0], expected(kind, a, b, c, x, y, z, d, e, f))


def slot(n):
    """fresh symbolic contents for list position n"""
    return (sym_int("a%d" % n), sym_int("b%d" % n), sym_int("c%d" % n), sym_real("x%d" % n), sym_real("y%d" % n),
            sym_real("z%d" % n), sym_int("d%d" % n), sym_int("e%d" % n), sym_int("f%d" % n))


def rows_of(kind):
    return 2 if kind == 4 else 1


def round_trip_list(n, kinds, minor):
    vals = [slot(m) for m in range(n)]
    locs = [mkloc(kinds[m], *vals[m]) for m in range(n)]
    types, data = layout._packLocations(locs, minor)
    assert len(types) == n, "one type label per object, in order"
    assert len(data) == sum(rows_of(kinds[m]) for m in range(n)), "rows: one per location / sub-location"
    back = layout._unpackLocations(types, stored(data), minor)
    assert len(back) == n, "as many locations come back as were written"
    for m in range(n):
        assert same_value(kinds[m], back[m], expected(kinds[m], *vals[m])), "same kind and value at the same position"


@lemma(gen={"n": [1, 2, 3], "k0": KG, "k1": KG, "k2": KG})
def location_lists_round_trip_current_version(n: int, k0: int, k1: int, k2: int):
    """lists of 1..3 locations, every combination of the 5 kinds (None, index, coordinate, multi of 1, multi of 2)
    enumerated, contents symbolic: _packLocations (-> _packLocationsV3) -> stored -> _unpackLocations (-> V2) returns
    kind and value position by position.  Unused kind parameters of shorter lists are pinned to 0."""
    n = choose(n, 1, 3)
    k0 = choose(k0, 0, 4)
    k1 = choose(k1, 0, 4 if n > 1 else 0)
    k2 = choose(k2, 0, 4 if n > 2 else 0)
    round_trip_list(n, [k0, k1, k2], layout.DB_MINOR)


@lemma(gen={"n": [1, 2, 3], "k0": KG, "k1": KG, "k2": KG})
def location_lists_round_trip_minor_version_3(n: int, k0: int, k1: int, k2: int):
    """the same for a file of minor version 3 (_packLocationsV2 / _unpackLocationsV2)"""
    n = choose(n, 1, 3)
    k0 = choose(k0, 0, 4)
    k1 = choose(k1, 0, 4 if n > 1 else 0)
    k2 = choose(k2, 0, 4 if n > 2 else 0)
    round_trip_list(n, [k0, k1, k2], 3)


@lemma(gen={"n": [1, 2, 3], "k0": [0, 1, 2], "k1": [0, 1, 2], "k2": [0, 1, 2], "minor": [0, 1, 2]})
def location_lists_round_trip_old_versions(n: int, k0: int, k1: int, k2: int, minor: int):
    """minor versions <= 2 (_packLocationsV1 / _unpackLocationsV1) knew None, index and coordinate locations"""
    assume(0 <= minor and minor <= 2)
    n = choose(n, 1, 3)
    k0 = choose(k0, 0, 2)
    k1 = choose(k1, 0, 2 if n > 1 else 0)
    k2 = choose(k2, 0, 2 if n > 2 else 0)
    round_trip_list(n, [k0, k1, k2], minor)


# ----------------------------------------------------------------------------- locations that live in a grid
HexGrid = repo("armi.reactor.grids.hexagonal:HexGrid")
Composite = repo("armi.reactor.composites:Composite")


@lemma(gen={"kind": [1, 3, 4], "a": (-5, 5), "b": (-5, 5), "d": (-5, 5), "e": (-5, 5), "i": (-9, 9), "j": (-9, 9), "pitch": (0.1, 30.0), "pp": (0.1, 3.0)})
def pin_locations_in_a_block_grid_come_back_as_local_cells(kind: int, a: int, b: int, c: int, d: int, e: int, f: int,
                                                           i: int, j: int, pitch: float, pp: float):
    """a component located in the pin grid of a block (block in a core hex grid, real HexGrid.fromPitch): pack ->
    stored -> unpack returns the LOCAL cell indices in the parent's grid, which is the key Database._compose looks up
    in parent.spatialGrid (the look-up itself needs a dictionary with symbolic keys and is left to the bounded tier).
    kind 1: one IndexLocation, 3/4: MultiIndexLocation with 1/2 pins.  Composite objects are made with new() (only
    parent and spatialLocator are read)."""
    assume(pitch > 0 and pp > 0)
    kind = choose(kind, 1, 4)
    assume(kind != 2)
    core = new(Composite, parent=new(Composite, parent=None, spatialLocator=CoordinateLocation(0.0, 0.0, 0.0, None)))
    core.spatialLocator = CoordinateLocation(0.0, 0.0, 0.0, None)
    cg = HexGrid.fromPitch(pitch, numRings=1, armiObject=core)
    blk = new(Composite, parent=core)
    blk.spatialLocator = IndexLocation(i, j, 0, cg)
    pg = HexGrid.fromPitch(pp, numRings=1, armiObject=blk)
    if kind == 1:
        loc = IndexLocation(a, b, c, pg)
    else:
        loc = MultiIndexLocation(pg)
        loc.append(IndexLocation(a, b, c, pg))
        if kind == 4:
            loc.append(IndexLocation(d, e, f, pg))
    types, data = layout._packLocations([blk.spatialLocator, loc])
    back = layout._unpackLocations(types, stored(data))
    assert len(back) == 2
    assert same_value(1, back[0], (i, j, 0)), "the block's own cell in the core grid"
    assert same_value(kind, back[1], expected(kind, a, b, c, 0.0, 0.0, 0.0, d, e, f)), "local pin cell(s), not shifted by the block's"


@lemma(gen={"kind": [1, 3, 4], "a": (-5, 5), "b": (-5, 5), "d": (-5, 5), "e": (-5, 5), "pp": (0.1, 3.0)})
def unpacked_pin_locations_look_up_the_same_cells_of_the_grid(kind: int, a: int, b: int, d: int, e: int, pp: float):
    """what Database._compose does with the unpacked value: parent.spatialGrid[location] (real
    StructuredGrid.__getitem__, its `_locations` dictionary with symbolic index triples as keys) is the very location
    object the component had (kind 1) / a multi-location over the very same cells of the same grid (kinds 3, 4)."""
    assume(pp > 0)
    kind = choose(kind, 1, 4)
    assume(kind != 2)
    blk = new(Composite, parent=None, spatialLocator=CoordinateLocation(0.0, 0.0, 0.0, None))
    pg = HexGrid.fromPitch(pp, numRings=1, armiObject=blk)
    if kind == 1:
        loc = pg[(a, b, 0)]
    elif kind == 3:
        loc = pg[[(a, b, 0)]]
    else:
        loc = pg[[(a, b, 0), (d, e, 0)]]
    types, data = layout._packLocations([loc])
    back = layout._unpackLocations(types, stored(data))
    again = pg[back[0]]
    if kind == 1:
        assert same(again, loc), "the grid hands out the same cell object"
    else:
        assert type(again) is MultiIndexLocation and same(again.grid, pg)
        assert len(again) == len(loc)
        for m in range(len(loc)):
            assert same(again[m], loc[m]), "same cell objects in the same order"


# ----------------------------------------------------------------------------- ancestors from the pre-order layout
Layout = repo("armi.bookkeeping.db.layout:Layout")


def forests(n):
    """all ordered forests with n nodes as (number of roots, pre-order list of child counts)"""
    if n == 0:
        return [(0, [])]
    out = []
    for size in range(1, n + 1):
        for t in trees(size):
            for r, rest in forests(n - size):
                out.append((r + 1, t + rest))
    return out


def trees(n):
    """all ordered trees with n nodes as pre-order lists of child counts (Catalan(n-1) of them)"""
    return [[r] + seq for r, seq in forests(n - 1)]


def walk(numChildren, idx, parentIdx, parents):
    """naive recursive descent over the pre-order layout: records the parent index of every node of the subtree
    starting at idx and returns the index after that subtree"""
    parents[idx] = parentIdx
    nxt = idx + 1
    for _ in range(numChildren[idx]):
        nxt = walk(numChildren, nxt, idx, parents)
    return nxt


def up(parents, idx, depth):
    for _ in range(depth):
        if idx is None:
            return None
        idx = parents[idx]
    return idx


NSHAPES = {1: 1, 2: 1, 3: 2, 4: 5, 5: 14, 6: 42}


def ancestors_of_shape(n, shape, depth):
    shapes = trees(n)
    assert len(shapes) == NSHAPES[n], "the enumeration of shapes is complete (Catalan number)"
    numChildren = shapes[shape]
    sns = [sym_int("sn%d" % m) for m in range(n)]
    for m in range(n):
        for q in range(m):
            assume(sns[m] != sns[q])  # serial numbers are unique
    parents = [None] * n
    end = walk(numChildren, 0, None, parents)
    assert end == n
    got = Layout.computeAncestors(sns, numChildren, depth)
    assert len(got) == n, "one entry per object"
    for m in range(n):
        want = up(parents, m, depth)
        if want is None:
            assert got[m] is None, "no such ancestor: None"
        else:
            assert got[m] is not None and got[m] == sns[want], "serial number of the ancestor `depth` levels up"


@lemma(gen={"n": [1, 2, 3, 4, 5, 6], "shape": (0, 41)})
def parents_from_the_preorder_layout(n: int, shape: int):
    """Layout.computeAncestors(depth=1) against a naive recursive walk: EVERY tree shape with 1..6 nodes (1+1+2+5+14+42
    shapes, enumerated), serial numbers symbolic and pairwise different"""
    n = choose(n, 1, 6)
    shape = choose(shape, 0, NSHAPES[n] - 1)
    ancestors_of_shape(n, shape, 1)


@lemma(gen={"n": [1, 2, 3, 4, 5, 6], "shape": (0, 41)})
def grandparents_from_the_preorder_layout(n: int, shape: int):
    """the same for depth=2 (grandparent; None for the root and its children)"""
    n = choose(n, 1, 6)
    shape = choose(shape, 0, NSHAPES[n] - 1)
    ancestors_of_shape(n, shape, 2)


@lemma(gen={"n": [1, 2, 3, 4, 5, 6], "shape": (0, 41)})
def great_grandparents_from_the_preorder_layout(n: int, shape: int):
    """the same for depth=3"""
    n = choose(n, 1, 6)
    shape = choose(shape, 0, NSHAPES[n] - 1)
    ancestors_of_shape(n, shape, 3)


# ----------------------------------------------------------------------------- layout/gridIndex column
@lemma(gen={"n": [1, 2, 3, 4], "mask": (0, 15), "a": (0, 40), "b": (0, 40), "c": (0, 40), "d": (0, 40)})
def grid_index_column_round_trips(n: int, mask: int, a: int, b: int, c: int, d: int):
    """Layout.gridIndex (index into the list of distinct grids, None for an object without a grid) as written by
    Layout.writeToDB - replaceNonesWithNonsense(np.array(gridIndex)) - and read by Layout._readLayout -
    replaceNonsenseWithNones: 1..4 objects, EVERY pattern of objects without grid (including none and all), indices
    symbolic and >= 0 (they index a list): None and index come back position by position"""
    n = choose(n, 1, 4)
    mask = choose(mask, 0, 2 ** n - 1)
    nogrid = [(mask // (2 ** m)) % 2 == 1 for m in range(n)]
    idx = [a, b, c, d][:n]
    for v in idx:
        assume(v >= 0)
    gridIndex = [None if nogrid[m] else idx[m] for m in range(n)]
    stored = layout.replaceNonesWithNonsense(np.array(gridIndex), "layout/gridIndex")
    assert stored.dtype != "O" and stored.shape == (n,), "a plain numeric column, one entry per object"
    back = layout.replaceNonsenseWithNones(stored, "layout/gridIndex")
    assert len(back) == n
    for m in range(n):
        if nogrid[m]:
            assert back[m] is None, "an object without grid stays without"
        else:
            assert back[m] is not None and eq(back[m], idx[m]), "same grid index"


@lemma(gen={"a": (-9, 9), "b": (-9, 9), "c": (-9, 9)})
def unknown_location_label_is_rejected_on_read(a: int, b: int, c: int):
    """a type label that no packer writes is refused (ValueError) instead of being read as some location"""
    for label in ("X", "", "i", "Coordinate"):
        try:
            layout._unpackLocations([label], [[to_real(a), to_real(b), to_real(c)]])
            raised = False
        except ValueError:
            raised = True
        assert raised
