"""C18 - lattice maps: indexed contents -> text -> indexed contents, for every map class.

The real AsciiMap*.gridContentsToAscii / __str__ / readAscii (with _updateDimensionsFromData, _getIJFromColRow,
_getLineNumsToWrite, _makeOffsets, _updateSlotSizeFromData, _asciiLinesToIndices, _updateDimensionsFromAsciiLines,
_removeTrailingPlaceholders) are executed on concrete maps inside the engine (text is concrete by nature).
Enumerated COMPLETELY: hex maps = the 3-ring hexagon (19 cells; third core: its 7 cells of the first third) with the
outer ring present and EVERY subset of the inner cells removed (holes); Cartesian = every non-empty subset of a 3 x 3
window, also shifted to negative indices.  Labels have different widths.  A map is either refused (ValueError) or
drawn as text that reads back to exactly the contents ('never drawn incompletely').
Maps whose OUTER ring is incomplete read back shifted: known finding F18, see pending/C18_lattice_finding.py.
"""
from spec import *

maps = repo("armi.utils.asciimaps")
gridBp = repo("armi.reactor.blueprints.gridBlueprint")


def dist(i, j):
    return max(abs(i), abs(j), abs(i + j))


def label(i, j):
    return ("A", "BB", "CCC")[dist(i, j)] + str((7 * i + 3 * j) % 10)


HEX = [(i, j) for i in range(-2, 3) for j in range(-2, 3) if dist(i, j) <= 2]
THIRD = [(0, 0), (0, 1), (0, 2), (1, 0), (1, 1), (2, -1), (2, 0)]


def roundtrip(cls, contents):
    """-> None if the writer refuses, else the contents read back from the written text (placeholders dropped)"""
    m = cls()
    m.asciiLabelByIndices = dict(contents)
    try:
        m.gridContentsToAscii()
    except ValueError:
        return None
    text = str(m)
    back = cls()
    back.readAscii(text)
    return {k: v for k, v in back.items() if v != "-"}


def holes(cells, mask):
    inner = [c for c in cells if dist(c[0], c[1]) < 2]
    gone = [inner[k] for k in range(len(inner)) if (mask // 2 ** k) % 2 == 1]
    return {c: label(c[0], c[1]) for c in cells if c not in gone}


@lemma(gen={"mask": (0, 127)})
def hex_full_flats_up_map_reads_back(mask: int):
    mask = choose(mask, 0, 127)
    contents = holes(HEX, mask)
    back = roundtrip(maps.AsciiMapHexFullFlatsUp, contents)
    assert back is None or back == contents, "drawn as text that reads back to the same indexed contents, or refused"
    if mask == 0 or mask == 1 or mask == 64:
        assert back == contents, "the full hexagon, a hole at the centre, one hole in the first ring: drawn"


@lemma(gen={"mask": (0, 127)})
def hex_full_tips_up_map_reads_back(mask: int):
    mask = choose(mask, 0, 127)
    contents = holes(HEX, mask)
    back = roundtrip(maps.AsciiMapHexFullTipsUp, contents)
    assert back is None or back == contents, "drawn as text that reads back to the same indexed contents, or refused"
    if mask == 0 or mask == 1 or mask == 127:
        assert back == contents


@lemma(gen={"mask": (0, 7)})
def hex_third_map_reads_back(mask: int):
    mask = choose(mask, 0, 7)
    contents = holes(THIRD, mask)
    back = roundtrip(maps.AsciiMapHexThirdFlatsUp, contents)
    assert back is None or back == contents, "drawn as text that reads back to the same indexed contents, or refused"
    if mask == 0:
        assert back == contents


@lemma(gen={"mask": (1, 511), "shift": (0, 1)})
def cartesian_map_reads_back_or_is_refused(mask: int, shift: int):
    mask = choose(mask, 1, 511)
    shift = choose(shift, 0, 1)
    cells = [(i - shift, j - shift) for j in range(3) for i in range(3)]
    contents = {cells[k]: ("A", "BB")[k % 2] + str(k) for k in range(9) if (mask // 2 ** k) % 2 == 1}
    back = roundtrip(maps.AsciiMapCartesian, contents)
    assert back is None or back == contents, "drawn as text that reads back to the same indexed contents, or refused"
    if shift == 0 and mask in (511, 511 - 16, 1, 7, 73, 325 + 16):
        cover("drawn")
        assert back == contents, "full window, centre hole, single cell, one row, one column, the two diagonals: drawn"
    if shift == 1 and mask % 2 == 1:
        assert back is None, "negative indices have no text slot: refused, not dropped"
