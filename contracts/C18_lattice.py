"""C18 - lattice maps: indexed contents -> text -> indexed contents, for every map class.

The real AsciiMap*.gridContentsToAscii / __str__ / readAscii (with _updateDimensionsFromData, _getIJFromColRow,
_getLineNumsToWrite, _makeOffsets, _updateSlotSizeFromData, _asciiLinesToIndices, _updateDimensionsFromAsciiLines,
_removeTrailingPlaceholders) are executed on concrete maps inside the engine (text is concrete by nature).
Enumerated COMPLETELY: hex maps = the 3-ring hexagon (19 cells; third core: its 7 cells of the first third) with the
outer ring present and EVERY subset of the inner cells removed (holes); Cartesian = every non-empty subset of a 3 x 3
window, also shifted to negative indices.  Labels have different widths.  A map is either refused (ValueError) or
drawn as text that reads back to exactly the contents ('never drawn incompletely').
Maps whose OUTER ring is incomplete read back shifted: known finding F18, see pending/C18_lattice_finding.py.

Text map -> grid contents (last section): the real GridBlueprint._readGridContentsLattice (with geometry.SymmetryType /
GeomType.fromStr, asciimaps.asciiMapFromGeomAndDomain, AsciiMapCartesian.readAscii, _getGridSize) is executed on
concrete Cartesian texts with rows of UNEQUAL length (diamond, steps, one wide row, holes; odd and even widths; full
and quarter core): every token is indexed by its text position counted from the middle of the map (widest row, number
of rows), not from the length of any particular row.
"""
from spec import *

maps = repo("armi.utils.asciimaps")
gridBp = repo("armi.reactor.blueprints.gridBlueprint")


def dist(i, j):
    return max(abs(i), abs(j), abs(i + j))


def label(i, j):
    return ("A", "BB", "CCC")[dist(i, j)] + str((7 * i + 3 * j) % 10)


HEX = [(i, j) for i in range(-2, 3) for j in range(-2, 3) if dist(i, j) <= 2]
THIRD = [(0, 0), (0, 1), (0, 2), (1, 0), (1, 1), (2, -1), (2, 0)]


def roundtrip(cls, contents):
    """-> None if the writer refuses, else the contents read back from the written text (placeholders dropped)"""
    m = cls()
    m.asciiLabelByIndices = dict(contents)
    try:
        m.gridContentsToAscii()
    except ValueError:
        return None
    text = str(m)
    back = cls()
    back.readAscii(text)
    return {k: v for k, v in back.items() if v != "-"}


def holes(cells, mask):
    inner = [c for c in cells if dist(c[0], c[1]) < 2]
    gone = [inner[k] for k in range(len(inner)) if (mask // 2 ** k) % 2 == 1]
    return {c: label(c[0], c[1]) for c in cells if c not in gone}


@lemma(gen={"mask": (0, 127)})
def hex_full_flats_up_map_reads_back(mask: int):
    mask = choose(mask, 0, 127)
    contents = holes(HEX, mask)
    back = roundtrip(maps.AsciiMapHexFullFlatsUp, contents)
    assert back is None or back == contents, "drawn as text that reads back to the same indexed contents, or refused"
    if mask == 0 or mask == 1 or mask == 64:
        assert back == contents, "the full hexagon, a hole at the centre, one hole in the first ring: drawn"


@lemma(gen={"mask": (0, 127)})
def hex_full_tips_up_map_reads_back(mask: int):
    mask = choose(mask, 0, 127)
    contents = holes(HEX, mask)
    back = roundtrip(maps.AsciiMapHexFullTipsUp, contents)
    assert back is None or back == contents, "drawn as text that reads back to the same indexed contents, or refused"
    if mask == 0 or mask == 1 or mask == 127:
        assert back == contents


@lemma(gen={"mask": (0, 7)})
def hex_third_map_reads_back(mask: int):
    mask = choose(mask, 0, 7)
    contents = holes(THIRD, mask)
    back = roundtrip(maps.AsciiMapHexThirdFlatsUp, contents)
    assert back is None or back == contents, "drawn as text that reads back to the same indexed contents, or refused"
    if mask == 0:
        assert back == contents


@lemma(gen={"mask": (1, 511), "shift": (0, 1)})
def cartesian_map_reads_back_or_is_refused(mask: int, shift: int):
    mask = choose(mask, 1, 511)
    shift = choose(shift, 0, 1)
    cells = [(i - shift, j - shift) for j in range(3) for i in range(3)]
    contents = {cells[k]: ("A", "BB")[k % 2] + str(k) for k in range(9) if (mask // 2 ** k) % 2 == 1}
    back = roundtrip(maps.AsciiMapCartesian, contents)
    assert back is None or back == contents, "drawn as text that reads back to the same indexed contents, or refused"
    if shift == 0 and mask in (511, 511 - 16, 1, 7, 73, 325 + 16):
        cover("drawn")
        assert back == contents, "full window, centre hole, single cell, one row, one column, the two diagonals: drawn"
    if shift == 1 and mask % 2 == 1:
        assert back is None, "negative indices have no text slot: refused, not dropped"


# ---------------------------------------------------------------------------------------------- text map -> grid contents
# GridBlueprint._readGridContentsLattice on concrete Cartesian texts whose rows have unequal length.  The expected index
# of a token comes from the text alone: (column, row from the bottom); full core: minus (nx // 2, ny // 2), nx = the
# widest row (placeholders counted), ny = the number of rows ("(0,0) in the middle ... for even and odd cases").
CART_TEXTS = [
    "A B C\nD E F\nG H I",  # rectangle, odd
    "- - N1\n- N2 F1 N3\nW1 F2 CC F3 E1\n- S1 F4 S2\n- - S3",  # diamond, trailing placeholders left off
    "- T1\nL1 M1 M2 R1\nL2 M3 M4 R2",  # even width, narrow top row
    "A\nB C D E\nF",  # one wide row in the middle
    "A B C D\nE F\nG",  # steps narrowing to the bottom
    "A\nB C\nD E F G H I",  # steps narrowing to the top, even width
    "- A\nB C D\n- E - -",  # holes, placeholders written out in one row
    "A B",  # a single row
]


class GridDesign:
    """The attributes of a GridBlueprint that _readGridContentsLattice uses (GridBlueprint itself is a yamlize.Object,
    whose attribute machinery is outside the engine); the REAL method body is executed on it."""

    geom = None
    symmetry = None
    latticeMap = None
    gridContents = None
    readFromLatticeMap = False


def expected_from_text(text, full):
    rows = [ln.split() for ln in text.strip().splitlines()]
    nx = max([len(r) for r in rows])
    ny = len(rows)
    out = {}
    for r in range(ny):
        row = rows[ny - 1 - r]
        for c in range(len(row)):
            if row[c] != "-":
                if full:
                    out[(c - nx // 2, r - ny // 2)] = row[c]
                else:
                    out[(c, r)] = row[c]
    return out


@lemma(gen={"t": (0, 7), "full": (0, 1)})
def cartesian_text_map_is_indexed_from_the_middle_of_its_widest_row(t: int, full: int):
    t = choose(t, 0, 7)
    full = choose(full, 0, 1)
    text = CART_TEXTS[t]
    bp = new(GridDesign, geom="cartesian", symmetry=("full" if full == 1 else "quarter reflective"), latticeMap=text, gridContents=None)
    gridBp.GridBlueprint._readGridContentsLattice(bp)
    got = {(k[0], k[1]): v for k, v in bp.gridContents.items()}
    assert got == expected_from_text(text, full == 1), "every token sits at its text position counted from the middle of the map"
    if full == 1 and t == 1:
        assert got[(0, 0)] == "CC", "the label in the middle of the widest row of an odd map is (0,0)"


@lemma(gen={"a": (-5, 5), "b": (-5, 5), "c": (-5, 5), "d": (-5, 5), "e": (-5, 5), "f": (-5, 5)})
def grid_size_is_the_extent_of_all_indices(a: int, b: int, c: int, d: int, e: int, f: int):
    nx, ny = gridBp._getGridSize([(a, b), (c, d), (e, f)])
    assert nx == max(a, c, e) - min(a, c, e) + 1 and ny == max(b, d, f) - min(b, d, f) + 1
    assert nx >= 1 and ny >= 1
