"""C04 finding (refuted on the unchanged tree): the database layout does not keep the child order.

C04: "... loads back observationally equal: the same tree of objects with the same types, names, serial numbers, CHILD
ORDER ...".  Layout._createLayout walks `sorted(list(comp))`, i.e. the children ordered by Composite.__lt__ (location) /
Component.__lt__ (bounding-circle diameter), not the child list.  For a parent whose children are not already in that
order the stored pre-order (serialNum / name / numChildren ...) is the one of a DIFFERENT child order, and Database.load
rebuilds the children in the stored order.  (Deductive restatement of the bounded-tier finding F70
`db.child-order.resorted`; the lemmas of contracts/C04_createlayout.py prove the same assertions under the hypothesis
that the children are in sorted order, and that parents / subtrees / per-class indices are right in any case.)

Not picked up by ./check (directory contracts/pending).  Run:
  python3-vt -m pyvc.run contracts/pending/C04_createlayout_finding.py
Native reproduction (PYTHONPATH=/repo /venv/bin/python):
  import armi; armi.configure(permissive=True)
  from armi.reactor.composites import Composite
  from armi.reactor import grids
  from armi.bookkeeping.db.layout import Layout, DB_MAJOR, DB_MINOR
  root = Composite("root"); root.spatialLocator = grids.CoordinateLocation(0.0, 0.0, 0.0, None)
  a = Composite("a"); b = Composite("b")
  a.spatialLocator = grids.IndexLocation(5, 0, 0, None); b.spatialLocator = grids.IndexLocation(2, 0, 0, None)
  root.add(a); root.add(b)
  lay = Layout((DB_MAJOR, DB_MINOR), comp=root)
  print([c.name for c in root], list(lay.name))   # observed ['a', 'b'] ['root', 'b', 'a']; expected ['root', 'a', 'b']
"""
from spec import *

layout = repo("armi.bookkeeping.db.layout")
Layout = repo("armi.bookkeeping.db.layout:Layout")
Composite = repo("armi.reactor.composites:Composite")
Assembly = repo("armi.reactor.assemblies:Assembly")
Circle = repo("armi.reactor.components.basicShapes:Circle")
IndexLocation = repo("armi.reactor.grids.locations:IndexLocation")
CoordinateLocation = repo("armi.reactor.grids.locations:CoordinateLocation")


class PStub:
    """stand-in for the parameter collection of a node: `serialNum` (and `temperatureInC`, `od`, `id` of a component)
    are read; p[key] is the parameter of that name"""

    def __getitem__(self, key):
        return getattr(self, key)


class Mat:
    """stand-in for a material object: only its class name is stored in the layout"""


def allSubclasses_contract(cls):
    """assumed contract of Layout.allSubclasses: some set of classes (what it contains is irrelevant to the layout lists)"""
    return set()


STUBS = {"armi.bookkeeping.db.layout:Layout.allSubclasses": "allSubclasses_contract"}


# ---------------------------------------------------------------------------------------------- shapes and the naive walk
def kids(n, par, i):
    return [j for j in range(1, n) if par[j] == i]


def preorder(n, par, i):
    """naive pre-order walk from the parent vector: the node, then each child's walk, children in child order"""
    out = [i]
    for k in kids(n, par, i):
        out = out + preorder(n, par, k)
    return out


def subtree(n, par, i):
    return preorder(n, par, i)


def cls_of(n, par, i, bits):
    """class of node i: inner nodes (and the root) Composite / Assembly by their bit; a childless node is a Circle
    component when its parent's bit is set and all its siblings are childless too (a block-like parent: components are
    only ever siblings of components), else a Composite"""
    if len(kids(n, par, i)) > 0 or i == 0:
        return Assembly if bits[i] else Composite
    sibs = kids(n, par, par[i])
    if bits[par[i]] and all(len(kids(n, par, x)) == 0 for x in sibs):
        return Circle
    return Composite


def mk_tree(n, par, bits, sns, locs, temps):
    """n real objects linked as the parent vector says (children in index order).  Child m sits at grid-less
    IndexLocation(locs[m], 0, 0); the root at a free coordinate."""
    nodes = []
    for i in range(n):
        c = cls_of(n, par, i, bits)
        p = new(PStub, serialNum=sns[i])
        loc = CoordinateLocation(0.0, 0.0, 0.0, None) if i == 0 else IndexLocation(locs[i], 0, 0, None)
        if c is Circle:
            p.temperatureInC = temps[i][1]
            p.od = temps[i][2]
            p.id = temps[i][3]
            nodes.append(new(Circle, name="n%d" % i, parent=None, _children=[], p=p, spatialLocator=loc, spatialGrid=None,
                             inputTemperatureInC=temps[i][0], material=new(Mat)))
        else:
            nodes.append(new(c, name="n%d" % i, parent=None, _children=[], p=p, spatialLocator=loc, spatialGrid=None))
    for i in range(1, n):
        nodes[par[i]]._children.append(nodes[i])
        nodes[i].parent = nodes[par[i]]
    return nodes


def positive(name):
    """an arbitrary real > 0 (natively: made positive instead of being drawn until it is)"""
    v = sym_real(name)
    if NATIVE:
        return abs(v) + 0.01
    assume(v > 0)
    return v


def natural(name):
    """an arbitrary integer >= 0"""
    v = sym_int(name)
    if NATIVE:
        return abs(v)
    assume(v >= 0)
    return v


def below(name, hi):
    """an arbitrary real in [0, hi) for hi > 0"""
    v = sym_real(name)
    if NATIVE:
        return hi * ((abs(v) / 10.0) % 1.0)
    assume(0 <= v and v < hi)
    return v


FIXED_SNS = [7, 3, 9, 1, 5]


def symbols(n, par, ordered, fixed_sns=False):
    """symbolic contents of the n nodes.  Serial numbers pairwise different (parameter collections hand them out from a
    counter) - symbolic, or with fixed_sns the concrete numbers 7, 3, 9, 1, 5 (the 5-node lemmas: the dictionary keyed
    by symbolic serial numbers is what makes them slow; the layout code only stores them and uses them as keys); a
    circle's inner diameter below its outer one.  ordered=True: every child sits at a location above its previous
    sibling's and (components) has a larger outer diameter - i.e. the child lists are in the order in which
    Composite.__lt__ / Component.__lt__ sort; ordered=False: locations and diameters of siblings are unrelated."""
    if fixed_sns:
        sns = FIXED_SNS[:n]
    else:
        sns = [sym_int("sn%d" % m) for m in range(n)]
        for m in range(n):
            for q in range(m):
                assume(sns[m] != sns[q])
    locs, temps = [], []
    for m in range(n):
        prev = [x for x in kids(n, par, par[m]) if x < m] if m > 0 else []
        if ordered and len(prev) > 0:
            loc = locs[prev[-1]] + 1 + natural("dloc%d" % m)
            od = temps[prev[-1]][2] + positive("dod%d" % m)
        else:
            loc = sym_int("loc%d" % m)
            od = positive("od%d" % m)
        locs.append(loc)
        temps.append((sym_real("tin%d" % m), sym_real("thot%d" % m), od, below("id%d" % m, od)))
    return sns, locs, temps


def bits_of(n, tmask):
    return [(tmask // (2 ** m)) % 2 == 1 for m in range(n)]


def same_seq(xs, ys):
    if len(xs) != len(ys):
        return False
    for k in range(len(xs)):
        if not same(xs[k], ys[k]):
            return False
    return True


def both(a, b):
    """conjunction of two already evaluated conditions (one obligation per topic instead of one per node)"""
    return a and b


def row_is(lay, sn, q):
    """Layout[sn] is the q-th entry of every list"""
    row = lay[sn]
    c1 = len(row) == 9 and row[0] == lay.type[q] and row[1] == lay.name[q] and row[5] == lay.locationType[q] and row[8] == lay.material[q]
    c2 = row[2] == lay.serialNum[q]
    c3 = row[3] == lay.indexInData[q]
    c4 = row[4] == lay.numChildren[q]
    c5 = same(row[6], lay.location[q])
    c6 = same(row[7], lay.temperatures[q])
    return both(both(both(c1, c2), both(c3, c4)), both(c5, c6))


def own_entries_ok(lay, q, j, c, n, par, sns, locs, temps):
    """the entries of object j, found at position q: class, name, serial number, number of children, location, grid
    index, temperatures, material"""
    c1 = lay.type[q] == c.__name__ and lay.name[q] == "n%d" % j and lay.gridIndex[q] is None
    c2 = lay.serialNum[q] == sns[j]
    c3 = lay.numChildren[q] == len(kids(n, par, j))
    if j == 0:
        loc = tuple(lay.location[q])
        c4 = lay.locationType[q] == layout.LOC_COORD and len(loc) == 3
        c5 = both(loc[0] == 0.0, both(loc[1] == 0.0, loc[2] == 0.0))
    else:
        loc = tuple(lay.location[q])
        c4 = lay.locationType[q] == layout.LOC_INDEX and len(loc) == 3
        c5 = both(loc[0] == locs[j], both(loc[1] == 0, loc[2] == 0))
    t = lay.temperatures[q]
    if c is Circle:
        c6 = lay.material[q] == "Mat" and len(t) == 2
        c7 = both(t[0] == temps[j][0], t[1] == temps[j][1])
    else:
        c6 = lay.material[q] == "" and len(t) == 2
        c7 = both(t[0] == -900, t[1] == -900)
    return both(both(both(c1, c2), both(c3, c4)), both(c5, both(c6, c7)))


def check_layout_in_child_order(n, par, tmask, ordered, fixed_sns=False):
    """the layout of the tree must be the pre-order walk IN CHILD ORDER.  `ordered`: the children of every node are
    already in the order of Composite.__lt__ / Component.__lt__ (hypothesis of the lemmas of this file; not of the
    finding lemma in contracts/pending)"""
    bits = bits_of(n, tmask)
    sns, locs, temps = symbols(n, par, ordered, fixed_sns)
    nodes = mk_tree(n, par, bits, sns, locs, temps)
    lay = Layout((layout.DB_MAJOR, layout.DB_MINOR), comp=nodes[0])
    pre = preorder(n, par, 0)
    assert len(pre) == n
    for lst in (lay.type, lay.name, lay.serialNum, lay.indexInData, lay.numChildren, lay.locationType, lay.location,
                lay.gridIndex, lay.temperatures, lay.material):
        assert len(lst) == n, "one entry per object in every layout list"
    order_ok, own_ok, index_ok = True, True, True
    for q in range(n):
        j = pre[q]
        c = cls_of(n, par, j, bits)
        is_j = lay.serialNum[q] == sns[j]
        order_ok = both(order_ok, is_j)
        own_ok = both(own_ok, own_entries_ok(lay, q, j, c, n, par, sns, locs, temps))
        same_type_before = [r for r in range(q) if cls_of(n, par, pre[r], bits) is c]
        is_k = lay.indexInData[q] == len(same_type_before)
        index_ok = both(index_ok, is_k)
    assert order_ok, "serial numbers in pre-order, children in child order"
    assert own_ok, "every object's own entries (class, name, children, location, temperatures, material) at its pre-order position"
    assert index_ok, "indexInData counts the objects of the same class laid out before"
    # grouping by class: the objects of each class in layout order (what Database._writeParams iterates)
    for c in (Composite, Assembly, Circle):
        want = [nodes[j] for j in pre if cls_of(n, par, j, bits) is c]
        if len(want) > 0:
            assert same_seq(lay.groupedComps[c], want), "groupedComps: the objects of a class, in layout order"
    assert len([c for c in lay.groupedComps]) == len(set(cls_of(n, par, j, bits).__name__ for j in range(n)))
    # the way back: parents from the flat lists = the real parents (round trip `same tree ... child order`)
    anc = Layout.computeAncestors(lay.serialNum, lay.numChildren)
    assert len(anc) == n and anc[0] is None, "the root has no parent"
    anc_ok = True
    for q in range(1, n):
        assert anc[q] is not None
        is_p = anc[q] == nodes[pre[q]].parent.p.serialNum
        anc_ok = both(anc_ok, is_p)
    assert anc_ok, "computeAncestors on the created layout: the real parent of every object"
    # look-up by serial number
    rows_ok = True
    for q in range(n):
        rows_ok = both(rows_ok, row_is(lay, sns[pre[q]], q))
    assert rows_ok, "Layout[sn]: that object's row"


@lemma(gen={"n": (3, 4), "p2": (0, 1), "p3": (0, 2)}, stubs=STUBS)
def layout_keeps_the_child_order_whatever_the_locations(n: int, p2: int, p3: int):
    """every tree shape with 3..4 nodes, all Composite, children at ARBITRARY symbolic locations: the layout lists must
    be the pre-order walk in CHILD order (refuted: two siblings whose locations are in descending order come out swapped)"""
    n = choose(n, 3, 4)
    p2 = choose(p2, 0, 1)
    p3 = choose(p3, 0, 2 if n > 3 else 0)
    check_layout_in_child_order(n, [0, 0, p2, p3], 0, False)


@lemma(gen={"k": (2, 3)}, stubs=STUBS)
def layout_keeps_the_order_of_the_components_of_a_block(k: int):
    """a block-like parent with k = 2..3 Circle components of ARBITRARY diameters (refuted: components are stored by
    increasing bounding-circle diameter, not in child order)"""
    k = choose(k, 2, 3)
    check_layout_in_child_order(k + 1, [0] * (k + 1), 1, False)
