"""C14 - clauses of the Core class invariant that the UNCHANGED armi tree violates (refuted lemmas; findings).

Not picked up by ./check.  Run:  python3-vt -m pyvc.run contracts/pending/C14_core_finding.py -v
The world (stand-ins, Inv) is the one of contracts/C14_core.py (copied below, see its docstring).

F-A  Core.add(a) / Core.add(a, loc) with a locator that does NOT belong to the core grid (the free CoordinateLocation of a
     fresh assembly, a detached locator kept from an earlier removal, a pool locator) whose indices name an OCCUPIED
     cell: the occupancy test compares locators (equal only within the same grid), finds nothing, and the assembly is
     put on top of the occupant; childrenByLocator then lists one of two assemblies sharing a cell.
F-B  Assembly.moveTo(free cell) leaves the entry of the OLD cell in childrenByLocator: the location lookup returns an
     assembly for a cell that is empty.
F-C  Core.add of an assembly whose name is already used by another assembly of the core raises RuntimeError AFTER the
     assembly was appended, moved and entered in childrenByLocator: a refused operation changes the core.
F-E  Core.add(a, loc) with a location outside the represented third of a third-core model raises LookupError AFTER the
     assembly was appended to the children: the refused assembly is a child of the core that no location lookup lists.
F-D  (known finding F164/F165) tracked discharge without a pool leaves the names of an assembly that is nowhere.
"""
import numpy as np

from spec import *

Core = repo("armi.reactor.cores:Core")
Assembly = repo("armi.reactor.assemblies:Assembly")
Reactor = repo("armi.reactor.reactors:Reactor")
HexGrid = repo("armi.reactor.grids.hexagonal:HexGrid")
IndexLocation = repo("armi.reactor.grids.locations:IndexLocation")
CoordinateLocation = repo("armi.reactor.grids.locations:CoordinateLocation")
FuelHandler = repo("armi.physics.fuelCycle.fuelHandlers:FuelHandler")
SpentFuelPool = repo("armi.reactor.spentFuelPool:SpentFuelPool")


# ----------------------------------------------------------------------------- stand-ins (collaborators)
class PMap:
    def __getitem__(self, k):
        return getattr(self, k)

    def __setitem__(self, k, v):
        setattr(self, k, v)

    def __contains__(self, k):
        return hasattr(self, k)


class ParametersStub:
    """armi.reactor.parameters as seen from cores.py: no definitions whose `assigned` flag would be reset"""

    ALL_DEFINITIONS = ()
    SINCE_ANYTHING = 0

    @staticmethod
    def forType(cls):
        return ()


class BlockStub:
    """a block as seen by the core bookkeeping: name, flags, symmetry factor, an existing pin grid"""

    def getName(self):
        return self.name

    def hasFlags(self, f):
        return f in self.flags

    def getSymmetryFactor(self):
        return self.symmetryFactor

    def clearCache(self):
        return None


class AxialStub:
    """the axial grid of an assembly: (0, 0, k) -> a locator of this grid"""

    def __getitem__(self, ijk):
        return IndexLocation(ijk[0], ijk[1], ijk[2], self)


class PoolStub(SpentFuelPool):
    """spent-fuel pool (a SpentFuelPool as far as isinstance goes; the three methods the code under contract calls are
    replaced): add(a) makes `a` a child of the pool, remove(a) takes it out, getChildren() lists the children"""

    def add(self, a):
        a.parent = self
        self.kids.append(a)

    def getChildren(self):
        return list(self.kids)

    def remove(self, a):
        self.kids.remove(a)
        a.parent = None


class ExcoreStub:
    def get(self, name, default=None):
        return self.items.get(name, default)

    def __getitem__(self, name):
        return self.items[name]

    def __getattr__(self, name):
        if name.startswith("__") or name == "items":
            raise AttributeError(name)
        return self.items[name]


class OperatorStub:
    pass


class Marker:
    """an opaque object of which only the identity matters (a pin grid, a foreign grid)"""


def fissile_contract(self):
    return 1000.0


def maxparam_contract(self, name):
    return 0.5


def ringpos_contract(self, indices):
    """contract of HexGrid.getRingPos proved in contracts/C07_grids.py (hex_ring_is_distance_plus_one,
    hex_ringpos_roundtrip_from_indices): ring = hex distance + 1; the position is not used by the code under contract"""
    i, j = indices[0], indices[1]
    return max(abs(i), abs(j), abs(i + j)) + 1, 1


STUBS = {"armi.reactor.composites:ArmiObject.getFissileMass": "fissile_contract",
         "armi.reactor.composites:ArmiObject.getMaxParam": "maxparam_contract",
         "armi.reactor.grids.hexagonal:HexGrid.getRingPos": "ringpos_contract"}
STUBS_REAL_RINGS = {"armi.reactor.composites:ArmiObject.getFissileMass": "fissile_contract",
                    "armi.reactor.composites:ArmiObject.getMaxParam": "maxparam_contract"}  # where the ring POSITION matters (first-third test)
OVERRIDES = {"armi.reactor.cores:parameters": "ParametersStub"}


# ----------------------------------------------------------------------------- the world
def hexgrid(symmetry):
    us = HexGrid._getRawUnitSteps(1.0, False)
    return new(HexGrid, _unitSteps=np.array(us), _bounds=(None, None, None), _stepDims=((0, 1, 2),), _boundDims=((),),
               _offset=np.zeros(3), _unitStepLimits=((-3, 3), (-3, 3), (0, 1)), _symmetry=symmetry, _isAxialOnly=False,
               armiObject=None, _locations={}, _geomType="hex", _backup=None)


def block(name, k, grid, stationary):
    return new(BlockStub, name=name, flags=(["GRID_PLATE"] if stationary else ["FUEL"]), symmetryFactor=1.0,
               spatialGrid=new(Marker), spatialLocator=IndexLocation(0, 0, k, grid), parent=None, p=new(PMap, ztop=10.0 * (k + 1)))


def assembly(num, nBlocks, label, stationary=()):
    """Assembly number `num` with nBlocks blocks B<num>-00k; the blocks whose index is in `stationary` are grid plates"""
    ax = new(AxialStub)
    a = new(Assembly, name="A%04d" % num, _children=[], parent=None, spatialLocator=CoordinateLocation(0.0, 0.0, 0.0, None),
            spatialGrid=ax, lastLocationLabel=label, cached={},
            p=new(PMap, type="fuel", assemNum=num, numMoves=0, daysSinceLastMove=7.0, multiplicity=1.0, dischargeTime=0.0, chargeTime=0.0,
                  chargeCycle=0, chargeFis=0.0, chargeBu=0.0))
    for k in range(nBlocks):
        b = block("B%04d-%03d" % (num, k), k, ax, k in stationary)
        b.parent = a
        a._children.append(b)
    return a


def world(track, withPool, numRings, maxAssemNum, symmetry="full"):
    """an empty core in a reactor (with or without a pool); returns (core, reactor, pool)"""
    g = hexgrid(symmetry)
    pool = new(PoolStub, kids=[], parent=None)
    r = new(Reactor, name="r", p=new(PMap, time=12.5, cycle=3, maxAssemNum=maxAssemNum), excore=new(ExcoreStub, items=({"sfp": pool} if withPool else {})),
            parent=None, _children=[])
    core = new(Core, name="core", _children=[], childrenByLocator={}, assembliesByName={}, blocksByName={}, spatialGrid=g, parent=r,
               spatialLocator=CoordinateLocation(0.0, 0.0, 0.0, None), numRings=numRings, _trackAssems=track, cached={},
               stationaryBlockFlagsList=["GRID_PLATE"], p=new(PMap, maxAssemNum=maxAssemNum, numMoves=0))
    g.armiObject = core
    r.core = core
    pool.parent = r
    return core, r, pool


def place(core, a, i, j):
    """put `a` into the core's tables at cell (i, j) - the state Inv describes, built directly"""
    loc = core.spatialGrid[i, j, 0]
    a.parent = core
    a.spatialLocator = loc
    core._children.append(a)
    core.childrenByLocator[loc] = a
    core.assembliesByName[a.name] = a
    for b in a._children:
        core.blocksByName[b.name] = b


def register_pooled(core, pool, a):
    """`a` sits in the pool and is tracked by name"""
    a.parent = pool
    pool.kids.append(a)
    core.assembliesByName[a.name] = a
    for b in a._children:
        core.blocksByName[b.name] = b


def inv(core, pool):
    """the class invariant Inv(core) (see module docstring)"""
    g = core.spatialGrid
    kids = list(core._children)
    ok = len(core.childrenByLocator) == len(kids)
    nBlocks = 0
    for c in kids:
        ok = ok and c.parent is core and c.spatialLocator.grid is g
        ok = ok and core.childrenByLocator.get(c.spatialLocator) is c
    for c in kids + list(pool.kids):
        ok = ok and core.assembliesByName.get(c.name) is c
        for b in c._children:
            nBlocks += 1
            ok = ok and b.parent is c and core.blocksByName.get(b.name) is b
    ok = ok and len(core.assembliesByName) == len(kids) + len(pool.kids)
    ok = ok and len(core.blocksByName) == nBlocks
    return ok


def at(core, i, j):
    """the assembly the core's location lookup returns for cell (i, j), by an independent key (the index tuple)"""
    return core.childrenByLocator.get((i, j, 0))


def hexring(i, j):
    return max(abs(i), abs(j), abs(i + j)) + 1


GEN = {"n": (0, 2), "i1": (-3, 3), "j1": (-3, 3), "i2": (-3, 3), "j2": (-3, 3), "i": (-3, 3), "j": (-3, 3), "nb": (1, 3),
       "rings": (0, 5), "maxNum": (0, 12), "which": (0, 1), "mode": (0, 2)}


def populated(n, i1, j1, i2, j2, track, withPool, rings, maxNum):
    core, r, pool = world(track, withPool, rings, maxNum)
    a1 = assembly(1, 2, "001-001")
    a2 = assembly(2, 1, "002-001")
    if n >= 1:
        place(core, a1, i1, j1)
    if n >= 2:
        place(core, a2, i2, j2)
    return core, r, pool, a1, a2


# ----------------------------------------------------------------------------- F-A
@lemma(gen=GEN, stubs=STUBS, overrides=OVERRIDES, timeout=60)
def add_on_an_occupied_cell_through_a_foreign_locator_keeps_one_assembly_per_location(n: int, i1: int, j1: int, i2: int, j2: int, which: int, kind: int, own: bool):
    """the cell of a present assembly named by a locator that is not of the core grid (kind 0: free coordinate
    locator at the origin - only when the occupant sits at (0, 0); 1: detached index locator; 2: locator of another
    grid): the property allows a refusal or a placement elsewhere, but never two assemblies at one location"""
    n = choose(n, 1, 2)
    which = choose(which, 0, n - 1)
    kind = choose(kind, 0, 2)
    core, r, pool, a1, a2 = populated(n, i1, j1, i2, j2, False, True, 4, 9)
    assume(inv(core, pool))
    occ = core._children[which]
    i, j = occ.spatialLocator.i, occ.spatialLocator.j
    a = assembly(7, 1, "LoadQueue")
    if kind == 0:
        assume((i, j) == (0, 0))
        loc = a.spatialLocator  # CoordinateLocation(0, 0, 0, None): what every fresh assembly carries
    elif kind == 1:
        loc = IndexLocation(i, j, 0, None)
    else:
        loc = IndexLocation(i, j, 0, new(Marker))
    a.spatialLocator = loc
    try:
        if own:
            core.add(a)
        else:
            core.add(a, loc)
        added = True
    except (ValueError, LookupError):
        added = False
    assert inv(core, pool), "Inv: one location, at most one assembly; the location table lists exactly the children"
    assert at(core, i, j) is occ, "the occupant is still the one found at its location"
    assert added == (a.parent is core)


# ----------------------------------------------------------------------------- F-B
@lemma(gen=GEN, stubs=STUBS, overrides=OVERRIDES, timeout=60)
def move_to_a_free_location_releases_the_old_one(n: int, i1: int, j1: int, i2: int, j2: int, i: int, j: int):
    n = choose(n, 1, 2)
    core, r, pool, a1, a2 = populated(n, i1, j1, i2, j2, False, True, 4, 9)
    assume(inv(core, pool))
    assume((i, j) != (i1, j1))
    assume(n < 2 or (i, j) != (i2, j2))  # the target cell is free
    a1.moveTo(core.spatialGrid[i, j, 0])
    assert at(core, i, j) is a1
    assert at(core, i1, j1) is None, "nobody sits at the old location any more"
    assert inv(core, pool), "Inv preserved"


# ----------------------------------------------------------------------------- F-C
@lemma(gen=GEN, stubs=STUBS, overrides=OVERRIDES, timeout=60)
def add_refused_for_a_name_clash_changes_nothing(n: int, i1: int, j1: int, i2: int, j2: int, i: int, j: int):
    n = choose(n, 1, 2)
    core, r, pool, a1, a2 = populated(n, i1, j1, i2, j2, False, True, 4, 9)
    assume(inv(core, pool))
    assume((i, j) != (i1, j1))
    assume(n < 2 or (i, j) != (i2, j2))
    twin = assembly(1, 1, "LoadQueue")  # a second assembly called A0001
    try:
        core.add(twin, core.spatialGrid[i, j, 0])
        refused = False
    except RuntimeError:
        refused = True
    assert refused
    assert inv(core, pool), "a refused add leaves the tables exact"
    assert len(core._children) == n and twin.parent is None and at(core, i, j) is None, "and the core unchanged"


# ----------------------------------------------------------------------------- F-D (known: F164 / F165)
@lemma(gen=GEN, stubs=STUBS, overrides=OVERRIDES, timeout=60)
def tracked_discharge_without_a_pool_forgets_the_names(n: int, i1: int, j1: int, i2: int, j2: int):
    n = choose(n, 1, 2)
    core, r, pool, a1, a2 = populated(n, i1, j1, i2, j2, True, False, 4, 9)
    assume(inv(core, pool))
    core.removeAssembly(a1, discharge=True)
    assert a1.parent is None
    assert "A0001" not in core.assembliesByName and "B0001-000" not in core.blocksByName, "an assembly that is neither in the core nor in a pool is not returned by name"
    assert inv(core, pool)


# ----------------------------------------------------------------------------- F-E
@lemma(gen=dict(GEN, i=(-4, 4), j=(-4, 4)), stubs=STUBS_REAL_RINGS, overrides=OVERRIDES, timeout=60)
def add_outside_the_represented_third_is_refused_and_changes_nothing(i: int, j: int):
    core, r, pool = world(False, True, 9, 9, "third periodic")
    a = assembly(7, 1, "LoadQueue")
    target = core.spatialGrid[i, j, 0]
    assume(not core.spatialGrid.isInFirstThird(target, includeTopEdge=True))
    try:
        core.add(a, target)
        refused = False
    except LookupError:
        refused = True
    assert refused, "a location outside the represented domain is refused"
    assert len(core._children) == 0 and a.parent is None, "and the core is unchanged"
    assert inv(core, pool)
