"""C16 - back-ups unwind last-in first-out: one push/pop step from an ARBITRARY prior backup state.

Each lemma is the inductive step for any nesting depth: whatever chain of earlier back-ups `B0` is already stored,
backUp() followed by arbitrary changes and restoreBackup() returns to the state at entry AND to the chain `B0`.
"""
import numpy as np

from spec import *

HexGrid = repo("armi.reactor.grids.hexagonal:HexGrid")
Composite = repo("armi.reactor.composites:Composite")
Parameter = repo("armi.reactor.parameters.parameterDefinitions:Parameter")


class Marker:
    """an opaque earlier backup chain / cache object (only its identity matters)"""


def grid(pitch, ox, oy, prior):
    us = HexGrid._getRawUnitSteps(pitch, False)
    return new(HexGrid, _unitSteps=np.array(us), _bounds=(None, None, None), _stepDims=((0, 1, 2),), _boundDims=((),),
               _offset=np.array((ox, oy, 0.0)), _unitStepLimits=((-3, 3), (-3, 3), (0, 1)), _backup=prior)


@lemma(gen={"p1": (0.1, 30.0), "p2": (0.1, 30.0), "p3": (0.1, 30.0)})
def grid_backup_step_restores_entry_state(p1: float, p2: float, p3: float, ox: float, oy: float, nx: float):
    assume(p1 > 0 and p2 > 0 and p3 > 0)
    prior = new(Marker)
    g = grid(p1, ox, oy, prior)
    g.backUp()
    # arbitrary changes inside the scope, including a nested scope
    g.changePitch(p2)
    g._offset = np.array((nx, oy, 0.0))
    g.backUp()
    g.changePitch(p3)
    g.restoreBackup()
    assert eq(g.pitch, p2), "inner scope restores the state at ITS entry"
    assert eq(g._offset[0], nx)
    g.restoreBackup()
    assert eq(g.pitch, p1), "outer scope restores the state at its entry"
    assert eq(g._offset[0], ox) and eq(g._offset[1], oy)
    assert same(g._backup, prior), "and the earlier chain of back-ups is intact"


class ParamStub:
    """the parameter collection of the composite (its own back-up is covered by the bounded tier)"""

    def backUp(self):
        self.calls = self.calls + 1

    def restoreBackup(self, keep):
        self.calls = self.calls - 1


@lemma
def composite_cache_backup_step():
    prior = new(Marker)
    cache0 = {"volume": 1.5}
    c = new(Composite, cached=cache0, _backupCache=prior, p=new(ParamStub, calls=0), spatialGrid=None)
    c.backUp()
    assert len(c.cached) == 0, "caches are emptied inside the scope"
    c.cached["area"] = 2.0  # a cache computed inside the scope
    c.backUp()
    c.cached["x"] = 1.0
    c.restoreBackup(set())
    assert "x" not in c.cached and "area" in c.cached
    c.restoreBackup(set())
    assert same(c.cached, cache0), "the cache object of the entry state is back: nothing computed inside leaks out"
    assert "area" not in c.cached
    assert same(c._backupCache, prior)
    assert c.p.calls == 0, "parameter collection backed up and restored once per level"


@lemma(gen={"a0": (0, 7), "a1": (0, 7), "a2": (0, 7)})
def parameter_definition_flags_backup_step(a0: int, a1: int, a2: int, kept: bool):
    prior = new(Marker)
    pd = new(Parameter, name="power", _backup=prior, assigned=a0)
    other = new(Parameter, name="flux", _backup=None, assigned=0)
    pd.backUp()
    pd.assigned = a1
    pd.backUp()
    pd.assigned = a2
    keep = {pd} if kept else {other}
    pd.restoreBackup(keep)
    assert pd.assigned == (a2 if kept else a1), "a kept definition retains its new flags, others return to the entry flags"
    pd.restoreBackup(set())
    assert pd.assigned == a0
    assert same(pd._backup, prior)
