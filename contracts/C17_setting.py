"""C17 - the logic of Setting / Settings / SettingsReader / SettingsWriter around the value store: rejected values
leave the previous value in place, renamed settings land on the new name, modified copies do not alias the original,
the short style omits exactly the settings at default.

Real code executed: Setting.__init__ / _setSchema / setValue / value / default / isDefault / offDefault /
revertToDefault / __copy__ / __getstate__ / getCustomAttributes, Settings.__getitem__ / __setitem__ / __contains__ /
getSetting / _directAccessOfSettingAllowed / items / duplicate / modified / __setstate__ / revertToDefaults,
SettingRenamer.__init__ / renameSetting, SettingsReader._applySettings, SettingsWriter.__init__ /
_getSettingDataToWrite.
Stand-ins (collaborators outside the engine): `Vol` for the voluptuous package (contract: Schema(x)(v) applies x;
Coerce(T)(v) = T(v) or Invalid; In(opts)(v) = v if v in opts else Invalid; a list schema applies its element schema
to every entry of a list), `Range` (a custom schema callable: accepts integers in [lo, hi], else Invalid),
`app_contract` for armi.getApp() (contract: getSettings() returns FRESH default definitions of the settings),
`Dates` for the datetime module (days as integers).  A settings object holds 3 settings (int with custom schema, int
with type schema, option list); values symbolic.
"""
from spec import *

Setting = repo("armi.settings.setting:Setting")
Settings = repo("armi.settings.caseSettings:Settings")
NonexistentSetting = repo("armi.utils.customExceptions:NonexistentSetting")
sio = repo("armi.settings.settingsIO")


class Invalid(Exception):
    pass


class VolError:
    Invalid = Invalid


class Coerce:
    def __init__(self, type):
        self.type = type

    def __call__(self, v):
        try:
            return self.type(v)
        except (ValueError, TypeError):
            raise Invalid("expected " + self.type.__name__)


class In:
    def __init__(self, container):
        self.container = container

    def __call__(self, v):
        if v not in self.container:
            raise Invalid("value is not allowed")
        return v


class Schema:
    def __init__(self, schema):
        self.schema = schema

    def __call__(self, v):
        if isinstance(self.schema, list):
            if not isinstance(v, list):
                raise Invalid("expected a list")
            return [self.schema[0](x) for x in v]
        return self.schema(v)


class Vol:
    """stand-in for the voluptuous package as used by armi.settings.setting"""

    error = VolError
    Schema = Schema
    Coerce = Coerce
    In = In


class Range:
    """a custom schema: integers lo..hi are accepted unchanged, anything else is Invalid"""

    def __init__(self, lo, hi):
        self.lo = lo
        self.hi = hi

    def __call__(self, v):
        if not (self.lo <= v and v <= self.hi):
            raise Invalid("out of range")
        return v


def definitions():
    return {
        "nCycles": Setting("nCycles", 1, "number of cycles", schema=Range(1, 99), oldNames=[("numCycles", None), ("cyclesOld", 5)]),
        "numProcessors": Setting("numProcessors", 4, "number of processes"),
        "geomKind": Setting("geomKind", "hex", "geometry", options=["hex", "cartesian", "rz"], enforcedOptions=True, oldNames=[("geometry", 50)]),
    }


class App:
    def getSettings(self):
        return definitions()


def app_contract():
    """contract of armi.getApp(): an application whose getSettings() returns fresh default definitions"""
    return App()


def settings():
    return new(Settings, _Settings__settings=definitions(), path="", _failOnLoad=False, filelessBP=False)


OV = {"armi.settings.setting:vol": "Vol"}


@lemma(overrides=OV, gen={"a": (-5, 120), "b": (-5, 120), "c": (-5, 120), "which": (0, 4)})
def rejected_value_leaves_the_previous_value_in_place(a: int, b: int, c: int, which: int):
    cs = settings()
    for v in (a, b, c):
        before = cs["nCycles"]
        try:
            cs["nCycles"] = v
            accepted = True
        except Invalid:
            accepted = False
        assert accepted == (1 <= v and v <= 99), "accepted exactly when the schema admits it, rejected with an error otherwise"
        assert cs["nCycles"] == (v if accepted else before), "a rejected value leaves the previous value in place"
        assert cs["numProcessors"] == 4 and cs["geomKind"] == "hex", "no other setting changes"
    which = choose(which, 0, 4)
    opt = ("hex", "cartesian", "rz", "tri", 3)[which]
    try:
        cs["geomKind"] = opt
        ok = True
    except Invalid:
        ok = False
    assert ok == (which <= 2) and cs["geomKind"] == (opt if ok else "hex"), "option lists are enforced; a refused option changes nothing"
    try:
        cs["nCycels"] = a
        known = True
    except NonexistentSetting:
        known = False
    assert not known and "nCycels" not in cs, "an undefined name is refused and not created"


@lemma(overrides=OV, gen={"a": (-5, 120)})
def type_schema_coerces_or_rejects(a: int, x: float):
    cs = settings()
    cs["numProcessors"] = a
    assert cs["numProcessors"] == a
    for bad in ("abc", None, [1]):
        try:
            cs["numProcessors"] = bad
            ok = True
        except Invalid:
            ok = False
        assert not ok and cs["numProcessors"] == a, "a value of the wrong type is rejected and the previous value stays"
    cs["numProcessors"] = "12"
    assert cs["numProcessors"] == 12, "text that reads as the setting's type is coerced"
    s = cs.getSetting("numProcessors")
    assert s.offDefault == (12 != 4) and s.default == 4
    s.revertToDefault()
    assert s.value == 4 and s.isDefault()
    assert cs["numProcessors"] == 12, "getSetting hands out a copy: changing it does not change the settings object"


class Dates:
    """stand-in for the datetime module: a date is its day number; today is day TODAY"""

    class date:
        @staticmethod
        def today():
            return 10


OVR = {"armi.settings.setting:vol": "Vol", "armi.settings.settingsIO:datetime": "Dates"}


def reader(cs):
    return new(sio.SettingsReader, cs=cs, invalidSettings=set(), _renamer=sio.SettingRenamer(dict(cs.items())))


@lemma(overrides=OVR, gen={"a": (-5, 120), "b": (-5, 120)})
def renamed_settings_land_on_the_new_name(a: int, b: int):
    cs = settings()
    rd = reader(cs)
    assume(1 <= a and a <= 99)
    rd._applySettings("numCycles", a)  # old name, rename without expiry
    assert cs["nCycles"] == a, "a value given under the old name lands on the new name"
    assert "numCycles" not in cs and rd.invalidSettings == set()
    rd._applySettings("geometry", "rz")  # old name, rename that expires on day 50 > today
    assert cs["geomKind"] == "rz"
    rd._applySettings("cyclesOld", 7)  # rename expired on day 5 <= today: not applied, reported
    assert cs["nCycles"] == a and rd.invalidSettings == {"cyclesOld"}, "an expired old name is reported as invalid and applies nothing"
    rd._applySettings("numProcessors", b)  # current names are never renamed
    assert cs["numProcessors"] == b and cs["nCycles"] == a
    rd._applySettings("noSuchSetting", 1)
    assert rd.invalidSettings == {"cyclesOld", "noSuchSetting"} and "noSuchSetting" not in cs
    try:
        rd._applySettings("numCycles", a + 100)
        ok = True
    except Invalid:
        ok = False
    assert not ok and cs["nCycles"] == a, "an invalid value under an old name is rejected, previous value in place"


@lemma(overrides=OV, stubs={"armi:getApp": "app_contract"}, gen={"a": (1, 99), "b": (-5, 120), "c": (1, 99)})
def modified_copies_do_not_affect_the_original(a: int, b: int, c: int, d: int):
    cs = settings()
    assume(1 <= a and a <= 99 and 1 <= c and c <= 99)
    cs["nCycles"] = a
    cs["numProcessors"] = b
    cp = cs.modified(newSettings={"nCycles": c, "extra": d})
    assert cp["nCycles"] == c and cp["numProcessors"] == b and cp["geomKind"] == "hex" and cp["extra"] == d, "the copy carries the modifications and the other values"
    assert cs["nCycles"] == a and cs["numProcessors"] == b and "extra" not in cs, "the original is untouched"
    cp["numProcessors"] = b + 1
    cp["geomKind"] = "rz"
    assert cs["numProcessors"] == b and cs["geomKind"] == "hex", "later changes of the copy do not reach the original"
    cs["nCycles"] = 1 + (a % 99)
    assert cp["nCycles"] == c, "nor the other way round"
    try:
        cs.modified(newSettings={"numProcessors": 3, "nCycles": 0})
        ok = True
    except Invalid:
        ok = False
    assert not ok and cs["numProcessors"] == b and cs["nCycles"] == 1 + (a % 99), "a rejected modification leaves the original untouched"
    dup = cs.duplicate()
    dup.revertToDefaults()
    assert dup["numProcessors"] == 4 and cs["numProcessors"] == b


@lemma(overrides=OV, gen={"a": (1, 5), "b": (2, 6), "style": (0, 2), "u": (0, 7), "g": (0, 2)})
def short_style_omits_exactly_the_settings_at_default(a: int, b: int, style: int, g: int, u: int):
    """write styles enumerated (short, medium, full); `u` = subset of the 3 names the user had in the file (medium)"""
    cs = settings()
    assume(1 <= a and a <= 99)
    g = choose(g, 0, 2)
    style = choose(style, 0, 2)
    u = choose(u, 0, 7)
    names = ("geomKind", "nCycles", "numProcessors")  # alphabetical (case-insensitive) = writing order
    cs["nCycles"] = a
    cs["numProcessors"] = b
    cs["geomKind"] = ("hex", "cartesian", "rz")[g]
    byUser = [names[k] for k in range(3) if (u // 2 ** k) % 2 == 1]
    w = sio.SettingsWriter(cs, style=("short", "medium", "full")[style], settingsSetByUser=byUser)
    data = w._getSettingDataToWrite()
    off = {"numProcessors": b != 4, "geomKind": g != 0, "nCycles": a != 1}
    want = [n for n in names if style == 2 or off[n] or (style == 1 and n in byUser)]
    assert [s.name for s in data.keys()] == want, "short: exactly the settings off default; medium: plus those the user had written; full: all - in name order"
    for s in data.keys():
        assert data[s] == {"value": cs[s.name]}, "with their current values"


# ----------------------------------------------------------------------------- nested values (cycle history): copies are deep
class AnyValue:
    """a custom schema that admits every value unchanged (stand-in for the voluptuous schema of the nested `cycles` setting)"""

    def __call__(self, v):
        return v


def nested_settings(n0, n1, d0):
    defs = definitions()
    defs["cycles"] = Setting("cycles", [], "detailed cycle history", schema=AnyValue())
    cs = new(Settings, _Settings__settings=defs, path="", _failOnLoad=False, filelessBP=False)
    cs["cycles"] = [{"name": "startup", "cumulative days": [1, 2, d0], "burn steps": n0}, {"cycle length": 10, "burn steps": n1}]
    return cs


@lemma(overrides=OV, stubs={"armi:getApp": "app_contract"}, gen={"n0": (1, 9), "n1": (1, 9), "d0": (3, 30), "e": (31, 60)})
def copies_of_a_nested_setting_value_do_not_alias_the_original(n0: int, n1: int, d0: int, e: int):
    """a setting holding a NESTED value (the cycle history: a list of dicts holding lists): the Setting handed out by
    getSetting, and a Settings copy made from it by modified(newSettings={name: settingObject}), share no inner container
    with the original - editing the innermost list / dict of one never shows in the other"""
    cs = nested_settings(n0, n1, d0)
    s = cs.getSetting("cycles")
    assert s.value == cs["cycles"], "the copy carries an equal value"
    s.value[0]["cumulative days"].append(e)
    s.value[1]["burn steps"] = n1 + 1
    assert cs["cycles"][0]["cumulative days"] == [1, 2, d0] and cs["cycles"][1]["burn steps"] == n1, "editing the handed-out copy does not reach the original"
    cp = cs.modified(newSettings={"cycles": cs.getSetting("cycles")})
    cp["cycles"][0]["cumulative days"].append(e)
    cp["cycles"][1]["burn steps"] = n1 + 2
    cp["cycles"].append({"cycle length": 1})
    assert len(cs["cycles"]) == 2 and cs["cycles"][0]["cumulative days"] == [1, 2, d0] and cs["cycles"][1]["burn steps"] == n1, "nor does editing a modified copy"
    dup = cs.duplicate()
    dup["cycles"][0]["burn steps"] = n0 + 1
    assert cs["cycles"][0]["burn steps"] == n0 and dup["cycles"][0]["burn steps"] == n0 + 1, "nor a duplicate"
    cs["cycles"][0]["name"] = "changed"
    assert cp["cycles"][0]["name"] == "startup" and dup["cycles"][0]["name"] == "startup" and s.value[0]["name"] == "startup", "nor the other way round"


@lemma(overrides=OVR, gen={"b": (-5, 120), "order": (0, 5), "k1": (0, 2), "k2": (0, 2)})
def every_old_name_is_judged_by_its_own_expiry(b: int, order: int, k1: int, k2: int):
    """a setting with THREE old names in every order: one renamed for good (no expiry), two dated ones whose expiry day
    is before, on or after today (3 x 3 enumerated): a value given under an old name lands on the new name exactly when THAT name has no expiry or one after today -
    whatever the other old names of the same setting are and wherever they stand in the list"""
    order = choose(order, 0, 5)
    e1 = [5, 10, 50][choose(k1, 0, 2)]
    e2 = [5, 10, 50][choose(k2, 0, 2)]
    names = [("pumpCount", None), ("numPumps", e1), ("pumps", e2)]
    perm = [[0, 1, 2], [0, 2, 1], [1, 0, 2], [1, 2, 0], [2, 0, 1], [2, 1, 0]][order]
    defs = definitions()
    defs["coolantPumpCount"] = Setting("coolantPumpCount", 2, "number of pumps", oldNames=[names[k] for k in perm])
    cs = new(Settings, _Settings__settings=defs, path="", _failOnLoad=False, filelessBP=False)
    rd = reader(cs)
    rd._applySettings("pumpCount", b)
    assert cs["coolantPumpCount"] == b and rd.invalidSettings == set(), "the permanent old name is always accepted"
    rd._applySettings("numPumps", b + 1)
    live1 = e1 > 10  # today is day 10
    assert cs["coolantPumpCount"] == (b + 1 if live1 else b), "a dated old name is accepted while its own date lies ahead"
    assert ("numPumps" in rd.invalidSettings) == (not live1)
    rd._applySettings("pumps", b + 2)
    live2 = e2 > 10
    assert cs["coolantPumpCount"] == (b + 2 if live2 else (b + 1 if live1 else b))
    assert ("pumps" in rd.invalidSettings) == (not live2)
    rd._applySettings("numCycles", 3)
    assert cs["nCycles"] == 3, "renames of other settings are unaffected"
