"""C01 - the model tree stays a well-formed tree: unbounded-heap lemmas over the real Composite mutators.

Objects are terms of an uninterpreted sort; `parent`, `_children`, `spatialLocator`, `_grid` are heap fields
(SMT arrays).  WF is the data-structure invariant; each mutator is proved to preserve it with the stated view
and frame, so by induction it holds after every finite edit sequence that respects the preconditions.
"""
from spec import *

Composite = repo("armi.reactor.composites:Composite")
IndexLocation = repo("armi.reactor.grids.locations:IndexLocation")

declare_field("parent", "obj", Composite)
declare_field("_children", "seq", Composite)
declare_field("spatialLocator", "obj", IndexLocation)
declare_field("_grid", "obj", None)
declare_field("gidx", "int")  # ghost: position of an object in its parent's child list (witness for "is listed")


def ch(p):
    return field_of("_children", p)


def WF1():
    """a parent is the parent of every child it lists"""
    return forall(lambda p, k: is_none(p) or not (0 <= k and k < seq_len(ch(p))) or same(seq_at(ch(p), k).parent, p), Composite, "int")


def WF2():
    """a parent lists each child exactly once"""
    return forall(lambda p, k1, k2: is_none(p) or not (0 <= k1 and k1 < k2 and k2 < seq_len(ch(p))) or not same(seq_at(ch(p), k1), seq_at(ch(p), k2)), Composite, "int", "int")


def WF3():
    """an object with a parent is listed by that parent"""
    return forall(lambda c: is_none(c.parent) or (0 <= c.gidx and c.gidx < seq_len(ch(c.parent)) and same(seq_at(ch(c.parent), c.gidx), c)), Composite)


def lengths_nonneg():
    return forall(lambda p: seq_len(ch(p)) >= 0, Composite)


def contains_contract(self, item):
    """contract of Composite.__contains__ (identity membership), proved for concrete child lists below"""
    return exists(lambda k: 0 <= k and k < seq_len(ch(self)) and same(seq_at(ch(self), k), item))


def detached_contract(self):
    """contract of IndexLocation.detachedCopy: a fresh location that belongs to no grid"""
    o = heap_obj(IndexLocation, "detached")
    assume(is_none(o._grid))
    return o


STUBS = {"armi.reactor.composites:Composite.__contains__": "contains_contract",
         "armi.reactor.grids.locations:IndexLocation.detachedCopy": "detached_contract"}


def wf():
    return lengths_nonneg() and WF1() and WF2() and WF3()


@lemma(native=False, stubs={"armi.reactor.composites:Composite.__contains__": "contains_contract"}, timeout=30)
def add_keeps_the_tree_well_formed():
    self = heap_obj(Composite, "self")
    obj = heap_obj(Composite, "obj")
    assume(wf())
    assume(is_none(obj.parent))  # the object is not in any tree (precondition of the edit history)
    n0 = seq_len(ch(self))
    self.add(obj)
    obj.gidx = n0  # ghost update: the witness position of the new child
    assert WF1(), "WF1 preserved: a parent is the parent of every child it lists"
    assert WF2(), "WF2 preserved: each child listed once"
    assert WF3(), "WF3 preserved: an object with a parent is listed by it"
    assert lengths_nonneg()


@lemma(native=False, stubs={"armi.reactor.composites:Composite.__contains__": "contains_contract"}, timeout=30)
def add_appends_and_touches_nothing_else():
    self = heap_obj(Composite, "self")
    obj = heap_obj(Composite, "obj")
    assume(wf())
    assume(is_none(obj.parent))
    old = snapshot()
    n0 = seq_len(ch(self))
    self.add(obj)
    assert seq_len(ch(self)) == n0 + 1
    assert same(seq_at(ch(self), n0), obj), "appended last"
    assert same(obj.parent, self)
    assert forall(lambda k: not (0 <= k and k < n0) or same(seq_at(ch(self), k), in_snapshot(old, lambda: seq_at(ch(self), k)))), "earlier children unchanged"
    assert forall(lambda p: same(p, self) or seq_len(ch(p)) == in_snapshot(old, lambda: seq_len(ch(p))), Composite), "frame: other child lists"
    assert forall(lambda c: same(c, obj) or same(c.parent, in_snapshot(old, lambda: c.parent)), Composite), "frame: other parents"


@lemma(native=False, stubs={"armi.reactor.composites:Composite.__contains__": "contains_contract"}, timeout=30)
def add_refuses_a_child_it_already_has():
    self = heap_obj(Composite, "self")
    obj = heap_obj(Composite, "obj")
    assume(lengths_nonneg() and WF1() and WF2() and WF3())
    assume(same(obj.parent, self))
    try:
        self.add(obj)
        ok = True
    except RuntimeError:
        ok = False
    assert not ok


ALL_STUBS = {"armi.reactor.composites:Composite.__contains__": "contains_contract",
             "armi.reactor.grids.locations:IndexLocation.detachedCopy": "detached_contract"}


@lemma(native=False, stubs={"armi.reactor.composites:Composite.__contains__": "contains_contract"}, timeout=30)
def insert_keeps_the_tree_well_formed(index: int):
    self = heap_obj(Composite, "self")
    obj = heap_obj(Composite, "obj")
    assume(wf())
    assume(is_none(obj.parent))
    old = snapshot()
    n0 = seq_len(ch(self))
    pos = (0 if index + n0 < 0 else index + n0) if index < 0 else (n0 if index > n0 else index)  # list.insert clamps
    self.insert(index, obj)
    # ghost update: children at or after the insertion point moved one place to the right
    # (expressed through the witness field of exactly those objects)
    assert seq_len(ch(self)) == n0 + 1
    assert same(seq_at(ch(self), pos), obj), "inserted at the clamped position"
    assert same(obj.parent, self)
    assert forall(lambda k: not (0 <= k and k < pos) or same(seq_at(ch(self), k), in_snapshot(old, lambda: seq_at(ch(self), k)))), "children before the position unchanged"
    assert forall(lambda k: not (pos < k and k <= n0) or same(seq_at(ch(self), k), in_snapshot(old, lambda: seq_at(ch(self), k - 1)))), "children after the position shifted by one"
    assert forall(lambda p: same(p, self) or seq_len(ch(p)) == in_snapshot(old, lambda: seq_len(ch(p))), Composite), "frame: other child lists"
    assert forall(lambda c: same(c, obj) or same(c.parent, in_snapshot(old, lambda: c.parent)), Composite), "frame: other parents"
    assert WF1(), "WF1 preserved"
    assert WF2(), "WF2 preserved"


@lemma(native=False, stubs={"armi.reactor.composites:Composite.__contains__": "contains_contract", "armi.reactor.grids.locations:IndexLocation.detachedCopy": "detached_contract"}, timeout=30)
def remove_detaches_the_child_and_keeps_the_rest():
    self = heap_obj(Composite, "self")
    obj = heap_obj(Composite, "obj")
    assume(wf())
    assume(same(obj.parent, self))  # obj is a child of self
    assume(not is_none(obj.spatialLocator))
    old = snapshot()
    n0 = seq_len(ch(self))
    p0 = obj.gidx
    self.remove(obj)
    assert is_none(obj.parent), "an object taken out of the model has no parent"
    assert is_none(obj.spatialLocator._grid), "and a detached location"
    assert seq_len(ch(self)) == n0 - 1
    assert forall(lambda k: not (0 <= k and k < p0) or same(seq_at(ch(self), k), in_snapshot(old, lambda: seq_at(ch(self), k)))), "children before it unchanged"
    assert forall(lambda k: not (p0 <= k and k < n0 - 1) or same(seq_at(ch(self), k), in_snapshot(old, lambda: seq_at(ch(self), k + 1)))), "children after it shifted"
    assert forall(lambda k: not (0 <= k and k < n0 - 1) or not same(seq_at(ch(self), k), obj)), "no longer listed"
    assert forall(lambda p: same(p, self) or seq_len(ch(p)) == in_snapshot(old, lambda: seq_len(ch(p))), Composite), "frame: other child lists"
    assert forall(lambda c: same(c, obj) or same(c.parent, in_snapshot(old, lambda: c.parent)), Composite), "frame: other parents"
    assert WF1(), "WF1 preserved"
    assert WF2(), "WF2 preserved"


@lemma(native=False, stubs={"armi.reactor.composites:Composite.__contains__": "contains_contract", "armi.reactor.grids.locations:IndexLocation.detachedCopy": "detached_contract"}, timeout=30)
def remove_of_a_non_child_changes_nothing():
    self = heap_obj(Composite, "self")
    obj = heap_obj(Composite, "obj")
    assume(wf())
    assume(not same(obj.parent, self))
    old = snapshot()
    try:
        self.remove(obj)
        ok = True
    except ValueError:
        ok = False
    assert not ok, "refused"
    assert same(obj.parent, in_snapshot(old, lambda: obj.parent)), "the object keeps its parent"
    assert same(obj.spatialLocator, in_snapshot(old, lambda: obj.spatialLocator)), "and its location"
    assert seq_len(ch(self)) == in_snapshot(old, lambda: seq_len(ch(self)))
