"""C20 - lemmas on the block collections' weights that assert the property text and are REFUTED on the unchanged tree
(findings; not picked up by ./check).  Stand-ins copied from contracts/C20_xsgroups.py (see the contracts stated
there)."""
from spec import *

xsgm = repo("armi.physics.neutronics.crossSectionGroupManager")
AverageBlockCollection = repo("armi.physics.neutronics.crossSectionGroupManager:AverageBlockCollection")
FluxWeightedAverageBlockCollection = repo("armi.physics.neutronics.crossSectionGroupManager:FluxWeightedAverageBlockCollection")
NUCS = ["U235", "FE56"]
FUEL = "fuel-flag"  # stands for a Flags value; only passed through to hasFlags


class Params:
    """ParameterCollection viewed as a name -> value map: p.name and p["name"] read the same stored value"""

    def __getitem__(self, name):
        return getattr(self, name)


class Comp:
    """Component stand-in.  Contracts: __lt__ is the strict order of the bounding circles (here: attribute `order`);
    getNuclideNumberDensities(names) = [p.numberDensities.get(n, 0.0) for n in names] (Component's own text);
    getMass() = the stored non-negative mass; temperatureInC = stored temperature."""

    def __lt__(self, other):
        return self.order < other.order

    def getNuclideNumberDensities(self, nucNames):
        return [self.p.numberDensities.get(nucName, 0.0) for nucName in nucNames]

    def getMass(self):
        return self.mass


class Blk:
    """Block stand-in.  Contracts: hasFlags(None) is True (Composite.hasFlags: None matches every object), hasFlags(list)
    = the block carries one of the listed flags (attribute `eligible`); getVolume / getHeight / the homogenised
    densities getNuclideNumberDensities(names) / getComponents() / getVolumeFractions() return stored values."""

    def hasFlags(self, typeSpec):
        return True if typeSpec is None else self.eligible

    def getVolume(self):
        return self.vol

    def getHeight(self):
        return self.height

    def getNuclideNumberDensities(self, nucNames):
        return [self.dens[n] for n in nucNames]

    def getComponents(self):
        return list(self.comps)

    def getVolumeFractions(self):
        return [(c, c.volFrac) for c in self.comps]


def comp(order, u, fe, temp=0.0, mass=0.0, volFrac=0.5, hasFe=True):
    nd = {"U235": u, "FE56": fe} if hasFe else {"U235": u}
    return new(Comp, order=order, temperatureInC=temp, mass=mass, volFrac=volFrac, p=new(Params, numberDensities=nd))


def blk(vol, flux, u, fe, eligible=True, height=1.0, comps=(), hm=0.0, bu=0.0):
    return new(Blk, vol=vol, height=height, eligible=eligible, dens={"U235": u, "FE56": fe}, comps=list(comps),
               p=new(Params, flux=flux, massHmBOL=hm, percentBu=bu))


def collection(fluxWeighted, filtered):
    """the REAL constructors; Flags.fromString (bit flags) is outside the subset, so the type filter - what
    validBlockTypes would be converted to - is stored directly"""
    bc = FluxWeightedAverageBlockCollection(NUCS) if fluxWeighted else AverageBlockCollection(NUCS)
    if filtered:
        bc._validRepresentativeBlockTypes = [FUEL]
    return bc


def valid_weighting(fs):
    """the states accepted by _checkValidWeightingFactors (proved below): all zero or all positive"""
    return all(f == 0 for f in fs) or all(f > 0 for f in fs)


GEN2 = {"n": [1, 2, 3], "v1": (0.1, 50.0), "v2": (0.1, 50.0), "v3": (0.1, 50.0), "f1": [0.0, 1.0, 2.5e14, 3.0], "f2": [0.0, 1.0, 1e13, 7.0],
        "f3": [0.0, 2.0, 5e14], "a1": (0.0, 0.05), "a2": (0.0, 0.05), "a3": (0.0, 0.05), "c1": (0.0, 0.08), "c2": (0.0, 0.08), "c3": (0.0, 0.08),
        "s": (0.01, 100.0), "t": (0.01, 100.0)}



def spec_weights(fluxWeighted, fs, vs):
    """property text: weight = weighting parameter x volume (volume alone without / with an all-zero parameter)"""
    if fluxWeighted and all(f > 0 for f in fs):
        return [f * v for f, v in zip(fs, vs)]
    return list(vs)


def check_mean(avg, ws, xs, es, what):
    """avg is the weight-normalised mean of the eligible xs: hence between their min and max, and the common value"""
    W = sum(w for w, e in zip(ws, es) if e)
    assert eq(avg * W, sum(w * x for w, x, e in zip(ws, xs, es) if e)), what + ": weight-normalised mean of the eligible members"
    tol = 1e-9 * (1.0 + abs(avg)) if NATIVE else 0.0  # rounding of the floating-point mean only (A1)
    assert any(e and x <= avg + tol for x, e in zip(xs, es)), what + ": not below the minimum"
    assert any(e and x >= avg - tol for x, e in zip(xs, es)), what + ": not above the maximum"
    for x0, e0 in zip(xs, es):
        assert implies(e0 and all(implies(e, x == x0) for x, e in zip(xs, es)), eq(avg, x0)), what + ": the common value when members agree"


GEN3 = dict(GEN2)
GEN3.update({"k": [0, 1], "t1": (20.0, 900.0), "t2": (20.0, 900.0), "t3": (20.0, 900.0), "m1": [0.0, 1.0, 35.5], "m2": [0.0, 2.0, 12.25],
             "m3": [0.0, 0.5, 100.0], "h1": (0.5, 40.0), "h2": (0.5, 40.0), "h3": (0.5, 40.0), "x1": (0.0, 0.03), "x2": (0.0, 0.03), "x3": (0.0, 0.03)})



GEN5 = dict(GEN2)
GEN5.update({"m1": [0.0, 1.0, 35.5], "m2": [0.0, 2.0, 12.25], "m3": [0.0, 0.5, 100.0], "b1": (0.0, 30.0), "b2": (0.0, 30.0), "b3": (0.0, 30.0)})



# ------------------------------------------------------------------------------------------ the findings
@lemma(gen=dict(GEN5, v1=[0.0, 0.5, 3.0], v2=[0.0, 2.0], v3=[0.0, 0.0, 7.5]))
def averaged_burnup_with_members_of_zero_volume(n: int, fluxWeighted: bool, v1: float, v2: float, v3: float, f1: float, f2: float, f3: float,
                                                m1: float, m2: float, m3: float, b1: float, b2: float, b3: float, e1: bool, e2: bool, e3: bool):
    """_calcWeightedBurnup when some member has ZERO volume (getWeight admits it: 'vol = block.getVolume() or 1.0'):
    the burnup is still the heavy-metal-weighted mean of the eligible members - the volume that getWeight put into
    the block weight is divided out again, for a zero-volume member that is the substitute 1.0.  REFUTED:
    `b.p.massHmBOL * self.getWeight(b) / b.getVolume()` divides by the zero volume itself (ZeroDivisionError; replayed on
    real Blocks with setHeight(0.0)) - one block of zero height in a group aborts createRepresentativeBlock."""
    n = choose(n, 1, 3)
    vs, fs, es = [v1, v2, v3][:n], [f1, f2, f3][:n], [e1, e2, e3][:n]
    ms, bs = [m1, m2, m3][:n], [b1, b2, b3][:n]
    assume(all(v >= 0 for v in vs) and any(v == 0 for v in vs) and all(m >= 0 for m in ms))
    assume(valid_weighting([f for f, e in zip(fs, es) if e]))
    bc = collection(fluxWeighted, True)
    for v, f, m, b, e in zip(vs, fs, ms, bs, es):
        bc.append(blk(v, f, 0.0, 0.0, eligible=e, hm=m, bu=b))
    bu = bc._calcWeightedBurnup()
    el = [i for i in range(n) if es[i]]
    ws = [ms[i] * (fs[i] if fluxWeighted and fs[i] > 0 else 1.0) for i in el]
    if sum(ws) == 0:
        assert eq(bu, 0.0), "no heavy metal among the eligible members: burnup 0"
    else:
        check_mean(bu, ws, [bs[i] for i in el], [True] * len(el), "burnup")


@lemma(gen=dict(GEN3, h1=[0.0, 2.0], h2=[0.0, 0.0, 5.0], h3=[0.0, 1.0]))
def component_average_temperature_with_members_of_zero_height(n: int, k: int, fluxWeighted: bool, f1: float, f2: float, f3: float, h1: float,
                                                              h2: float, h3: float, m1: float, m2: float, m3: float, t1: float, t2: float,
                                                              t3: float):
    """_getAverageComponentTemperature(k) when some member has ZERO height, hence zero volume (getWeight admits it:
    'vol = block.getVolume() or 1.0'; block area 2, so volume = 2 x height): the result is a temperature between the
    members' minimum and maximum.  REFUTED: `self.getWeight(b) / b.getHeight()` divides by the zero height
    (ZeroDivisionError) although the block weight had been made non-zero on purpose."""
    n = choose(n, 1, 3)
    k = choose(k, 0, 1)
    fs, hs, ms, ts = [f1, f2, f3][:n], [h1, h2, h3][:n], [m1, m2, m3][:n], [t1, t2, t3][:n]
    assume(all(h >= 0 for h in hs) and any(h == 0 for h in hs) and all(m >= 0 for m in ms) and valid_weighting(fs))
    bc = collection(fluxWeighted, False)
    for f, h, m, t in zip(fs, hs, ms, ts):
        target, other = comp(k, 0.0, 0.0, temp=t, mass=m), comp(1 - k, 0.0, 0.0, temp=-40.0, mass=7.0)
        bc.append(blk(2.0 * h, f, 0.0, 0.0, height=h, comps=[target, other] if k == 1 else [other, target]))
    avg = bc._getAverageComponentTemperature(k)
    tol = 1e-9 * (1.0 + abs(avg)) if NATIVE else 0.0
    assert any(t <= avg + tol for t in ts) and any(t >= avg - tol for t in ts), "between the minimum and the maximum of the members"
