"""C15 - time-node arithmetic: (cycle, node) <-> cumulative node <-> cumulative step, for ALL burn-step vectors.

The vector of nodes per cycle is a symbolic-length list.  getNodesPerCycle / getBurnSteps are used through their
contract (stub = "returns the vector"), which is proved separately below for concrete lengths.
"""
from spec import *

utils = repo("armi.utils")

LOOP_INVARIANTS = {
    ("armi.utils:getCycleNodeFromCumulativeNode", 1): {
        "inv": ["cNodes == psum(nodesPerCycle, _i)", "timeNodeNum >= cNodes", "0 <= _i"],
    },
    ("armi.utils:getCycleNodeFromCumulativeStep", 1): {
        "inv": ["cSteps == psum(stepsPerCycle, _i)", "timeStepNum > cSteps", "0 <= _i"],
    },
}


def vector_contract(cs):
    """contract of getNodesPerCycle(cs) / getBurnSteps(cs) in these lemmas: `cs` stands for the vector itself"""
    return cs


def positive(v):
    return forall(lambda k: not (0 <= k and k < len(v)) or v[k] >= 1)


def nonneg(v):
    return forall(lambda k: not (0 <= k and k < len(v)) or v[k] >= 0)


@lemma(stubs={"armi.utils:getNodesPerCycle": "vector_contract"}, gen={"t": (0, 40)})
def cumulative_node_to_cycle_node(t: int):
    npc = sym_list("int", "npc", maxlen=6)
    assume(len(npc) >= 1)
    assume(positive(npc))
    assume(0 <= t and t < psum(npc, len(npc)))
    c, n = utils.getCycleNodeFromCumulativeNode(t, npc)
    assert 0 <= c and c < len(npc)
    assert 0 <= n and n < npc[c], "node index within the cycle"
    assert psum(npc, c) + n == t, "numbering = nodes of earlier cycles + node"
    assert utils.getCumulativeNodeNum(c, n, npc) == t, "inverse of getCumulativeNodeNum"


@lemma(stubs={"armi.utils:getNodesPerCycle": "vector_contract"}, gen={"c": (0, 5), "n": (0, 6)})
def cycle_node_to_cumulative_node(c: int, n: int):
    npc = sym_list("int", "npc", maxlen=6)
    assume(positive(npc))
    assume(0 <= c and c < len(npc))
    assume(0 <= n and n < npc[c])
    psum_monotone(npc, True)
    t = utils.getCumulativeNodeNum(c, n, npc)
    assert t == psum(npc, c) + n
    assert t >= 0
    assert utils.getCycleNodeFromCumulativeNode(t, npc) == (c, n), "inverse of getCycleNodeFromCumulativeNode"


@lemma(stubs={"armi.utils:getNodesPerCycle": "vector_contract"}, gen={"c": (0, 5), "n": (0, 6)})
def numbering_follows_visiting_order(c: int, n: int):
    """the node visited right after (c, n) has the next cumulative number; getPreviousTimeNode inverts that step"""
    npc = sym_list("int", "npc", maxlen=6)
    assume(positive(npc))
    assume(0 <= c and c < len(npc))
    assume(0 <= n and n < npc[c])
    t = utils.getCumulativeNodeNum(c, n, npc)
    if n + 1 < npc[c]:
        nxt = (c, n + 1)
    else:
        assume(c + 1 < len(npc))
        nxt = (c + 1, 0)
    assert utils.getCumulativeNodeNum(nxt[0], nxt[1], npc) == t + 1
    assert utils.getPreviousTimeNode(nxt[0], nxt[1], npc) == (c, n)


@lemma(stubs={"armi.utils:getNodesPerCycle": "vector_contract"})
def no_node_before_the_first(c: int, n: int):
    npc = sym_list("int", "npc", maxlen=6)
    try:
        utils.getPreviousTimeNode(0, 0, npc)
        ok = True
    except ValueError:
        ok = False
    assert not ok
    try:
        utils.getCycleNodeFromCumulativeNode(-1 - abs(n), npc)
        ok2 = True
    except ValueError:
        ok2 = False
    assert not ok2


@lemma(stubs={"armi.utils:getBurnSteps": "vector_contract"}, gen={"s": (1, 30)})
def cumulative_step_to_cycle_node(s: int):
    steps = sym_list("int", "steps", maxlen=6)
    assume(len(steps) >= 1)
    assume(nonneg(steps))
    assume(1 <= s and s <= psum(steps, len(steps)))
    c, n = utils.getCycleNodeFromCumulativeStep(s, steps)
    assert 0 <= c and c < len(steps)
    assert 0 <= n and n < steps[c], "step index within the cycle"
    assert psum(steps, c) + n + 1 == s, "steps are numbered from 1 in visiting order"


# ----------------------------------------------------------------------------- the contract used above, and cycle history expansion
def simple_cs(nCycles, burnSteps, cycleLength, availability):
    return {"cycles": [], "nCycles": nCycles, "burnSteps": burnSteps, "cycleLength": cycleLength, "cycleLengths": None,
            "availabilityFactor": availability, "availabilityFactors": None, "powerFractions": None}


@lemma(gen={"nCycles": (1, 4), "burnSteps": (1, 5), "L": (1.0, 500.0), "avail": (0.1, 1.0)})
def simple_history_nodes_and_step_lengths(nCycles: int, burnSteps: int, L: float, avail: float):
    assume(1 <= nCycles and nCycles <= 4)
    assume(1 <= burnSteps and burnSteps <= 5)
    assume(L > 0 and 0 < avail and avail <= 1)
    nCycles = choose(nCycles, 1, 4)
    burnSteps = choose(burnSteps, 1, 5)
    cs = simple_cs(nCycles, burnSteps, L, avail)
    bs = utils.getBurnSteps(cs)
    npc = utils.getNodesPerCycle(cs)
    assert len(bs) == nCycles and len(npc) == nCycles
    steps = utils.getStepLengths(cs)
    lengths = utils.getCycleLengths(cs)
    for k in range(nCycles):
        assert bs[k] == burnSteps
        assert npc[k] == bs[k] + 1, "one more node than burn steps (contract of getNodesPerCycle)"
        assert eq(sum(steps[k]), avail * lengths[k]), "step lengths sum to availability x cycle length"
        assert eq(lengths[k], L)
    assert len(utils.getPowerFractions(cs)) == nCycles
    assert len(utils.getAvailabilityFactors(cs)) == nCycles


@lemma(gen={"n1": (1, 4), "n2": (1, 4), "L1": (1.0, 500.0), "L2": (1.0, 500.0), "a1": (0.1, 1.0), "a2": (0.1, 1.0)})
def detailed_history_step_lengths(n1: int, n2: int, L1: float, L2: float, a1: float, a2: float, d1: float, d2: float, d3: float):
    assume(1 <= n1 and n1 <= 4 and 1 <= n2 and n2 <= 4)
    assume(L1 > 0 and L2 > 0 and 0 < a1 and a1 <= 1 and 0 < a2 and a2 <= 1)
    assume(d1 > 0 and d2 > 0 and d3 > 0)
    n1 = choose(n1, 1, 4)
    n2 = choose(n2, 1, 4)
    cs = {
        "cycles": [
            {"burn steps": n1, "cycle length": L1, "availability factor": a1},
            {"step days": [d1, d2, d3], "availability factor": a2},
            {"cumulative days": [d1, d1 + d2, d1 + d2 + d3]},
            {"burn steps": n2, "cycle length": L2},
        ],
    }
    steps = utils.getStepLengths(cs)
    lengths = utils.getCycleLengths(cs)
    av = utils.getAvailabilityFactors(cs)
    assert utils.getBurnSteps(cs) == [n1, 3, 3, n2]
    assert utils.getNodesPerCycle(cs) == [n1 + 1, 4, 4, n2 + 1]
    assert len(av) == 4
    for k in range(4):
        assert eq(sum(steps[k]), av[k] * lengths[k]), "step lengths sum to availability x cycle length"
    assert eq(lengths[0], L1) and eq(lengths[3], L2)
    assert eq(steps[2][0], d1) and eq(steps[2][1], d2) and eq(steps[2][2], d3)
