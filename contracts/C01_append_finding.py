"""C01 finding (refuted on the unchanged tree; same class as known finding F45 `wf.append-no-parent`).

Composite.append / Composite.extend are public mutators of the child list ("Append a child to this object",
"Add a list of children to this object") but list the object without making this composite its parent:
afterwards the parent lists a child whose `parent` is not the parent - the C01 invariant is broken.

Not picked up by ./check (directory contracts/pending).  Run:
  python3-vt -m pyvc.run contracts/pending/C01_append_finding.py
Native reproduction (plain python, PYTHONPATH=/repo):
  from armi.reactor.composites import Composite
  p, c = Composite("p"), Composite("c"); p.append(c)
  assert c in p and c.parent is None          # expected by C01: c.parent is p
"""
from spec import *

Composite = repo("armi.reactor.composites:Composite")


class PStub:
    """parameter collection stand-in"""


def node(name):
    return new(Composite, name=name, parent=None, _children=[], spatialGrid=None, spatialLocator=None, p=new(PStub))


@lemma
def append_links_the_child_to_its_parent():
    p, c = node("p"), node("c")
    p.append(c)
    assert same(list(p)[0], c)
    assert same(c.parent, p), "a parent is the parent of every child it lists"


@lemma
def extend_links_the_children_to_their_parent():
    p, c, d = node("p"), node("c"), node("d")
    p.extend([c, d])
    assert len(p) == 2
    assert same(c.parent, p) and same(d.parent, p), "a parent is the parent of every child it lists"
