"""C07 - grid indices, ring/position, coordinates: lemmas over the real armi grid code.

Every lemma is (a) symbolically executed by pyvc together with the source text of the armi functions it
calls (obligations -> z3/cvc5, for all integers / reals) and (b) run natively on the real armi.
"""
import numpy as np

from spec import *

HexGrid = repo("armi.reactor.grids.hexagonal:HexGrid")
CartesianGrid = repo("armi.reactor.grids.cartesian:CartesianGrid")
ThetaRZGrid = repo("armi.reactor.grids.thetarz:ThetaRZGrid")
AxialGrid = repo("armi.reactor.grids.axial:AxialGrid")
StructuredGrid = repo("armi.reactor.grids.structuredGrid:StructuredGrid")
IndexLocation = repo("armi.reactor.grids.locations:IndexLocation")
CoordinateLocation = repo("armi.reactor.grids.locations:CoordinateLocation")
Composite = repo("armi.reactor.composites:Composite")
hexagon = repo("armi.utils.hexagon")

LOOP_INVARIANTS = {
    ("armi.reactor.grids.cartesian:CartesianGrid.getMinimumRings", 1): {
        "inv": [
            "_i >= 1",
            "numPositions == (0 if _i == 1 else ((2 * (_i - 1) - 1) ** 2 if self._isThroughCenter() else (2 * (_i - 1)) ** 2))",
            "_i == 1 or numPositions < n",
        ],
    },
}


def hexdist(i, j):
    return max(abs(i), abs(j), abs(i + j))


# ----------------------------------------------------------------------------- hex ring / position
@lemma
def hex_ring_is_distance_plus_one(i: int, j: int):
    ring, pos = HexGrid.indicesToRingPos(i, j)
    assert ring == hexdist(i, j) + 1
    assert 1 <= pos
    assert pos <= hexagon.numPositionsInRing(ring)


@lemma
def hex_ringpos_roundtrip_from_indices(i: int, j: int):
    ring, pos = HexGrid.indicesToRingPos(i, j)
    assert HexGrid.getIndicesFromRingAndPos(ring, pos) == (i, j)


@lemma
def hex_ringpos_roundtrip_from_ringpos(ring: int, pos: int):
    assume(ring >= 1)
    assume(1 <= pos)
    assume(pos <= hexagon.numPositionsInRing(ring))
    i, j = HexGrid.getIndicesFromRingAndPos(ring, pos)
    assert HexGrid.indicesToRingPos(i, j) == (ring, pos)
    assert hexdist(i, j) == ring - 1


@lemma
def hex_positions_contiguous_along_ring(ring: int, pos: int):
    """consecutive positions of a ring are neighbouring cells (numbered contiguously, counter-clockwise)"""
    assume(ring >= 2)
    assume(1 <= pos)
    n = hexagon.numPositionsInRing(ring)
    assume(pos <= n)
    nxt = pos + 1 if pos < n else 1
    i, j = HexGrid.getIndicesFromRingAndPos(ring, pos)
    i2, j2 = HexGrid.getIndicesFromRingAndPos(ring, nxt)
    assert hexdist(i2 - i, j2 - j) == 1


@lemma
def hex_bad_ringpos_rejected(ring: int, pos: int):
    assume(ring >= 1)
    try:
        HexGrid.getIndicesFromRingAndPos(ring, pos)
        raised = False
    except ValueError:
        raised = True
    n = hexagon.numPositionsInRing(ring)
    if ring == 1:
        assert raised == (pos != 1)
    else:
        assert raised == (pos < 1 or pos > n)


@lemma
def hex_ring_counts(ring: int):
    assume(ring >= 1)
    assert hexagon.totalPositionsUpToRing(1) == 1
    assert hexagon.numPositionsInRing(1) == 1
    assert implies(ring > 1, hexagon.numPositionsInRing(ring) == 6 * (ring - 1))
    assert hexagon.totalPositionsUpToRing(ring + 1) == hexagon.totalPositionsUpToRing(ring) + hexagon.numPositionsInRing(ring + 1)
    assert HexGrid.getPositionsInRing(ring) == hexagon.numPositionsInRing(ring)


@lemma(gen={"n": (0, 2000000)})
def hex_min_rings_exact(n: int):
    assume(n >= 0)
    R = hexagon.numRingsToHoldNumCells(n)
    if n == 0:
        assert R == 0
    else:
        assert R >= 1
        assert hexagon.totalPositionsUpToRing(R) >= n
        assert R == 1 or hexagon.totalPositionsUpToRing(R - 1) < n
        assert HexGrid.getMinimumRings(n) == R


# ----------------------------------------------------------------------------- hex geometry
def hexgrid(pitch, cornersUp, ox=0.0, oy=0.0, oz=0.0):
    us = HexGrid._getRawUnitSteps(pitch, cornersUp)
    return new(
        HexGrid,
        _unitSteps=np.array(us),
        _bounds=(None, None, None),
        _stepDims=((0, 1, 2),),
        _boundDims=((),),
        _offset=np.array((ox, oy, oz)),
        _unitStepLimits=((-3, 3), (-3, 3), (0, 1)),
    )


@lemma(gen={"pitch": (0.05, 40.0)})
def hex_unit_steps_and_pitch(pitch: float, cornersUp: bool):
    assume(pitch > 0)
    g = hexgrid(pitch, cornersUp)
    assert eq(g.pitch, pitch)
    assert g.cornersUp == cornersUp
    us = HexGrid._getRawUnitSteps(pitch, cornersUp)
    # the two lattice vectors have length pitch and are 60 degrees apart
    ax, ay = us[0][0], us[1][0]
    bx, by = us[0][1], us[1][1]
    assert eq(ax * ax + ay * ay, pitch * pitch)
    assert eq(bx * bx + by * by, pitch * pitch)
    assert eq(ax * bx + ay * by, pitch * pitch / 2)
    assert ax * by - ay * bx > 0


@lemma(gen={"pitch": (0.05, 40.0), "i": (-40, 40), "j": (-40, 40), "k": (0, 5)})
def hex_coordinates_affine(i: int, j: int, k: int, pitch: float, cornersUp: bool, ox: float, oy: float, oz: float):
    assume(pitch > 0)
    g = hexgrid(pitch, cornersUp, ox, oy, oz)
    us = HexGrid._getRawUnitSteps(pitch, cornersUp)
    c = g.getCoordinates((i, j, k))
    assert eq(c[0], us[0][0] * i + us[0][1] * j + us[0][2] * k + ox)
    assert eq(c[1], us[1][0] * i + us[1][1] * j + us[1][2] * k + oy)
    assert eq(c[2], oz)
    b = g.getCellBase((i, j, k))
    t = g.getCellTop((i, j, k))
    # step-defined axes: base/top are the half-step points around the centre
    assert eq(b[0] + t[0], 2 * c[0])
    assert eq(b[1] + t[1], 2 * c[1])
    assert eq(t[0] - b[0], us[0][0] + us[0][1] + us[0][2])
    assert eq(t[1] - b[1], us[1][0] + us[1][1] + us[1][2])


@lemma(gen={"pitch": (0.05, 40.0), "i": (-40, 40), "j": (-40, 40)})
def hex_neighbors_one_pitch_ccw(i: int, j: int, pitch: float, cornersUp: bool):
    assume(pitch > 0)
    g = hexgrid(pitch, cornersUp)
    c = g.getCoordinates((i, j, 0))
    nbrs = g.getNeighboringCellIndices(i, j, 0)
    assert len(nbrs) == 6
    dx = []
    dy = []
    for n in nbrs:
        cn = g.getCoordinates(n)
        dx.append(cn[0] - c[0])
        dy.append(cn[1] - c[1])
    for m in range(6):
        assert eq(dx[m] * dx[m] + dy[m] * dy[m], pitch * pitch), "neighbour one pitch away"
        m2 = (m + 1) % 6
        # consecutive neighbours: 60 degrees apart, counter-clockwise
        assert eq(dx[m] * dx[m2] + dy[m] * dy[m2], pitch * pitch / 2), "consecutive neighbours 60 degrees apart"
        assert dx[m] * dy[m2] - dy[m] * dx[m2] > 0, "counter-clockwise order"
    # first neighbour in the 30 (flats up) / 60-degree... direction: positive x, non-negative y
    assert dx[0] > 0 and dy[0] >= 0 if not cornersUp else dx[0] > 0


@lemma(gen={"p1": (0.05, 40.0), "p2": (0.05, 40.0), "i": (-40, 40), "j": (-40, 40), "k": (0, 5)})
def hex_change_pitch_rescales_only(i: int, j: int, k: int, p1: float, p2: float, cornersUp: bool, ox: float, oy: float, oz: float):
    assume(p1 > 0)
    assume(p2 > 0)
    g = hexgrid(p1, cornersUp, ox, oy, oz)
    c1 = g.getCoordinates((i, j, k))
    g.changePitch(p2)
    c2 = g.getCoordinates((i, j, k))
    assert eq(g.pitch, p2)
    assert g.cornersUp == cornersUp
    assert eq((c2[0] - ox) * p1, (c1[0] - ox) * p2)
    assert eq((c2[1] - oy) * p1, (c1[1] - oy) * p2)
    assert eq(c2[2], c1[2])
    assert eq(g._offset[0], ox) and eq(g._offset[1], oy) and eq(g._offset[2], oz)
    assert g._bounds == (None, None, None)
    assert g._unitStepLimits == ((-3, 3), (-3, 3), (0, 1))


# ----------------------------------------------------------------------------- Cartesian
def cartgrid(w, h, isOffset):
    return new(
        CartesianGrid,
        _unitSteps=np.array(((w, 0.0, 0.0), (0.0, h, 0.0), (0, 0, 0))),
        _bounds=(None, None, None),
        _stepDims=((0, 1, 2),),
        _boundDims=((),),
        _offset=np.array((w / 2.0, h / 2.0, 0.0)) if isOffset else np.zeros(3),
        _unitStepLimits=((-3, 3), (-3, 3), (0, 1)),
    )


@lemma(gen={"i": (-30, 30), "j": (-30, 30)})
def cart_ringpos_range(i: int, j: int, isOffset: bool):
    g = cartgrid(1.0, 1.0, isOffset)
    ring, pos = g.getRingPos((i, j))
    assert ring >= 1
    assert 1 <= pos
    assert pos <= g.getPositionsInRing(ring)
    # ring = Chebyshev distance (through centre) / half-offset variant
    if isOffset:
        assert ring == max(i if i >= 0 else -i - 1, j if j >= 0 else -j - 1) + 1
    else:
        assert ring == max(abs(i), abs(j)) + 1


@lemma(gen={"i1": (-3, 3), "j1": (-3, 3), "i2": (-3, 3), "j2": (-3, 3)})
def cart_ringpos_injective(i1: int, j1: int, i2: int, j2: int, isOffset: bool):
    g = cartgrid(1.0, 1.0, isOffset)
    assume(g.getRingPos((i1, j1)) == g.getRingPos((i2, j2)))
    assert (i1, j1) == (i2, j2)


@lemma(gen={"n": (1, 5000)})
def cart_min_rings_exact(n: int, isOffset: bool):
    assume(n >= 1)
    g = cartgrid(1.0, 1.0, isOffset)
    R = g.getMinimumRings(n)
    tot = (2 * R) ** 2 if isOffset else (2 * R - 1) ** 2
    prev = (2 * (R - 1)) ** 2 if isOffset else (0 if R == 1 else (2 * (R - 1) - 1) ** 2)
    assert R >= 1
    assert tot >= n
    assert prev < n


@lemma(gen={"ring": (1, 60)})
def cart_positions_in_ring_sum(ring: int, isOffset: bool):
    assume(ring >= 1)
    g = cartgrid(1.0, 1.0, isOffset)
    tot = lambda r: (2 * r) ** 2 if isOffset else (2 * r - 1) ** 2
    assert g.getPositionsInRing(1) == tot(1)
    assert g.getPositionsInRing(ring + 1) == tot(ring + 1) - tot(ring)


@lemma(gen={"w": (0.05, 30.0), "h": (0.05, 30.0), "i": (-40, 40), "j": (-40, 40), "k": (0, 3)})
def cart_coordinates_affine(i: int, j: int, k: int, w: float, h: float, isOffset: bool):
    assume(w > 0)
    assume(h > 0)
    g = cartgrid(w, h, isOffset)
    c = g.getCoordinates((i, j, k))
    off = 0.5 if isOffset else 0.0
    assert eq(c[0], w * (i + off))
    assert eq(c[1], h * (j + off))
    assert eq(c[2], 0.0)
    assert g.pitch == (w, h)


@lemma(gen={"w": (0.05, 30.0), "h": (0.05, 30.0), "w2": (0.05, 30.0), "h2": (0.05, 30.0), "i": (-40, 40), "j": (-40, 40)})
def cart_change_pitch_rescales_only(i: int, j: int, w: float, h: float, w2: float, h2: float, isOffset: bool):
    assume(w > 0 and h > 0 and w2 > 0 and h2 > 0)
    g = cartgrid(w, h, isOffset)
    c1 = g.getCoordinates((i, j, 0))
    g.changePitch(w2, h2)
    c2 = g.getCoordinates((i, j, 0))
    assert eq(c2[0] * w, c1[0] * w2)
    assert eq(c2[1] * h, c1[1] * h2)
    assert eq(c2[2], c1[2])
    assert g.pitch == (w2, h2)
    assert g._bounds == (None, None, None)


# ----------------------------------------------------------------------------- theta-R-Z and bounds-defined axes
@lemma
def thetarz_ringpos_inverse(i: int, j: int, ring: int, pos: int):
    g = new(ThetaRZGrid)
    r, p = g.getRingPos((i, j, 0))
    assert ThetaRZGrid.getIndicesFromRingAndPos(r, p) == (i, j)
    i2, j2 = ThetaRZGrid.getIndicesFromRingAndPos(ring, pos)
    assert g.getRingPos((i2, j2, 0)) == (ring, pos)


@lemma
def bounds_axes_midpoints(i: int, j: int, k: int):
    """bounds-defined grid (theta-R-Z style: all three axes by bounds): centre = midpoint, base/top = bounds"""
    tb = sym_list("real", "tb", mono=True)
    rb = sym_list("real", "rb", mono=True)
    zb = sym_list("real", "zb", mono=True)
    g = new(
        StructuredGrid,
        _unitSteps=np.array(()),
        _bounds=(tb, rb, zb),
        _stepDims=((),),
        _boundDims=((0, 1, 2),),
        _offset=np.zeros(3),
    )
    inrange = 0 <= i and i + 1 < len(tb) and 0 <= j and j + 1 < len(rb) and 0 <= k and k + 1 < len(zb)
    try:
        c = g.getCoordinates((i, j, k))
        b = g.getCellBase((i, j, k))
        t = g.getCellTop((i, j, k))
        ok = True
    except IndexError:
        ok = False
    assert implies(inrange, ok)
    assert implies(i < 0 or j < 0 or k < 0, not ok), "negative index on a bounds axis is refused"
    if ok:
        assume(inrange)
        assert eq(c[0], (tb[i] + tb[i + 1]) / 2.0)
        assert eq(c[1], (rb[j] + rb[j + 1]) / 2.0)
        assert eq(c[2], (zb[k] + zb[k + 1]) / 2.0)
        assert eq(b[0], tb[i]) and eq(b[1], rb[j]) and eq(b[2], zb[k])
        assert eq(t[0], tb[i + 1]) and eq(t[1], rb[j + 1]) and eq(t[2], zb[k + 1])


@lemma
def axial_grid_mixed_steps_and_bounds(i: int, j: int, k: int, ox: float, oy: float, oz: float):
    """1-D axial grid: x,y step-defined with zero steps, z by bounds; offset added"""
    zb = sym_list("real", "zb", mono=True)
    g = new(
        AxialGrid,
        _unitSteps=np.array(((0, 0), (0, 0))),
        _bounds=(None, None, zb),
        _stepDims=((0, 1),),
        _boundDims=((2,),),
        _offset=np.array((ox, oy, oz)),
    )
    assume(0 <= k and k + 1 < len(zb))
    c = g.getCoordinates((i, j, k))
    assert eq(c[0], ox) and eq(c[1], oy)
    assert eq(c[2], (zb[k] + zb[k + 1]) / 2.0 + oz)
    assert eq(g.getCellBase((i, j, k))[2], zb[k] + oz)
    assert eq(g.getCellTop((i, j, k))[2], zb[k + 1] + oz)


# ----------------------------------------------------------------------------- nested locations
def _axial(zb, obj):
    return new(
        AxialGrid,
        _unitSteps=np.array(((0, 0), (0, 0))),
        _bounds=(None, None, zb),
        _stepDims=((0, 1),),
        _boundDims=((2,),),
        _offset=np.zeros(3),
        _isAxialOnly=True,
        armiObject=obj,
    )


@lemma
def nested_axial_in_hex(i: int, j: int, k: int, pitch: float, rx: float, ry: float, rz: float):
    """block (axial grid of an assembly) inside a core hex grid inside a reactor at a free coordinate"""
    assume(pitch > 0)
    zb = sym_list("real", "zb", mono=True)
    assume(0 <= k and k + 1 < len(zb))
    reactor = new(Composite, parent=None, spatialLocator=None)
    rloc = CoordinateLocation(rx, ry, rz, None)
    core = new(Composite, parent=reactor)
    core.spatialLocator = rloc
    cg = hexgrid(pitch, False)
    cg.armiObject = core
    cg._isAxialOnly = False
    assem = new(Composite, parent=core)
    aloc = IndexLocation(i, j, 0, cg)
    assem.spatialLocator = aloc
    ag = _axial(zb, assem)
    bloc = IndexLocation(0, 0, k, ag)
    # indices compose (axial-in-radial only)
    assert bloc.getCompleteIndices() == (i, j, k)
    assert aloc.getCompleteIndices() == (i, j, 0)
    # coordinates compose by adding the parents' coordinates
    c = bloc.getGlobalCoordinates()
    ca = cg.getCoordinates((i, j, 0))
    assert eq(c[0], ca[0] + rx)
    assert eq(c[1], ca[1] + ry)
    assert eq(c[2], (zb[k] + zb[k + 1]) / 2.0 + rz)
    b = bloc.getGlobalCellBase()
    t = bloc.getGlobalCellTop()
    assert eq(b[2], zb[k] + rz)
    assert eq(t[2], zb[k + 1] + rz)


@lemma
def nested_pin_grid_does_not_add_indices(i: int, j: int, pi: int, pj: int, pitch: float, pp: float):
    """a 2-D pin grid inside a 2-D core grid: indices are NOT added (only axial-in-radial nesting adds)"""
    assume(pitch > 0 and pp > 0)
    core = new(Composite, parent=new(Composite, parent=None, spatialLocator=CoordinateLocation(0.0, 0.0, 0.0, None)))
    core.spatialLocator = CoordinateLocation(0.0, 0.0, 0.0, None)
    cg = hexgrid(pitch, False)
    cg.armiObject = core
    cg._isAxialOnly = False
    blk = new(Composite, parent=core)
    blk.spatialLocator = IndexLocation(i, j, 0, cg)
    pg = hexgrid(pp, True)
    pg.armiObject = blk
    pg._isAxialOnly = False
    ploc = IndexLocation(pi, pj, 0, pg)
    assert ploc.getCompleteIndices() == (pi, pj, 0)
    c = ploc.getGlobalCoordinates()
    cl = pg.getCoordinates((pi, pj, 0))
    cb = cg.getCoordinates((i, j, 0))
    assert eq(c[0], cl[0] + cb[0]) and eq(c[1], cl[1] + cb[1])


@lemma
def nested_axial_in_axial_does_not_add(k1: int, k2: int):
    """adding indices is valid only for an axial grid inside a non-axial one"""
    zb = sym_list("real", "zb", mono=True)
    zc = sym_list("real", "zc", mono=True)
    top = new(Composite, parent=new(Composite, parent=None, spatialLocator=CoordinateLocation(0.0, 0.0, 0.0, None)))
    top.spatialLocator = CoordinateLocation(0.0, 0.0, 0.0, None)
    g1 = _axial(zb, top)
    mid = new(Composite, parent=top)
    mid.spatialLocator = IndexLocation(0, 0, k1, g1)
    g2 = _axial(zc, mid)
    loc = IndexLocation(0, 0, k2, g2)
    assert loc.getCompleteIndices() == (0, 0, k2)


# ----------------------------------------------------------------------------- constructors establish the invariants used above
@lemma(gen={"ncells": (1, 4), "i": (-6, 6), "j": (-6, 6)})
def constructors_establish_grid_invariants(ncells: int, i: int, j: int, z0: float, dz: float, pitch: float):
    """real __init__ paths: which axes are step/bounds defined, axial-only classification (also for ONE cell), nesting"""
    assume(dz > 0 and pitch > 0)
    ncells = choose(ncells, 1, 4)
    zb = [z0 + m * dz for m in range(ncells + 1)]
    core = new(Composite, parent=new(Composite, parent=None, spatialLocator=CoordinateLocation(0.0, 0.0, 0.0, None)))
    core.spatialLocator = CoordinateLocation(0.0, 0.0, 0.0, None)
    cg = HexGrid.fromPitch(pitch, numRings=1, armiObject=core)
    assert not cg.isAxialOnly
    assert cg._stepDims == ((0, 1, 2),) and cg._boundDims == ((),)
    assert eq(cg.pitch, pitch)
    assem = new(Composite, parent=core)
    assem.spatialLocator = IndexLocation(i, j, 0, cg)
    ag = AxialGrid(bounds=(None, None, zb), armiObject=assem)
    assert ag.isAxialOnly, "a 1-D axial grid is axial-only whatever its number of cells"
    assert ag._stepDims == ((0, 1),) and ag._boundDims == ((2,),)
    assert len(ag) == ncells + 1
    for k in range(ncells):
        loc = ag[(0, 0, k)]
        assert loc.getCompleteIndices() == (i, j, k), "block indices compose with the assembly's"
        c = loc.getLocalCoordinates()
        assert eq(c[2], z0 + (k + 0.5) * dz)
    cart = CartesianGrid.fromRectangle(pitch, 2.0 * pitch, numRings=1, isOffset=True)
    assert not cart.isAxialOnly
    assert not cart._isThroughCenter()
    assert eq(cart.getCoordinates((0, 0, 0))[0], pitch / 2.0) and eq(cart.getCoordinates((0, 0, 0))[1], pitch)


@lemma(gen={"p1": (0.1, 30.0), "p2": (0.1, 30.0), "p3": (0.1, 30.0), "i": (-9, 9), "j": (-9, 9)})
def hex_pitch_follows_every_change_of_the_grid(p1: float, p2: float, p3: float, cornersUp: bool, i: int, j: int):
    """the pitch a hex grid REPORTS is the pitch of its current unit steps: read it, change the pitch, read it again; back
    up, change, restore; the six neighbours of any cell lie one (current) pitch away; a grid rebuilt from reduce() agrees"""
    assume(p1 > 0 and p2 > 0 and p3 > 0)
    g = HexGrid.fromPitch(p1, numRings=3, cornersUp=cornersUp)
    assert eq(g.pitch, p1)  # the first read (a cached value must not outlive the next change)
    g.changePitch(p2)
    assert eq(g.pitch, p2), "after changePitch the grid reports the new pitch"
    x0, y0, _z = g.getCoordinates((i, j, 0))
    for ni, nj, _nk in g.getNeighboringCellIndices(i, j, 0):
        x, y, _z = g.getCoordinates((ni, nj, 0))
        assert eq((x - x0) ** 2 + (y - y0) ** 2, g.pitch ** 2), "neighbours lie one reported pitch away"
    g.backUp()
    g.changePitch(p3)
    assert eq(g.pitch, p3)
    g.restoreBackup()
    assert eq(g.pitch, p2), "and the restored pitch after a restored back-up"
    assert eq(HexGrid(*g.reduce()).pitch, g.pitch)


# ----------------------------------------------------------------------------- widened hypotheses (assumption review)
# The lemmas above fix conveniences the property does not condition on: monotone bounds and a zero offset on bounds
# axes, a flats-up core grid at the origin, an assembly at axial index 0 and a block at radial indices (0, 0).  The
# lemmas below state the same clauses without them.
@lemma(gen={"i": (0, 2), "j": (0, 2), "k": (0, 2)})
def bounds_axes_midpoints_any_bounds_and_offset(i: int, j: int, k: int, ox: float, oy: float, oz: float):
    """like bounds_axes_midpoints for ANY bounds (not monotone: equal and decreasing neighbours too) and any offset"""
    tb = sym_list("real", "tb", mono=False)
    rb = sym_list("real", "rb", mono=False)
    zb = sym_list("real", "zb", mono=False)
    g = new(
        StructuredGrid,
        _unitSteps=np.array(()),
        _bounds=(tb, rb, zb),
        _stepDims=((),),
        _boundDims=((0, 1, 2),),
        _offset=np.array((ox, oy, oz)),
    )
    assume(0 <= i and i + 1 < len(tb) and 0 <= j and j + 1 < len(rb) and 0 <= k and k + 1 < len(zb))  # (P) a cell of the grid
    c = g.getCoordinates((i, j, k))
    b = g.getCellBase((i, j, k))
    t = g.getCellTop((i, j, k))
    assert eq(c[0], (tb[i] + tb[i + 1]) / 2.0 + ox)
    assert eq(c[1], (rb[j] + rb[j + 1]) / 2.0 + oy)
    assert eq(c[2], (zb[k] + zb[k + 1]) / 2.0 + oz)
    assert eq(b[0], tb[i] + ox) and eq(b[1], rb[j] + oy) and eq(b[2], zb[k] + oz)
    assert eq(t[0], tb[i + 1] + ox) and eq(t[1], rb[j + 1] + oy) and eq(t[2], zb[k + 1] + oz)


@lemma(gen={"i": (-9, 9), "j": (-9, 9), "ka": (-3, 3), "bi": (-3, 3), "bj": (-3, 3), "pitch": (0.1, 30.0)})
def nested_axial_in_hex_any_indices_offsets_orientation(
    i: int, j: int, ka: int, bi: int, bj: int, k: int, pitch: float, cornersUp: bool,
    rx: float, ry: float, rz: float, cx: float, cy: float, cz: float, ax: float, ay: float, az: float,
):
    """nested_axial_in_hex without its conveniences: either orientation, a core grid and an axial grid with offsets, an
    assembly locator with a non-zero axial index and a block locator with non-zero radial indices: indices ADD on
    every axis (axial-in-radial), coordinates / bases / tops add through the three levels"""
    assume(pitch > 0)  # (P) a pitch is a length
    zb = sym_list("real", "zb", mono=False)
    assume(0 <= k and k + 1 < len(zb))  # (P) a cell of the axial grid
    reactor = new(Composite, parent=None, spatialLocator=None)
    core = new(Composite, parent=reactor)
    core.spatialLocator = CoordinateLocation(rx, ry, rz, None)
    cg = hexgrid(pitch, cornersUp, cx, cy, cz)
    cg.armiObject = core
    cg._isAxialOnly = False
    assem = new(Composite, parent=core)
    aloc = IndexLocation(i, j, ka, cg)
    assem.spatialLocator = aloc
    ag = _axial(zb, assem)
    ag._offset = np.array((ax, ay, az))
    bloc = IndexLocation(bi, bj, k, ag)
    assert bloc.getCompleteIndices() == (i + bi, j + bj, ka + k)
    assert aloc.getCompleteIndices() == (i, j, ka)
    assert tuple(bloc.indices) == (bi, bj, k) and tuple(aloc.indices) == (i, j, ka), "composing does not change the locators"
    c = bloc.getGlobalCoordinates()
    ca = cg.getCoordinates((i, j, ka))
    assert eq(c[0], ax + ca[0] + rx)
    assert eq(c[1], ay + ca[1] + ry)
    assert eq(c[2], (zb[k] + zb[k + 1]) / 2.0 + az + ca[2] + rz)
    assert eq(ca[2], cz)
    b = bloc.getGlobalCellBase()
    t = bloc.getGlobalCellTop()
    ba = cg.getCellBase((i, j, ka))
    ta = cg.getCellTop((i, j, ka))
    # a CoordinateLocation has no extent: its base and top are the point itself
    assert eq(b[0], ax + ba[0] + rx) and eq(b[1], ay + ba[1] + ry) and eq(b[2], zb[k] + az + ba[2] + rz)
    assert eq(t[0], ax + ta[0] + rx) and eq(t[1], ay + ta[1] + ry) and eq(t[2], zb[k + 1] + az + ta[2] + rz)


def cartgrid_at(w, h, ox, oy, oz):
    return new(
        CartesianGrid,
        _unitSteps=np.array(((w, 0.0, 0.0), (0.0, h, 0.0), (0, 0, 0))),
        _bounds=(None, None, None),
        _stepDims=((0, 1, 2),),
        _boundDims=((),),
        _offset=np.array((ox, oy, oz)),
        _unitStepLimits=((-3, 3), (-3, 3), (0, 1)),
    )


@lemma(gen={"w": (0.05, 30.0), "h": (0.05, 30.0), "i": (-40, 40), "j": (-40, 40), "k": (0, 3)})
def cart_coordinates_affine_any_offset(i: int, j: int, k: int, w: float, h: float, ox: float, oy: float, oz: float):
    """cart_coordinates_affine for ANY offset (the lemma above knows the zero and the half-pitch offset only)"""
    assume(w > 0 and h > 0)  # (P) pitches are lengths
    g = cartgrid_at(w, h, ox, oy, oz)
    c = g.getCoordinates((i, j, k))
    assert eq(c[0], w * i + ox) and eq(c[1], h * j + oy) and eq(c[2], oz)
    b = g.getCellBase((i, j, k))
    t = g.getCellTop((i, j, k))
    assert eq(b[0], c[0] - w / 2.0) and eq(t[0], c[0] + w / 2.0)
    assert eq(b[1], c[1] - h / 2.0) and eq(t[1], c[1] + h / 2.0)
    assert g._isThroughCenter() == (ox == 0 and oy == 0 and oz == 0)


@lemma(gen={"w": (0.05, 30.0), "h": (0.05, 30.0), "w2": (0.05, 30.0), "h2": (0.05, 30.0), "i": (-40, 40), "j": (-40, 40)})
def cart_change_pitch_rescales_only_any_planar_offset(i: int, j: int, w: float, h: float, w2: float, h2: float, ox: float, oy: float):
    """cart_change_pitch_rescales_only for any offset in the plane (the offset is a position: it is rescaled with the cells)"""
    assume(w > 0 and h > 0 and w2 > 0 and h2 > 0)  # (P) pitches are lengths
    g = cartgrid_at(w, h, ox, oy, 0.0)
    c1 = g.getCoordinates((i, j, 0))
    g.changePitch(w2, h2)
    c2 = g.getCoordinates((i, j, 0))
    assert eq(c2[0] * w, c1[0] * w2)
    assert eq(c2[1] * h, c1[1] * h2)
    assert eq(c2[2], c1[2])
    assert g.pitch == (w2, h2)
    assert g._bounds == (None, None, None)
    assert g._unitStepLimits == ((-3, 3), (-3, 3), (0, 1))


@lemma(gen={"w": (0.05, 30.0), "h": (0.05, 30.0), "w2": (0.05, 30.0), "h2": (0.05, 30.0), "i": (-40, 40), "j": (-40, 40)})
def cart_change_pitch_inside_a_backup_scope_is_undone_by_the_restore(i: int, j: int, w: float, h: float, w2: float, h2: float, ox: float, oy: float, oz: float):
    """backUp(); changePitch(..); restoreBackup(): pitch AND coordinates are those of before - the state the back-up holds
    must not be rewritten by the pitch change (an offset array updated in place is shared with the back-up)"""
    assume(w > 0 and h > 0 and w2 > 0 and h2 > 0)  # (P) pitches are lengths
    g = cartgrid_at(w, h, ox, oy, oz)
    g._backup = None
    c1 = g.getCoordinates((i, j, 0))
    g.backUp()
    g.changePitch(w2, h2)
    c2 = g.getCoordinates((i, j, 0))
    assert eq(c2[0] * w, c1[0] * w2) and eq(c2[1] * h, c1[1] * h2) and eq(c2[2], c1[2]), "inside the scope: rescaled"
    g.restoreBackup()
    c3 = g.getCoordinates((i, j, 0))
    assert g.pitch == (w, h), "the pitch is back"
    assert eq(c3[0], c1[0]) and eq(c3[1], c1[1]) and eq(c3[2], c1[2]), "and so is every coordinate"


@lemma(gen={"i": (-40, 40), "j": (-40, 40), "ox": (-3, 3), "oy": (-3, 3), "w2": (0.05, 30.0), "h2": (0.05, 30.0)})
def cart_change_pitch_rescales_an_offset_given_in_whole_numbers(i: int, j: int, ox: int, oy: int, w2: float, h2: float):
    """a grid built by the REAL constructor with an offset given as integers (np.array keeps them as an integer array):
    after changePitch the centre offset is the exactly rescaled one, not a value truncated to a whole number"""
    assume(w2 > 0 and h2 > 0)
    ox = choose(ox, -3, 3)
    oy = choose(oy, -3, 3)
    g = CartesianGrid(unitSteps=((2.0, 0, 0), (0, 2.0, 0), (0, 0, 0)), unitStepLimits=((-3, 3), (-3, 3), (0, 1)), offset=(ox, oy, 0))
    c1 = g.getCoordinates((i, j, 0))
    g.changePitch(w2, h2)
    c2 = g.getCoordinates((i, j, 0))
    assert eq(c2[0] * 2.0, c1[0] * w2) and eq(c2[1] * 2.0, c1[1] * h2) and eq(c2[2], c1[2]), "coordinates are rescaled exactly"
