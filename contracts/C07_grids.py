"""C07 - grid indices, ring/position, coordinates: lemmas over the real armi grid code."""
from spec import *

HexGrid = repo("armi.reactor.grids.hexagonal:HexGrid")
hexagon = repo("armi.utils.hexagon")


def hexdist(i, j):
    return max(abs(i), abs(j), abs(i + j))


@lemma
def hex_ring_is_distance_plus_one(i: int, j: int):
    ring, pos = HexGrid.indicesToRingPos(i, j)
    assert ring == hexdist(i, j) + 1
    assert 1 <= pos
    assert pos <= hexagon.numPositionsInRing(ring)


@lemma
def hex_ringpos_roundtrip_from_indices(i: int, j: int):
    ring, pos = HexGrid.indicesToRingPos(i, j)
    assert HexGrid.getIndicesFromRingAndPos(ring, pos) == (i, j)


@lemma
def hex_ringpos_roundtrip_from_ringpos(ring: int, pos: int):
    assume(ring >= 1)
    assume(1 <= pos)
    assume(pos <= hexagon.numPositionsInRing(ring))
    i, j = HexGrid.getIndicesFromRingAndPos(ring, pos)
    assert HexGrid.indicesToRingPos(i, j) == (ring, pos)
