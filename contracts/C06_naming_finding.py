"""C06 - FINDING (refuted on the unchanged tree; known finding F21; not picked up by ./check).

A labelled snapshot (cXXnYYEOL, cXXnYYerror) matches Database.timeNodeGroupPattern, so genTimeSteps lists its
(cycle, node) a second time: 'every written snapshot and nothing else is listed' fails for the listing of steps.
Native: db.h5db keys ['c01n02', 'c01n02EOL'] -> list(db.genTimeSteps()) == [(1, 2), (1, 2)].
"""
from spec import *

dbmod = repo("armi.bookkeeping.db.database")
Database = repo("armi.bookkeeping.db.database:Database")


class H5:
    def keys(self):
        return list(self.names)


@lemma
def a_labelled_snapshot_is_not_listed_as_a_second_time_step():
    db = new(Database, h5db=new(H5, names=[dbmod.getH5GroupName(1, 2), dbmod.getH5GroupName(1, 2, "EOL")]))
    assert list(db.genTimeSteps()) == [(1, 2)], "one time step (1, 2) was written (plus its labelled end-of-life state)"
