"""C20 - the component-wise block collections (1D cylinder / duct-heterogeneous / 1D slab), the median collection's
temperatures, block similarity, and the XS id of a block.

The collection code is the real one (armi/physics/neutronics/crossSectionGroupManager.py).  Collaborator stand-ins
(outside the engine's reach: Block / Component / ParameterCollection / Flags), each with the contract assumed:
  Params - ParameterCollection viewed as a name -> value map (p.name and p["name"] read the same stored value).
  CComp  - Component: __lt__ = strict order of the bounding circles (attribute `order`); getNuclides() = the keys of
           p.numberDensities; getNuclideNumberDensities(names) = [p.numberDensities.get(n, 0.0) ...] (Component's
           own text); getArea() / getMass() = stored area / mass; p.mult, p.flags, temperatureInC stored;
           isLatticeComponent() stored; setNumberDensity(n, v) stores v under n, setNumberDensities(d) replaces the map.
  CBlk   - Block: iteration / len / indexing over its components in stored order (Composite.__iter__/__len__/
           __getitem__ over _children);
           hasFlags(None) is True, hasFlags(list) = attribute `eligible`; getVolume / getName / getAverageTempInC
           stored; getVolumeFractions() = [(c, c.volFrac)]; getComponents() a fresh list of the components;
           getHeight(), homogenised densities (getNuclideNumberDensities / setNumberDensities) and the lumped fission
           product collection (get / set) are stored values.
Shapes (members, components) are enumerated with choose up to the stated size; all values symbolic.
"""
from spec import *

xsgm = repo("armi.physics.neutronics.crossSectionGroupManager")
Cyl = repo("armi.physics.neutronics.crossSectionGroupManager:CylindricalComponentsAverageBlockCollection")
DuctHet = repo("armi.physics.neutronics.crossSectionGroupManager:CylindricalComponentsDuctHetAverageBlockCollection")
Slab = repo("armi.physics.neutronics.crossSectionGroupManager:SlabComponentsAverageBlockCollection")
Median = repo("armi.physics.neutronics.crossSectionGroupManager:MedianBlockCollection")
Average = repo("armi.physics.neutronics.crossSectionGroupManager:AverageBlockCollection")

NUCS = ["U235", "FE56"]
FUEL = "fuel-flag"  # stands for a Flags value; only passed through to hasFlags


class Params:
    def __getitem__(self, name):
        return getattr(self, name)


class CComp:
    def __lt__(self, other):
        return self.order < other.order

    def getNuclides(self):
        return list(self.p.numberDensities)

    def getNuclideNumberDensities(self, nucNames):
        return [self.p.numberDensities.get(nucName, 0.0) for nucName in nucNames]

    def getArea(self):
        return self.area

    def isLatticeComponent(self):
        return self.lattice

    def setNumberDensity(self, nuc, val):
        self.p.numberDensities[nuc] = val

    def setNumberDensities(self, numberDensities):
        self.p.numberDensities = dict(numberDensities)

    def getMass(self):
        return self.mass


class CBlk:
    def __iter__(self):
        return iter(self.comps)

    def __len__(self):
        return len(self.comps)

    def __getitem__(self, index):
        return self.comps[index]

    def hasFlags(self, typeSpec):
        return True if typeSpec is None else self.eligible

    def getVolume(self):
        return self.vol

    def getName(self):
        return self.name

    def getAverageTempInC(self):
        return self.avgT

    def getComponents(self):
        return list(self.comps)

    def getVolumeFractions(self):
        return [(c, c.volFrac) for c in self.comps]

    def getHeight(self):
        return self.height

    def getNuclideNumberDensities(self, nucNames):
        return [self.dens[n] for n in nucNames]

    def setNumberDensities(self, numberDensities):
        self.dens = dict(numberDensities)

    def getLumpedFissionProductCollection(self):
        return self.lfp

    def setLumpedFissionProducts(self, lfp):
        self.lfp = lfp


def ccomp(order, nd, area=1.0, mult=1.0, temp=0.0, volFrac=0.5, flags="f", lattice=False):
    return new(CComp, order=order, area=area, temperatureInC=temp, volFrac=volFrac, lattice=lattice,
               p=new(Params, numberDensities=nd, mult=mult, flags=flags))


def cblk(comps, vol=1.0, flux=0.0, eligible=True, name="B", avgT=0.0):
    return new(CBlk, comps=list(comps), vol=vol, eligible=eligible, name=name, avgT=avgT, p=new(Params, flux=flux))


Rectangle = repo("armi.reactor.components.basicShapes:Rectangle")


class RComp(Rectangle):
    """probe subclass of the real Rectangle (the slab collection tests isinstance(c, Rectangle)) with the CComp
    contracts in place of the Component machinery; there is no radial order among slabs"""

    def __repr__(self):
        return "<RComp>"

    def getNuclides(self):
        return list(self.p.numberDensities)

    def getNuclideNumberDensities(self, nucNames):
        return [self.p.numberDensities.get(nucName, 0.0) for nucName in nucNames]

    def getArea(self):
        return self.area

    def isLatticeComponent(self):
        return self.lattice

    def setNumberDensity(self, nuc, val):
        self.p.numberDensities[nuc] = val


def rcomp(nd, area=1.0, mult=1.0, lattice=False):
    return new(RComp, area=area, lattice=lattice, p=new(Params, numberDensities=nd, mult=mult))


def check_mean(avg, ws, xs, what):
    """avg is the weight-normalised mean of xs (weights ws >= 0 with a positive total): hence between min and max,
    and the common value when the members with a positive weight agree"""
    W = sum(ws)
    assert eq(avg * W, sum(w * x for w, x in zip(ws, xs))), what + ": weight-normalised mean"
    tol = 1e-9 * (1.0 + abs(avg)) if NATIVE else 0.0  # rounding of the floating-point mean only (A1)
    assert any(w > 0 and x <= avg + tol for w, x in zip(ws, xs)), what + ": not below the minimum"
    assert any(w > 0 and x >= avg - tol for w, x in zip(ws, xs)), what + ": not above the maximum"
    for w0, x0 in zip(ws, xs):
        assert implies(w0 > 0 and all(implies(w > 0, x == x0) for w, x in zip(ws, xs)), eq(avg, x0)), what + ": the common value"


def mean_eq(avg, ws, xs, what):
    """only the defining equation of the weight-normalised mean (its consequences are asserted by check_mean in the
    kernel lemmas)"""
    assert eq(avg * sum(ws), sum(w * x for w, x in zip(ws, xs))), what + ": weight-normalised mean"


# ------------------------------------------------------------------------------------------ per-component averages
GENA = {"n": [1, 2, 3], "w1": (0.1, 50.0), "w2": (0.1, 50.0), "w3": (0.1, 50.0), "A1": [0.0, 0.5, 2.0], "A2": [0.0, 1.5, 3.0], "A3": [0.25, 4.0],
        "u1": (0.0, 0.05), "u2": (0.0, 0.05), "u3": (0.0, 0.05), "c1": (0.0, 0.08), "c2": (0.0, 0.08), "c3": (0.0, 0.08)}


@lemma(gen=GENA)
def matching_component_average_is_the_weight_normalised_mean(n: int, slab: bool, w1: float, w2: float, w3: float, A1: float, A2: float,
                                                             A3: float, u1: float, u2: float, u3: float, c1: float, c2: float,
                                                             c3: float, h2: bool, h3: bool):
    """_getAverageComponentNucs and _getAllNucs of the cylindrical and of the slab collection: the matching components
    of 1..3 members (enumerated); block weights > 0, areas >= 0 (not all zero), densities of U235 (listed by every
    component) and FE56 (listed by the first, and by the others or not: h2, h3) symbolic.  Weight of a member =
    block weight x area of its component; a nuclide a component does not list counts with density zero."""
    n = choose(n, 1, 3)
    bw, ar, us, fes, has = [w1, w2, w3][:n], [A1, A2, A3][:n], [u1, u2, u3][:n], [c1, c2, c3][:n], [True, h2, h3][:n]
    assume(all(w > 0 for w in bw) and all(a >= 0 for a in ar) and any(a > 0 for a in ar))
    comps = [ccomp(0, {"U235": u, "FE56": fe} if h else {"U235": u}, area=a) for u, fe, h, a in zip(us, fes, has, ar)]
    bc = Slab(NUCS) if slab else Cyl(NUCS)
    names, dens = bc._getAverageComponentNucs(comps, bw)
    assert names == ["FE56", "U235"], "every nuclide of any matching component, once, in a fixed order"
    assert len(dens) == 2
    ws = [w * a for w, a in zip(bw, ar)]
    check_mean(dens[1], ws, us, "U235")
    check_mean(dens[0], ws, [fe if h else 0.0 for fe, h in zip(fes, has)], "FE56")


# ------------------------------------------------------------------------------------------ which components match
KEY_NUCS = ["PU239", "U238", "U235", "U234", "FE56", "NA23", "O16"]  # the documented 'consistent nuclides'


def refused_by(fn, *args):
    try:
        fn(*args)
        return False
    except ValueError:
        return True


GENB = {"nb": [1, 2, 3], "nr": [1, 2, 3], "m1": [1.0, 2.0], "m2": [1.0, 169.0], "m3": [1.0, 6.0], "r1": [1.0, 2.0], "r2": [1.0, 169.0], "r3": [1.0, 6.0]}


@lemma(gen=GENB)
def cylindrical_blocks_whose_components_do_not_match_are_refused(nb: int, nr: int, m1: float, m2: float, m3: float, r1: float, r2: float,
                                                                 r3: float, f1: bool, f2: bool, f3: bool, g1: bool, g2: bool, g3: bool,
                                                                 z: bool):
    """CylindricalComponentsAverageBlockCollection._checkComponentConsistency(b, repBlock): blocks of 1..3 components
    each (both counts enumerated), stored in REVERSE radial order (the comparison is by sorted position);
    multiplicities symbolic, presence of the key nuclide FE56 per component arbitrary, the first component of b may
    hold a nuclide (ZR90) outside the documented key set.  Refused (ValueError) exactly when the component counts,
    a multiplicity or the key-nuclide content of two components at the same position differ."""
    nb = choose(nb, 1, 3)
    nr = choose(nr, 1, 3)
    mb, mr, hb, hr = [m1, m2, m3][:nb], [r1, r2, r3][:nr], [f1, f2, f3][:nb], [g1, g2, g3][:nr]
    cb = [ccomp(k, {"U235": 0.01, "FE56": 0.02} if hb[k] else {"U235": 0.01}, mult=mb[k]) for k in range(nb)]
    if z:
        cb[0].p.numberDensities["ZR90"] = 0.001
    cr = [ccomp(k, {"U235": 0.02, "FE56": 0.03} if hr[k] else {"U235": 0.02}, mult=mr[k]) for k in range(nr)]
    b, rep = cblk(reversed(cb)), cblk(reversed(cr))
    refused = refused_by(Cyl._checkComponentConsistency, b, rep)
    mismatch = nb != nr or any(mb[k] != mr[k] or hb[k] != hr[k] for k in range(min(nb, nr)))
    assert implies(mismatch, refused), "components that do not match are refused loudly"
    assert implies(not mismatch, not refused), "matching blocks are accepted"


@lemma(gen={"k": [0, 1, 2, 3, 4, 5, 6]})
def every_key_nuclide_is_compared(k: int, slab: bool, hb: bool, hr: bool):
    """each of the seven documented key nuclides (enumerated), present or absent in the single component of either
    block: refused exactly when present in one and absent in the other; cylindrical and slab variant"""
    k = choose(k, 0, 6)
    nuc = KEY_NUCS[k]
    b = cblk([rcomp({"C": 0.01, nuc: 0.02} if hb else {"C": 0.01})])
    rep = cblk([rcomp({"C": 0.01, nuc: 0.03} if hr else {"C": 0.01})])
    refused = refused_by(Slab._checkComponentConsistency if slab else Cyl._checkComponentConsistency, b, rep)
    assert refused == (hb != hr)


GENC = {"n": [1, 2, 3], "k": [1, 2, 3], "m2": [1.0, 1.0, 2.0]}


@lemma(gen=GENC)
def cylindrical_components_are_grouped_by_radial_position(n: int, k: int, m2: float, e1: bool, e2: bool, e3: bool):
    """_orderComponentsInGroup: 1..3 members (enumerated) of 1..3 components each (enumerated, stored in reverse radial
    order), any non-empty subset eligible; the first component of member 2 has the symbolic multiplicity m2 (all
    others 1): group j holds exactly the j-th component (sorted order) of every ELIGIBLE member, in member order;
    the collection is refused when an eligible member does not match the representative block; an ineligible
    member is never looked at."""
    n = choose(n, 1, 3)
    k = choose(k, 1, 3)
    es = [e1, e2, e3][:n]
    assume(any(es))
    bc = Cyl(NUCS)
    bc._validRepresentativeBlockTypes = [FUEL]
    members = []
    for i in range(n):
        comps = [ccomp(j, {"U235": 0.01}, mult=m2 if (i == 1 and j == 0) else 1.0) for j in range(k)]
        members.append(comps)
        bc.append(cblk(reversed(comps), eligible=es[i]))
    rep = cblk(reversed([ccomp(j, {"U235": 0.01}) for j in range(k)]))
    try:
        groups = bc._orderComponentsInGroup(rep)
        refused = False
    except ValueError:
        refused = True
    assert refused == (n >= 2 and es[1] and m2 != 1.0), "refused exactly when an eligible member does not match"
    if not refused:
        el = [i for i in range(n) if es[i]]
        assert len(groups) == k, "one group per component position"
        for j in range(k):
            assert len(groups[j]) == len(el), "one component of every eligible member"
            for pos, i in enumerate(el):
                assert same(groups[j][pos], members[i][j]), "the component at the same radial position"


GEND = {"n": [1, 2, 3], "T1": (200.0, 900.0), "T2": (200.0, 900.0), "T3": (200.0, 900.0)}


@lemma(gen=GEND)
def cylindrical_candidate_is_an_eligible_member_of_median_temperature(n: int, T1: float, T2: float, T3: float, e1: bool, e2: bool, e3: bool):
    """_selectCandidateBlock: 1..3 members with distinct names (enumerated), any non-empty subset eligible,
    block-average temperatures symbolic"""
    n = choose(n, 1, 3)
    Ts, es = [T1, T2, T3][:n], [e1, e2, e3][:n]
    assume(any(es))
    bc = DuctHet(NUCS)
    bc._validRepresentativeBlockTypes = [FUEL]
    names = ["B0003", "B0001", "B0002"]
    for i in range(n):
        bc.append(cblk([], eligible=es[i], name=names[i], avgT=Ts[i]))
    sel = bc._selectCandidateBlock()
    el = [i for i in range(n) if es[i]]
    assert sum(1 for i in el if same(bc[i], sel)) == 1, "the template is an actual eligible member"
    t = Ts[[i for i in el if same(bc[i], sel)][0]]
    below = sum(1 for i in el if Ts[i] < t)
    above = sum(1 for i in el if Ts[i] > t)
    assert 2 * below <= len(el) and 2 * above <= len(el), "it holds a median of the block-average temperatures"


# ------------------------------------------------------------------------------------------ 1D slab collection
class PlainComp(CComp):
    """a component that is not a Rectangle (e.g. a Circle)"""


GENS = {"nb": [1, 2, 3], "A1": [0.5, 1.0], "A2": [0.5, 2.0], "A3": [0.0, 1.0], "P1": [0.5, 1.0], "P2": [0.5, 2.0], "P3": [0.0, 1.0],
        "m1": [1.0, 2.0], "m2": [1.0, 4.0], "m3": [1.0, 3.0], "r1": [1.0, 2.0], "r2": [1.0, 4.0], "r3": [1.0, 3.0], "bad": [0, 1, 2, 3]}


@lemma(gen=GENS)
def slab_blocks_whose_components_do_not_match_are_refused(nb: int, A1: float, A2: float, A3: float, P1: float, P2: float, P3: float,
                                                          m1: float, m2: float, m3: float, r1: float, r2: float, r3: float,
                                                          f1: bool, f2: bool, f3: bool, g1: bool, g2: bool, g3: bool, bad: int):
    """SlabComponentsAverageBlockCollection._checkComponentConsistency(b, repBlock): 1..3 components per block
    (enumerated; compared in stored order); areas (= thickness x width) and multiplicities symbolic, presence of the
    key nuclide U238 per component arbitrary; component number `bad` of b (0 = none; enumerated) is not a Rectangle.
    Refused (ValueError; TypeError for the shape) exactly when a shape is not rectangular or an area, a multiplicity
    or the key-nuclide content of two components at the same position differ."""
    nb = choose(nb, 1, 3)
    bad = choose(bad, 0, nb)
    ab, ar, mb, mr = [A1, A2, A3][:nb], [P1, P2, P3][:nb], [m1, m2, m3][:nb], [r1, r2, r3][:nb]
    hb, hr = [f1, f2, f3][:nb], [g1, g2, g3][:nb]
    cb = []
    for k in range(nb):
        nd = {"C": 0.01, "U238": 0.02} if hb[k] else {"C": 0.01}
        if bad == k + 1:
            cb.append(new(PlainComp, order=k, area=ab[k], lattice=False, p=new(Params, numberDensities=nd, mult=mb[k])))
        else:
            cb.append(rcomp(nd, area=ab[k], mult=mb[k]))
    cr = [rcomp({"C": 0.03, "U238": 0.04} if hr[k] else {"C": 0.03}, area=ar[k], mult=mr[k]) for k in range(nb)]
    b, rep = cblk(cb), cblk(cr)
    try:
        Slab._checkComponentConsistency(b, rep)
        refused = False
    except (ValueError, TypeError):
        refused = True
    mismatch = bad != 0 or any(ab[k] != ar[k] or mb[k] != mr[k] or hb[k] != hr[k] for k in range(nb))
    assert refused == mismatch, "refused loudly exactly when the components do not match"


def matches(c, r):
    """'matching component': same dimensions, multiplicity and key-nuclide content"""
    return c.getArea() == r.getArea() and c.p.mult == r.p.mult and all((k in c.p.numberDensities) == (k in r.p.numberDensities) for k in KEY_NUCS)


GENT = {"n": [1, 2, 3], "A": [0.5, 1.0, 1.0], "B": [0.5, 2.0, 2.0], "P": [0.5, 1.0, 2.0], "Q": [0.5, 1.0, 2.0], "mq": [1.0, 1.0, 2.0]}


@lemma(gen=GENT)
def slab_components_are_grouped_with_their_matching_component(n: int, A: float, B: float, P: float, Q: float, mq: float, fe1: bool,
                                                              fe2: bool, e1: bool, e2: bool, e3: bool, lat2: bool):
    """_orderComponentsInGroup / _reverseComponentOrder of the slab collection: representative block = two plates of
    areas A, B (the second holds FE56) + the zero-area lattice component (last); 1..3 members (enumerated), any
    non-empty subset eligible.  Members 1 and 3 are like the representative block; member 2 has plates of symbolic
    areas P, Q (each with FE56 or not, the second of multiplicity mq), and a lattice component or (lat2 false) a third
    plate of zero area.
    Either every group holds, for each eligible member, exactly one component and it MATCHES the representative
    block's component of that position (each member component used once) - or the collection is refused."""
    n = choose(n, 1, 3)
    es = [e1, e2, e3][:n]
    assume(any(es) and A > 0 and B > 0 and P > 0 and Q > 0)

    def like_rep():
        return [rcomp({"U235": 0.01}, area=A), rcomp({"U235": 0.02, "FE56": 0.03}, area=B), rcomp({}, area=0.0, lattice=True)]

    second = [rcomp({"U235": 0.04, "FE56": 0.07} if fe1 else {"U235": 0.04}, area=P),
              rcomp({"U235": 0.05, "FE56": 0.06} if fe2 else {"U235": 0.05}, area=Q, mult=mq),
              rcomp({}, area=0.0, lattice=lat2)]
    members = [like_rep(), second, like_rep()][:n]
    bc = Slab(NUCS)
    bc._validRepresentativeBlockTypes = [FUEL]
    for i in range(n):
        bc.append(cblk(members[i], eligible=es[i]))
    rep = cblk(like_rep())
    try:
        groups = bc._orderComponentsInGroup(rep)
        refused = False
    except (ValueError, IndexError):  # IndexError: _reverseComponentOrder on a block without lattice component
        refused = True
    el = [i for i in range(n) if es[i]]
    if not refused:
        assert len(groups) == 3, "one group per component of the representative block"
        for j in range(3):
            assert len(groups[j]) == len(el), "one component of every eligible member"
            for pos, i in enumerate(el):
                assert matches(groups[j][pos], rep.comps[j]), "only matching components are averaged together"
                assert sum(1 for c in members[i] if same(c, groups[j][pos])) == 1, "a component of that member"
        for i in el:
            for c in members[i]:
                assert sum(1 for j in range(3) for g in groups[j] if same(g, c)) == 1, "every component is used exactly once"
    forward = P == A and Q == B and not fe1 and fe2 and mq == 1.0 and lat2
    mirrored = P == B and Q == A and fe1 and not fe2 and mq == 1.0 and lat2
    if n >= 2 and es[1]:
        assert implies(forward, not refused), "a member like the representative block is accepted"
        assert implies(mirrored, not refused), "so is a member with its plates in the reverse order"
    else:
        assert not refused


class SBlk(CBlk):
    """block stand-in for _removeLatticeComponents.  Contracts: iterating iterComponents() walks the LIVE child list
    (Composite.iterComponents is the lazy `(c for child in self for c in child.iterComponents(..))`, Composite.__iter__
    is iter(self._children), a Component yields itself): returned here as the child list itself, which a for loop
    walks in exactly the same way; remove(c) takes c out of the child list (Composite.remove)."""

    def iterComponents(self, typeSpec=None, exact=False):
        return self.comps

    def remove(self, c):
        self.comps.remove(c)


def lattice_case(k, ls):
    comps = [rcomp({"U235": 0.01}, area=0.0 if ls[j] else 1.0, lattice=ls[j]) for j in range(k)]
    rep = new(SBlk, comps=list(comps))
    out = Slab._removeLatticeComponents(rep)
    assert same(out, rep)
    assert not any(c.isLatticeComponent() for c in out.comps), "no lattice component is left"
    keep = [c for c in comps if not c.lattice]
    assert len(out.comps) == len(keep) and all(same(a, b) for a, b in zip(out.comps, keep)), "the plates are kept, in order"


@lemma(gen={"k": [1, 2, 3, 4], "pos": [0, 1, 2, 3, 4]})
def the_lattice_component_is_removed_from_the_representative_block(k: int, pos: int):
    """_removeLatticeComponents on a block of 1..4 components (enumerated) with at most ONE lattice component (at any
    position, enumerated; _reverseComponentOrder refuses blocks with several): afterwards no lattice component is
    left, every plate is kept in order, the same block is returned.  Several lattice components: see
    contracts/pending/C20_collections_finding.py"""
    k = choose(k, 1, 4)
    pos = choose(pos, 0, k)
    lattice_case(k, [j + 1 == pos for j in range(k)])


# ------------------------------------------------------------------------------------------ nuclide temperatures
def strip_contract(block, compFlags):
    """contract assumed for blockConverters.stripComponents(block, Flags.DUCT) (deepcopy + Flags, outside the engine):
    a copy of the block WITHOUT the duct and everything outside it; the remaining components keep their
    composition, temperature and volume (volume fraction x block volume); the source block is unchanged"""
    inner = [c for c in block.comps if c.inDuct]
    return new(CBlk, comps=inner, vol=block.vol, eligible=block.eligible, name=block.name, avgT=block.avgT, p=block.p), None


class DuctFlags:
    """stand-in for the Flags class: only the name DUCT is passed through to stripComponents"""

    DUCT = "duct-flag"


def tcomp(order, u, temp, volFrac, inDuct, fe=None):
    c = ccomp(order, {"U235": u} if fe is None else {"U235": u, "FE56": fe}, temp=temp, volFrac=volFrac)
    c.inDuct = inDuct
    return c


GENU = {"n": [1, 2, 2], "v1": (0.1, 50.0), "v2": (0.1, 50.0), "Ta1": (20.0, 900.0), "Tb1": (20.0, 900.0), "Td1": (20.0, 900.0), "Ta2": (20.0, 900.0),
        "Tb2": (20.0, 900.0), "Td2": (20.0, 900.0), "ua1": [0.0, 0.01, 0.02], "ub1": (0.001, 0.03), "ua2": [0.0, 0.015, 0.03], "ub2": (0.001, 0.03),
        "qa1": (0.05, 0.45), "qb1": (0.05, 0.45), "qa2": (0.05, 0.45), "qb2": (0.05, 0.45)}


@lemma(gen=GENU, stubs={"armi.reactor.converters.blockConverters:stripComponents": "strip_contract"},
       overrides={"armi.physics.neutronics.crossSectionGroupManager:Flags": "DuctFlags"})
def cylindrical_nuclide_temperatures_are_density_volume_weighted_means(n: int, ductHet: bool, v1: float, v2: float, Ta1: float, Tb1: float,
                                                                       Td1: float, Ta2: float, Tb2: float, Td2: float, ua1: float,
                                                                       ub1: float, ua2: float, ub2: float, qa1: float, qb1: float,
                                                                       qa2: float, qb2: float, e1: bool, e2: bool):
    """calcAvgNuclideTemperatures through _getNucTempHelper of the cylindrical collection and of its duct-heterogeneous
    variant (stub: stripComponents, see strip_contract; override: Flags): 1..2 members (enumerated), any non-empty
    subset eligible, three components each - two inside the duct with U235 (density >= 0: zero counts as a trace /
    > 0) and the duct with U235 and FE56.  T(nuclide) = mean of the component temperatures weighted by block weight
    (= volume) x density x component volume over the components of the eligible members - with ductHet only those
    inside the duct; a nuclide listed by no contributing component gets 0."""
    n = choose(n, 1, 2)
    vs, es = [v1, v2][:n], [e1, e2][:n]
    Ts, us, qs = [(Ta1, Tb1, Td1), (Ta2, Tb2, Td2)][:n], [(ua1, ub1), (ua2, ub2)][:n], [(qa1, qb1), (qa2, qb2)][:n]
    assume(all(v > 0 for v in vs) and any(es) and all(a >= 0 and b > 0 for a, b in us))
    assume(all(qa > 0 and qb > 0 and qa + qb < 1 for qa, qb in qs))
    bc = DuctHet(NUCS) if ductHet else Cyl(NUCS)
    bc._validRepresentativeBlockTypes = [FUEL]
    for v, T, u, q, e in zip(vs, Ts, us, qs, es):
        comps = [tcomp(0, u[0], T[0], q[0], True), tcomp(1, u[1], T[1], q[1], True), tcomp(2, 0.5, T[2], 1 - q[0] - q[1], False, fe=0.04)]
        bc.append(cblk(comps, vol=v, eligible=e))
    bc.calcAvgNuclideTemperatures()
    trace = xsgm.TRACE_NUMBER_DENSITY
    ws, xs, wfe, xfe = [], [], [], []
    for i in range(n):
        if es[i]:
            dens = [us[i][0] if us[i][0] != 0 else trace, us[i][1], 0.5]
            fracs = [qs[i][0], qs[i][1], 1 - qs[i][0] - qs[i][1]]
            for c in range(2 if ductHet else 3):
                ws.append(vs[i] * dens[c] * fracs[c] * vs[i])
                xs.append(Ts[i][c])
            wfe.append(vs[i] * 0.04 * fracs[2] * vs[i])
            xfe.append(Ts[i][2])
    check_mean(bc.avgNucTemperatures["U235"], ws, xs, "T(U235)")
    if ductHet:
        assert eq(bc.avgNucTemperatures["FE56"], 0.0), "FE56 is only in the duct: not part of the homogenised region"
    else:
        check_mean(bc.avgNucTemperatures["FE56"], wfe, xfe, "T(FE56)")
    assert len(bc.avgNucTemperatures) == 2


GENM = {"n": [1, 2, 3], "v1": (0.1, 50.0), "v2": (0.1, 50.0), "v3": (0.1, 50.0), "b1": (0.0, 30.0), "b2": (0.0, 30.0), "b3": (0.0, 30.0),
        "Ta1": (20.0, 900.0), "Tb1": (20.0, 900.0), "Ta2": (20.0, 900.0), "Tb2": (20.0, 900.0), "Ta3": (20.0, 900.0), "Tb3": (20.0, 900.0),
        "ua": [0.0, 0.01, 0.02], "ub": (0.001, 0.03), "q": (0.05, 0.95)}


class MBlk(CBlk):
    pass


@lemma(gen=GENM)
def median_collection_temperatures_are_those_of_the_median_member(n: int, v1: float, v2: float, v3: float, b1: float, b2: float, b3: float,
                                                                  Ta1: float, Tb1: float, Ta2: float, Tb2: float, Ta3: float, Tb3: float,
                                                                  ua: float, ub: float, q: float, e1: bool, e2: bool, e3: bool):
    """MedianBlockCollection.calcAvgNuclideTemperatures / _getNucTempHelper: 1..3 members with distinct names
    (enumerated), any non-empty subset eligible, volumes and burnups symbolic (they select the median member, see
    C20_xsgroups.py); two components each with symbolic temperatures, U235 densities ua >= 0 (zero = trace), ub > 0
    and volume fractions q, 1-q: the temperatures are those of the median member alone (density x volume weighted
    over ITS components), no other member enters"""
    n = choose(n, 1, 3)
    vs, bs, es = [v1, v2, v3][:n], [b1, b2, b3][:n], [e1, e2, e3][:n]
    Ts = [(Ta1, Tb1), (Ta2, Tb2), (Ta3, Tb3)][:n]
    assume(all(v > 0 for v in vs) and all(b >= 0 for b in bs) and any(es) and ua >= 0 and ub > 0 and 0 < q < 1)
    bc = Median(NUCS)
    bc._validRepresentativeBlockTypes = [FUEL]
    names = ["B0003", "B0001", "B0002"]
    for i in range(n):
        comps = [tcomp(0, ua, Ts[i][0], q, True), tcomp(1, ub, Ts[i][1], 1 - q, True)]
        blk = cblk(comps, vol=vs[i], eligible=es[i], name=names[i])
        blk.p.percentBu = bs[i]
        bc.append(blk)
    med = bc._getMedianBlock()
    k = [i for i in range(n) if same(bc[i], med)][0]
    assert es[k]
    bc.calcAvgNuclideTemperatures()
    da = ua if ua != 0 else xsgm.TRACE_NUMBER_DENSITY
    check_mean(bc.avgNucTemperatures["U235"], [da * q * vs[k], ub * (1 - q) * vs[k]], [Ts[k][0], Ts[k][1]], "T(U235)")
    assert eq(bc.avgNucTemperatures["FE56"], 0.0), "a nuclide no component lists"


# ------------------------------------------------------------------------------------------ similar blocks
def similarity_case(n, counts, flags, es, byComponent):
    bc = Average(NUCS, averageByComponent=byComponent)
    bc._validRepresentativeBlockTypes = [FUEL]
    for i in range(n):
        comps = [ccomp(j, {"U235": 0.01}, flags=flags[i][j]) for j in range(counts[i])]
        bc.append(cblk(comps if i == 0 else reversed(comps), eligible=es[i]))  # stored order differs between members
    return bc


GENF = {"n": [1, 2, 3], "k": [1, 2, 3], "a1": [1, 2], "a2": [3, 4, 3], "a3": [5, 5, 6], "b1": [1, 2], "b2": [3, 4, 3], "b3": [5, 5, 6], "c1": [1, 2],
        "c2": [3, 4, 3], "c3": [5, 5, 6]}


@lemma(gen=GENF)
def component_wise_averaging_only_for_members_with_the_same_component_types(n: int, k: int, a1: int, a2: int, a3: int, b1: int, b2: int, b3: int,
                                                                            c1: int, c2: int, c3: int, e1: bool, e2: bool, e3: bool,
                                                                            byComponent: bool):
    """AverageBlockCollection._checkBlockSimilarity / _performAverageByComponent: 1..3 members (enumerated) of k = 1..3
    components each (enumerated; stored in radial order in the first member, reversed in the others), component
    flags arbitrary integers, any non-empty
    subset eligible: averaging per component is done exactly when it is requested and the components at the same
    (sorted) position of all ELIGIBLE members carry the same flags"""
    n = choose(n, 1, 3)
    k = choose(k, 1, 3)
    es = [e1, e2, e3][:n]
    flags = [[a1, a2, a3], [b1, b2, b3], [c1, c2, c3]]
    assume(any(es))
    bc = similarity_case(n, [k] * n, flags, es, byComponent)
    el = [i for i in range(n) if es[i]]
    similar = all(flags[i][j] == flags[el[0]][j] for i in el for j in range(k))
    assert bc._checkBlockSimilarity() == similar
    assert bc._performAverageByComponent() == (byComponent and similar)


# ------------------------------------------------------------------------------------------ XS id of a block
RealBlock = repo("armi.reactor.blocks:Block")
LETTERS = xsgm._ALLOWABLE_XS_TYPE_LIST


class NamedBlock(RealBlock):
    """the real Block.getMicroSuffix on an object without the Composite machinery (only p.xsType / p.envGroup are read)"""

    def __repr__(self):
        return "<block>"


def suffix_of(xsType, env):
    return new(NamedBlock, p=new(Params, xsType=xsType, envGroup=env), parent=None).getMicroSuffix()


@lemma(gen={"t": (0, 51)})
def xs_id_is_type_letter_followed_by_environment_letter(t: int):
    """Block.getMicroSuffix for every one-letter XS type (enumerated with choose) and every environment group letter
    (loop): the id is the two-character string type + environment, so it determines both and two blocks share an id
    exactly when they share type and environment group"""
    assert len(LETTERS) == 52
    t = choose(t, 0, 51)
    seen = {}
    for e in LETTERS:
        s = suffix_of(LETTERS[t], e)
        assert len(s) == 2 and s[0] == LETTERS[t] and s[1] == e, "type letter + environment letter"
        assert s not in seen, "different environment groups give different ids"
        seen[s] = e
    assert len(seen) == 52


ENVS = ["A", "B", "Z", "a", "z"]


@lemma(gen={"t": (0, 51), "u": (0, 4)})
def two_letter_types_only_with_the_default_environment_group(t: int, u: int):
    """two-letter XS types (first letter enumerated with choose, second by a loop; u picks the environment group out
    of A, B, Z, a, z): with the default environment group 'A' the id is the type itself; with any other group the
    block is refused (ValueError) - never an id that drops the group silently; a block without environment group is
    refused too"""
    t = choose(t, 0, 51)
    u = choose(u, 0, 4)
    env = ENVS[u]
    good = True
    for second in LETTERS:
        xsType = LETTERS[t] + second
        try:
            s = suffix_of(xsType, env)
            refused = False
        except ValueError:
            refused = True
        good = good and refused == (env != "A") and (refused or s == xsType)
    assert good, "id = the type with group 'A', refused with any other group"
    try:
        suffix_of(LETTERS[t], "")
        refused = False
    except RuntimeError:
        refused = True
    assert refused, "no environment group: no id"


# ------------------------------------------------------------------------------------------ whole representative blocks
def clone_comp(c):
    nd = dict(c.p.numberDensities)
    if isinstance(c, RComp):
        return rcomp(nd, area=c.area, mult=c.p.mult, lattice=c.lattice)
    k = ccomp(c.order, nd, area=c.area, mult=c.p.mult, temp=c.temperatureInC, volFrac=c.volFrac, flags=c.p.flags)
    k.mass = c.mass
    return k


def new_block_contract(self):
    """contract assumed for _getNewBlock (copy.deepcopy of a Block + a new name: outside the engine): a FRESH block
    with fresh components equal to the template - the collection's first eligible member, or for the cylindrical
    collections the member chosen by _selectCandidateBlock; the template itself is not changed"""
    src = self._selectCandidateBlock() if isinstance(self, Cyl) else self.getCandidateBlocks()[0]
    out = new(SBlk, comps=[clone_comp(c) for c in src.comps], vol=src.vol, eligible=src.eligible, name="REP", avgT=src.avgT,
              height=src.height, dens=dict(src.dens), lfp=src.lfp, p=new(Params, flux=src.p.flux, massHmBOL=src.p.massHmBOL, percentBu=src.p.percentBu))
    return out


NEW_BLOCK_STUBS = {"armi.physics.neutronics.crossSectionGroupManager:BlockCollection._getNewBlock": "new_block_contract",
                   "armi.physics.neutronics.crossSectionGroupManager:CylindricalComponentsAverageBlockCollection._getNewBlock": "new_block_contract",
                   "armi.physics.neutronics.crossSectionGroupManager:SlabComponentsAverageBlockCollection._getNewBlock": "new_block_contract"}


def full_member(kind, v, f, us, areas, T, m, hm, bu, eligible, name, avgT):
    """a member with two components (stored in reverse radial order for the radial collections)"""
    if kind == "slab":
        comps = [rcomp({"U235": us[0]}, area=areas[0]), rcomp({"U235": us[1]}, area=areas[1])]
    else:
        comps = [ccomp(1, {"U235": us[1]}, area=areas[1], temp=T[1], volFrac=0.5), ccomp(0, {"U235": us[0]}, area=areas[0], temp=T[0], volFrac=0.5)]
        comps[0].mass, comps[1].mass = m[1], m[0]
    b = cblk(comps, vol=v, flux=f, eligible=eligible, name=name, avgT=avgT)
    b.height, b.dens, b.lfp = 2.0, {"U235": 0.5 * (us[0] + us[1]), "FE56": 0.0}, "LFP-" + name
    b.p.massHmBOL, b.p.percentBu = hm, bu
    return b


GENR = {"n": [1, 2, 2], "v1": (0.1, 50.0), "v2": (0.1, 50.0), "ua1": (0.0, 0.05), "ub1": (0.0, 0.05), "ua2": (0.0, 0.05), "ub2": (0.0, 0.05),
        "Ta1": (20.0, 900.0), "Tb1": (20.0, 900.0), "Ta2": (20.0, 900.0), "Tb2": (20.0, 900.0), "ma1": [0.5, 2.0, 3.0], "mb1": [0.5, 1.0, 4.0],
        "ma2": [1.5, 2.0, 3.0], "mb2": [0.25, 1.0, 4.0], "g1": [0.5, 1.5, 3.0], "g2": [0.25, 8.0, 2.0], "b1": (0.0, 30.0), "b2": (0.0, 30.0),
        "ux": (0.0, 0.05), "A1": [0.5, 1.0, 2.0], "A2": [0.5, 1.0, 2.0], "B1": [0.5, 1.0, 2.0], "B2": [0.5, 1.0, 2.0], "t1": (200.0, 900.0), "t2": (200.0, 900.0)}


@lemma(gen=GENR, stubs=NEW_BLOCK_STUBS)
def average_representative_block_is_built_from_the_eligible_members_only(n: int, byComponent: bool, v1: float, v2: float, ua1: float,
                                                                         ub1: float, ua2: float, ub2: float, Ta1: float, Tb1: float,
                                                                         Ta2: float, Tb2: float, ma1: float, mb1: float, ma2: float,
                                                                         mb2: float, g1: float, g2: float, b1: float, b2: float, ux: float):
    """AverageBlockCollection.createRepresentativeBlock (real _checkValidWeightingFactors, _makeRepresentativeBlock,
    _performAverageByComponent, _checkBlockSimilarity, the averaging kernels, _calcWeightedBurnup,
    calcAvgNuclideTemperatures; stub: _getNewBlock, see new_block_contract): 1..2 eligible members (enumerated) of two
    components each (all values symbolic, masses > 0), preceded by an INELIGIBLE member; volume weighting.  The
    representative block is a new object;
    with component averaging each of its components carries the weight-normalised mean density and the
    (weight / height x mass)-weighted mean temperature of the members' components AT THE SAME radial position, else
    the block carries the mean homogenised densities; its burnup is the heavy-metal-weighted mean; the members and
    their components are left unchanged."""
    n = choose(n, 1, 2)
    vs, us, Ts, ms = [v1, v2][:n], [(ua1, ub1), (ua2, ub2)][:n], [(Ta1, Tb1), (Ta2, Tb2)][:n], [(ma1, mb1), (ma2, mb2)][:n]
    gs, bs = [g1, g2][:n], [b1, b2][:n]
    assume(all(v > 0 for v in vs) and all(a >= 0 and b >= 0 for a, b in us) and all(a > 0 and b > 0 for a, b in ms) and all(g > 0 for g in gs))
    bc = Average(NUCS, averageByComponent=byComponent)
    bc._validRepresentativeBlockTypes = [FUEL]
    outsider = full_member("avg", 7.0, 0.0, (ux, ux), (1.0, 1.0), (-40.0, -40.0), (5.0, 5.0), 9.0, 99.0, False, "X", 0.0)
    bc.append(outsider)
    members = [full_member("avg", vs[i], 0.0, us[i], (1.0, 1.0), Ts[i], ms[i], gs[i], bs[i], True, "M%d" % i, 0.0) for i in range(n)]
    for b in members:
        bc.append(b)
    rep = bc.createRepresentativeBlock()
    assert not any(same(rep, b) for b in bc), "a new block, not a member"
    assert rep.lfp == "LFP-M0", "lumped fission products of an eligible member"
    rc = sorted(rep.getComponents())
    if byComponent:
        for j in range(2):
            mean_eq(rc[j].p.numberDensities["U235"], vs, [us[i][j] for i in range(n)], "density of component %d" % j)
            mean_eq(rc[j].temperatureInC, [vs[i] / 2.0 * ms[i][j] for i in range(n)], [Ts[i][j] for i in range(n)], "temperature of component %d" % j)
    else:
        mean_eq(rep.dens["U235"], vs, [0.5 * (us[i][0] + us[i][1]) for i in range(n)], "homogenised density")
    mean_eq(rep.p.percentBu, gs, bs, "burnup")
    assert len(bc.avgNucTemperatures) == 2, "nuclide temperatures are evaluated as well (their values: separate lemmas)"
    for i in range(n):
        b = members[i]
        assert eq(b.dens["U235"], 0.5 * (us[i][0] + us[i][1])) and eq(b.p.percentBu, bs[i]) and b.lfp == "LFP-M%d" % i, "members are not changed"
        sc = sorted(b.getComponents())
        for j in range(2):
            assert eq(sc[j].p.numberDensities["U235"], us[i][j]) and eq(sc[j].temperatureInC, Ts[i][j]), "nor are their components"
    assert eq(outsider.p.percentBu, 99.0) and eq(outsider.dens["U235"], ux)


@lemma(gen=GENR, stubs=NEW_BLOCK_STUBS)
def cylindrical_representative_block_averages_matching_components(n: int, v1: float, v2: float, ua1: float, ub1: float, ua2: float, ub2: float,
                                                                  A1: float, B1: float, A2: float, B2: float, g1: float, g2: float,
                                                                  b1: float, b2: float, t1: float, t2: float, ux: float):
    """CylindricalComponentsAverageBlockCollection.createRepresentativeBlock (real _makeRepresentativeBlock,
    _selectCandidateBlock, _orderComponentsInGroup, _checkComponentConsistency, _getAverageComponentNucs,
    _calcWeightedBurnup, calcAvgNuclideTemperatures; stub: _getNewBlock): 1..2 eligible members (enumerated) of two
    components each (stored in reverse radial order; areas, densities, block temperatures symbolic) preceded by an
    ineligible member: every component of the new block carries the mean of the members' components at the same
    radial position weighted by block weight x component area; burnup = heavy-metal-weighted mean; members unchanged"""
    n = choose(n, 1, 2)
    vs, us, ar = [v1, v2][:n], [(ua1, ub1), (ua2, ub2)][:n], [(A1, B1), (A2, B2)][:n]
    gs, bs, ts = [g1, g2][:n], [b1, b2][:n], [t1, t2][:n]
    assume(all(v > 0 for v in vs) and all(a > 0 and b > 0 for a, b in ar) and all(g > 0 for g in gs))
    bc = Cyl(NUCS)
    bc._validRepresentativeBlockTypes = [FUEL]
    outsider = full_member("cyl", 7.0, 0.0, (ux, ux), (1.0, 1.0), (-40.0, -40.0), (5.0, 5.0), 9.0, 99.0, False, "X", 5000.0)
    bc.append(outsider)
    members = [full_member("cyl", vs[i], 0.0, us[i], ar[i], (300.0, 400.0), (1.0, 1.0), gs[i], bs[i], True, "M%d" % i, ts[i]) for i in range(n)]
    for b in members:
        bc.append(b)
    rep = bc.createRepresentativeBlock()
    assert not any(same(rep, b) for b in bc), "a new block, not a member"
    rc = sorted(rep)
    assert len(rc) == 2
    for j in range(2):
        mean_eq(rc[j].p.numberDensities["U235"], [vs[i] * ar[i][j] for i in range(n)], [us[i][j] for i in range(n)], "density of component %d" % j)
    mean_eq(rep.p.percentBu, gs, bs, "burnup")
    assert len(bc.avgNucTemperatures) == 2
    for i in range(n):
        sc = sorted(members[i])
        assert all(eq(sc[j].p.numberDensities["U235"], us[i][j]) for j in range(2)) and eq(members[i].p.percentBu, bs[i]), "members are not changed"
    assert eq(outsider.p.percentBu, 99.0) and eq(outsider.comps[0].p.numberDensities["U235"], ux)


@lemma(gen=GENR, stubs=NEW_BLOCK_STUBS)
def slab_representative_block_averages_matching_plates(n: int, mirrored: bool, v1: float, v2: float, ua1: float, ub1: float, ua2: float,
                                                       ub2: float, A1: float, B1: float, g1: float, g2: float, b1: float, b2: float, ux: float):
    """SlabComponentsAverageBlockCollection.createRepresentativeBlock (real _makeRepresentativeBlock,
    _orderComponentsInGroup, _checkComponentConsistency, _reverseComponentOrder, _getAverageComponentNucs,
    _removeLatticeComponents, _calcWeightedBurnup; stub: _getNewBlock): 1..2 eligible members (enumerated) = two plates
    of areas A1 != B1 + the lattice component (the second member possibly with its plates in reverse order),
    preceded by an ineligible member: each plate of the new block carries the mean of the MATCHING plates (same
    dimensions) weighted by block weight x area, the lattice component is gone; members unchanged"""
    n = choose(n, 1, 2)
    vs, us, gs, bs = [v1, v2][:n], [(ua1, ub1), (ua2, ub2)][:n], [g1, g2][:n], [b1, b2][:n]
    assume(all(v > 0 for v in vs) and A1 > 0 and B1 > 0 and A1 != B1 and all(g > 0 for g in gs))
    bc = Slab(NUCS)
    bc._validRepresentativeBlockTypes = [FUEL]
    outsider = full_member("slab", 7.0, 0.0, (ux, ux), (A1, B1), None, None, 9.0, 99.0, False, "X", 0.0)
    bc.append(outsider)
    members = []
    for i in range(n):
        b = full_member("slab", vs[i], 0.0, us[i], (A1, B1), None, None, gs[i], bs[i], True, "M%d" % i, 0.0)
        if i == 1 and mirrored:
            b.comps.reverse()
        b.comps.append(rcomp({}, area=0.0, lattice=True))
        members.append(b)
        bc.append(b)
    rep = bc.createRepresentativeBlock()
    assert not any(same(rep, b) for b in bc), "a new block, not a member"
    assert len(rep.comps) == 2 and not any(c.isLatticeComponent() for c in rep.comps), "two plates, no lattice component"
    for j in range(2):
        assert eq(rep.comps[j].getArea(), [A1, B1][j])
        mean_eq(rep.comps[j].p.numberDensities["U235"], [vs[i] * [A1, B1][j] for i in range(n)], [us[i][j] for i in range(n)], "density of plate %d" % j)
    mean_eq(rep.p.percentBu, gs, bs, "burnup")
    for i in range(n):
        assert len(members[i].comps) == 3 and eq(members[i].p.percentBu, bs[i]), "members are not changed"
        for c in members[i].comps:
            if not c.lattice:
                assert eq(c.p.numberDensities["U235"], us[i][0] if c.area == A1 else us[i][1])
    assert eq(outsider.p.percentBu, 99.0) and eq(outsider.comps[0].p.numberDensities["U235"], ux)


# ------------------------------------------------------------------------------------------ the same with fixed weights
# Companions of the general lemmas above with CONCRETE weights and symbolic values: linear arithmetic, so that a wrong
# weight or a wrong normalisation is refuted with a model at once (the general statements are above).
@lemma(gen=GENA)
def matching_component_average_with_fixed_weights(slab: bool, u1: float, u2: float, u3: float, c1: float, c3: float):
    """three matching components with block weights 2, 3, 1/2 and areas 1, 4, 2; FE56 is listed by the first and the
    third only"""
    comps = [ccomp(0, {"U235": u1, "FE56": c1}, area=1.0), ccomp(0, {"U235": u2}, area=4.0), ccomp(0, {"FE56": c3, "U235": u3}, area=2.0)]
    bc = Slab(NUCS) if slab else Cyl(NUCS)
    names, dens = bc._getAverageComponentNucs(comps, [2.0, 3.0, 0.5])
    assert names == ["FE56", "U235"]
    assert eq(dens[1] * 15.0, 2.0 * u1 + 12.0 * u2 + 1.0 * u3)
    assert eq(dens[0] * 15.0, 2.0 * c1 + 1.0 * c3)
    names, dens = bc._getAverageComponentNucs([ccomp(0, {"U235": u1}, area=0.0), ccomp(0, {"U235": u2}, area=0.0)], [2.0, 3.0])
    assert names == ["U235"] and eq(dens[0], 0.0), "components without area (the lattice component): zero"


@lemma(gen=GENU, stubs={"armi.reactor.converters.blockConverters:stripComponents": "strip_contract"},
       overrides={"armi.physics.neutronics.crossSectionGroupManager:Flags": "DuctFlags"})
def cylindrical_nuclide_temperatures_with_fixed_weights(ductHet: bool, Ta1: float, Tb1: float, Td1: float, Ta2: float, Tb2: float, Td2: float,
                                                        v2: float):
    """two eligible members of volumes 2 and 3 (+ one ineligible), components inside the duct with U235 densities 0.01
    / 0 (= trace) and 0.02 / 0.004 and volume fractions 1/4, 1/4 and 1/2, 1/4; the duct (U235 0.5, FE56 0.04) takes
    the rest; the six component temperatures symbolic"""
    bc = DuctHet(NUCS) if ductHet else Cyl(NUCS)
    bc._validRepresentativeBlockTypes = [FUEL]
    bc.append(cblk([tcomp(0, 0.01, Ta1, 0.25, True), tcomp(1, 0.0, Tb1, 0.25, True), tcomp(2, 0.5, Td1, 0.5, False, fe=0.04)], vol=2.0))
    bc.append(cblk([tcomp(0, 0.3, 1000.0, 0.5, True), tcomp(1, 0.3, 2000.0, 0.5, False, fe=0.3)], vol=v2, eligible=False))
    bc.append(cblk([tcomp(0, 0.02, Ta2, 0.5, True), tcomp(1, 0.004, Tb2, 0.25, True), tcomp(2, 0.5, Td2, 0.25, False, fe=0.04)], vol=3.0))
    bc.calcAvgNuclideTemperatures()
    tr = xsgm.TRACE_NUMBER_DENSITY
    # weight of a component: block weight (= volume) x density x volume fraction x block volume
    w = [2.0 * 0.01 * 0.25 * 2.0, 2.0 * tr * 0.25 * 2.0, 2.0 * 0.5 * 0.5 * 2.0, 3.0 * 0.02 * 0.5 * 3.0, 3.0 * 0.004 * 0.25 * 3.0, 3.0 * 0.5 * 0.25 * 3.0]
    T = [Ta1, Tb1, Td1, Ta2, Tb2, Td2]
    use = [0, 1, 3, 4] if ductHet else [0, 1, 2, 3, 4, 5]
    assert eq(bc.avgNucTemperatures["U235"] * sum(w[k] for k in use), sum(w[k] * T[k] for k in use))
    if ductHet:
        assert eq(bc.avgNucTemperatures["FE56"], 0.0)
    else:
        fe = [2.0 * 0.04 * 0.5 * 2.0, 3.0 * 0.04 * 0.25 * 3.0]
        assert eq(bc.avgNucTemperatures["FE56"] * (fe[0] + fe[1]), fe[0] * Td1 + fe[1] * Td2)


@lemma(gen=GENR, stubs=NEW_BLOCK_STUBS)
def average_representative_block_with_fixed_weights(byComponent: bool, ua1: float, ub1: float, ua2: float, ub2: float, Ta1: float, Tb1: float,
                                                    Ta2: float, Tb2: float, b1: float, b2: float, ux: float):
    """two eligible members of volumes 1 and 3, component masses (3, 1) and (2, 5), heavy-metal masses 1.5 and 4
    (height 2 each) + one ineligible member; densities, temperatures, burnups symbolic"""
    bc = Average(NUCS, averageByComponent=byComponent)
    bc._validRepresentativeBlockTypes = [FUEL]
    bc.append(full_member("avg", 1.0, 0.0, (ua1, ub1), (1.0, 1.0), (Ta1, Tb1), (3.0, 1.0), 1.5, b1, True, "M0", 0.0))
    bc.append(full_member("avg", 7.0, 0.0, (ux, ux), (1.0, 1.0), (-40.0, -40.0), (5.0, 5.0), 9.0, 99.0, False, "X", 0.0))
    bc.append(full_member("avg", 3.0, 0.0, (ua2, ub2), (1.0, 1.0), (Ta2, Tb2), (2.0, 5.0), 4.0, b2, True, "M1", 0.0))
    rep = bc.createRepresentativeBlock()
    rc = sorted(rep.getComponents())
    if byComponent:
        assert eq(rc[0].p.numberDensities["U235"] * 4.0, ua1 + 3.0 * ua2) and eq(rc[1].p.numberDensities["U235"] * 4.0, ub1 + 3.0 * ub2)
        # weight / height x mass: (1/2) x 3, (3/2) x 2 for the inner component; (1/2) x 1, (3/2) x 5 for the outer one
        assert eq(rc[0].temperatureInC * 4.5, 1.5 * Ta1 + 3.0 * Ta2)
        assert eq(rc[1].temperatureInC * 8.0, 0.5 * Tb1 + 7.5 * Tb2)
    else:
        assert eq(rep.dens["U235"] * 4.0, 0.5 * (ua1 + ub1) + 3.0 * 0.5 * (ua2 + ub2))
        assert eq(rc[0].p.numberDensities["U235"], ua1) and eq(rc[0].temperatureInC, Ta1), "components as in the template"
    assert eq(rep.p.percentBu * 5.5, 1.5 * b1 + 4.0 * b2)
