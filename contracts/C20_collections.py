"""C20 - the component-wise block collections (1D cylinder / duct-heterogeneous / 1D slab), the median collection's
temperatures, block similarity, and the XS id of a block.

The collection code is the real one (armi/physics/neutronics/crossSectionGroupManager.py).  Collaborator stand-ins
(outside the engine's reach: Block / Component / ParameterCollection / Flags), each with the contract assumed:
  Params - ParameterCollection viewed as a name -> value map (p.name and p["name"] read the same stored value).
  CComp  - Component: __lt__ = strict order of the bounding circles (attribute `order`); getNuclides() = the keys of
           p.numberDensities; getNuclideNumberDensities(names) = [p.numberDensities.get(n, 0.0) ...] (Component's
           own text); getArea() = stored area; p.mult, p.flags, temperatureInC stored; isLatticeComponent() stored;
           setNumberDensity(n, v) stores v under n.
  CBlk   - Block: iteration / len over its components in stored order (Composite.__iter__/__len__ over _children);
           hasFlags(None) is True, hasFlags(list) = attribute `eligible`; getVolume / getName / getAverageTempInC
           stored; getVolumeFractions() = [(c, c.volFrac)]; getComponents() a fresh list of the components.
Shapes (members, components) are enumerated with choose up to the stated size; all values symbolic.
"""
from spec import *

xsgm = repo("armi.physics.neutronics.crossSectionGroupManager")
Cyl = repo("armi.physics.neutronics.crossSectionGroupManager:CylindricalComponentsAverageBlockCollection")
DuctHet = repo("armi.physics.neutronics.crossSectionGroupManager:CylindricalComponentsDuctHetAverageBlockCollection")
Slab = repo("armi.physics.neutronics.crossSectionGroupManager:SlabComponentsAverageBlockCollection")
Median = repo("armi.physics.neutronics.crossSectionGroupManager:MedianBlockCollection")
Average = repo("armi.physics.neutronics.crossSectionGroupManager:AverageBlockCollection")

NUCS = ["U235", "FE56"]
FUEL = "fuel-flag"  # stands for a Flags value; only passed through to hasFlags


class Params:
    def __getitem__(self, name):
        return getattr(self, name)


class CComp:
    def __lt__(self, other):
        return self.order < other.order

    def getNuclides(self):
        return list(self.p.numberDensities)

    def getNuclideNumberDensities(self, nucNames):
        return [self.p.numberDensities.get(nucName, 0.0) for nucName in nucNames]

    def getArea(self):
        return self.area

    def isLatticeComponent(self):
        return self.lattice

    def setNumberDensity(self, nuc, val):
        self.p.numberDensities[nuc] = val


class CBlk:
    def __iter__(self):
        return iter(self.comps)

    def __len__(self):
        return len(self.comps)

    def hasFlags(self, typeSpec):
        return True if typeSpec is None else self.eligible

    def getVolume(self):
        return self.vol

    def getName(self):
        return self.name

    def getAverageTempInC(self):
        return self.avgT

    def getComponents(self):
        return list(self.comps)

    def getVolumeFractions(self):
        return [(c, c.volFrac) for c in self.comps]


def ccomp(order, nd, area=1.0, mult=1.0, temp=0.0, volFrac=0.5, flags="f", lattice=False):
    return new(CComp, order=order, area=area, temperatureInC=temp, volFrac=volFrac, lattice=lattice,
               p=new(Params, numberDensities=nd, mult=mult, flags=flags))


def cblk(comps, vol=1.0, flux=0.0, eligible=True, name="B", avgT=0.0):
    return new(CBlk, comps=list(comps), vol=vol, eligible=eligible, name=name, avgT=avgT, p=new(Params, flux=flux))


Rectangle = repo("armi.reactor.components.basicShapes:Rectangle")


class RComp(Rectangle):
    """probe subclass of the real Rectangle (the slab collection tests isinstance(c, Rectangle)) with the CComp
    contracts in place of the Component machinery; there is no radial order among slabs"""

    def __repr__(self):
        return "<RComp>"

    def getNuclides(self):
        return list(self.p.numberDensities)

    def getNuclideNumberDensities(self, nucNames):
        return [self.p.numberDensities.get(nucName, 0.0) for nucName in nucNames]

    def getArea(self):
        return self.area

    def isLatticeComponent(self):
        return self.lattice

    def setNumberDensity(self, nuc, val):
        self.p.numberDensities[nuc] = val


def rcomp(nd, area=1.0, mult=1.0, lattice=False):
    return new(RComp, area=area, lattice=lattice, p=new(Params, numberDensities=nd, mult=mult))


def check_mean(avg, ws, xs, what):
    """avg is the weight-normalised mean of xs (weights ws >= 0 with a positive total): hence between min and max,
    and the common value when the members with a positive weight agree"""
    W = sum(ws)
    assert eq(avg * W, sum(w * x for w, x in zip(ws, xs))), what + ": weight-normalised mean"
    tol = 1e-9 * (1.0 + abs(avg)) if NATIVE else 0.0  # rounding of the floating-point mean only (A1)
    assert any(w > 0 and x <= avg + tol for w, x in zip(ws, xs)), what + ": not below the minimum"
    assert any(w > 0 and x >= avg - tol for w, x in zip(ws, xs)), what + ": not above the maximum"
    for w0, x0 in zip(ws, xs):
        assert implies(w0 > 0 and all(implies(w > 0, x == x0) for w, x in zip(ws, xs)), eq(avg, x0)), what + ": the common value"


# ------------------------------------------------------------------------------------------ per-component averages
GENA = {"n": [1, 2, 3], "w1": (0.1, 50.0), "w2": (0.1, 50.0), "w3": (0.1, 50.0), "A1": [0.0, 0.5, 2.0], "A2": [0.0, 1.5, 3.0], "A3": [0.25, 4.0],
        "u1": (0.0, 0.05), "u2": (0.0, 0.05), "u3": (0.0, 0.05), "c1": (0.0, 0.08), "c2": (0.0, 0.08), "c3": (0.0, 0.08)}


@lemma(gen=GENA)
def matching_component_average_is_the_weight_normalised_mean(n: int, slab: bool, w1: float, w2: float, w3: float, A1: float, A2: float,
                                                             A3: float, u1: float, u2: float, u3: float, c1: float, c2: float,
                                                             c3: float, h2: bool, h3: bool):
    """_getAverageComponentNucs and _getAllNucs of the cylindrical and of the slab collection: the matching components
    of 1..3 members (enumerated); block weights > 0, areas >= 0 (not all zero), densities of U235 (listed by every
    component) and FE56 (listed by the first, and by the others or not: h2, h3) symbolic.  Weight of a member =
    block weight x area of its component; a nuclide a component does not list counts with density zero."""
    n = choose(n, 1, 3)
    bw, ar, us, fes, has = [w1, w2, w3][:n], [A1, A2, A3][:n], [u1, u2, u3][:n], [c1, c2, c3][:n], [True, h2, h3][:n]
    assume(all(w > 0 for w in bw) and all(a >= 0 for a in ar) and any(a > 0 for a in ar))
    comps = [ccomp(0, {"U235": u, "FE56": fe} if h else {"U235": u}, area=a) for u, fe, h, a in zip(us, fes, has, ar)]
    bc = Slab(NUCS) if slab else Cyl(NUCS)
    names, dens = bc._getAverageComponentNucs(comps, bw)
    assert names == ["FE56", "U235"], "every nuclide of any matching component, once, in a fixed order"
    assert len(dens) == 2
    ws = [w * a for w, a in zip(bw, ar)]
    check_mean(dens[1], ws, us, "U235")
    check_mean(dens[0], ws, [fe if h else 0.0 for fe, h in zip(fes, has)], "FE56")


# ------------------------------------------------------------------------------------------ which components match
KEY_NUCS = ["PU239", "U238", "U235", "U234", "FE56", "NA23", "O16"]  # the documented 'consistent nuclides'


def refused_by(fn, *args):
    try:
        fn(*args)
        return False
    except ValueError:
        return True


GENB = {"nb": [1, 2, 3], "nr": [1, 2, 3], "m1": [1.0, 2.0], "m2": [1.0, 169.0], "m3": [1.0, 6.0], "r1": [1.0, 2.0], "r2": [1.0, 169.0], "r3": [1.0, 6.0]}


@lemma(gen=GENB)
def cylindrical_blocks_whose_components_do_not_match_are_refused(nb: int, nr: int, m1: float, m2: float, m3: float, r1: float, r2: float,
                                                                 r3: float, f1: bool, f2: bool, f3: bool, g1: bool, g2: bool, g3: bool,
                                                                 z: bool):
    """CylindricalComponentsAverageBlockCollection._checkComponentConsistency(b, repBlock): blocks of 1..3 components
    each (both counts enumerated), stored in REVERSE radial order (the comparison is by sorted position);
    multiplicities symbolic, presence of the key nuclide FE56 per component arbitrary, the first component of b may
    hold a nuclide (ZR90) outside the documented key set.  Refused (ValueError) exactly when the component counts,
    a multiplicity or the key-nuclide content of two components at the same position differ."""
    nb = choose(nb, 1, 3)
    nr = choose(nr, 1, 3)
    mb, mr, hb, hr = [m1, m2, m3][:nb], [r1, r2, r3][:nr], [f1, f2, f3][:nb], [g1, g2, g3][:nr]
    cb = [ccomp(k, {"U235": 0.01, "FE56": 0.02} if hb[k] else {"U235": 0.01}, mult=mb[k]) for k in range(nb)]
    if z:
        cb[0].p.numberDensities["ZR90"] = 0.001
    cr = [ccomp(k, {"U235": 0.02, "FE56": 0.03} if hr[k] else {"U235": 0.02}, mult=mr[k]) for k in range(nr)]
    b, rep = cblk(reversed(cb)), cblk(reversed(cr))
    refused = refused_by(Cyl._checkComponentConsistency, b, rep)
    mismatch = nb != nr or any(mb[k] != mr[k] or hb[k] != hr[k] for k in range(min(nb, nr)))
    assert implies(mismatch, refused), "components that do not match are refused loudly"
    assert implies(not mismatch, not refused), "matching blocks are accepted"


@lemma(gen={"k": [0, 1, 2, 3, 4, 5, 6]})
def every_key_nuclide_is_compared(k: int, slab: bool, hb: bool, hr: bool):
    """each of the seven documented key nuclides (enumerated), present or absent in the single component of either
    block: refused exactly when present in one and absent in the other; cylindrical and slab variant"""
    k = choose(k, 0, 6)
    nuc = KEY_NUCS[k]
    b = cblk([rcomp({"C": 0.01, nuc: 0.02} if hb else {"C": 0.01})])
    rep = cblk([rcomp({"C": 0.01, nuc: 0.03} if hr else {"C": 0.01})])
    refused = refused_by(Slab._checkComponentConsistency if slab else Cyl._checkComponentConsistency, b, rep)
    assert refused == (hb != hr)


GENC = {"n": [1, 2, 3], "k": [1, 2, 3], "m2": [1.0, 1.0, 2.0]}


@lemma(gen=GENC)
def cylindrical_components_are_grouped_by_radial_position(n: int, k: int, m2: float, e1: bool, e2: bool, e3: bool):
    """_orderComponentsInGroup: 1..3 members (enumerated) of 1..3 components each (enumerated, stored in reverse radial
    order), any non-empty subset eligible; the first component of member 2 has the symbolic multiplicity m2 (all
    others 1): group j holds exactly the j-th component (sorted order) of every ELIGIBLE member, in member order;
    the collection is refused when an eligible member does not match the representative block; an ineligible
    member is never looked at."""
    n = choose(n, 1, 3)
    k = choose(k, 1, 3)
    es = [e1, e2, e3][:n]
    assume(any(es))
    bc = Cyl(NUCS)
    bc._validRepresentativeBlockTypes = [FUEL]
    members = []
    for i in range(n):
        comps = [ccomp(j, {"U235": 0.01}, mult=m2 if (i == 1 and j == 0) else 1.0) for j in range(k)]
        members.append(comps)
        bc.append(cblk(reversed(comps), eligible=es[i]))
    rep = cblk(reversed([ccomp(j, {"U235": 0.01}) for j in range(k)]))
    try:
        groups = bc._orderComponentsInGroup(rep)
        refused = False
    except ValueError:
        refused = True
    assert refused == (n >= 2 and es[1] and m2 != 1.0), "refused exactly when an eligible member does not match"
    if not refused:
        el = [i for i in range(n) if es[i]]
        assert len(groups) == k, "one group per component position"
        for j in range(k):
            assert len(groups[j]) == len(el), "one component of every eligible member"
            for pos, i in enumerate(el):
                assert same(groups[j][pos], members[i][j]), "the component at the same radial position"


GEND = {"n": [1, 2, 3], "T1": (200.0, 900.0), "T2": (200.0, 900.0), "T3": (200.0, 900.0)}


@lemma(gen=GEND)
def cylindrical_candidate_is_an_eligible_member_of_median_temperature(n: int, T1: float, T2: float, T3: float, e1: bool, e2: bool, e3: bool):
    """_selectCandidateBlock: 1..3 members with distinct names (enumerated), any non-empty subset eligible,
    block-average temperatures symbolic"""
    n = choose(n, 1, 3)
    Ts, es = [T1, T2, T3][:n], [e1, e2, e3][:n]
    assume(any(es))
    bc = DuctHet(NUCS)
    bc._validRepresentativeBlockTypes = [FUEL]
    names = ["B0003", "B0001", "B0002"]
    for i in range(n):
        bc.append(cblk([], eligible=es[i], name=names[i], avgT=Ts[i]))
    sel = bc._selectCandidateBlock()
    el = [i for i in range(n) if es[i]]
    assert sum(1 for i in el if same(bc[i], sel)) == 1, "the template is an actual eligible member"
    t = Ts[[i for i in el if same(bc[i], sel)][0]]
    below = sum(1 for i in el if Ts[i] < t)
    above = sum(1 for i in el if Ts[i] > t)
    assert 2 * below <= len(el) and 2 * above <= len(el), "it holds a median of the block-average temperatures"
