"""C20 - XS type label <-> number; weights and weighted means of block collections; environment group kernel."""
from spec import *

xsgm = repo("armi.physics.neutronics.crossSectionGroupManager")


# ------------------------------------------------------------------------------------------ label <-> number
# Admissible labels (crossSectionGroupManager._ALLOWABLE_XS_TYPE_LIST, Block.getMicroSuffix, fix 6b534c7): one letter
# out of A-Z a-z (52), or two such letters (2704; allowed when there is a single environment group).  The domain is
# finite and enumerated COMPLETELY: the engine evaluates the real source on every label (first letter = case split
# with choose, second letter = unrolled loop).  decode(encode(L)) == L for every admissible L implies that no two
# admissible labels share a number (decode is a function); the collision clause is nevertheless asserted directly
# within each group, and across groups through the range of the number (the first character code leads the number).
@lemma(gen={"k": (0, 52)})
def every_label_converts_to_its_number_and_back(k: int):
    letters = xsgm._ALLOWABLE_XS_TYPE_LIST
    assert len(letters) == 52 and len(set(letters)) == 52
    k = choose(k, 0, 52)
    labels = list(letters) if k == 0 else [letters[k - 1] + b for b in letters]
    seen = {}
    for lab in labels:
        n = xsgm.getXSTypeNumberFromLabel(lab)
        assert isinstance(n, int), "the identifier is an integer"
        assert n not in seen, "no two labels share a number"
        seen[n] = lab
        assert xsgm.getXSTypeLabelFromNumber(n) == lab, "label -> number -> label"
        if k == 0:
            assert n == ord(lab) and 65 <= n <= 122, "one letter: its character code; below every two-letter number"
        else:
            c = ord(lab[0])
            # the number of a two-letter label starts with the decimal code of its first letter: groups are disjoint
            assert c * 100 <= n < (c + 1) * 100 or c * 1000 <= n < (c + 1) * 1000, "number ranges of different first letters are disjoint"
            assert n > 122
    assert len(seen) == 52


@lemma(gen={"n": (-200, 64)})
def numbers_below_the_first_letter_are_refused(n: int):
    """documented domain of getXSTypeLabelFromNumber: 'The number must be >= 65' - for ALL smaller integers"""
    assume(n < 65)
    try:
        xsgm.getXSTypeLabelFromNumber(n)
        refused = False
    except ValueError:
        refused = True
    assert refused, "a number below ord('A') has no label and is refused loudly"


@lemma(gen={"n": (65, 122)})
def one_letter_numbers_decode_to_their_character(n: int):
    """number -> label -> number on the complete one-letter range 65..122 (enumerated with choose)"""
    n = choose(n, 65, 122)
    lab = xsgm.getXSTypeLabelFromNumber(n)
    assert lab == chr(n) and len(lab) == 1, "a one-letter number is the character code"
    assert xsgm.getXSTypeNumberFromLabel(lab) == n, "number -> label -> number"
    assert (lab in xsgm._ALLOWABLE_XS_TYPE_LIST) == (65 <= n <= 90 or 97 <= n <= 122)


@lemma(gen={"c1": (65, 122), "c2": (65, 122), "n": (6500, 123000)})
def number_ranges_of_different_first_letters_are_disjoint(c1: int, c2: int, n: int):
    """arithmetic side lemma used by every_label_converts_to_its_number_and_back (no armi code): the ranges asserted
    there for the numbers of two-letter labels with first character codes c1 != c2 do not meet"""
    assume(65 <= c1 <= 122 and 65 <= c2 <= 122)
    in1 = c1 * 100 <= n < (c1 + 1) * 100 or c1 * 1000 <= n < (c1 + 1) * 1000
    in2 = c2 * 100 <= n < (c2 + 1) * 100 or c2 * 1000 <= n < (c2 + 1) * 1000
    assert implies(in1 and in2, c1 == c2)


@lemma(gen={"n": (-3, 64)})
def small_numbers_are_refused_one_by_one(n: int):
    """the same on concrete numbers -3..64 (choose): also the digit parsing behind the guard is executed"""
    n = choose(n, -3, 64)
    try:
        xsgm.getXSTypeLabelFromNumber(n)
        refused = False
    except ValueError:
        refused = True
    assert refused


# ------------------------------------------------------------------------------------------ representative blocks
# Collaborator stand-ins (outside the engine's reach: Block / Component / ParameterCollection / Flags).  Each states the
# contract assumed for the real collaborator; the block collection code under contract is the real one.
AverageBlockCollection = repo("armi.physics.neutronics.crossSectionGroupManager:AverageBlockCollection")
FluxWeightedAverageBlockCollection = repo("armi.physics.neutronics.crossSectionGroupManager:FluxWeightedAverageBlockCollection")
NUCS = ["U235", "FE56"]
FUEL = "fuel-flag"  # stands for a Flags value; only passed through to hasFlags


class Params:
    """ParameterCollection viewed as a name -> value map: p.name and p["name"] read the same stored value"""

    def __getitem__(self, name):
        return getattr(self, name)


class Comp:
    """Component stand-in.  Contracts: __lt__ is the strict order of the bounding circles (here: attribute `order`);
    getNuclideNumberDensities(names) = [p.numberDensities.get(n, 0.0) for n in names] (Component's own text);
    getMass() = the stored non-negative mass; temperatureInC = stored temperature."""

    def __lt__(self, other):
        return self.order < other.order

    def getNuclideNumberDensities(self, nucNames):
        return [self.p.numberDensities.get(nucName, 0.0) for nucName in nucNames]

    def getMass(self):
        return self.mass


class Blk:
    """Block stand-in.  Contracts: hasFlags(None) is True (Composite.hasFlags: None matches every object), hasFlags(list)
    = the block carries one of the listed flags (attribute `eligible`); getVolume / getHeight / the homogenised
    densities getNuclideNumberDensities(names) / getComponents() / getVolumeFractions() return stored values."""

    def hasFlags(self, typeSpec):
        return True if typeSpec is None else self.eligible

    def getVolume(self):
        return self.vol

    def getHeight(self):
        return self.height

    def getNuclideNumberDensities(self, nucNames):
        return [self.dens[n] for n in nucNames]

    def getComponents(self):
        return list(self.comps)

    def getVolumeFractions(self):
        return [(c, c.volFrac) for c in self.comps]


def comp(order, u, fe, temp=0.0, mass=0.0, volFrac=0.5, hasFe=True):
    nd = {"U235": u, "FE56": fe} if hasFe else {"U235": u}
    return new(Comp, order=order, temperatureInC=temp, mass=mass, volFrac=volFrac, p=new(Params, numberDensities=nd))


def blk(vol, flux, u, fe, eligible=True, height=1.0, comps=(), hm=0.0, bu=0.0):
    return new(Blk, vol=vol, height=height, eligible=eligible, dens={"U235": u, "FE56": fe}, comps=list(comps),
               p=new(Params, flux=flux, massHmBOL=hm, percentBu=bu))


def collection(fluxWeighted, filtered):
    """the REAL constructors; Flags.fromString (bit flags) is outside the subset, so the type filter - what
    validBlockTypes would be converted to - is stored directly"""
    bc = FluxWeightedAverageBlockCollection(NUCS) if fluxWeighted else AverageBlockCollection(NUCS)
    if filtered:
        bc._validRepresentativeBlockTypes = [FUEL]
    return bc


def valid_weighting(fs):
    """the states accepted by _checkValidWeightingFactors (proved below): all zero or all positive"""
    return all(f == 0 for f in fs) or all(f > 0 for f in fs)


GEN2 = {"n": [1, 2, 3], "v1": (0.1, 50.0), "v2": (0.1, 50.0), "v3": (0.1, 50.0), "f1": [0.0, 1.0, 2.5e14, 3.0], "f2": [0.0, 1.0, 1e13, 7.0],
        "f3": [0.0, 2.0, 5e14], "a1": (0.0, 0.05), "a2": (0.0, 0.05), "a3": (0.0, 0.05), "c1": (0.0, 0.08), "c2": (0.0, 0.08), "c3": (0.0, 0.08),
        "s": (0.01, 100.0), "t": (0.01, 100.0)}


@lemma(gen={"v": [0.0, 0.5, 2.0, 100.0], "f": [0.0, 1.0, 3.5e14]})
def weight_is_parameter_times_volume_and_never_zero(v: float, f: float, fluxWeighted: bool):
    assume(v >= 0 and f >= 0)
    bc = collection(fluxWeighted, False)
    w = bc.getWeight(blk(v, f, 0.0, 0.0))
    assert w > 0, "a weight is never zero (so the total weight of a non-empty group is positive)"
    if not fluxWeighted:
        assert implies(v > 0, eq(w, v)), "no weighting parameter: the volume"
    else:
        assert implies(v > 0 and f > 0, eq(w, f * v)), "weighting parameter x volume"
        assert implies(v > 0 and f == 0, eq(w, v)), "all-zero weighting parameter: volume weighting"


@lemma(gen=GEN2)
def mixed_zero_and_nonzero_weighting_factors_are_refused(n: int, f1: float, f2: float, f3: float, e1: bool, e2: bool, e3: bool,
                                                         fluxWeighted: bool):
    """1..3 members (enumerated), arbitrary weighting-parameter values and eligibility"""
    n = choose(n, 1, 3)
    fs, es = [f1, f2, f3][:n], [e1, e2, e3][:n]
    bc = collection(fluxWeighted, True)
    for f, e in zip(fs, es):
        bc.append(blk(1.0, f, 0.0, 0.0, eligible=e))
    try:
        bc._checkValidWeightingFactors()
        refused = False
    except ValueError:
        refused = True
    someZero = any(e and f == 0 for f, e in zip(fs, es))
    someNonZero = any(e and f != 0 for f, e in zip(fs, es))
    assert refused == (fluxWeighted and someZero and someNonZero), "refused exactly when eligible members mix zero and non-zero factors"


def spec_weights(fluxWeighted, fs, vs):
    """property text: weight = weighting parameter x volume (volume alone without / with an all-zero parameter)"""
    if fluxWeighted and all(f > 0 for f in fs):
        return [f * v for f, v in zip(fs, vs)]
    return list(vs)


def check_mean(avg, ws, xs, es, what):
    """avg is the weight-normalised mean of the eligible xs: hence between their min and max, and the common value"""
    W = sum(w for w, e in zip(ws, es) if e)
    assert eq(avg * W, sum(w * x for w, x, e in zip(ws, xs, es) if e)), what + ": weight-normalised mean of the eligible members"
    tol = 1e-9 * (1.0 + abs(avg)) if NATIVE else 0.0  # rounding of the floating-point mean only (A1)
    assert any(e and x <= avg + tol for x, e in zip(xs, es)), what + ": not below the minimum"
    assert any(e and x >= avg - tol for x, e in zip(xs, es)), what + ": not above the maximum"
    for x0, e0 in zip(xs, es):
        assert implies(e0 and all(implies(e, x == x0) for x, e in zip(xs, es)), eq(avg, x0)), what + ": the common value when members agree"


@lemma(gen=GEN2)
def block_average_density_is_the_weight_normalised_mean(n: int, fluxWeighted: bool, v1: float, v2: float, v3: float, f1: float, f2: float,
                                                        f3: float, a1: float, a2: float, a3: float, c1: float, c2: float, c3: float,
                                                        e1: bool, e2: bool, e3: bool):
    """_getAverageNumberDensities for 1..3 members (enumerated) of which any non-empty subset is eligible; volumes,
    weighting parameters and densities of two nuclides symbolic"""
    n = choose(n, 1, 3)
    vs, fs, es = [v1, v2, v3][:n], [f1, f2, f3][:n], [e1, e2, e3][:n]
    us, fes = [a1, a2, a3][:n], [c1, c2, c3][:n]
    assume(all(v > 0 for v in vs) and any(es))
    assume(valid_weighting([f for f, e in zip(fs, es) if e]))
    bc = collection(fluxWeighted, True)
    for v, f, u, fe, e in zip(vs, fs, us, fes, es):
        bc.append(blk(v, f, u, fe, eligible=e))
    nd = bc._getAverageNumberDensities()
    assert len(nd) == 2
    ws = spec_weights(fluxWeighted, [f for f, e in zip(fs, es) if e], [v for v, e in zip(vs, es) if e])
    check_mean(nd["U235"], ws, [u for u, e in zip(us, es) if e], [True] * len(ws), "U235")
    check_mean(nd["FE56"], ws, [x for x, e in zip(fes, es) if e], [True] * len(ws), "FE56")



@lemma(gen=GEN2)
def block_average_is_unchanged_by_rescaling_weights_and_duplicating_members(n: int, fluxWeighted: bool, v1: float, v2: float, v3: float,
                                                                             f1: float, f2: float, f3: float, a1: float, a2: float, a3: float,
                                                                             c1: float, c2: float, c3: float, s: float, t: float):
    """1..3 members (enumerated); A: the members; B: every volume x s and every weighting parameter x t (s, t > 0);
    C: every member twice"""
    n = choose(n, 1, 3)
    vs, fs, us, fes = [v1, v2, v3][:n], [f1, f2, f3][:n], [a1, a2, a3][:n], [c1, c2, c3][:n]
    assume(all(v > 0 for v in vs) and valid_weighting(fs) and s > 0 and t > 0)
    A, B, C = collection(fluxWeighted, False), collection(fluxWeighted, False), collection(fluxWeighted, False)
    for v, f, u, fe in zip(vs, fs, us, fes):
        A.append(blk(v, f, u, fe))
        B.append(blk(s * v, t * f, u, fe))
        C.append(blk(v, f, u, fe))
    for v, f, u, fe in zip(vs, fs, us, fes):
        C.append(blk(v, f, u, fe))
    ndA, ndB, ndC = A._getAverageNumberDensities(), B._getAverageNumberDensities(), C._getAverageNumberDensities()
    for nuc in NUCS:
        assert eq(ndA[nuc], ndB[nuc]), "unchanged by rescaling all weights"
        assert eq(ndA[nuc], ndC[nuc]), "unchanged by duplicating every member"


GEN3 = dict(GEN2)
GEN3.update({"k": [0, 1], "t1": (20.0, 900.0), "t2": (20.0, 900.0), "t3": (20.0, 900.0), "m1": [0.0, 1.0, 35.5], "m2": [0.0, 2.0, 12.25],
             "m3": [0.0, 0.5, 100.0], "h1": (0.5, 40.0), "h2": (0.5, 40.0), "h3": (0.5, 40.0), "x1": (0.0, 0.03), "x2": (0.0, 0.03), "x3": (0.0, 0.03)})


def component_density_case(k, n, fluxWeighted, v1, v2, v3, f1, f2, f3, a1, a2, a3, c1, c2, c3, x1, x2, x3, e1, e2, e3):
    n = choose(n, 1, 3)
    vs, fs, es = [v1, v2, v3][:n], [f1, f2, f3][:n], [e1, e2, e3][:n]
    us, fes, xs = [a1, a2, a3][:n], [c1, c2, c3][:n], [x1, x2, x3][:n]
    assume(all(v > 0 for v in vs) and any(es))
    assume(valid_weighting([f for f, e in zip(fs, es) if e]))
    bc = collection(fluxWeighted, True)
    for v, f, u, fe, x, e in zip(vs, fs, us, fes, xs, es):
        target, other = comp(k, u, fe), comp(1 - k, x, 0.0, hasFe=False)
        bc.append(blk(v, f, 0.0, 0.0, eligible=e, comps=[target, other] if k == 1 else [other, target]))
    nd = bc._getAverageComponentNumberDensities(k)
    ws = spec_weights(fluxWeighted, [f for f, e in zip(fs, es) if e], [v for v, e in zip(vs, es) if e])
    check_mean(nd["U235"], ws, [u for u, e in zip(us, es) if e], [True] * len(ws), "U235")
    check_mean(nd["FE56"], ws, [x for x, e in zip(fes, es) if e], [True] * len(ws), "FE56")
    other = bc._getAverageComponentNumberDensities(1 - k)
    assert eq(other["FE56"], 0.0), "a nuclide absent from every matching component has zero averaged density"


@lemma(gen=GEN3)
def first_component_average_density_is_the_weight_normalised_mean(n: int, fluxWeighted: bool, v1: float, v2: float, v3: float, f1: float,
                                                                  f2: float, f3: float, a1: float, a2: float, a3: float, c1: float,
                                                                  c2: float, c3: float, x1: float, x2: float, x3: float, e1: bool,
                                                                  e2: bool, e3: bool):
    """_getAverageComponentNumberDensities(0): 1..3 members (enumerated) with two components each (listed in reverse
    order, so the sort matters); any non-empty subset eligible; the other component holds densities x_i (and no FE56
    entry at all) that must not enter"""
    component_density_case(0, n, fluxWeighted, v1, v2, v3, f1, f2, f3, a1, a2, a3, c1, c2, c3, x1, x2, x3, e1, e2, e3)


@lemma(gen=GEN3)
def second_component_average_density_is_the_weight_normalised_mean(n: int, fluxWeighted: bool, v1: float, v2: float, v3: float, f1: float,
                                                                   f2: float, f3: float, a1: float, a2: float, a3: float, c1: float,
                                                                   c2: float, c3: float, x1: float, x2: float, x3: float, e1: bool,
                                                                   e2: bool, e3: bool):
    """the same for _getAverageComponentNumberDensities(1)"""
    component_density_case(1, n, fluxWeighted, v1, v2, v3, f1, f2, f3, a1, a2, a3, c1, c2, c3, x1, x2, x3, e1, e2, e3)


@lemma(gen=GEN3)
def component_average_temperature_is_a_weighted_mean(n: int, k: int, fluxWeighted: bool, v1: float, v2: float, v3: float, f1: float, f2: float,
                                                     f3: float, h1: float, h2: float, h3: float, m1: float, m2: float, m3: float,
                                                     t1: float, t2: float, t3: float, e1: bool, e2: bool, e3: bool):
    """_getAverageComponentTemperature(k): 1..3 members (enumerated), two components each, index k in {0, 1};
    weights = block weight / height x component mass (masses >= 0, possibly all zero: then the plain mean)"""
    n = choose(n, 1, 3)
    k = choose(k, 0, 1)
    vs, fs, es = [v1, v2, v3][:n], [f1, f2, f3][:n], [e1, e2, e3][:n]
    hs, ms, ts = [h1, h2, h3][:n], [m1, m2, m3][:n], [t1, t2, t3][:n]
    assume(all(v > 0 for v in vs) and all(h > 0 for h in hs) and all(m >= 0 for m in ms) and any(es))
    assume(valid_weighting([f for f, e in zip(fs, es) if e]))
    bc = collection(fluxWeighted, True)
    for v, f, h, m, t, e in zip(vs, fs, hs, ms, ts, es):
        target, other = comp(k, 0.0, 0.0, temp=t, mass=m), comp(1 - k, 0.0, 0.0, temp=-40.0, mass=7.0)
        bc.append(blk(v, f, 0.0, 0.0, eligible=e, height=h, comps=[target, other] if k == 1 else [other, target]))
    avg = bc._getAverageComponentTemperature(k)
    el = [i for i in range(n) if es[i]]
    bw = spec_weights(fluxWeighted, [fs[i] for i in el], [vs[i] for i in el])
    ws = [w / hs[i] * ms[i] for w, i in zip(bw, el)]
    if sum(ws) == 0:
        ws = [1.0 for i in el]
    check_mean(avg, ws, [ts[i] for i in el], [True] * len(el), "temperature")
