"""C20 - XS type label <-> number; weights and weighted means of block collections; environment group kernel."""
from spec import *

xsgm = repo("armi.physics.neutronics.crossSectionGroupManager")


# ------------------------------------------------------------------------------------------ label <-> number
# Admissible labels (crossSectionGroupManager._ALLOWABLE_XS_TYPE_LIST, Block.getMicroSuffix, fix 6b534c7): one letter
# out of A-Z a-z (52), or two such letters (2704; allowed when there is a single environment group).  The domain is
# finite and enumerated COMPLETELY: the engine evaluates the real source on every label (first letter = case split
# with choose, second letter = unrolled loop).  decode(encode(L)) == L for every admissible L implies that no two
# admissible labels share a number (decode is a function); the collision clause is nevertheless asserted directly
# within each group, and across groups through the range of the number (the first character code leads the number).
@lemma(gen={"k": (0, 52)})
def every_label_converts_to_its_number_and_back(k: int):
    letters = xsgm._ALLOWABLE_XS_TYPE_LIST
    assert len(letters) == 52 and len(set(letters)) == 52
    k = choose(k, 0, 52)
    labels = list(letters) if k == 0 else [letters[k - 1] + b for b in letters]
    seen = {}
    for lab in labels:
        n = xsgm.getXSTypeNumberFromLabel(lab)
        assert isinstance(n, int), "the identifier is an integer"
        assert n not in seen, "no two labels share a number"
        seen[n] = lab
        assert xsgm.getXSTypeLabelFromNumber(n) == lab, "label -> number -> label"
        if k == 0:
            assert n == ord(lab) and 65 <= n <= 122, "one letter: its character code; below every two-letter number"
        else:
            c = ord(lab[0])
            # the number of a two-letter label starts with the decimal code of its first letter: groups are disjoint
            assert c * 100 <= n < (c + 1) * 100 or c * 1000 <= n < (c + 1) * 1000, "number ranges of different first letters are disjoint"
            assert n > 122
    assert len(seen) == 52


@lemma(gen={"n": (-200, 64)})
def numbers_below_the_first_letter_are_refused(n: int):
    """documented domain of getXSTypeLabelFromNumber: 'The number must be >= 65' - for ALL smaller integers"""
    assume(n < 65)
    try:
        xsgm.getXSTypeLabelFromNumber(n)
        refused = False
    except ValueError:
        refused = True
    assert refused, "a number below ord('A') has no label and is refused loudly"


@lemma(gen={"n": (65, 122)})
def one_letter_numbers_decode_to_their_character(n: int):
    """number -> label -> number on the complete one-letter range 65..122 (enumerated with choose)"""
    n = choose(n, 65, 122)
    lab = xsgm.getXSTypeLabelFromNumber(n)
    assert lab == chr(n) and len(lab) == 1, "a one-letter number is the character code"
    assert xsgm.getXSTypeNumberFromLabel(lab) == n, "number -> label -> number"
    assert (lab in xsgm._ALLOWABLE_XS_TYPE_LIST) == (65 <= n <= 90 or 97 <= n <= 122)


@lemma(gen={"c1": (65, 122), "c2": (65, 122), "n": (6500, 123000)})
def number_ranges_of_different_first_letters_are_disjoint(c1: int, c2: int, n: int):
    """arithmetic side lemma used by every_label_converts_to_its_number_and_back (no armi code): the ranges asserted
    there for the numbers of two-letter labels with first character codes c1 != c2 do not meet"""
    assume(65 <= c1 <= 122 and 65 <= c2 <= 122)
    in1 = c1 * 100 <= n < (c1 + 1) * 100 or c1 * 1000 <= n < (c1 + 1) * 1000
    in2 = c2 * 100 <= n < (c2 + 1) * 100 or c2 * 1000 <= n < (c2 + 1) * 1000
    assert implies(in1 and in2, c1 == c2)


@lemma(gen={"n": (-3, 64)})
def small_numbers_are_refused_one_by_one(n: int):
    """the same on concrete numbers -3..64 (choose): also the digit parsing behind the guard is executed"""
    n = choose(n, -3, 64)
    try:
        xsgm.getXSTypeLabelFromNumber(n)
        refused = False
    except ValueError:
        refused = True
    assert refused


# ------------------------------------------------------------------------------------------ representative blocks
# Collaborator stand-ins (outside the engine's reach: Block / Component / ParameterCollection / Flags).  Each states the
# contract assumed for the real collaborator; the block collection code under contract is the real one.
AverageBlockCollection = repo("armi.physics.neutronics.crossSectionGroupManager:AverageBlockCollection")
FluxWeightedAverageBlockCollection = repo("armi.physics.neutronics.crossSectionGroupManager:FluxWeightedAverageBlockCollection")
NUCS = ["U235", "FE56"]
FUEL = "fuel-flag"  # stands for a Flags value; only passed through to hasFlags


class Params:
    """ParameterCollection viewed as a name -> value map: p.name and p["name"] read the same stored value"""

    def __getitem__(self, name):
        return getattr(self, name)


class Comp:
    """Component stand-in.  Contracts: __lt__ is the strict order of the bounding circles (here: attribute `order`);
    getNuclideNumberDensities(names) = [p.numberDensities.get(n, 0.0) for n in names] (Component's own text);
    getMass() = the stored non-negative mass; temperatureInC = stored temperature."""

    def __lt__(self, other):
        return self.order < other.order

    def getNuclideNumberDensities(self, nucNames):
        return [self.p.numberDensities.get(nucName, 0.0) for nucName in nucNames]

    def getMass(self):
        return self.mass


class Blk:
    """Block stand-in.  Contracts: hasFlags(None) is True (Composite.hasFlags: None matches every object), hasFlags(list)
    = the block carries one of the listed flags (attribute `eligible`); getVolume / getHeight / the homogenised
    densities getNuclideNumberDensities(names) / getComponents() / getVolumeFractions() return stored values."""

    def hasFlags(self, typeSpec):
        return True if typeSpec is None else self.eligible

    def getVolume(self):
        return self.vol

    def getHeight(self):
        return self.height

    def getNuclideNumberDensities(self, nucNames):
        return [self.dens[n] for n in nucNames]

    def getComponents(self):
        return list(self.comps)

    def getVolumeFractions(self):
        return [(c, c.volFrac) for c in self.comps]


def comp(order, u, fe, temp=0.0, mass=0.0, volFrac=0.5, hasFe=True):
    nd = {"U235": u, "FE56": fe} if hasFe else {"U235": u}
    return new(Comp, order=order, temperatureInC=temp, mass=mass, volFrac=volFrac, p=new(Params, numberDensities=nd))


def blk(vol, flux, u, fe, eligible=True, height=1.0, comps=(), hm=0.0, bu=0.0):
    return new(Blk, vol=vol, height=height, eligible=eligible, dens={"U235": u, "FE56": fe}, comps=list(comps),
               p=new(Params, flux=flux, massHmBOL=hm, percentBu=bu))


def collection(fluxWeighted, filtered):
    """the REAL constructors; Flags.fromString (bit flags) is outside the subset, so the type filter - what
    validBlockTypes would be converted to - is stored directly"""
    bc = FluxWeightedAverageBlockCollection(NUCS) if fluxWeighted else AverageBlockCollection(NUCS)
    if filtered:
        bc._validRepresentativeBlockTypes = [FUEL]
    return bc


def valid_weighting(fs):
    """the states accepted by _checkValidWeightingFactors (proved below): all zero or all positive"""
    return all(f == 0 for f in fs) or all(f > 0 for f in fs)


GEN2 = {"n": [1, 2, 3], "v1": (0.1, 50.0), "v2": (0.1, 50.0), "v3": (0.1, 50.0), "f1": [0.0, 1.0, 2.5e14, 3.0], "f2": [0.0, 1.0, 1e13, 7.0],
        "f3": [0.0, 2.0, 5e14], "a1": (0.0, 0.05), "a2": (0.0, 0.05), "a3": (0.0, 0.05), "c1": (0.0, 0.08), "c2": (0.0, 0.08), "c3": (0.0, 0.08),
        "s": (0.01, 100.0), "t": (0.01, 100.0)}


@lemma(gen={"v": [0.0, 0.5, 2.0, 100.0], "f": [0.0, 1.0, 3.5e14]})
def weight_is_parameter_times_volume_and_never_zero(v: float, f: float, fluxWeighted: bool):
    assume(v >= 0 and f >= 0)
    bc = collection(fluxWeighted, False)
    w = bc.getWeight(blk(v, f, 0.0, 0.0))
    assert w > 0, "a weight is never zero (so the total weight of a non-empty group is positive)"
    if not fluxWeighted:
        assert implies(v > 0, eq(w, v)), "no weighting parameter: the volume"
    else:
        assert implies(v > 0 and f > 0, eq(w, f * v)), "weighting parameter x volume"
        assert implies(v > 0 and f == 0, eq(w, v)), "all-zero weighting parameter: volume weighting"


@lemma(gen=GEN2)
def mixed_zero_and_nonzero_weighting_factors_are_refused(n: int, f1: float, f2: float, f3: float, e1: bool, e2: bool, e3: bool,
                                                         fluxWeighted: bool):
    """1..3 members (enumerated), arbitrary weighting-parameter values and eligibility"""
    n = choose(n, 1, 3)
    fs, es = [f1, f2, f3][:n], [e1, e2, e3][:n]
    bc = collection(fluxWeighted, True)
    for f, e in zip(fs, es):
        bc.append(blk(1.0, f, 0.0, 0.0, eligible=e))
    try:
        bc._checkValidWeightingFactors()
        refused = False
    except ValueError:
        refused = True
    someZero = any(e and f == 0 for f, e in zip(fs, es))
    someNonZero = any(e and f != 0 for f, e in zip(fs, es))
    assert refused == (fluxWeighted and someZero and someNonZero), "refused exactly when eligible members mix zero and non-zero factors"


def spec_weights(fluxWeighted, fs, vs):
    """property text: weight = weighting parameter x volume (volume alone without / with an all-zero parameter)"""
    if fluxWeighted and all(f > 0 for f in fs):
        return [f * v for f, v in zip(fs, vs)]
    return list(vs)


def check_mean(avg, ws, xs, es, what):
    """avg is the weight-normalised mean of the eligible xs: hence between their min and max, and the common value"""
    W = sum(w for w, e in zip(ws, es) if e)
    assert eq(avg * W, sum(w * x for w, x, e in zip(ws, xs, es) if e)), what + ": weight-normalised mean of the eligible members"
    tol = 1e-9 * (1.0 + abs(avg)) if NATIVE else 0.0  # rounding of the floating-point mean only (A1)
    assert any(e and x <= avg + tol for x, e in zip(xs, es)), what + ": not below the minimum"
    assert any(e and x >= avg - tol for x, e in zip(xs, es)), what + ": not above the maximum"
    for x0, e0 in zip(xs, es):
        assert implies(e0 and all(implies(e, x == x0) for x, e in zip(xs, es)), eq(avg, x0)), what + ": the common value when members agree"


@lemma(gen=GEN2)
def block_average_density_is_the_weight_normalised_mean(n: int, fluxWeighted: bool, v1: float, v2: float, v3: float, f1: float, f2: float,
                                                        f3: float, a1: float, a2: float, a3: float, c1: float, c2: float, c3: float,
                                                        e1: bool, e2: bool, e3: bool):
    """_getAverageNumberDensities for 1..3 members (enumerated) of which any non-empty subset is eligible; volumes,
    weighting parameters and densities of two nuclides symbolic"""
    n = choose(n, 1, 3)
    vs, fs, es = [v1, v2, v3][:n], [f1, f2, f3][:n], [e1, e2, e3][:n]
    us, fes = [a1, a2, a3][:n], [c1, c2, c3][:n]
    assume(all(v > 0 for v in vs) and any(es))
    assume(valid_weighting([f for f, e in zip(fs, es) if e]))
    bc = collection(fluxWeighted, True)
    for v, f, u, fe, e in zip(vs, fs, us, fes, es):
        bc.append(blk(v, f, u, fe, eligible=e))
    nd = bc._getAverageNumberDensities()
    assert len(nd) == 2
    ws = spec_weights(fluxWeighted, [f for f, e in zip(fs, es) if e], [v for v, e in zip(vs, es) if e])
    check_mean(nd["U235"], ws, [u for u, e in zip(us, es) if e], [True] * len(ws), "U235")
    check_mean(nd["FE56"], ws, [x for x, e in zip(fes, es) if e], [True] * len(ws), "FE56")



@lemma(gen=GEN2)
def block_average_is_unchanged_by_rescaling_weights_and_duplicating_members(n: int, fluxWeighted: bool, v1: float, v2: float, v3: float,
                                                                             f1: float, f2: float, f3: float, a1: float, a2: float, a3: float,
                                                                             c1: float, c2: float, c3: float, s: float, t: float):
    """1..3 members (enumerated); A: the members; B: every volume x s and every weighting parameter x t (s, t > 0);
    C: every member twice"""
    n = choose(n, 1, 3)
    vs, fs, us, fes = [v1, v2, v3][:n], [f1, f2, f3][:n], [a1, a2, a3][:n], [c1, c2, c3][:n]
    assume(all(v > 0 for v in vs) and valid_weighting(fs) and s > 0 and t > 0)
    A, B, C = collection(fluxWeighted, False), collection(fluxWeighted, False), collection(fluxWeighted, False)
    for v, f, u, fe in zip(vs, fs, us, fes):
        A.append(blk(v, f, u, fe))
        B.append(blk(s * v, t * f, u, fe))
        C.append(blk(v, f, u, fe))
    for v, f, u, fe in zip(vs, fs, us, fes):
        C.append(blk(v, f, u, fe))
    ndA, ndB, ndC = A._getAverageNumberDensities(), B._getAverageNumberDensities(), C._getAverageNumberDensities()
    for nuc in NUCS:
        assert eq(ndA[nuc], ndB[nuc]), "unchanged by rescaling all weights"
        assert eq(ndA[nuc], ndC[nuc]), "unchanged by duplicating every member"


GEN3 = dict(GEN2)
GEN3.update({"k": [0, 1], "t1": (20.0, 900.0), "t2": (20.0, 900.0), "t3": (20.0, 900.0), "m1": [0.0, 1.0, 35.5], "m2": [0.0, 2.0, 12.25],
             "m3": [0.0, 0.5, 100.0], "h1": (0.5, 40.0), "h2": (0.5, 40.0), "h3": (0.5, 40.0), "x1": (0.0, 0.03), "x2": (0.0, 0.03), "x3": (0.0, 0.03)})


def component_density_case(k, n, fluxWeighted, v1, v2, v3, f1, f2, f3, a1, a2, a3, c1, c2, c3, x1, x2, x3, e1, e2, e3):
    n = choose(n, 1, 3)
    vs, fs, es = [v1, v2, v3][:n], [f1, f2, f3][:n], [e1, e2, e3][:n]
    us, fes, xs = [a1, a2, a3][:n], [c1, c2, c3][:n], [x1, x2, x3][:n]
    assume(all(v > 0 for v in vs) and any(es))
    assume(valid_weighting([f for f, e in zip(fs, es) if e]))
    bc = collection(fluxWeighted, True)
    for v, f, u, fe, x, e in zip(vs, fs, us, fes, xs, es):
        target, other = comp(k, u, fe), comp(1 - k, x, 0.0, hasFe=False)
        bc.append(blk(v, f, 0.0, 0.0, eligible=e, comps=[target, other] if k == 1 else [other, target]))
    nd = bc._getAverageComponentNumberDensities(k)
    ws = spec_weights(fluxWeighted, [f for f, e in zip(fs, es) if e], [v for v, e in zip(vs, es) if e])
    check_mean(nd["U235"], ws, [u for u, e in zip(us, es) if e], [True] * len(ws), "U235")
    check_mean(nd["FE56"], ws, [x for x, e in zip(fes, es) if e], [True] * len(ws), "FE56")
    other = bc._getAverageComponentNumberDensities(1 - k)
    assert eq(other["FE56"], 0.0), "a nuclide absent from every matching component has zero averaged density"


@lemma(gen=GEN3)
def first_component_average_density_is_the_weight_normalised_mean(n: int, fluxWeighted: bool, v1: float, v2: float, v3: float, f1: float,
                                                                  f2: float, f3: float, a1: float, a2: float, a3: float, c1: float,
                                                                  c2: float, c3: float, x1: float, x2: float, x3: float, e1: bool,
                                                                  e2: bool, e3: bool):
    """_getAverageComponentNumberDensities(0): 1..3 members (enumerated) with two components each (listed in reverse
    order, so the sort matters); any non-empty subset eligible; the other component holds densities x_i (and no FE56
    entry at all) that must not enter"""
    component_density_case(0, n, fluxWeighted, v1, v2, v3, f1, f2, f3, a1, a2, a3, c1, c2, c3, x1, x2, x3, e1, e2, e3)


@lemma(gen=GEN3)
def second_component_average_density_is_the_weight_normalised_mean(n: int, fluxWeighted: bool, v1: float, v2: float, v3: float, f1: float,
                                                                   f2: float, f3: float, a1: float, a2: float, a3: float, c1: float,
                                                                   c2: float, c3: float, x1: float, x2: float, x3: float, e1: bool,
                                                                   e2: bool, e3: bool):
    """the same for _getAverageComponentNumberDensities(1)"""
    component_density_case(1, n, fluxWeighted, v1, v2, v3, f1, f2, f3, a1, a2, a3, c1, c2, c3, x1, x2, x3, e1, e2, e3)


@lemma(gen=GEN3)
def component_average_temperature_is_a_weighted_mean(n: int, k: int, fluxWeighted: bool, v1: float, v2: float, v3: float, f1: float, f2: float,
                                                     f3: float, h1: float, h2: float, h3: float, m1: float, m2: float, m3: float,
                                                     t1: float, t2: float, t3: float, e1: bool, e2: bool, e3: bool):
    """_getAverageComponentTemperature(k): 1..3 members (enumerated), two components each, index k in {0, 1};
    weights = block weight / height x component mass (masses >= 0, possibly all zero: then the plain mean)"""
    n = choose(n, 1, 3)
    k = choose(k, 0, 1)
    vs, fs, es = [v1, v2, v3][:n], [f1, f2, f3][:n], [e1, e2, e3][:n]
    hs, ms, ts = [h1, h2, h3][:n], [m1, m2, m3][:n], [t1, t2, t3][:n]
    assume(all(v > 0 for v in vs) and all(h > 0 for h in hs) and all(m >= 0 for m in ms) and any(es))
    assume(valid_weighting([f for f, e in zip(fs, es) if e]))
    bc = collection(fluxWeighted, True)
    for v, f, h, m, t, e in zip(vs, fs, hs, ms, ts, es):
        target, other = comp(k, 0.0, 0.0, temp=t, mass=m), comp(1 - k, 0.0, 0.0, temp=-40.0, mass=7.0)
        bc.append(blk(v, f, 0.0, 0.0, eligible=e, height=h, comps=[target, other] if k == 1 else [other, target]))
    avg = bc._getAverageComponentTemperature(k)
    el = [i for i in range(n) if es[i]]
    bw = spec_weights(fluxWeighted, [fs[i] for i in el], [vs[i] for i in el])
    ws = [w / hs[i] * ms[i] for w, i in zip(bw, el)]
    if sum(ws) == 0:
        ws = [1.0 for i in el]
    check_mean(avg, ws, [ts[i] for i in el], [True] * len(el), "temperature")


GEN4 = dict(GEN3)
GEN4.update({"T11": (20.0, 900.0), "T12": (20.0, 900.0), "T21": (20.0, 900.0), "T22": (20.0, 900.0), "u11": [0.0, 0.01, 0.02], "u12": [0.0004, 0.003],
             "u21": [0.0, 0.015], "u22": [0.001, 0.03], "q11": (0.05, 0.9), "q21": (0.05, 0.9), "n": [1, 2]})


@lemma(gen=GEN4)
def nuclide_temperature_is_the_density_volume_weighted_mean(n: int, fluxWeighted: bool, v1: float, v2: float, f1: float, f2: float,
                                                            T11: float, T12: float, T21: float, T22: float, u11: float, u12: float,
                                                            u21: float, u22: float, q11: float, q21: float, e1: bool, e2: bool):
    """calcAvgNuclideTemperatures through AverageBlockCollection._getNucTempHelper and
    getBlockNuclideTemperatureAvgTerms: 1..2 members (enumerated) of two components each; U235 is listed by every
    component (first component: density >= 0, a zero counts as a trace; second: > 0), FE56 only by the second component of each block; component
    temperatures, volume fractions, block volumes and weighting parameters symbolic"""
    n = choose(n, 1, 2)
    vs, fs, es = [v1, v2][:n], [f1, f2][:n], [e1, e2][:n]
    Ts, us, qs = [(T11, T12), (T21, T22)][:n], [(u11, u12), (u21, u22)][:n], [q11, q21][:n]
    assume(all(v > 0 for v in vs) and any(es) and all(0 < q < 1 for q in qs) and all(a >= 0 and b > 0 for a, b in us))
    assume(valid_weighting([f for f, e in zip(fs, es) if e]))
    bc = collection(fluxWeighted, True)
    for v, f, T, u, q, e in zip(vs, fs, Ts, us, qs, es):
        ca = comp(0, u[0], 0.0, temp=T[0], volFrac=q, hasFe=False)
        cb = comp(1, u[1], 0.02, temp=T[1], volFrac=1 - q)
        bc.append(blk(v, f, 0.0, 0.0, eligible=e, comps=[ca, cb]))
    bc.calcAvgNuclideTemperatures()
    el = [i for i in range(n) if es[i]]
    bw = spec_weights(fluxWeighted, [fs[i] for i in el], [vs[i] for i in el])
    trace = xsgm.TRACE_NUMBER_DENSITY
    assert trace > 0
    # U235: every component of every eligible member contributes with weight block weight x density x volume
    ws, xs = [], []
    for w, i in zip(bw, el):
        for c in (0, 1):
            d = us[i][c] if us[i][c] != 0 else trace
            ws.append(w * d * (qs[i] if c == 0 else 1 - qs[i]) * vs[i])
            xs.append(Ts[i][c])
    check_mean(bc.avgNucTemperatures["U235"], ws, xs, [True] * len(ws), "T(U235)")
    # FE56: only the components that list it
    ws = [w * 0.02 * (1 - qs[i]) * vs[i] for w, i in zip(bw, el)]
    check_mean(bc.avgNucTemperatures["FE56"], ws, [Ts[i][1] for i in el], [True] * len(ws), "T(FE56)")


GEN5 = dict(GEN2)
GEN5.update({"m1": [0.0, 1.0, 35.5], "m2": [0.0, 2.0, 12.25], "m3": [0.0, 0.5, 100.0], "b1": (0.0, 30.0), "b2": (0.0, 30.0), "b3": (0.0, 30.0)})


@lemma(gen=GEN5)
def averaged_burnup_is_the_heavy_metal_weighted_mean_of_the_eligible_members(n: int, fluxWeighted: bool, v1: float, v2: float, v3: float,
                                                                             f1: float, f2: float, f3: float, m1: float, m2: float,
                                                                             m3: float, b1: float, b2: float, b3: float, e1: bool,
                                                                             e2: bool, e3: bool):
    """_calcWeightedBurnup (fix d171329): 1..3 members (enumerated), any subset eligible; heavy-metal masses >= 0"""
    n = choose(n, 1, 3)
    vs, fs, es = [v1, v2, v3][:n], [f1, f2, f3][:n], [e1, e2, e3][:n]
    ms, bs = [m1, m2, m3][:n], [b1, b2, b3][:n]
    assume(all(v > 0 for v in vs) and all(m >= 0 for m in ms))
    assume(valid_weighting([f for f, e in zip(fs, es) if e]))
    bc = collection(fluxWeighted, True)
    for v, f, m, b, e in zip(vs, fs, ms, bs, es):
        bc.append(blk(v, f, 0.0, 0.0, eligible=e, hm=m, bu=b))
    bu = bc._calcWeightedBurnup()
    el = [i for i in range(n) if es[i]]
    # heavy-metal mass (x the weighting parameter when flux weighted): the volume in the block weight is divided out
    ws = [ms[i] * (fs[i] if fluxWeighted and fs[i] > 0 else 1.0) for i in el]
    if sum(ws) == 0:
        assert eq(bu, 0.0), "no heavy metal among the eligible members: burnup 0"
    else:
        check_mean(bu, ws, [bs[i] for i in el], [True] * len(el), "burnup")


def member(v, f, u, fe, T, m, h, hm, bu, eligible):
    """a block with two components (reverse order); the first in sorted order carries u / fe / T / m"""
    return blk(v, f, u, fe, eligible=eligible, height=h, hm=hm, bu=bu,
               comps=[comp(1, 0.001, 0.0, temp=-40.0, mass=7.0, hasFe=False), comp(0, u, fe, temp=T, mass=m)])


GEN6 = dict(GEN5)
GEN6.update({"n": [1, 2], "pos": [0, 1, 2], "vx": (0.1, 50.0), "fx": [0.0, 1.0, 4e14], "ux": (0.0, 0.05), "Tx": (20.0, 900.0), "T1": (20.0, 900.0),
             "T2": (20.0, 900.0), "h1": (0.5, 40.0), "h2": (0.5, 40.0), "hx": (0.5, 40.0), "mx": [0.0, 3.0], "bx": (0.0, 30.0), "g1": [0.5, 1.5],
             "g2": [0.25, 8.0], "m1": [1.0, 35.5], "m2": [2.0, 12.25], "a1": (0.001, 0.05), "a2": (0.001, 0.05)})


@lemma(gen=GEN6)
def ineligible_members_do_not_contribute(n: int, pos: int, fluxWeighted: bool, v1: float, v2: float, vx: float, f1: float, f2: float, fx: float,
                                         a1: float, a2: float, ux: float, T1: float, T2: float, Tx: float, m1: float, m2: float, mx: float,
                                         h1: float, h2: float, hx: float, g1: float, g2: float, b1: float, b2: float, bx: float):
    """1..2 eligible members (enumerated) and one member of a block type outside validBlockTypes inserted at any
    position (enumerated): every average equals the one of the collection WITHOUT that member"""
    n = choose(n, 1, 2)
    pos = choose(pos, 0, n)
    vs, fs, us, Ts, ms, hs, gs, bs = [v1, v2][:n], [f1, f2][:n], [a1, a2][:n], [T1, T2][:n], [m1, m2][:n], [h1, h2][:n], [g1, g2][:n], [b1, b2][:n]
    assume(all(v > 0 for v in vs) and vx > 0 and all(h > 0 for h in hs) and hx > 0 and all(m > 0 for m in ms) and all(g > 0 for g in gs))
    assume(mx >= 0 and valid_weighting(fs + [fx]) and all(u > 0 for u in us) and ux >= 0)
    A, B = collection(fluxWeighted, True), collection(fluxWeighted, True)
    for i in range(n + 1):
        if i == pos:
            A.append(member(vx, fx, ux, 0.5 * ux, Tx, mx, hx, 2.5, bx, False))
        if i < n:
            A.append(member(vs[i], fs[i], us[i], 0.0, Ts[i], ms[i], hs[i], gs[i], bs[i], True))
            B.append(member(vs[i], fs[i], us[i], 0.0, Ts[i], ms[i], hs[i], gs[i], bs[i], True))
    assert len(A) == n + 1 and len(A.getCandidateBlocks()) == n
    assert eq(A._getAverageNumberDensities()["U235"], B._getAverageNumberDensities()["U235"]), "block densities"
    assert eq(A._getAverageComponentNumberDensities(0)["U235"], B._getAverageComponentNumberDensities(0)["U235"]), "component densities"
    assert eq(A._getAverageComponentTemperature(0), B._getAverageComponentTemperature(0)), "component temperature"
    assert eq(A._calcWeightedBurnup(), B._calcWeightedBurnup()), "burnup"
    A.calcAvgNuclideTemperatures()
    B.calcAvgNuclideTemperatures()
    assert eq(A.avgNucTemperatures["U235"], B.avgNucTemperatures["U235"]), "nuclide temperature"


@lemma(gen=GEN6)
def averages_with_fixed_weights_are_the_stated_means(fluxWeighted: bool, a1: float, a2: float, ux: float, T1: float, T2: float, Tx: float,
                                                     b1: float, b2: float, bx: float):
    """three members with CONCRETE volumes 1, 3, 1/2, weighting parameters 2, 5, 1, heights 2, 1, 4, component
    masses 3, 1, 2 and heavy-metal masses 1, 4, 2; densities, temperatures and burnups symbolic (linear arithmetic:
    a wrong weight is refuted with a model at once; the general statement is in the lemmas above)"""
    bc = collection(fluxWeighted, False)
    bc.append(member(1.0, 2.0, a1, 0.0, T1, 3.0, 2.0, 1.0, b1, True))
    bc.append(member(3.0, 5.0, a2, 0.0, T2, 1.0, 1.0, 4.0, b2, True))
    bc.append(member(0.5, 1.0, ux, 0.0, Tx, 2.0, 4.0, 2.0, bx, True))
    w = [2.0, 15.0, 0.5] if fluxWeighted else [1.0, 3.0, 0.5]
    W = w[0] + w[1] + w[2]
    assert eq(bc._getAverageNumberDensities()["U235"] * W, w[0] * a1 + w[1] * a2 + w[2] * ux)
    assert eq(bc._getAverageComponentNumberDensities(0)["U235"] * W, w[0] * a1 + w[1] * a2 + w[2] * ux)
    assert eq(bc._getAverageComponentNumberDensities(1)["U235"], 0.001)
    tw = [w[0] / 2.0 * 3.0, w[1] / 1.0 * 1.0, w[2] / 4.0 * 2.0]  # block weight / height x component mass
    assert eq(bc._getAverageComponentTemperature(0) * (tw[0] + tw[1] + tw[2]), tw[0] * T1 + tw[1] * T2 + tw[2] * Tx)
    assert eq(bc._getAverageComponentTemperature(1), -40.0)
    hw = [1.0 * 2.0, 4.0 * 5.0, 2.0 * 1.0] if fluxWeighted else [1.0, 4.0, 2.0]  # heavy metal (x weighting parameter)
    assert eq(bc._calcWeightedBurnup() * (hw[0] + hw[1] + hw[2]), hw[0] * b1 + hw[1] * b2 + hw[2] * bx)


@lemma(gen=GEN4)
def nuclide_temperatures_with_fixed_weights_are_the_stated_means(fluxWeighted: bool, T11: float, T12: float, T21: float, T22: float, t3: float):
    """two eligible members with CONCRETE volumes 1, 3, weighting parameters 2, 5, volume fractions (1/4, 3/4), (1/2,
    1/2), U235 densities (0.01, 0 = trace), (0.02, 0.004), FE56 0.03 in the second components only, and one
    ineligible member; the four component temperatures symbolic (linear arithmetic, see the general lemma above)"""
    bc = collection(fluxWeighted, True)
    bc.append(blk(1.0, 2.0, 0.0, 0.0, comps=[comp(0, 0.01, 0.0, temp=T11, volFrac=0.25, hasFe=False), comp(1, 0.0, 0.03, temp=T12, volFrac=0.75)]))
    bc.append(blk(9.0, 7.0, 0.0, 0.0, eligible=False, comps=[comp(0, 0.5, 0.5, temp=t3, volFrac=1.0)]))
    bc.append(blk(3.0, 5.0, 0.0, 0.0, comps=[comp(0, 0.02, 0.0, temp=T21, volFrac=0.5, hasFe=False), comp(1, 0.004, 0.03, temp=T22, volFrac=0.5)]))
    bc.calcAvgNuclideTemperatures()
    w1, w2 = (2.0 * 1.0, 5.0 * 3.0) if fluxWeighted else (1.0, 3.0)
    tr = xsgm.TRACE_NUMBER_DENSITY
    # weight of a component: block weight x density x volume fraction x block volume
    u = [w1 * 0.01 * 0.25 * 1.0, w1 * tr * 0.75 * 1.0, w2 * 0.02 * 0.5 * 3.0, w2 * 0.004 * 0.5 * 3.0]
    assert eq(bc.avgNucTemperatures["U235"] * (u[0] + u[1] + u[2] + u[3]), u[0] * T11 + u[1] * T12 + u[2] * T21 + u[3] * T22)
    fe = [w1 * 0.03 * 0.75 * 1.0, w2 * 0.03 * 0.5 * 3.0]
    assert eq(bc.avgNucTemperatures["FE56"] * (fe[0] + fe[1]), fe[0] * T12 + fe[1] * T22)
    assert len(bc.avgNucTemperatures) == 2


# ------------------------------------------------------------------------------------------ environment groups
CrossSectionGroupManager = repo("armi.physics.neutronics.crossSectionGroupManager:CrossSectionGroupManager")


class XsOpts:
    """XSModelingOptions stand-in: only xsTempIsotope (the isotope whose temperature defines the temperature group)"""


class EnvBlk(Blk):
    """block stand-in for the grouping kernel: getMicroSuffix() = its stored XS id; p.envGroupNum a plain stored value
    (the real setter also derives the letter and refuses numbers >= 52, fix c08712d; not in the subset: nested def)"""

    def getMicroSuffix(self):
        return self.xsID


def env_block(bu, tempC, group0):
    """one component holding U238 at tempC: getBlockNuclideTemperature (real code) is then tempC"""
    c = new(Comp, order=0, temperatureInC=tempC, mass=1.0, volFrac=1.0, p=new(Params, numberDensities={"U238": 0.02}))
    return new(EnvBlk, vol=2.0, height=1.0, eligible=True, dens={}, comps=[c], xsID="AA", p=new(Params, percentBu=bu, envGroupNum=group0))


def manager(buBounds, tempBounds, isotope):
    """the manager WITHOUT interfaces.Interface.__init__ (reactor / settings plumbing); the group structure is set by
    the REAL _setBuGroupBounds / _setTempGroupBounds; cs is the settings object viewed as a map"""
    m = new(CrossSectionGroupManager, _envGroupUpdatesEnabled=True, _buGroupBounds=[], _tempGroupBounds=[],
            cs={xsgm.CONF_CROSS_SECTION: {"AA": new(XsOpts, xsTempIsotope=isotope)}})
    m._setBuGroupBounds(buBounds)
    m._setTempGroupBounds(tempBounds)
    return m


def first_index(x, bounds):
    """specification: the group of x is the first interval (.., b0], (b0, b1], ... (b_last, inf) containing it"""
    return sum(1 for b in bounds if x > b)


GEN7 = {"nb": [0, 1, 2, 3], "nt": [0, 1, 2], "B1": (0.1, 30.0), "B2": (0.1, 60.0), "B3": (0.1, 100.0), "U1": (-200.0, 800.0), "U2": (-200.0, 1500.0),
        "bu": (0.0, 100.0), "bu2": (0.0, 100.0), "T": (-100.0, 2000.0), "T2": (-100.0, 2000.0), "g0": [0, 3, 7]}


@lemma(gen=GEN7)
def every_block_gets_the_one_group_of_its_burnup_and_temperature(nb: int, nt: int, B1: float, B2: float, B3: float, U1: float, U2: float,
                                                                bu: float, T: float, g0: int, useTemp: bool):
    """_updateEnvironmentGroups with 0..3 burnup bounds and 0..2 temperature bounds (lengths enumerated, values
    symbolic and ascending) and a block with arbitrary burnup / temperature (values above the last bound included)"""
    nb = choose(nb, 0, 3)
    nt = choose(nt, 0, 2)
    bb, tb = [B1, B2, B3][:nb], [U1, U2][:nt]
    assume(all(0 < b <= 100 for b in bb) and all(bb[i] <= bb[i + 1] for i in range(nb - 1)))
    assume(all(u >= -273.15 for u in tb) and all(tb[i] <= tb[i + 1] for i in range(nt - 1)))
    m = manager(bb, tb, "U238" if useTemp else None)
    assert len(m._buGroupBounds) == nb + 1 and len(m._tempGroupBounds) == nt + 1, "one open-ended group above the last bound"
    b = env_block(bu, T, g0)
    m._updateEnvironmentGroups([b])
    nBu, nT = nb + 1, nt + 1
    g = b.p.envGroupNum
    if nBu == 1 and nT == 1:
        assert g == g0, "a single group: the block keeps its group"
    else:
        i = first_index(bu, bb)
        j = first_index(T, tb) if useTemp else 0
        assert 0 <= g < nBu * nT, "exactly one of the nBu x nT groups"
        assert g % nBu == i and g // nBu == j, "the group encodes (temperature group, burnup group) injectively"
        if i < nb:
            assert bu <= bb[i], "at most the upper bound of its group"
        if i > 0:
            assert bu > bb[i - 1], "above the upper bound of the group below"
        if useTemp and j < nt:
            assert T <= tb[j]
        if useTemp and j > 0:
            assert T > tb[j - 1]


@lemma(gen=GEN7)
def environment_group_is_monotone_and_determined_by_the_values(nb: int, nt: int, B1: float, B2: float, B3: float, U1: float, U2: float,
                                                              bu: float, T: float, bu2: float, T2: float, byTemp: bool):
    """two blocks in one call: 1..3 burnup bounds without temperature groups, or (byTemp) 1..2 temperature bounds with
    a single burnup group (lengths enumerated, values symbolic)"""
    nb = 0 if byTemp else choose(nb, 1, 3)
    nt = choose(nt, 1, 2) if byTemp else 0
    bb, tb = [B1, B2, B3][:nb], [U1, U2][:nt]
    assume(all(0 < b <= 100 for b in bb) and all(bb[i] <= bb[i + 1] for i in range(nb - 1)))
    assume(all(u >= -273.15 for u in tb) and all(tb[i] <= tb[i + 1] for i in range(nt - 1)))
    m = manager(bb, tb, "U238")
    b1, b2 = env_block(bu, T, 0), env_block(bu2, T2, 0)
    m._updateEnvironmentGroups([b1, b2])
    g1, g2 = b1.p.envGroupNum, b2.p.envGroupNum
    if byTemp:
        assert implies(T <= T2, g1 <= g2), "temperature group is monotone in the temperature"
        assert implies(T == T2, g1 == g2), "determined by the temperature"
    else:
        assert implies(bu <= bu2, g1 <= g2), "burnup group is monotone in the burnup"
        assert implies(bu == bu2, g1 == g2), "determined by the burnup"


@lemma(gen={"nb": [0, 1, 2, 3], "B1": (-5.0, 110.0), "B2": (-5.0, 110.0), "B3": (-5.0, 110.0)})
def burnup_group_structure_is_validated(nb: int, B1: float, B2: float, B3: float):
    """_setBuGroupBounds ('Raises ValueError if the provided burnup groups are invalid'): 0..3 bounds (enumerated)"""
    nb = choose(nb, 0, 3)
    bb = [B1, B2, B3][:nb]
    m = new(CrossSectionGroupManager, _buGroupBounds=None)
    try:
        m._setBuGroupBounds(bb)
        refused = False
    except ValueError:
        refused = True
    valid = all(0 < b <= 100 for b in bb) and all(bb[i] <= bb[i + 1] for i in range(nb - 1))
    assert refused == (not valid), "accepted exactly when every bound is in (0, 100] and the bounds ascend"
    if not refused:
        assert len(m._buGroupBounds) == nb + 1 and all(eq(m._buGroupBounds[i], bb[i]) for i in range(nb))
        assert all(b < m._buGroupBounds[nb] for b in bb) and 100.0 < m._buGroupBounds[nb], "the last group is open-ended"
    else:
        assert m._buGroupBounds is None, "a refused structure changes nothing"


@lemma(gen={"nt": [0, 1, 2], "U1": (-400.0, 900.0), "U2": (-400.0, 900.0)})
def temperature_group_structure_is_validated(nt: int, U1: float, U2: float):
    nt = choose(nt, 0, 2)
    tb = [U1, U2][:nt]
    m = new(CrossSectionGroupManager, _tempGroupBounds=None)
    try:
        m._setTempGroupBounds(tb)
        refused = False
    except ValueError:
        refused = True
    valid = all(u >= -273.15 for u in tb) and all(tb[i] <= tb[i + 1] for i in range(nt - 1))
    assert refused == (not valid), "accepted exactly when no bound is below absolute zero and the bounds ascend"
    if not refused:
        assert len(m._tempGroupBounds) == nt + 1 and all(eq(m._tempGroupBounds[i], tb[i]) for i in range(nt))
    else:
        assert m._tempGroupBounds is None


@lemma(gen=GEN7)
def disabled_updates_leave_the_groups_alone(B1: float, bu: float, T: float, g0: int):
    assume(0 < B1 <= 100)
    m = manager([B1], [], None)
    m._envGroupUpdatesEnabled = False
    b = env_block(bu, T, g0)
    m._updateEnvironmentGroups([b])
    assert b.p.envGroupNum == g0


class Holder:
    """r / r.blueprints stand-in: only blueprints.allNuclidesInProblem is read"""


XS_IDS = ["AA", "AB", "BA"]


@lemma(gen={"n": [1, 2, 3], "i1": [0, 1, 2], "i2": [0, 1, 2], "i3": [0, 1, 2]})
def blocks_are_partitioned_by_their_xs_id(n: int, i1: int, i2: int, i3: int, median: bool):
    """_addXsGroupsFromBlocks (with blockCollectionFactory and the real collection constructors): 1..3 blocks whose
    XS ids (type letter + environment letter, Block.getMicroSuffix) are drawn from AA, AB, BA in every combination
    (enumerated); environment-group refresh switched off (proved separately above)"""
    n = choose(n, 1, 3)
    ids = [XS_IDS[choose(i, 0, 2)] for i in [i1, i2, i3][:n]]
    opts = {}
    for x in XS_IDS:
        opts[x] = new(XsOpts, xsTempIsotope=None, blockRepresentation=xsgm.MEDIAN_BLOCK_COLLECTION if median else xsgm.AVERAGE_BLOCK_COLLECTION,
                      validBlockTypes=None, averageByComponent=False, ductHeterogeneous=False)
    m = new(CrossSectionGroupManager, _envGroupUpdatesEnabled=False, _buGroupBounds=[1.0], _tempGroupBounds=[1.0],
            cs={xsgm.CONF_CROSS_SECTION: opts, "tempGroups": []}, r=new(Holder, blueprints=new(Holder, allNuclidesInProblem=NUCS)))
    blocks = []
    for x in ids:
        b = env_block(0.0, 20.0, 0)
        b.xsID = x
        blocks.append(b)
    groups = m._addXsGroupsFromBlocks({}, blocks)
    assert sum(len(groups[x]) for x in groups) == n, "no block is lost or listed twice"
    for b in blocks:
        assert sum(1 for x in groups for c in groups[x] if same(c, b)) == 1, "every block is in exactly one group"
        assert any(same(c, b) for c in groups[b.xsID]), "namely the group of its XS type and environment group"
    for x in groups:
        assert len(groups[x]) > 0 and all(c.xsID == x for c in groups[x]), "a group holds only blocks of its id"
        assert isinstance(groups[x], xsgm.MedianBlockCollection if median else xsgm.AverageBlockCollection)


# ------------------------------------------------------------------------------------------ median member
MedianBlockCollection = repo("armi.physics.neutronics.crossSectionGroupManager:MedianBlockCollection")


class NamedBlk(Blk):
    """block stand-in with a name (Block.getName: unique within a core)"""

    def getName(self):
        return self.name


@lemma(gen=GEN5)
def median_member_is_an_eligible_member_holding_the_median_weighted_burnup(n: int, v1: float, v2: float, v3: float, b1: float, b2: float,
                                                                          b3: float, e1: bool, e2: bool, e3: bool):
    """MedianBlockCollection._getMedianBlock: 1..3 members with distinct names (enumerated), any non-empty subset
    eligible; volumes (= weights, no weighting parameter) and burnups symbolic"""
    n = choose(n, 1, 3)
    vs, bs, es = [v1, v2, v3][:n], [b1, b2, b3][:n], [e1, e2, e3][:n]
    assume(all(v > 0 for v in vs) and all(b >= 0 for b in bs) and any(es))
    bc = MedianBlockCollection(NUCS)
    bc._validRepresentativeBlockTypes = [FUEL]
    names = ["B0003", "B0001", "B0002"]
    for i in range(n):
        bc.append(new(NamedBlk, vol=vs[i], eligible=es[i], name=names[i], p=new(Params, percentBu=bs[i])))
    med = bc._getMedianBlock()
    el = [i for i in range(n) if es[i]]
    assert sum(1 for i in el if same(bc[i], med)) == 1, "the representative is an actual eligible member"
    k = bs[[i for i in el if same(bc[i], med)][0]] * vs[[i for i in el if same(bc[i], med)][0]]
    below = sum(1 for i in el if bs[i] * vs[i] < k)
    above = sum(1 for i in el if bs[i] * vs[i] > k)
    m = len(el)
    assert 2 * below <= m and 2 * above <= m, "it holds a median of the weighted burnups: at most half the members lie strictly below, at most half above"


@lemma(gen=dict(GEN7, swap=[False, True]))
def a_blocks_group_does_not_depend_on_its_neighbours_in_the_list(nt: int, B1: float, U1: float, U2: float, bu: float, T: float, bu2: float, T2: float, swap: bool):
    """two blocks of DIFFERENT cross-section types in one call, in either order: type AA uses temperature groups (its
    options name the isotope U238), type BA does not (empty xsTempIsotope): each block's group is determined by its own
    type, burnup and temperature - a block without temperature isotope is in temperature group 0 whatever the block
    visited before it landed in.  One burnup bound, 1..2 temperature bounds (enumerated), values symbolic."""
    nt = choose(nt, 1, 2)
    tb = [U1, U2][:nt]
    assume(0 < B1 and B1 <= 100)
    assume(all(u >= -273.15 for u in tb) and all(tb[i] <= tb[i + 1] for i in range(nt - 1)))
    m = manager([B1], tb, "U238")
    m.cs[xsgm.CONF_CROSS_SECTION]["BA"] = new(XsOpts, xsTempIsotope="")
    hot = env_block(bu, T, 0)
    plain = env_block(bu2, T2, 0)
    plain.xsID = "BA"
    m._updateEnvironmentGroups([plain, hot] if swap else [hot, plain])
    nBu = 2
    assert hot.p.envGroupNum % nBu == first_index(bu, [B1]) and hot.p.envGroupNum // nBu == first_index(T, tb), "the type with a temperature isotope: (temperature group, burnup group)"
    assert plain.p.envGroupNum == first_index(bu2, [B1]), "the type without one: temperature group 0, whatever came before it in the list"


# ------------------------------------------------------------------------------------------ widened hypotheses
# The lemmas above assume positive volumes / non-negative masses and burnups for convenience; the property quantifies
# over all blocks.  The lemmas below state the same clauses on the parts of the input space those hypotheses excluded
# (kept as separate lemmas so that the obligations above keep their names).  Classification of what stays assumed:
#   v > 0 (block volumes): v == 0 is in getWeight's domain (substitute 1.0, lemma weight_is_parameter_times_volume_and_never_zero);
#       the burnup / component-temperature kernels divide by the zero volume / height: contracts/C20_xsgroups_finding.py.
#       v < 0 is no block.
#   valid_weighting (all-zero or all-positive weighting parameter): the property text conditions on it and
#       _checkValidWeightingFactors enforces it (mixed_zero_and_nonzero_weighting_factors_are_refused).
#   masses / volume fractions / areas of ONE sign per averaged quantity: genuine precondition of the 'between minimum
#       and maximum' clause - with weights of both signs (a bond overlapped in one member only) the weight-normalised
#       mean is still what the code returns, but it is not a convex combination; negative weights throughout are
#       covered below and in contracts/C20_collections_finding.py.
#   densities >= 0, heights > 0 of blocks with volume, burnup bounds in (0, 100], ascending bounds: data invariants
#       (the bounds are validated by _setBuGroupBounds / _setTempGroupBounds, lemmas above).
@lemma(gen=dict(GEN3, m1=[0.0, -1.0, -35.5], m2=[0.0, -2.0, -12.25], m3=[0.0, -0.5, -100.0]))
def component_average_temperature_with_negative_component_masses(n: int, k: int, fluxWeighted: bool, v1: float, v2: float, v3: float, f1: float,
                                                                  f2: float, f3: float, h1: float, h2: float, h3: float, m1: float, m2: float,
                                                                  m3: float, t1: float, t2: float, t3: float, e1: bool, e2: bool, e3: bool):
    """_getAverageComponentTemperature(k) when the matching component has a NEGATIVE mass in every member (<= 0,
    possibly all zero): a gap of negative area holding a fluid (Component.getMass = density x volume; negative
    areas are admitted for non-solid materials, Component._checkNegativeArea).  All weights block weight / height x
    mass have one sign, so the weight-normalised mean is the same convex combination as for positive masses."""
    n = choose(n, 1, 3)
    k = choose(k, 0, 1)
    vs, fs, es = [v1, v2, v3][:n], [f1, f2, f3][:n], [e1, e2, e3][:n]
    hs, ms, ts = [h1, h2, h3][:n], [m1, m2, m3][:n], [t1, t2, t3][:n]
    assume(all(v > 0 for v in vs) and all(h > 0 for h in hs) and all(m <= 0 for m in ms) and any(es))
    assume(valid_weighting([f for f, e in zip(fs, es) if e]))
    bc = collection(fluxWeighted, True)
    for v, f, h, m, t, e in zip(vs, fs, hs, ms, ts, es):
        target, other = comp(k, 0.0, 0.0, temp=t, mass=m), comp(1 - k, 0.0, 0.0, temp=-40.0, mass=7.0)
        bc.append(blk(v, f, 0.0, 0.0, eligible=e, height=h, comps=[target, other] if k == 1 else [other, target]))
    avg = bc._getAverageComponentTemperature(k)
    el = [i for i in range(n) if es[i]]
    bw = spec_weights(fluxWeighted, [fs[i] for i in el], [vs[i] for i in el])
    ws = [-(w / hs[i] * ms[i]) for w, i in zip(bw, el)]  # one sign: normalising by the (negative) total gives the weights -w / -W
    if sum(ws) == 0:
        ws = [1.0 for i in el]
    check_mean(avg, ws, [ts[i] for i in el], [True] * len(el), "temperature")


@lemma(gen=dict(GEN5, b1=(-5.0, 30.0), b2=(-5.0, 30.0), b3=(-5.0, 30.0)))
def median_member_for_burnups_of_any_sign(n: int, v1: float, v2: float, v3: float, b1: float, b2: float, b3: float, e1: bool, e2: bool,
                                          e3: bool):
    """median_member_is_an_eligible_member_holding_the_median_weighted_burnup without the hypothesis burnup >= 0
    (percentBu is a plain parameter; nothing in the collection restricts its sign)"""
    n = choose(n, 1, 3)
    vs, bs, es = [v1, v2, v3][:n], [b1, b2, b3][:n], [e1, e2, e3][:n]
    assume(all(v > 0 for v in vs) and any(es))
    bc = MedianBlockCollection(NUCS)
    bc._validRepresentativeBlockTypes = [FUEL]
    names = ["B0003", "B0001", "B0002"]
    for i in range(n):
        bc.append(new(NamedBlk, vol=vs[i], eligible=es[i], name=names[i], p=new(Params, percentBu=bs[i])))
    med = bc._getMedianBlock()
    el = [i for i in range(n) if es[i]]
    assert sum(1 for i in el if same(bc[i], med)) == 1, "the representative is an actual eligible member"
    k = bs[[i for i in el if same(bc[i], med)][0]] * vs[[i for i in el if same(bc[i], med)][0]]
    below = sum(1 for i in el if bs[i] * vs[i] < k)
    above = sum(1 for i in el if bs[i] * vs[i] > k)
    assert 2 * below <= len(el) and 2 * above <= len(el), "it holds a median of the weighted burnups"


@lemma(gen=dict(GEN4, q11=(-0.3, -0.01), q21=(-0.3, -0.01), u11=[0.0, 0.01, 0.02], u21=[0.0, 0.015]))
def nuclide_temperature_of_a_nuclide_held_by_negative_volume_components(n: int, fluxWeighted: bool, v1: float, v2: float, f1: float, f2: float,
                                                                        T11: float, T12: float, T21: float, T22: float, u11: float,
                                                                        u21: float, q11: float, q21: float, e1: bool, e2: bool):
    """calcAvgNuclideTemperatures when a nuclide (U235 here; density >= 0, zero = trace) is listed only by a component
    of NEGATIVE volume fraction q < 0 in every member (a fluid-filled gap that its neighbours overlap; the other
    component takes 1 - q > 1 and lists FE56 only): all weights block weight x density x volume have one sign, so the
    nuclide temperature is the same convex combination of the gap temperatures as for positive volumes - and FE56 is
    not disturbed by the negative neighbour"""
    n = choose(n, 1, 2)
    vs, fs, es = [v1, v2][:n], [f1, f2][:n], [e1, e2][:n]
    Ts, us, qs = [(T11, T12), (T21, T22)][:n], [u11, u21][:n], [q11, q21][:n]
    assume(all(v > 0 for v in vs) and any(es) and all(q < 0 for q in qs) and all(a >= 0 for a in us))
    assume(valid_weighting([f for f, e in zip(fs, es) if e]))
    bc = collection(fluxWeighted, True)
    for v, f, T, u, q, e in zip(vs, fs, Ts, us, qs, es):
        ca = comp(0, u, 0.0, temp=T[0], volFrac=q, hasFe=False)
        cb = new(Comp, order=1, temperatureInC=T[1], mass=0.0, volFrac=1 - q, p=new(Params, numberDensities={"FE56": 0.02}))
        bc.append(blk(v, f, 0.0, 0.0, eligible=e, comps=[ca, cb]))
    bc.calcAvgNuclideTemperatures()
    el = [i for i in range(n) if es[i]]
    bw = spec_weights(fluxWeighted, [fs[i] for i in el], [vs[i] for i in el])
    trace = xsgm.TRACE_NUMBER_DENSITY
    ws = [w * (us[i] if us[i] != 0 else trace) * (-qs[i]) * vs[i] for w, i in zip(bw, el)]  # sign taken out: the normalised weights are w / W
    check_mean(bc.avgNucTemperatures["U235"], ws, [Ts[i][0] for i in el], [True] * len(ws), "T(U235)")
    ws = [w * 0.02 * (1 - qs[i]) * vs[i] for w, i in zip(bw, el)]
    check_mean(bc.avgNucTemperatures["FE56"], ws, [Ts[i][1] for i in el], [True] * len(ws), "T(FE56)")
