"""C09 - NHFLUX / NAFLUX (DIF3D-Nodal and DIF3D-VARIANT layouts): record count / order follows the header for EVERY
header (loop invariants), whole-file round trips and write(read(file)) == file for small files.

Real code: armi/nuclearDataIO/cccc/nhflux.py NhfluxStream.readWrite, _rwFileID, _rwBasicFileData1D, _rwGeodstCoordMap2D,
_rwFluxMoments3D, _rwHexPartialCurrents4D, _rwZPartialCurrents5D, _getNumOuterSurfacesHex, NafluxStream /
NhfluxStreamVariant / NafluxStreamVariant, the NHFLUX container; cccc.py records; in-memory stream model A4.
File structure (nhflux.py docstrings / DIF3D manual): identification, specifications (1D), integer pointers (2D); then
for every energy group: NINTK flux-moment records (3D, one per axial node), and - unless the VARIANT flag IWNHFL = 1
says the file holds fluxes only - NINTK xy partial-current records (4D) and NINTK + 1 axial partial-current records
(5D, one per axial SURFACE).  IWNHFL = 2 (currents only) is refused.  NAFLUX: the same with the groups reversed.
"""
import struct

import numpy as np

from spec import *

nhflux = repo("armi.nuclearDataIO.cccc.nhflux")
NHFLUX = repo("armi.nuclearDataIO.cccc.nhflux:NHFLUX")
NhfluxStream = repo("armi.nuclearDataIO.cccc.nhflux:NhfluxStream")
NafluxStream = repo("armi.nuclearDataIO.cccc.nhflux:NafluxStream")
NhfluxStreamVariant = repo("armi.nuclearDataIO.cccc.nhflux:NhfluxStreamVariant")
NafluxStreamVariant = repo("armi.nuclearDataIO.cccc.nhflux:NafluxStreamVariant")
Metadata = repo("armi.nuclearDataIO.nuclearFileMetadata:_Metadata")


# ----------------------------------------------------------------------------- which records, how many, in which order
class Monitor:
    """state of the record sequence: s = data set, g = group counter, ph = kind of the next record (3, 4, 5),
    z = its axial index, n = data records so far, head = header records so far, ok = every record so far was the
    expected one.  cur = the file holds currents (from the header), per = data records per group."""


class Slab:
    """the sub-array handed to a record body: remembers which array and which slice it is"""

    def __init__(self, name, idx):
        self.name, self.idx = name, idx


class ArrayProbe:
    """stand-in for one of the data arrays of the NHFLUX container (fluxMomentsAll, partialCurrentsHexAll,
    partialCurrentsHex_extAll, partialCurrentsZAll): slicing hands out a Slab, storing checks that a slab goes back
    into the slice it was taken from"""

    size = 1

    def __getitem__(self, idx):
        return Slab(self.name, idx)

    def __setitem__(self, idx, slab):
        self.mon.ok = self.mon.ok and slab.name == self.name and same_index(slab.idx, idx, self.gpos)


def full(s):
    return s.start is None and s.stop is None and s.step is None


def same_index(a, b, gpos):
    """both index tuples: the axial index at position 1, the group at position gpos, full slices elsewhere, and equal"""
    if len(a) != len(b):
        return False
    out = True
    for p in range(len(a)):
        if p == 1 or p == gpos:
            out = out and a[p] == b[p]
        else:
            out = out and full(a[p]) and full(b[p])
    return out


def advance(m, nz, ng):
    """the file order: all 3D records of a group, then (if currents) its 4D records, then its NINTK + 1 5D records"""
    m.n = m.n + 1
    last = nz if m.ph == 5 else nz - 1
    if m.z < last:
        m.z = m.z + 1
        return
    m.z = 0
    if m.cur and m.ph < 5:
        m.ph = m.ph + 1
        return
    m.ph = 3
    if m.g + 1 < ng:
        m.g = m.g + 1
    else:
        m.g = 0
        m.s = m.s + 1


class ProbeBodies:
    """record bodies replaced by the monitor; readWrite and _getEnergyGroupIndex stay the real ones"""

    def _rwFileID(self):
        self.mon.ok = self.mon.ok and self.mon.head == 0 and self.mon.n == 0
        self.mon.head = self.mon.head + 1

    def _rwBasicFileData1D(self):
        self.mon.ok = self.mon.ok and self.mon.head == 1 and self.mon.n == 0
        self.mon.head = self.mon.head + 1

    def _rwGeodstCoordMap2D(self):
        self.mon.ok = self.mon.ok and self.mon.head == 2 and self.mon.n == 0
        self.mon.head = self.mon.head + 1

    def group(self):
        ng = self._metadata["ngroup"]
        return ng - 1 - self.mon.g if self.adjoint else self.mon.g

    def _rwFluxMoments3D(self, contents):
        m = self.mon
        m.ok = (m.ok and m.head == 3 and m.ph == 3 and contents.name == "flux" and len(contents.idx) == 4
                and full(contents.idx[0]) and contents.idx[1] == m.z and full(contents.idx[2]) and contents.idx[3] == self.group())
        advance(m, self._metadata["nintk"], self._metadata["ngroup"])
        return contents

    def _rwHexPartialCurrents4D(self, surf, ext):
        m = self.mon
        m.ok = (m.ok and m.head == 3 and m.cur and m.ph == 4 and surf.name == "hex" and ext.name == "ext"
                and len(surf.idx) == 5 and len(ext.idx) == 4
                and full(surf.idx[0]) and surf.idx[1] == m.z and full(surf.idx[2]) and surf.idx[3] == self.group() and full(surf.idx[4])
                and full(ext.idx[0]) and ext.idx[1] == m.z and ext.idx[2] == self.group() and full(ext.idx[3]))
        advance(m, self._metadata["nintk"], self._metadata["ngroup"])
        return surf, ext

    def _rwZPartialCurrents5D(self, surf):
        m = self.mon
        m.ok = (m.ok and m.head == 3 and m.cur and m.ph == 5 and surf.name == "z" and len(surf.idx) == 5
                and full(surf.idx[0]) and surf.idx[1] == m.z and full(surf.idx[2]) and surf.idx[3] == self.group() and full(surf.idx[4]))
        advance(m, self._metadata["nintk"], self._metadata["ngroup"])
        return surf


class NhfluxProbe(ProbeBodies, NhfluxStream):
    """the real NhfluxStream.readWrite / _getEnergyGroupIndex over ProbeBodies"""

    adjoint = False


class NafluxProbe(ProbeBodies, NafluxStream):
    """the real NafluxStream (readWrite of NhfluxStream + reversed _getEnergyGroupIndex) over ProbeBodies"""

    adjoint = True


class DataProbe:
    """stand-in for the NHFLUX container: holds the four ArrayProbes"""


RW = "armi.nuclearDataIO.cccc.nhflux:NhfluxStream.readWrite"
LOOP_INVARIANTS = {
    # for _n in range(numDataSetsToRead)
    (RW, 1): {"inv": ["0 <= _i", "self.mon.ok", "self.mon.head == 3", "self.mon.s == _i", "self.mon.g == 0", "self.mon.ph == 3", "self.mon.z == 0",
                      "self.mon.n == _i * ng * self.mon.per"], "havoc": ["self.mon.ok", "self.mon.s", "self.mon.g", "self.mon.ph", "self.mon.z", "self.mon.n"]},
    # for g in range(ng)
    (RW, 2): {"inv": ["0 <= _i", "self.mon.ok", "self.mon.head == 3", "self.mon.s == (_n if _i < ng else _n + 1)", "self.mon.g == (_i if _i < ng else 0)",
                      "self.mon.ph == 3", "self.mon.z == 0", "self.mon.n == _n * ng * self.mon.per + _i * self.mon.per"], "havoc": ["self.mon.ok", "self.mon.s", "self.mon.g", "self.mon.ph", "self.mon.z", "self.mon.n"]},
    # for z in range(nz): flux moments
    (RW, 3): {"inv": ["0 <= _i", "self.mon.ok", "self.mon.head == 3",
                      "self.mon.s == (_n + 1 if (_i == nz and not self.mon.cur and g + 1 == ng) else _n)",
                      "self.mon.g == (g if (_i < nz or self.mon.cur) else (g + 1 if g + 1 < ng else 0))",
                      "self.mon.ph == (4 if (_i == nz and self.mon.cur) else 3)", "self.mon.z == (_i if _i < nz else 0)",
                      "self.mon.n == _n * ng * self.mon.per + g * self.mon.per + _i"], "havoc": ["self.mon.ok", "self.mon.s", "self.mon.g", "self.mon.ph", "self.mon.z", "self.mon.n"]},
    # for z in range(nz): xy partial currents
    (RW, 4): {"inv": ["0 <= _i", "self.mon.ok", "self.mon.head == 3", "self.mon.cur", "self.mon.s == _n", "self.mon.g == g",
                      "self.mon.ph == (4 if _i < nz else 5)", "self.mon.z == (_i if _i < nz else 0)",
                      "self.mon.n == _n * ng * self.mon.per + g * self.mon.per + nz + _i"], "havoc": ["self.mon.ok", "self.mon.s", "self.mon.g", "self.mon.ph", "self.mon.z", "self.mon.n"]},
    # for z in range(nz + 1): axial partial currents
    (RW, 5): {"inv": ["0 <= _i", "self.mon.ok", "self.mon.head == 3", "self.mon.cur",
                      "self.mon.s == (_n + 1 if (_i == nz + 1 and g + 1 == ng) else _n)",
                      "self.mon.g == (g if _i < nz + 1 else (g + 1 if g + 1 < ng else 0))",
                      "self.mon.ph == (5 if _i < nz + 1 else 3)", "self.mon.z == (_i if _i < nz + 1 else 0)",
                      "self.mon.n == _n * ng * self.mon.per + g * self.mon.per + 2 * nz + _i"], "havoc": ["self.mon.ok", "self.mon.s", "self.mon.g", "self.mon.ph", "self.mon.z", "self.mon.n"]},
}


@lemma(gen={"ng": (1, 3), "nz": (1, 3), "nsets": (1, 2), "iw": (0, 2)})
def nhflux_records_follow_the_header(ng: int, nz: int, nsets: int, iw: int, variant: bool, adjoint: bool):
    """for EVERY header (NGROUP, NINTK, number of data sets >= 1; Nodal or VARIANT layout with IWNHFL in 0..2; NHFLUX or
    NAFLUX; loop invariants, nothing enumerated): readWrite handles identification, 1D, 2D, then per data set and group
    exactly NINTK flux-moment records, and iff the file holds currents (Nodal: always; VARIANT: IWNHFL = 0) NINTK xy
    current records followed by NINTK + 1 axial current records, each for the slice (axial index, group) of its array
    and stored back there; NAFLUX reverses the groups; a VARIANT file with IWNHFL = 2 is refused before any data record.
    Stand-ins: ProbeBodies (record bodies -> Monitor), ArrayProbe / Slab / DataProbe for the container arrays."""
    assume(ng >= 1 and nz >= 1 and nsets >= 1 and 0 <= iw and iw <= 2)
    cur = (not variant) or iw == 0
    per = nz + (2 * nz + 1 if cur else 0)
    mon = new(Monitor, ok=True, s=0, g=0, ph=3, z=0, n=0, head=0, cur=cur, per=per)
    meta = Metadata()
    meta["variantFlag"], meta["numDataSetsToRead"], meta["ngroup"], meta["nintk"] = variant, nsets, ng, nz
    meta["npcxy"], meta["nintxy"], meta["nSurf"] = 8, 1, 6
    if variant:
        meta["iwnhfl"] = iw
    data = new(DataProbe, fluxMomentsAll=new(ArrayProbe, name="flux", mon=mon, gpos=3), partialCurrentsHexAll=new(ArrayProbe, name="hex", mon=mon, gpos=3),
               partialCurrentsHex_extAll=new(ArrayProbe, name="ext", mon=mon, gpos=2), partialCurrentsZAll=new(ArrayProbe, name="z", mon=mon, gpos=3))
    s = new(NafluxProbe if adjoint else NhfluxProbe, _metadata=meta, _data=data, mon=mon)
    try:
        s.readWrite()
        refused = False
    except ValueError:
        refused = True
    assert refused == (variant and iw == 2), "a currents-only VARIANT file is refused, nothing else is"
    assert mon.ok, "every record was the expected one, for the expected (axial index, group)"
    if refused:
        assert mon.head == 2 and mon.n == 0, "refused right after the specifications"
    else:
        assert mon.head == 3
        assert mon.s == nsets and mon.g == 0 and mon.ph == 3 and mon.z == 0, "all data sets x groups x records visited, none twice"
        assert mon.n == nsets * ng * per, "number of data records"


# ----------------------------------------------------------------------------- whole files through the real record bodies
F32 = [0.5, -1.25, 3.0, 1024.0, 0.0, 7.0]  # exactly representable in single precision


def stream_class(adjoint, variant):
    if adjoint:
        return NafluxStreamVariant if variant else NafluxStream
    return NhfluxStreamVariant if variant else NhfluxStream


def stream(cls, mode, st, data):
    return new(cls, _fileName="NHFLUX", _fileMode=mode, _stream=st, _data=data, _metadata=data.metadata)


def nd(prefix, dims):
    """nested list of the given shape (tuple of 0 to 5 extents) of fresh symbolic reals"""
    if len(dims) == 0:
        return sym_real(prefix)
    return [nd("%s_%d" % (prefix, i), dims[1:]) for i in range(dims[0])]


def flat(v):
    if isinstance(v, list):
        out = []
        for x in v:
            out.extend(flat(x))
        return out
    return [v]


def nhflux_container(variant, iw, na, nz, ng, nmom, nmoms, nsurf, next_, nsc, nsym, effk, power, it, ptr):
    """an NHFLUX container as a user (or the reader) fills it: na assemblies with nsurf lateral surfaces, next_ external
    surfaces, nmom (+ nmoms odd-parity, VARIANT) moments, nsc current coefficients; pointer arrays from ptr"""
    d = NHFLUX(variant=variant)
    d.metadata["label"] = "NHFLUX"
    keys = list(nhflux.FILE_SPEC_1D_KEYS) + (list(nhflux.FILE_SPEC_1D_KEYS_VARIANT11) if variant else [])
    keys = keys + ["IDUM%02d" % e for e in range(1, 7 if variant else 12)]
    for key in keys:
        d.metadata[key] = 0
    head = {"ndim": 3, "ngroup": ng, "ninti": na, "nintj": 1, "nintk": nz, "iter": it, "effk": effk, "power": power, "nSurf": nsurf,
            "nMom": nmom, "nintxy": na, "npcxy": na * nsurf + next_, "nscoef": nsc, "itrord": 1, "iaprx": 2, "ileak": 3, "iaprxz": 4,
            "ileakz": 5, "iorder": 6}
    if variant:
        head["npcbdy"], head["npcsym"], head["npcsec"], head["iwnhfl"], head["nMoms"] = next_, nsym, 1, iw, nmoms
    for key in head:
        d.metadata[key] = head[key]
    d.incomingPointersToAllAssemblies = np.array([[ptr[(j * na + i) % 4] for i in range(na)] for j in range(nsurf)])
    d.externalCurrentPointers = np.array([ptr[e % 4] + 1 for e in range(next_)])
    d.geodstCoordMap = np.array([ptr[(i + 1) % 4] for i in range(na)])
    if variant:
        d.outgoingPCSymSecPointers = np.array([ptr[(e + 2) % 4] for e in range(nsym + 1)])  # NPCSYM + NPCSEC (= 1) pointers
        d.ingoingPCSymSecPointers = np.array([ptr[(e + 3) % 4] for e in range(nsym + 1)])
    vals = {"flux": nd("phi", (na, nz, nmom + (nmoms if variant else 0), ng))}
    d.fluxMomentsAll = np.array(vals["flux"])
    if not (variant and iw == 1):
        vals["hex"] = nd("jh", (na, nz, nsurf, ng, nsc))
        vals["ext"] = nd("je", (next_, nz, ng, nsc))
        vals["z"] = nd("jz", (na, nz + 1, 2, ng, nsc))
        d.partialCurrentsHexAll = np.array(vals["hex"])
        d.partialCurrentsHex_extAll = np.array(vals["ext"])
        d.partialCurrentsZAll = np.array(vals["z"])
    return d, keys, head, vals


def expected_sizes(variant, iw, na, nz, ng, nmom, nmoms, nsurf, next_, nsc, nsym):
    """payload length of every record in file order (file structure in the module docstring)"""
    sizes = [28, 4 * 30, 4 * (na * nsurf + next_ + na + (2 * (nsym + 1) if variant else 0))]
    cur = (not variant) or iw == 0
    for g in range(ng):
        sizes.extend([8 * na * (nmom + (nmoms if variant else 0))] * nz)
        if cur:
            sizes.extend([8 * (na * nsurf + next_) * nsc] * nz)
            sizes.extend([8 * 2 * na * nsc] * (nz + 1))
    return sizes


G_FILE = {"variant": [False, True], "adjoint": [False, True], "iw": (0, 1), "na": (1, 2), "nz": (1, 2), "ng": (1, 2), "cfg": (0, 1),
          "effk": F32, "power": F32, "it": (0, 99), "p0": (1, 9), "p1": (1, 9), "p2": (1, 9), "p3": (1, 9)}


@lemma(gen=G_FILE)
def nhflux_file_round_trip(variant: bool, adjoint: bool, iw: int, na: int, nz: int, ng: int, cfg: int,
                           effk: float, power: float, it: int, p0: int, p1: int, p2: int, p3: int):
    """a whole NHFLUX / NAFLUX file in the Nodal or the VARIANT layout through the real readWrite and record bodies:
    the records on the stream are exactly those of the file structure, each with the specified payload length; reading
    into an empty container gives back the label, every specification entry (30 words, implicit typing), the pointer
    arrays and every flux moment and partial current (shapes and values); with IWNHFL = 1 the current arrays stay empty.
    Enumerated: Nodal / VARIANT x forward / adjoint x IWNHFL 0..1 x NINTXY 1..2 x NINTK 1..2 x NGROUP 1..2 x
    (NMOM, NMOMS (VARIANT), NSCOEF) in {(1,0,1), (2,1,2)} (96 shapes), NSURF = 2, 1 external surface, 1 symmetry + 1 sector pointer; values symbolic."""
    iw, na, nz, ng = choose(iw, 0, 1), choose(na, 1, 2), choose(nz, 1, 2), choose(ng, 1, 2)
    nmom, nmoms, nsc = [(1, 0, 1), (2, 1, 2)][choose(cfg, 0, 1)]
    assume(implies(not variant, iw == 0))  # the Nodal layout has no IWNHFL (and no NMOMS: not used there)
    assume(0 <= it and it <= 1000 and all([0 <= p and p <= 1000 for p in [p0, p1, p2, p3]]))
    nsurf, next_, nsym = 2, 1, 1
    d, keys, head, vals = nhflux_container(variant, iw, na, nz, ng, nmom, nmoms, nsurf, next_, nsc, nsym, effk, power, it, [p0, p1, p2, p3])
    cls = stream_class(adjoint, variant)
    st = memstream()
    stream(cls, "wb", st, d).readWrite()
    sizes = expected_sizes(variant, iw, na, nz, ng, nmom, nmoms, nsurf, next_, nsc, nsym)
    assert st.nwrites() == 3 * len(sizes), "exactly the records of the file structure"
    for r in range(len(sizes)):
        (count,) = struct.unpack("i", st.written(3 * r))
        assert count == sizes[r], "record length as specified"
    st.seek(0)
    back = NHFLUX(variant=variant)
    stream(cls, "rb", st, back).readWrite()
    assert back.metadata["label"] == "NHFLUX"
    for key in keys:
        assert eq(back.metadata[key], head[key] if key in head else 0), "specification entry read back"
    ptr = [p0, p1, p2, p3]   # the pointer values as nhflux_container lays them out (not the container after writing)
    assert back.incomingPointersToAllAssemblies.shape == (nsurf, na)
    for j in range(nsurf):
        for i in range(na):
            assert back.incomingPointersToAllAssemblies[j, i] == ptr[(j * na + i) % 4]
    assert list(back.externalCurrentPointers) == [ptr[e % 4] + 1 for e in range(next_)] and list(back.geodstCoordMap) == [ptr[(i + 1) % 4] for i in range(na)]
    if variant:
        assert list(back.outgoingPCSymSecPointers) == [ptr[(e + 2) % 4] for e in range(nsym + 1)]
        assert list(back.ingoingPCSymSecPointers) == [ptr[(e + 3) % 4] for e in range(nsym + 1)]
    assert back.fluxMomentsAll.shape == (na, nz, nmom + (nmoms if variant else 0), ng)
    got, want = flat(back.fluxMomentsAll.tolist()), flat(vals["flux"])
    for k in range(len(want)):
        assert eq(got[k], want[k]), "flux moment read back"
    if variant and iw == 1:
        assert back.partialCurrentsHexAll.size == 0 and back.partialCurrentsHex_extAll.size == 0 and back.partialCurrentsZAll.size == 0
    else:
        assert back.partialCurrentsHexAll.shape == (na, nz, nsurf, ng, nsc)
        assert back.partialCurrentsHex_extAll.shape == (next_, nz, ng, nsc)
        assert back.partialCurrentsZAll.shape == (na, nz + 1, 2, ng, nsc)
        for name, arr in [("hex", back.partialCurrentsHexAll), ("ext", back.partialCurrentsHex_extAll), ("z", back.partialCurrentsZAll)]:
            got, want = flat(arr.tolist()), flat(vals[name])
            for k in range(len(want)):
                assert eq(got[k], want[k]), "partial current read back"


@lemma(gen=G_FILE)
def nhflux_rewrite_of_what_was_read_is_the_same_file(variant: bool, adjoint: bool, iw: int, na: int, nz: int, ng: int, cfg: int,
                                                     effk: float, power: float, it: int, p0: int, p1: int, p2: int, p3: int):
    """write(read(file)) == file: the container read from an NHFLUX / NAFLUX file (Nodal or VARIANT), written again by
    the real code, produces the same sequence of stream writes - leading count, every payload field, trailing count of
    every record, field by field equal bytes.  Same enumeration as nhflux_file_round_trip."""
    iw, na, nz, ng = choose(iw, 0, 1), choose(na, 1, 2), choose(nz, 1, 2), choose(ng, 1, 2)
    nmom, nmoms, nsc = [(1, 0, 1), (2, 1, 2)][choose(cfg, 0, 1)]
    assume(implies(not variant, iw == 0))
    assume(0 <= it and it <= 1000 and all([0 <= p and p <= 1000 for p in [p0, p1, p2, p3]]))
    d, keys, head, vals = nhflux_container(variant, iw, na, nz, ng, nmom, nmoms, 2, 1, nsc, 1, effk, power, it, [p0, p1, p2, p3])
    cls = stream_class(adjoint, variant)
    st = memstream()
    stream(cls, "wb", st, d).readWrite()
    st.seek(0)
    back = NHFLUX(variant=variant)
    stream(cls, "rb", st, back).readWrite()
    st2 = memstream()
    stream(cls, "wb", st2, back).readWrite()
    assert st2.nwrites() == st.nwrites(), "same number of records"
    for k in range(st.nwrites()):
        assert st2.written(k) == st.written(k), "same bytes"
