"""C03 - the missing link between the abstract-material proofs of C03_expansion.py and the concrete material library.

C03_expansion.py proves mass conservation / dimension scaling for an ARBITRARY correlation P(T) > -100 behind the real
Material.linearExpansionFactor / getThermalExpansionDensityReduction; C19_materials.py proves P(T) > -100 on the stated
range of every closed-form library material.  What neither shows is that a LIBRARY class really goes through that
base-class path (it could override linearExpansionFactor, getThermalExpansionDensityReduction, or be caught by the
Fluid / Custom test in Component.getThermalExpansionFactor).  The lemmas here run the REAL Component code on a Circle
whose material is the REAL library object (real constructor, real correlation: cubic, piecewise cubic, np.interp table,
SimpleSolid cube root, B4C with a theoretical-density fraction) for ALL input / current / new temperatures in the
material's stated range, and assert the C03 clauses directly.  Natively: real Circle components of those materials.
"""
import math

from spec import *

Circle = repo("armi.reactor.components.basicShapes:Circle")
Material = repo("armi.materials.material:Material")
K0 = 273.15


class PMap:
    """Abstract view of a ParameterCollection: a name -> value map (trusted model of `self.p`, as in C03_expansion.py)."""

    def __getitem__(self, k):
        return getattr(self, k)

    def __setitem__(self, k, v):
        setattr(self, k, v)

    def get(self, k, d=None):
        return getattr(self, k, d)

    def __contains__(self, k):
        return hasattr(self, k)


def circle_of(matcls, name, od, T0, T1, nd):
    if NATIVE:
        return Circle("c", name, T0, T1, od=od, id=0.0, mult=1)
    p = new(PMap, numberDensities={"A": nd, "B": 2.0 * nd}, volume=None, detailedNDens=None, pinNDens=None, modArea=None, temperatureInC=T1, od=od, id=0.0, mult=1)
    return new(Circle, p=p, material=matcls(), inputTemperatureInC=T0, parent=None, cached={})


def first_density(c):
    nd = c.p.numberDensities
    return nd[sorted(nd.keys())[0]]


def in_range(matcls, key, unit, *temps):
    """every temperature (C) lies in the material's stated range for the expansion correlation"""
    (lo, hi), u = matcls.propertyValidTemperature[key]
    assert u == unit
    off = K0 if unit == "K" else 0.0
    for T in temps:
        assume(lo <= T + off and T + off <= hi)


def library_contract(matcls, name, od, T0, T1, T2, known_refusal=None):
    """C03 for a Circle of a real library material: factor relative to the input temperature, od = cold x factor, area ~
    factor^2, N x area conserved by setTemperature, end state independent of the intermediate temperature.
    Component.getThermalExpansionFactor must not refuse (RuntimeError) anywhere in the range - the property text.  For
    TZM, Zr, UraniumOxide the strict lemma WAS refuted (F253, C03_library_finding.py) and `known_refusal(Ta, Tb)` delimited
    the temperature pairs where a refusal was tolerated; since the repair (/repo df52c28) every lemma below is STRICT
    (no `known_refusal` is passed any more): no refusal anywhere in the range."""
    assume(od >= 0)  # (P) a dimension is not negative; zero allowed
    assert matcls.linearExpansionFactor is Material.linearExpansionFactor, "the class goes through Material.linearExpansionFactor"
    assert matcls.getThermalExpansionDensityReduction is Material.getThermalExpansionDensityReduction
    c = circle_of(matcls, name, od, T0, T1, 0.02 if NATIVE else sym_real("nd"))  # ANY number density
    m = c.material
    P0, P1, P2 = m.linearExpansionPercent(Tc=T0), m.linearExpansionPercent(Tc=T1), m.linearExpansionPercent(Tc=T2)
    assert P0 > -100 and P1 > -100 and P2 > -100, "the hypothesis of the abstract C03 lemmas holds on the stated range"
    try:
        f1 = c.getThermalExpansionFactor()
    except RuntimeError:
        assert known_refusal is not None and known_refusal(T0, T1), "a solid library material inside its stated range must not be refused"
        assert eq(P1, P0) and T1 != T0, "refused loudly only when the correlation gives no expansion between two different temperatures"
        return
    assert eq(f1, (100.0 + P1) / (100.0 + P0)), "factor relative to the input temperature"
    assert f1 > 0
    assert eq(c.getDimension("od"), od * f1), "expanding dimension = cold value x factor"
    assert eq(c.getDimension("od", cold=True), od)
    a1 = c.getArea()
    assert eq(a1, math.pi * od * od * f1 * f1 / 4.0)
    n1 = first_density(c)
    c.setTemperature(T2)
    try:
        f2 = c.getThermalExpansionFactor()
    except RuntimeError:
        assert known_refusal is not None and known_refusal(T0, T2), "a solid library material inside its stated range must not be refused"
        assert eq(P2, P0) and T2 != T0
        return
    a2 = c.getArea()
    n2 = first_density(c)
    assert eq(f2, (100.0 + P2) / (100.0 + P0)), "the end state depends only on the final temperature"
    assert eq(a2 * f1 * f1, a1 * f2 * f2, 1e-7), "area grows by the square of the linear expansion factor"
    assert eq(n2 * a2, n1 * a1, 1e-7), "mass per unit height conserved"
    assert eq(c.getDimension("od"), od * f2)


def tzm_known(Ta, Tb):
    """known finding: both temperatures on the flat segment 840.56 .. 846.11 C of the TZM table"""
    return 840.56 <= Ta and Ta <= 846.11 and 840.56 <= Tb and Tb <= 846.11


def zr_known(Ta, Tb):
    """known finding (real-number ties): the two temperatures lie on different sides of the 1137 K phase change"""
    return (Ta + K0 < 1137) != (Tb + K0 < 1137)


def uo2_known(Ta, Tb):
    """known finding (real-number ties): the two temperatures lie on different sides of the 923 K switch of the correlation"""
    return (Ta + K0 < 923.0) != (Tb + K0 < 923.0)


HT9 = repo("armi.materials.ht9:HT9")
UZr = repo("armi.materials.uZr:UZr")
Zr = repo("armi.materials.zr:Zr")
TZM = repo("armi.materials.tZM:TZM")
Inconel600 = repo("armi.materials.inconel600:Inconel600")
B4C = repo("armi.materials.b4c:B4C")


@lemma(gen={"od": (0.0, 3.0), "T0": (19.85, 776.85), "T1": (19.85, 776.85), "T2": (19.85, 776.85)})
def ht9_circle(od: float, T0: float, T1: float, T2: float):
    """HT9 (cubic), all T0, T1, T2 in [293, 1050] K"""
    in_range(HT9, "linear expansion", "K", T0, T1, T2)
    library_contract(HT9, "HT9", od, T0, T1, T2)


@lemma(gen={"od": (0.0, 3.0), "T0": (-273.15, 1200.0), "T1": (-273.15, 1200.0), "T2": (-273.15, 1200.0)})
def uzr_circle(od: float, T0: float, T1: float, T2: float):
    """UZr (cubic, no stated range): all T0, T1, T2 >= -273.15 C"""
    assume(T0 >= -K0 and T1 >= -K0 and T2 >= -K0)
    library_contract(UZr, "UZr", od, T0, T1, T2)


@lemma(gen={"od": (0.5, 3.0), "T0": (19.85, 1526.85), "T1": (19.85, 1526.85)})
def zr_circle_built_hot(od: float, T0: float, T1: float):
    """Zr (two cubics with a contraction at the 1137 K phase change), all T0, T1 in [293, 1800] K, every combination of
    pieces: input temperature T0, built and kept at T1; strict, also across the phase change, where two temperatures can have the
    same dL/L (was finding F253).  (Split in two lemmas, like UraniumOxide, to keep each short.)"""
    in_range(Zr, "linear expansion percent", "K", T0, T1)
    library_contract(Zr, "Zr", od, T0, T1, T1)


@lemma(gen={"od": (0.5, 3.0), "T0": (19.85, 1526.85), "T2": (19.85, 1526.85)})
def zr_circle_heated(od: float, T0: float, T2: float):
    """Zr: built at its input temperature T0 and heated to T2, all T0, T2 in [293, 1800] K"""
    in_range(Zr, "linear expansion percent", "K", T0, T2)
    library_contract(Zr, "Zr", od, T0, T0, T2)


@lemma(gen={"od": (0.5, 3.0), "T0": (21.11, 1382.22), "T1": (21.11, 1382.22), "T2": (21.11, 1382.22)})
def tzm_circle(od: float, T0: float, T1: float, T2: float):
    """TZM (np.interp over an 11-point table), all T0, T1, T2 in [21.11, 1382.22] C; strict, also on the flat table segment
    840.56 .. 846.11 C (was finding F253)"""
    in_range(TZM, "linear expansion percent", "C", T0, T1, T2)
    library_contract(TZM, "TZM", od, T0, T1, T2)


@lemma(gen={"od": (0.5, 3.0), "T0": (21.0, 900.0), "T1": (21.0, 900.0), "T2": (21.0, 900.0)})
def inconel600_circle(od: float, T0: float, T1: float, T2: float):
    """Inconel600 (quadratic in Tc), all T0, T1, T2 in [21, 900] C"""
    in_range(Inconel600, "linear expansion percent", "C", T0, T1, T2)
    library_contract(Inconel600, "Inconel600", od, T0, T1, T2)


NaCl = repo("armi.materials.sodiumChloride:NaCl")
UraniumOxide = repo("armi.materials.uraniumOxide:UraniumOxide")


class Nuc:
    """stand-in for a NuclideBase (weight > 0, abundance in [0, 1]): only read by UraniumOxide.setDefaultMassFracs"""


TABLE = {"U235": new(Nuc, weight=235.043929, abundance=0.007204), "U238": new(Nuc, weight=238.050788, abundance=0.992742),
         "O": new(Nuc, weight=15.9994, abundance=0.0)}
OV = {"armi.nucDirectory.nuclideBases:byName": "TABLE"}


def nacl_range(*temps):
    for T in temps:
        assume(T + K0 >= 0 and (T + K0) * 0.000313 < 2.23)


@lemma(gen={"od": (0.5, 3.0), "T0": (20.0, 700.0), "T1": (20.0, 700.0)})
def nacl_circle_built_hot(od: float, T0: float, T1: float):
    """NaCl (SimpleSolid: dL/L = 100 ((rho(300 K)/rho(T))^(1/3) - 1), exact real cube root; no stated range): all T0, T1
    with 0 <= Tk and rho(Tk) > 0; strict"""
    nacl_range(T0, T1)
    library_contract(NaCl, "NaCl", od, T0, T1, T1)


@lemma(gen={"od": (0.5, 3.0), "T0": (20.0, 700.0), "T2": (20.0, 700.0)})
def nacl_circle_heated(od: float, T0: float, T2: float):
    """NaCl: built at its input temperature T0 and heated to T2; strict"""
    nacl_range(T0, T2)
    library_contract(NaCl, "NaCl", od, T0, T0, T2)


@lemma(gen={"od": (0.5, 3.0), "T0": (-0.15, 2849.85), "T1": (-0.15, 2849.85)}, overrides=OV)
def uranium_oxide_circle_built_hot(od: float, T0: float, T1: float):
    """UraniumOxide (two cubics switching at 923 K; SimpleSolid AND FuelMaterial), all T0, T1 in [273, 3123] K, every
    combination of pieces: a component with input temperature T0 built at T1, then kept at T1; strict, also across 923 K: the high
    piece starts 1.1e-3 percentage points BELOW the end of the low piece, so temperatures just above 923 K tie with
    temperatures just below (was finding F253, real-number only).  Collaborator: nuclide directory = TABLE (constructor's
    composition only).  (Split in two lemmas to keep each short.)"""
    in_range(UraniumOxide, "linear expansion percent", "K", T0, T1)
    library_contract(UraniumOxide, "UraniumOxide", od, T0, T1, T1)


@lemma(gen={"od": (0.5, 3.0), "T0": (-0.15, 2849.85), "T2": (-0.15, 2849.85)}, overrides=OV)
def uranium_oxide_circle_heated(od: float, T0: float, T2: float):
    """UraniumOxide: a component built at its input temperature T0 and heated to T2, all T0, T2 in [273, 3123] K"""
    in_range(UraniumOxide, "linear expansion percent", "K", T0, T2)
    library_contract(UraniumOxide, "UraniumOxide", od, T0, T0, T2)
