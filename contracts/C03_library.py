"""C03 - the missing link between the abstract-material proofs of C03_expansion.py and the concrete material library.

C03_expansion.py proves mass conservation / dimension scaling for an ARBITRARY correlation P(T) > -100 behind the real
Material.linearExpansionFactor / getThermalExpansionDensityReduction; C19_materials.py proves P(T) > -100 on the stated
range of every closed-form library material.  What neither shows is that a LIBRARY class really goes through that
base-class path (it could override linearExpansionFactor, getThermalExpansionDensityReduction, or be caught by the
Fluid / Custom test in Component.getThermalExpansionFactor).  The lemmas here run the REAL Component code on a Circle
whose material is the REAL library object (real constructor, real correlation: cubic, piecewise cubic, np.interp table,
SimpleSolid cube root, B4C with a theoretical-density fraction) for ALL input / current / new temperatures in the
material's stated range, and assert the C03 clauses directly.  Natively: real Circle components of those materials.
"""
import math

from spec import *

Circle = repo("armi.reactor.components.basicShapes:Circle")
Material = repo("armi.materials.material:Material")
K0 = 273.15


class PMap:
    """Abstract view of a ParameterCollection: a name -> value map (trusted model of `self.p`, as in C03_expansion.py)."""

    def __getitem__(self, k):
        return getattr(self, k)

    def __setitem__(self, k, v):
        setattr(self, k, v)

    def get(self, k, d=None):
        return getattr(self, k, d)

    def __contains__(self, k):
        return hasattr(self, k)


def circle_of(matcls, name, od, T0, T1, nd):
    if NATIVE:
        return Circle("c", name, T0, T1, od=od, id=0.0, mult=1)
    p = new(PMap, numberDensities={"A": nd, "B": 2.0 * nd}, volume=None, detailedNDens=None, pinNDens=None, modArea=None, temperatureInC=T1, od=od, id=0.0, mult=1)
    return new(Circle, p=p, material=matcls(), inputTemperatureInC=T0, parent=None, cached={})


def first_density(c):
    nd = c.p.numberDensities
    return nd[sorted(nd.keys())[0]]


def in_range(matcls, key, unit, *temps):
    """every temperature (C) lies in the material's stated range for the expansion correlation"""
    (lo, hi), u = matcls.propertyValidTemperature[key]
    assert u == unit
    off = K0 if unit == "K" else 0.0
    for T in temps:
        assume(lo <= T + off and T + off <= hi)


def library_contract(matcls, name, od, T0, T1, T2, strict=True):
    """C03 for a Circle of a real library material: factor relative to the input temperature, od = cold x factor, area ~
    factor^2, N x area conserved by setTemperature, end state independent of the intermediate temperature.
    strict: Component.getThermalExpansionFactor must not refuse (RuntimeError) anywhere in the range - the property text;
    not strict (TZM, Zr - the strict lemmas are REFUTED, see pending/C03_library_finding.py): a refusal happens ONLY when
    the correlation gives exactly the same dL/L at two different temperatures, and everything else holds"""
    assume(od > 0)
    assert matcls.linearExpansionFactor is Material.linearExpansionFactor, "the class goes through Material.linearExpansionFactor"
    assert matcls.getThermalExpansionDensityReduction is Material.getThermalExpansionDensityReduction
    c = circle_of(matcls, name, od, T0, T1, 0.02)
    m = c.material
    P0, P1, P2 = m.linearExpansionPercent(Tc=T0), m.linearExpansionPercent(Tc=T1), m.linearExpansionPercent(Tc=T2)
    assert P0 > -100 and P1 > -100 and P2 > -100, "the hypothesis of the abstract C03 lemmas holds on the stated range"
    try:
        f1 = c.getThermalExpansionFactor()
    except RuntimeError:
        assert not strict, "a solid library material inside its stated range must not be refused"
        assert eq(P1, P0) and T1 != T0, "refused loudly only when the correlation gives no expansion between two different temperatures"
        return
    assert eq(f1, (100.0 + P1) / (100.0 + P0)), "factor relative to the input temperature"
    assert f1 > 0
    assert eq(c.getDimension("od"), od * f1), "expanding dimension = cold value x factor"
    assert eq(c.getDimension("od", cold=True), od)
    a1 = c.getArea()
    assert eq(a1, math.pi * od * od * f1 * f1 / 4.0)
    n1 = first_density(c)
    c.setTemperature(T2)
    try:
        f2 = c.getThermalExpansionFactor()
    except RuntimeError:
        assert not strict, "a solid library material inside its stated range must not be refused"
        assert eq(P2, P0) and T2 != T0
        return
    a2 = c.getArea()
    n2 = first_density(c)
    assert eq(f2, (100.0 + P2) / (100.0 + P0)), "the end state depends only on the final temperature"
    assert eq(a2 * f1 * f1, a1 * f2 * f2, 1e-7), "area grows by the square of the linear expansion factor"
    assert eq(n2 * a2, n1 * a1, 1e-7), "mass per unit height conserved"
    assert eq(c.getDimension("od"), od * f2)


HT9 = repo("armi.materials.ht9:HT9")
UZr = repo("armi.materials.uZr:UZr")
Zr = repo("armi.materials.zr:Zr")
TZM = repo("armi.materials.tZM:TZM")
Inconel600 = repo("armi.materials.inconel600:Inconel600")
B4C = repo("armi.materials.b4c:B4C")


@lemma(gen={"od": (0.5, 3.0), "T0": (20.0, 700.0), "T1": (20.0, 700.0), "T2": (20.0, 700.0)})
def ht9_circle(od: float, T0: float, T1: float, T2: float):
    """HT9 (cubic), all T0, T1, T2 in [293, 1050] K"""
    in_range(HT9, "linear expansion", "K", T0, T1, T2)
    library_contract(HT9, "HT9", od, T0, T1, T2)


@lemma(gen={"od": (0.5, 3.0), "T0": (20.0, 700.0), "T1": (20.0, 700.0), "T2": (20.0, 700.0)})
def uzr_circle(od: float, T0: float, T1: float, T2: float):
    """UZr (cubic, no stated range): all T0, T1, T2 >= -273.15 C"""
    assume(T0 >= -K0 and T1 >= -K0 and T2 >= -K0)
    library_contract(UZr, "UZr", od, T0, T1, T2)


@lemma(gen={"od": (0.5, 3.0), "T0": (20.0, 1500.0), "T1": (20.0, 1500.0), "T2": (20.0, 1500.0)})
def zr_circle(od: float, T0: float, T1: float, T2: float):
    """Zr (two cubics with a contraction at the 1137 K phase change), all T0, T1, T2 in [293, 1800] K, every combination of
    pieces; NOT strict: across the phase change two temperatures can have the same dL/L (finding)"""
    in_range(Zr, "linear expansion percent", "K", T0, T1, T2)
    library_contract(Zr, "Zr", od, T0, T1, T2, strict=False)


@lemma(gen={"od": (0.5, 3.0), "T0": (21.11, 1382.22), "T1": (21.11, 1382.22), "T2": (21.11, 1382.22)})
def tzm_circle(od: float, T0: float, T1: float, T2: float):
    """TZM (np.interp over an 11-point table), all T0, T1, T2 in [21.11, 1382.22] C; NOT strict: the table is flat between
    840.56 and 846.11 C (finding)"""
    in_range(TZM, "linear expansion percent", "C", T0, T1, T2)
    library_contract(TZM, "TZM", od, T0, T1, T2, strict=False)


@lemma(gen={"od": (0.5, 3.0), "T0": (21.0, 900.0), "T1": (21.0, 900.0), "T2": (21.0, 900.0)})
def inconel600_circle(od: float, T0: float, T1: float, T2: float):
    """Inconel600 (quadratic in Tc), all T0, T1, T2 in [21, 900] C"""
    in_range(Inconel600, "linear expansion percent", "C", T0, T1, T2)
    library_contract(Inconel600, "Inconel600", od, T0, T1, T2)
