"""C09 - REFUTED ON THE UNCHANGED TREE (kept out of ./check): clauses of the ISOTXS / GAMISO property text that the real
code contradicts.  Same real code, stub and scipy stand-in as contracts/C09_xsfiles.py.
Run:  cd /verif; python3-vt -m pyvc.run contracts/pending/C09_xsfiles_finding.py -v

  isotxs_isotope_offsets_count_the_sub_block_records   NEW: LOCA(I) of the 2D record ("number of records to be skipped to
        read data for isotope I") counts ONE record per scattering block, but NSBLOK records per block are written.
  gamiso_file_label_reads_back                          the label written is not the label read: _GamisoIO has no
        _FILE_LABEL of its own (the "GAMISO" constant sits on _GamisoNuclideIO, where nothing reads it), so every label
        other than "ISOTXS" - including "GAMISO" - is replaced by "ISOTXS" while WRITING and on reading (class of known
        findings F107 / F110).
  isotxs_sub_blocked_scatter_reads_back                 NSBLOK = 2: a file armi wrote cannot be read (known finding F105).
  isotxs_multi_order_block_reads_back                   LORD(N) = 2: a file armi wrote cannot be read (known finding F106).
"""
import struct

import numpy as np

from spec import *

IsotxsIO = repo("armi.nuclearDataIO.cccc.isotxs:IsotxsIO")
GamisoIO = repo("armi.nuclearDataIO.cccc.gamiso:_GamisoIO")
IsotxsLibrary = repo("armi.nuclearDataIO.xsLibraries:IsotxsLibrary")
XSNuclide = repo("armi.nuclearDataIO.xsNuclides:XSNuclide")
BinaryRecordReader = repo("armi.nuclearDataIO.cccc.cccc:BinaryRecordReader")

F32 = [0.5, -1.25, 3.0, 1024.0, 7.0]


def no_base_lookup(self):
    """contract assumed for XSNuclide.updateBaseNuclide: touches neither the file nor the cross-section data"""
    return None


STUBS = {"armi.nuclearDataIO.xsNuclides:XSNuclide.updateBaseNuclide": "no_base_lookup"}


class Mat:
    """stand-in for a scipy.sparse matrix, held dense"""

    def __init__(self, a):
        self.a = a

    def toarray(self):
        return self.a

    def eliminate_zeros(self):
        return None


if NATIVE:
    import scipy.sparse as DenseSparse

    def matrix(rows):
        return DenseSparse.csr_matrix(np.array(rows))
else:
    class DenseSparse:
        """stand-in for scipy.sparse (see contracts/C09_xsfiles.py)"""

        @staticmethod
        def csr_matrix(triple, shape):
            data, indices, indptr = triple
            if len(indptr) != shape[0] + 1:
                raise ValueError("index pointer size %d should be %d" % (len(indptr), shape[0] + 1))
            rows = [[0.0 for c in range(shape[1])] for r in range(shape[0])]
            for r in range(shape[0]):
                for k in range(indptr[r], indptr[r + 1]):
                    rows[r][indices[k]] = rows[r][indices[k]] + data[k]
            return Mat(np.array(rows))

    def matrix(rows):
        return Mat(np.array(rows))


OVERRIDES = {"armi.nuclearDataIO.cccc.isotxs:sparse": "DenseSparse"}
LABELS = ["U235AA", "FE56AA"]


def library(gamiso, label, ng, niso, nsblok, lord, w):
    """niso non-fissile isotopes x ng groups, one elastic scattering block of `lord` orders in `nsblok` sub-blocks,
    in-group scattering only (JJ = JBAND = 1)"""
    lib = IsotxsLibrary()
    meta = lib.gamisoMetadata if gamiso else lib.isotxsMetadata
    vals = {"label": label, "fileId": 1, "numGroups": ng, "maxUpScatterGroups": 0, "maxDownScatterGroups": 0, "maxScatteringOrder": lord,
            "fileWideChiFlag": 0, "maxScatteringBlocks": 1, "subblockingControl": nsblok, "libraryLabel": "LIB", "minimumNeutronEnergy": w[0]}
    for key in vals:
        meta[key] = vals[key]
    if gamiso:
        meta["gammaVelocity..NOT"] = np.array([w[1], w[2]][:ng])
        lib.gammaEnergyUpperBounds = np.array([w[3], w[4]][:ng])
    else:
        lib.neutronVelocity = np.array([w[1], w[2]][:ng])
        lib.neutronEnergyUpperBounds = np.array([w[3], w[4]][:ng])
    for k in range(niso):
        nuc = XSNuclide(lib, LABELS[k])
        lib[LABELS[k]] = nuc
        nm = nuc.gamisoMetadata if gamiso else nuc.isotxsMetadata
        mic = nuc.gammaXS if gamiso else nuc.micros
        for key in ["nuclideId", "libName", "isoIdent"]:
            nm[key] = LABELS[k][:-2]
        for key in ["amass", "efiss", "ecapt", "temp", "sigPot", "adens"]:
            nm[key] = w[5]
        for key in ["classif", "chiFlag", "fisFlag", "nalph", "np", "n2n", "nd", "nt", "strpd"]:
            nm[key] = 0
        nm["ltot"], nm["ltrn"] = 1, 1
        nm["scatFlag"], nm["ords"] = np.array([100]), np.array([lord])
        nm["jband"] = {(g, 0): 1 for g in range(ng)}
        nm["jj"] = {(g, 0): 1 for g in range(ng)}
        mic.transport = np.array([[w[6]], [w[7]]][:ng])
        mic.total = np.array([[w[6]], [w[7]]][:ng])
        mic.nGamma = np.array([w[6], w[7]][:ng])
        mic.elasticScatter = matrix([[(w[8 + g] if g == h else 0.0) for h in range(ng)] for g in range(ng)])
    return lib


def xs_io(gamiso, mode, st, lib):
    meta = lib.gamisoMetadata if gamiso else lib.isotxsMetadata
    if "r" in mode:
        get = lambda label: XSNuclide(lib, label)
    else:
        get = lambda label: lib[label]
    return new(GamisoIO if gamiso else IsotxsIO, _fileName="ISOTXS", _fileMode=mode, _stream=st, _lib=lib, _metadata=meta, _getNuclide=get)


def read_loca(st, ng, niso):
    st.seek(0)
    with BinaryRecordReader(st) as r:
        r.rwString(None, 24)
        r.rwInt(None)
    with BinaryRecordReader(st) as r:
        r.rwList(None, "int", 8)
    with BinaryRecordReader(st) as r:
        r.rwString(None, 96)
        r.rwList(None, "string", niso, 8)
        r.rwList(None, "float", 2 * ng + 1)
        loca = r.rwList(None, "int", niso)
    return loca


G = {"ng": (2, 2), "nsblok": (1, 2)}
for _k in range(10):
    G["w%d" % _k] = F32


@lemma(gen=G, stubs=STUBS, overrides=OVERRIDES)
def isotxs_isotope_offsets_count_the_sub_block_records(nsblok: int, w0: float, w1: float, w2: float, w3: float, w4: float, w5: float,
                                                       w6: float, w7: float, w8: float, w9: float):
    """2 isotopes x 2 groups, one scattering block in NSBLOK = 1..2 sub-blocks: the records of isotope 1 are 4D, 5D and
    NSBLOK 7D records (this many ARE written), so LOCA(2) must be 2 + NSBLOK.  REFUTED for NSBLOK = 2: LOCA(2) = 3."""
    nsblok = choose(nsblok, 1, 2)
    lib = library(False, "ISOTXS", 2, 2, nsblok, 1, [w0, w1, w2, w3, w4, w5, w6, w7, w8, w9])
    st = memstream()
    xs_io(False, "wb", st, lib).readWrite()
    assert st.nwrites() == 3 * (3 + 2 * (2 + nsblok)), "4D, 5D and one 7D record per sub-block for each isotope"
    loca = read_loca(st, 2, 2)
    assert loca[0] == 0
    assert loca[1] == 2 + nsblok, "LOCA(2) = number of records of isotope 1"


@lemma(gen={"which": (0, 2), "w0": F32, "w1": F32, "w3": F32, "w5": F32, "w6": F32, "w8": F32}, stubs=STUBS, overrides=OVERRIDES)
def gamiso_file_label_reads_back(which: int, gamiso: bool, w0: float, w1: float, w3: float, w5: float, w6: float, w8: float):
    """the file label (HNAME / user identification, 24 characters) is data like any other: what is written is read back,
    and writing does not change the library.  REFUTED for every label other than 'ISOTXS', for GAMISO and ISOTXS."""
    label = ["ISOTXS", "GAMISO", "ISOTXS  user    id"][choose(which, 0, 2)]
    lib = library(gamiso, label, 1, 1, 1, 1, [w0, w1, w1, w3, w3, w5, w6, w6, w8, w8])
    st = memstream()
    xs_io(gamiso, "wb", st, lib).readWrite()
    assert (lib.gamisoMetadata if gamiso else lib.isotxsMetadata)["label"] == label, "writing does not relabel the library"
    st.seek(0)
    back = IsotxsLibrary()
    xs_io(gamiso, "rb", st, back).readWrite()
    assert (back.gamisoMetadata if gamiso else back.isotxsMetadata)["label"] == label, "label read back"


def reads_back(nsblok, lord, w):
    lib = library(False, "ISOTXS", 2, 1, nsblok, lord, w)
    st = memstream()
    xs_io(False, "wb", st, lib).readWrite()
    st.seek(0)
    back = IsotxsLibrary()
    xs_io(False, "rb", st, back).readWrite()
    m = back[LABELS[0]].micros.elasticScatter.toarray()
    assert eq(m[0, 0], w[8]) and eq(m[1, 1], w[9]) and eq(m[0, 1], 0.0) and eq(m[1, 0], 0.0), "scattering matrix read back"


@lemma(gen=G, stubs=STUBS, overrides=OVERRIDES)
def isotxs_sub_blocked_scatter_reads_back(nsblok: int, w0: float, w1: float, w2: float, w3: float, w4: float, w5: float,
                                          w6: float, w7: float, w8: float, w9: float):
    """NSBLOK = 1..2 sub-blocks (2 groups, one group per sub-block): REFUTED for NSBLOK = 2 (OSError on reading)"""
    nsblok = choose(nsblok, 1, 2)
    reads_back(nsblok, 1, [w0, w1, w2, w3, w4, w5, w6, w7, w8, w9])


@lemma(gen={"lord": (1, 2), "w0": F32, "w1": F32, "w2": F32, "w3": F32, "w4": F32, "w5": F32, "w6": F32, "w7": F32, "w8": F32, "w9": F32},
       stubs=STUBS, overrides=OVERRIDES)
def isotxs_multi_order_block_reads_back(lord: int, w0: float, w1: float, w2: float, w3: float, w4: float, w5: float,
                                        w6: float, w7: float, w8: float, w9: float):
    """LORD = 1..2 orders in one block: REFUTED for LORD = 2 (OSError on reading)"""
    lord = choose(lord, 1, 2)
    reads_back(1, lord, [w0, w1, w2, w3, w4, w5, w6, w7, w8, w9])
