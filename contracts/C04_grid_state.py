"""C04 - the grid arguments the database stores (StructuredGrid.reduce, called by Layout for every gridded object on
every write) describe the grid's CURRENT state: a later snapshot of the same live grid must not carry the arguments of
an earlier one.  Real code: HexGrid.fromPitch, CartesianGrid.fromRectangle, StructuredGrid.reduce / changePitch,
the Grid.symmetry / geomType setters, the class constructors applied to the reduced arguments.
"""
import numpy as np

from spec import *

HexGrid = repo("armi.reactor.grids.hexagonal:HexGrid")
CartesianGrid = repo("armi.reactor.grids.cartesian:CartesianGrid")


@lemma(gen={"i": (-9, 9), "j": (-9, 9), "k": (-2, 2), "p1": (0.1, 30.0), "p2": (0.1, 30.0), "step": (0, 3)})
def hex_grid_reduced_again_after_a_change_describes_the_new_state(i: int, j: int, k: int, p1: float, p2: float, ox: float, oy: float, step: int):
    """reduce(), then ONE change of the live grid (symmetry, geometry type, pitch, or offset - enumerated), then reduce()
    again: the grid rebuilt from the second result has the live grid's current symmetry, geometry type and cell centres"""
    assume(p1 > 0 and p2 > 0)
    step = choose(step, 0, 3)
    g = HexGrid.fromPitch(p1, numRings=3)
    g.symmetry = "third periodic"
    first = g.reduce()
    if step == 0:
        g.symmetry = "full"  # e.g. Core.growToFullCore between two database writes
    elif step == 1:
        g.geomType = "hex_corners_up"
    elif step == 2:
        g.changePitch(p2)
    else:
        g._offset = np.array((ox, oy, 0.0))
    g2 = HexGrid(*g.reduce())
    assert g2._symmetry == g._symmetry, "the stored symmetry is the current one"
    assert g2._geomType == g._geomType, "the stored geometry type is the current one"
    a, b = g2.getCoordinates((i, j, k)), g.getCoordinates((i, j, k))
    assert eq(a[0], b[0]) and eq(a[1], b[1]) and eq(a[2], b[2]), "the stored steps / offset are the current ones"
    g1 = HexGrid(*first)
    assert g1._symmetry == "third periodic", "the earlier result still describes the earlier state"


@lemma(gen={"w": (0.1, 30.0), "h": (0.1, 30.0)})
def cartesian_grid_reduced_again_after_a_symmetry_change(w: float, h: float, isOffset: bool):
    assume(w > 0 and h > 0)
    g = CartesianGrid.fromRectangle(w, h, numRings=3, isOffset=isOffset)
    g.symmetry = "quarter reflective"
    g.reduce()
    g.symmetry = "full"
    g2 = CartesianGrid(*g.reduce())
    assert g2._symmetry == g._symmetry and g2._symmetry == "full"
    assert g2._isThroughCenter() == g._isThroughCenter()
