"""C13 - adding and removing edge assemblies: EdgeAssemblyChanger.addEdgeAssemblies / removeEdgeAssemblies on a real Core.

Executed (real, re-read from /repo on every run): EdgeAssemblyChanger.addEdgeAssemblies / removeEdgeAssemblies, GeometryChanger.__init__ /
reset, Core.getAssembliesOnSymmetryLine / add / removeAssembly / _removeListFromAuxiliaries / isFullCore / symmetry / geomType / r,
Assembly.isOnWhichSymmetryLine / makeUnique (random.randint: every outcome) / renumber / renameBlocksAccordingToAssemblyNum / moveTo /
orientBlocks / getLocation, ArmiObject.clearCache / __getstate__ / __setstate__, LocationBase.__getstate__ / __setstate__ (the copy
of an assembly is made by the REAL copy protocol through the engine's copy.deepcopy model - no copy stand-in here),
Reactor.incrementAssemNum, ParameterDefinitionCollection.resetAssignmentFlag / unchanged_since / setAssignmentFlag (on a real
collection of two real Parameter definitions), the real HexGrid (symmetry lines, symmetric equivalents, ring / position,
domain test) and IndexLocation.

The SHAPE is enumerated completely up to ring 5: a centre assembly or none, an interior assembly at (1, 0) / (1, 1) or none,
an assembly on the lower (0 degree) symmetry line at (2, -1) or none and a second one at (4, -2) or none, a pre-existing
assembly on the upper (120 degree) line at (-1, 2) or none, 1..2 blocks per assembly; all parameter VALUES (power,
multigroup flux) are symbolic reals.  scaleParamsRelatedToSymmetry is proved in contracts/C13_scaling.py.

Stand-ins for collaborators (those of contracts/C14_core.py / C13_convert.py, copied below): PMap, BlockStub, AxialStub,
PoolStub, ExcoreStub, PDefs / PDef, ParametersStub (armi.reactor.parameters as seen from cores.py), GCParameters
(armi.reactor.parameters as seen from geometryConverters.py: ALL_DEFINITIONS is a REAL ParameterDefinitionCollection),
assemblies_contract is not needed.  Stubs: Assembly.getFissileMass / getMaxParam (charge bookkeeping values).
"""
import math

import numpy as np

from spec import *

Core = repo("armi.reactor.cores:Core")
Assembly = repo("armi.reactor.assemblies:Assembly")
Reactor = repo("armi.reactor.reactors:Reactor")
HexGrid = repo("armi.reactor.grids.hexagonal:HexGrid")
IndexLocation = repo("armi.reactor.grids.locations:IndexLocation")
CoordinateLocation = repo("armi.reactor.grids.locations:CoordinateLocation")
SpentFuelPool = repo("armi.reactor.spentFuelPool:SpentFuelPool")
EdgeAssemblyChanger = repo("armi.reactor.converters.geometryConverters:EdgeAssemblyChanger")
Parameter = repo("armi.reactor.parameters.parameterDefinitions:Parameter")
PDC = repo("armi.reactor.parameters.parameterDefinitions:ParameterDefinitionCollection")
NoDefault = repo("armi.reactor.parameters.parameterDefinitions:NoDefault")
NEVER = repo("armi.reactor.parameters.parameterDefinitions:NEVER")
Category = repo("armi.reactor.parameters.parameterDefinitions:Category")
SINCE_ANYTHING = repo("armi.reactor.parameters.parameterDefinitions:SINCE_ANYTHING")
SINCE_LAST_GEOMETRY_TRANSFORMATION = repo("armi.reactor.parameters.parameterDefinitions:SINCE_LAST_GEOMETRY_TRANSFORMATION")


# ----------------------------------------------------------------------------- stand-ins (collaborators)
class PMap:
    """a parameter map; as in the real ParameterCollection, ASSIGNING a parameter marks its definition as assigned
    "since anything" (here: every definition of mk_defs, the conservative reading of "some parameter was assigned")"""

    def __getitem__(self, k):
        return getattr(self, k)

    def __setitem__(self, k, v):
        setattr(self, k, v)

    def __setattr__(self, k, v):
        if GCParameters.ALL_DEFINITIONS is not None:
            for d in GCParameters.ALL_DEFINITIONS:
                d.assigned = SINCE_ANYTHING
        object.__setattr__(self, k, v)

    def __contains__(self, k):
        return hasattr(self, k)


class ParametersStub:
    """armi.reactor.parameters as seen from cores.py: no definitions whose `assigned` flag would be reset"""

    ALL_DEFINITIONS = ()
    SINCE_ANYTHING = 0

    @staticmethod
    def forType(cls):
        return ()


class BlockStub:
    """a block as seen by the core bookkeeping: name, flags, symmetry factor, an existing pin grid"""

    def getName(self):
        return self.name

    def hasFlags(self, f, exact=False):
        return f is None or f in self.flags

    def getSymmetryFactor(self):
        return self.symmetryFactor

    def clearCache(self):
        return None

    def setName(self, name):
        self.name = name

    def makeName(self, assemNum, axialIndex):
        return "B{0:04d}-{1:03d}".format(assemNum, axialIndex)

    def rotate(self, rad):
        self.rotation = self.rotation + rad

    def getVolume(self):
        return self.volume


class AxialStub:
    """the axial grid of an assembly: (0, 0, k) -> a locator of this grid"""

    def __getitem__(self, ijk):
        return IndexLocation(ijk[0], ijk[1], ijk[2], self)


class PoolStub(SpentFuelPool):
    """spent-fuel pool (a SpentFuelPool as far as isinstance goes; the three methods the code under contract calls are
    replaced): add(a) makes `a` a child of the pool, remove(a) takes it out, getChildren() lists the children"""

    def add(self, a):
        a.parent = self
        self.kids.append(a)

    def getChildren(self):
        return list(self.kids)

    def remove(self, a):
        self.kids.remove(a)
        a.parent = None


class ExcoreStub:
    def get(self, name, default=None):
        return self.items.get(name, default)

    def __getitem__(self, name):
        return self.items[name]

    def __getattr__(self, name):
        if name.startswith("__") or name == "items":
            raise AttributeError(name)
        return self.items[name]


class PDef:
    pass


class PDefs:
    """parameter definitions of the block type: atLocation / since filter on the records, .names lists the names"""

    def atLocation(self, loc):
        return new(PDefs, defs=[d for d in self.defs if d.volumeIntegrated])

    def inCategory(self, cat):
        return new(PDefs, defs=[d for d in self.defs if cat in d.categories])

    def since(self, mask):
        return new(PDefs, defs=[d for d in self.defs if d.assignedSinceTransformation])

    @property
    def names(self):
        return [d.name for d in self.defs]


def pdef(name, volInt, cats):
    return new(PDef, name=name, volumeIntegrated=volInt, categories=cats, assignedSinceTransformation=True)


class GCParameters:
    """armi.reactor.parameters as seen from geometryConverters.py: ALL_DEFINITIONS is set by mk_defs to a REAL
    ParameterDefinitionCollection (its resetAssignmentFlag / unchanged_since / setAssignmentFlag are executed)"""

    ALL_DEFINITIONS = None


def mk_defs(f0, f1):
    """two real parameter definitions with arbitrary `assigned` flags in the collection of all definitions"""
    pdc = PDC()
    defs = []
    for nm, fl in (("power", f0), ("mgFlux", f1)):
        pd = Parameter(nm, "", "a block parameter", None, True, NoDefault, NoDefault, set())
        pd.assigned = fl
        pdc.add(pd)
        defs.append(pd)
    GCParameters.ALL_DEFINITIONS = pdc
    return defs


class Marker:
    """an opaque object of which only the identity matters (a pin grid, a foreign grid)"""


def fissile_contract(self):
    return 1000.0


def maxparam_contract(self, name):
    return 0.5


STUBS = {"armi.reactor.composites:ArmiObject.getFissileMass": "fissile_contract",
         "armi.reactor.composites:ArmiObject.getMaxParam": "maxparam_contract"}
OVERRIDES = {"armi.reactor.cores:parameters": "ParametersStub", "armi.reactor.converters.geometryConverters:parameters": "GCParameters"}


# ----------------------------------------------------------------------------- the world
def hexgrid(symmetry):
    us = HexGrid._getRawUnitSteps(1.0, False)
    return new(HexGrid, _unitSteps=np.array(us), _bounds=(None, None, None), _stepDims=((0, 1, 2),), _boundDims=((),),
               _offset=np.zeros(3), _unitStepLimits=((-3, 3), (-3, 3), (0, 1)), _symmetry=symmetry, _isAxialOnly=False,
               armiObject=None, _locations={}, _geomType="hex", _backup=None)


def block(name, k, grid, stationary):
    return new(BlockStub, name=name, flags=(["GRID_PLATE"] if stationary else ["FUEL"]), symmetryFactor=1.0, rotation=0.0,
               spatialGrid=new(Marker), spatialLocator=IndexLocation(0, 0, k, grid), parent=None,
               p=new(PMap, ztop=10.0 * (k + 1), power=0.0, mgFlux=[0.0, 0.0], temperature=600.0, paramDefs=BLOCKDEFS))


BLOCKDEFS = new(PDefs, defs=[pdef("power", True, ()), pdef("mgFlux", True, (Category.fluxQuantities, Category.multiGroupQuantities)), pdef("temperature", False, ())])


def assembly(num, nBlocks, label, stationary=()):
    """Assembly number `num` with nBlocks blocks B<num>-00k; the blocks whose index is in `stationary` are grid plates"""
    ax = new(AxialStub)
    a = new(Assembly, name="A%04d" % num, _children=[], parent=None, spatialLocator=CoordinateLocation(0.0, 0.0, 0.0, None),
            spatialGrid=ax, lastLocationLabel=label, cached={},
            p=new(PMap, type="fuel", assemNum=num, numMoves=0, daysSinceLastMove=7.0, multiplicity=1.0, dischargeTime=0.0, chargeTime=0.0,
                  chargeCycle=0, chargeFis=0.0, chargeBu=0.0))
    for k in range(nBlocks):
        b = block("B%04d-%03d" % (num, k), k, ax, k in stationary)
        b.parent = a
        a._children.append(b)
    return a


def world(track, withPool, numRings, maxAssemNum):
    """an empty core in a reactor (with or without a pool); returns (core, reactor, pool)"""
    g = hexgrid("third periodic")
    pool = new(PoolStub, kids=[], parent=None)
    r = new(Reactor, name="r", p=new(PMap, time=12.5, cycle=3, maxAssemNum=maxAssemNum), excore=new(ExcoreStub, items=({"sfp": pool} if withPool else {})),
            parent=None, _children=[])
    core = new(Core, name="core", _children=[], childrenByLocator={}, assembliesByName={}, blocksByName={}, spatialGrid=g, parent=r,
               spatialLocator=CoordinateLocation(0.0, 0.0, 0.0, None), numRings=numRings, _trackAssems=track, cached={},
               stationaryBlockFlagsList=["GRID_PLATE"], zones=[], p=new(PMap, maxAssemNum=maxAssemNum, numMoves=0))
    g.armiObject = core
    r.core = core
    pool.parent = r
    return core, r, pool


def place(core, a, i, j):
    """put `a` into the core's tables at cell (i, j) - the state Inv describes, built directly"""
    loc = core.spatialGrid[i, j, 0]
    a.parent = core
    a.spatialLocator = loc
    core._children.append(a)
    core.childrenByLocator[loc] = a
    core.assembliesByName[a.name] = a
    for b in a._children:
        core.blocksByName[b.name] = b


def register_pooled(core, pool, a):
    """`a` sits in the pool and is tracked by name"""
    a.parent = pool
    pool.kids.append(a)
    core.assembliesByName[a.name] = a
    for b in a._children:
        core.blocksByName[b.name] = b


def inv(core, pool):
    """the class invariant Inv(core) (see module docstring)"""
    g = core.spatialGrid
    kids = list(core._children)
    ok = len(core.childrenByLocator) == len(kids)
    nBlocks = 0
    for c in kids:
        ok = ok and c.parent is core and c.spatialLocator.grid is g
        ok = ok and core.childrenByLocator.get(c.spatialLocator) is c
    for c in kids + list(pool.kids):
        ok = ok and core.assembliesByName.get(c.name) is c
        for b in c._children:
            nBlocks += 1
            ok = ok and b.parent is c and core.blocksByName.get(b.name) is b
    ok = ok and len(core.assembliesByName) == len(kids) + len(pool.kids)
    ok = ok and len(core.blocksByName) == nBlocks
    return ok


def at(core, i, j):
    """the assembly the core's location lookup returns for cell (i, j), by an independent key (the index tuple)"""
    return core.childrenByLocator.get((i, j, 0))


def hexring(i, j):
    return max(abs(i), abs(j), abs(i + j)) + 1


# ----------------------------------------------------------------------------- the lemmas
INTERIOR = [(1, 0), (1, 1)]
LOWER = [(2, -1), (4, -2)]  # cells on the 0-degree symmetry line (rings 3 and 5)
GEN = {"centre": (0, 1), "inner": (0, 2), "low1": (0, 1), "low2": (0, 1), "up1": (0, 1), "nb": (1, 2), "f0": (0, 63), "f1": (0, 63), "maxNum": (10, 50),
       "p0": (0.0, 1e6), "p1": (0.0, 1e6), "p2": (0.0, 1e6), "fl": (0.0, 1e14)}


GEN_UP2 = {"centre": (0, 1), "inner": (0, 2), "low1": (0, 1), "low2": (0, 1), "up1": (0, 2), "nb": (1, 2), "f0": (0, 63), "f1": (0, 63), "maxNum": (10, 50),
           "p0": (0.0, 1e6), "p1": (0.0, 1e6), "p2": (0.0, 1e6), "fl": (0.0, 1e14)}


def rot120(c):
    """the 120-degree image of a hex cell (proved to be what getSymmetricEquivalents returns: contracts/C08_symmetry.py)"""
    return (-c[0] - c[1], c[0])


def build(symmetry, centre, inner, low1, low2, up1, nb, maxNum, p0, p1, p2, fl):
    """the enumerated core (see module docstring); returns core, reactor, pool, all assemblies, those on the lower line, the one on the upper line"""
    core, r, pool = world(True, True, 5, maxNum)  # discharged assemblies are tracked: one sent to the pool would stay in the name table
    core.spatialGrid._symmetry = symmetry
    allA, lower, upper = [], [], None
    num = 0
    if centre == 1:
        a = assembly(num, nb, "001-001")
        place(core, a, 0, 0)
        a._children[0].p.power = p0
        allA.append(a)
        num += 1
    if inner > 0:
        a = assembly(num, nb, "002-001")
        place(core, a, INTERIOR[inner - 1][0], INTERIOR[inner - 1][1])
        a._children[0].p.power = p0 + 1.0
        allA.append(a)
        num += 1
    for k, present in enumerate([low1, low2]):
        if present == 1:
            a = assembly(num, nb, "003-012")
            place(core, a, LOWER[k][0], LOWER[k][1])
            a._children[0].p.power = [p1, p2][k]
            a._children[0].p.mgFlux = [fl, 2 * fl]
            a._children[nb - 1].p.temperature = 700.0 + k
            allA.append(a)
            lower.append(a)
            num += 1
    if up1 >= 1:
        upper = assembly(num, nb, "003-002")
        place(core, upper, -1, 2)
        upper._children[0].p.power = p2 + 2.0
        allA.append(upper)
        num += 1
    if up1 == 2:
        a = assembly(num, nb, "005-003")
        place(core, a, -2, 4)
        allA.append(a)
        num += 1
    assume(maxNum >= num)
    return core, r, pool, allA, lower, upper


def snapshot_of(core, allA):
    """what the property compares: the assemblies, in order, with their cells, names, block names and parameter values"""
    return [(a, a.spatialLocator.i, a.spatialLocator.j, a.name, [b.name for b in a._children], [b.p.power for b in a._children],
             [b.p.mgFlux[0] for b in a._children], [b.p.mgFlux[1] for b in a._children], [b.p.temperature for b in a._children], a.p.assemNum)
            for a in allA]


def unchanged_prefix(core, pool, snap):
    """the assemblies of the snapshot are the first children of the core, unchanged (others may follow)"""
    ok = len(core._children) >= len(snap)
    for k in range(len(snap)):
        a, i, j, name, bnames, pw, f0, f1, T, num = snap[k]
        ok = ok and core._children[k] is a and a.parent is core and a.spatialLocator.i == i and a.spatialLocator.j == j and a.spatialLocator.grid is core.spatialGrid
        ok = ok and a.name == name and a.p.assemNum == num and at(core, i, j) is a and core.assembliesByName.get(name) is a
        for q in range(len(bnames)):
            b = a._children[q]
            ok = ok and b.name == bnames[q] and core.blocksByName.get(bnames[q]) is b and b.parent is a
            ok = ok and eq(b.p.power, pw[q]) and eq(b.p.mgFlux[0], f0[q]) and eq(b.p.mgFlux[1], f1[q]) and eq(b.p.temperature, T[q])
    return ok


def unchanged(core, pool, snap):
    """the core holds exactly the assemblies of the snapshot, in order, at the same cells, with the same names and
    parameter values, and the location / name lookups resolve to them"""
    ok = len(core._children) == len(snap)
    for k in range(len(snap)):
        a, i, j, name, bnames, pw, f0, f1, T, num = snap[k]
        ok = ok and core._children[k] is a and a.parent is core and a.spatialLocator.i == i and a.spatialLocator.j == j and a.spatialLocator.grid is core.spatialGrid
        ok = ok and a.name == name and a.p.assemNum == num and at(core, i, j) is a and core.assembliesByName.get(name) is a
        ok = ok and len(a._children) == len(bnames)
        for q in range(len(bnames)):
            b = a._children[q]
            ok = ok and b.name == bnames[q] and core.blocksByName.get(bnames[q]) is b and b.parent is a
            ok = ok and eq(b.p.power, pw[q]) and eq(b.p.mgFlux[0], f0[q]) and eq(b.p.mgFlux[1], f1[q]) and eq(b.p.temperature, T[q])
    return ok




@lemma(gen=GEN, stubs=STUBS, overrides=OVERRIDES, timeout=200)
def adding_edge_assemblies_copies_every_lower_line_assembly_to_its_image_and_removing_them_is_the_inverse(
        centre: int, inner: int, low1: int, low2: int, up1: int, nb: int, f0: int, f1: int, maxNum: int, p0: float, p1: float, p2: float, fl: float, x: float):
    """third-core model of every enumerated shape.  addEdgeAssemblies: for each assembly on the 0-degree line whose
    image cell on the 120-degree line is free there is afterwards a NEW assembly at that cell - an independent copy
    (own parameter maps, own blocks with equal values; later changes do not show in the source), uniquely named after
    a fresh number, the blocks named after it; everything else is where and what it was; Inv holds; a second call adds
    nothing.  removeEdgeAssemblies afterwards: the core is back at the entry state - the same assemblies, in the same
    order, at the same places with the same names and parameter values and symmetry, lookups resolving as before,
    the copies gone for good (add-then-remove is the identity)."""
    centre = choose(centre, 0, 1)
    inner = choose(inner, 0, 2)
    low1 = choose(low1, 0, 1)
    low2 = choose(low2, 0, 1)
    up1 = choose(up1, 0, 1)
    nb = choose(nb, 1, 2)
    assume(centre + inner + low1 + low2 + up1 > 0)
    mk_defs(f0, f1)
    core, r, pool, allA, lower, upper = build("third periodic", centre, inner, low1, low2, up1, nb, maxNum, p0, p1, p2, fl)
    assert inv(core, pool), "the model satisfies Inv"
    snap = snapshot_of(core, allA)
    n = len(allA)
    ch = EdgeAssemblyChanger()
    ch.addEdgeAssemblies(core)
    # --- after adding
    assert inv(core, pool), "Inv: location and name lookups are truthful with the edge assemblies in place"
    assert str(core.symmetry) == "third periodic"
    expected = [a for a in lower if not (up1 == 1 and (a.spatialLocator.i, a.spatialLocator.j) == (2, -1))]
    assert len(core._children) == n + len(expected), "one new assembly per lower-line assembly with a free image cell, nothing else"
    for k in range(n):
        assert core._children[k] is allA[k], "the assemblies that were there stay, in order"
    added = list(core._children[n:])
    names = [a.name for a in allA]
    for q, a in enumerate(expected):
        im = rot120((a.spatialLocator.i, a.spatialLocator.j))
        cp = at(core, im[0], im[1])
        assert cp is added[q] and cp is not a, "its image on the 120-degree line holds a new assembly"
        assert (cp.spatialLocator.i, cp.spatialLocator.j) == im and cp.spatialLocator.grid is core.spatialGrid and cp.parent is core
        assert cp.p is not a.p and cp.spatialGrid is not a.spatialGrid and len(cp._children) == len(a._children), "an independent copy"
        assert cp.p.assemNum >= maxNum and cp.name == "A{0:04d}".format(cp.p.assemNum), "named after a fresh number (the reactor counter maxNum is above every number in use)"
        for nm in names:
            assert cp.name != nm, "no other assembly has its name"
        names.append(cp.name)
        for bi in range(len(a._children)):
            b, c = a._children[bi], cp._children[bi]
            assert c is not b and c.p is not b.p and c.p.mgFlux is not b.p.mgFlux and c.parent is cp and c.spatialLocator.grid is cp.spatialGrid
            assert eq(c.p.power, b.p.power) and eq(c.p.mgFlux[0], b.p.mgFlux[0]) and eq(c.p.mgFlux[1], b.p.mgFlux[1]) and eq(c.p.temperature, b.p.temperature), "same contents as its source"
            assert c.name == "B{0:04d}-{1:03d}".format(cp.p.assemNum, bi) and core.blocksByName[c.name] is c
        cp._children[0].p.mgFlux[0] = x
        cp._children[0].p.power = x
    assert unchanged_prefix(core, pool, snap), "the source assemblies are where and what they were"
    # a second call is refused: nothing more is added
    if len(expected) > 0:
        ch.addEdgeAssemblies(core)
        assert len(core._children) == n + len(expected)
    # --- and back
    ch.removeEdgeAssemblies(core)
    assert str(core.symmetry) == "third periodic", "symmetry as before"
    assert inv(core, pool), "Inv: lookups resolve as before"
    if up1 == 0:
        assert unchanged(core, pool, snap), "the same assemblies at the same places with the same names and parameters"
        for cp in added:
            assert cp.parent is None and cp.name not in core.assembliesByName and at(core, cp.spatialLocator.i, cp.spatialLocator.j) is None, "the copies are gone for good"
    assert len(ch._newAssembliesAdded) == 0


@lemma(gen=GEN, stubs=STUBS, overrides=OVERRIDES, timeout=200)
def a_full_core_is_left_alone(centre: int, inner: int, low1: int, up1: int, nb: int, f0: int, f1: int, maxNum: int, p0: float, p1: float, p2: float, fl: float):
    """full-core model (cells on what would be the symmetry lines are ordinary cells): addEdgeAssemblies and
    removeEdgeAssemblies change nothing - same assemblies, places, names, parameters, lookups, symmetry."""
    centre = choose(centre, 0, 1)
    inner = choose(inner, 0, 2)
    low1 = choose(low1, 0, 1)
    up1 = choose(up1, 0, 1)
    nb = choose(nb, 1, 2)
    assume(centre + inner + low1 + up1 > 0)
    core, r, pool, allA, lower, upper = build("full", centre, inner, low1, 0, up1, nb, maxNum, p0, p1, p2, fl)
    defs = mk_defs(f0, f1)  # after the core is built: building it assigns parameters
    snap = snapshot_of(core, allA)
    ch = EdgeAssemblyChanger()
    ch.addEdgeAssemblies(core)
    assert unchanged(core, pool, snap) and inv(core, pool) and str(core.symmetry) == "full" and len(ch._newAssembliesAdded) == 0, "nothing added to a full core"
    assert r.p.maxAssemNum == maxNum and defs[0].assigned == f0 and defs[1].assigned == f1, "no assembly number used up, no parameter definition flag touched"
    ch.removeEdgeAssemblies(core)
    assert unchanged(core, pool, snap) and inv(core, pool) and str(core.symmetry) == "full", "nothing removed from a full core"
    assert defs[0].assigned == f0 and defs[1].assigned == f1


@lemma(gen=GEN_UP2, stubs=STUBS, overrides=OVERRIDES, timeout=200)
def removing_edge_assemblies_takes_out_exactly_those_on_the_120_degree_line(centre: int, inner: int, low1: int, low2: int, up1: int, nb: int, f0: int, f1: int, maxNum: int,
                                                                            p0: float, p1: float, p2: float, fl: float):
    """a model that comes WITH edge assemblies (0..2 of them, at (-1, 2) and (-2, 4)), cleaned by a fresh changer:
    exactly the assemblies on the 120-degree line leave the core (no parent, no location or name entry, not in the
    pool), every other assembly is where and what it was, in order; Inv holds; the symmetry is unchanged."""
    centre = choose(centre, 0, 1)
    inner = choose(inner, 0, 2)
    low1 = choose(low1, 0, 1)
    low2 = choose(low2, 0, 1)
    up1 = choose(up1, 0, 2)
    nb = choose(nb, 1, 2)
    assume(centre + inner + low1 + low2 + up1 > 0)
    mk_defs(f0, f1)
    core, r, pool, allA, lower, upper = build("third periodic", centre, inner, low1, low2, up1, nb, maxNum, p0, p1, p2, fl)
    edge = [a for a in allA if a.spatialLocator.j == -2 * a.spatialLocator.i and a.spatialLocator.j > 0]
    rest = [a for a in allA if not (a.spatialLocator.j == -2 * a.spatialLocator.i and a.spatialLocator.j > 0)]
    assert len(edge) == up1
    cells = [(a.spatialLocator.i, a.spatialLocator.j) for a in edge]
    snap = snapshot_of(core, rest)
    EdgeAssemblyChanger().removeEdgeAssemblies(core)
    assert unchanged(core, pool, snap), "every assembly off the 120-degree line stays where and what it was"
    assert inv(core, pool) and str(core.symmetry) == "third periodic"
    for k in range(len(edge)):
        a = edge[k]
        assert a.parent is None and at(core, cells[k][0], cells[k][1]) is None and a.name not in core.assembliesByName and len(pool.kids) == 0, "the edge assemblies are gone"
        for b in a._children:
            assert b.name not in core.blocksByName


@lemma(gen=GEN, stubs=STUBS, overrides=OVERRIDES, timeout=200)
def add_remove_add_remove_round_trips_with_one_changer(centre: int, low1: int, low2: int, nb: int, f0: int, f1: int, maxNum: int, p0: float, p1: float, p2: float, fl: float):
    """the sequence add, remove, add, remove with ONE changer object on third cores with 1..2 lower-line assemblies:
    the second add is not skipped (the changer forgot its first copies), it places new, again uniquely named copies;
    after each remove the core is back at the entry state."""
    centre = choose(centre, 0, 1)
    low1 = choose(low1, 0, 1)
    low2 = choose(low2, 0, 1)
    nb = choose(nb, 1, 2)
    assume(low1 + low2 > 0)
    mk_defs(f0, f1)
    core, r, pool, allA, lower, upper = build("third periodic", centre, 0, low1, low2, 0, nb, maxNum, p0, p1, p2, fl)
    snap = snapshot_of(core, allA)
    n = len(allA)
    ch = EdgeAssemblyChanger()
    ch.addEdgeAssemblies(core)
    first = list(core._children[n:])
    assert len(first) == low1 + low2
    ch.removeEdgeAssemblies(core)
    assert unchanged(core, pool, snap) and inv(core, pool)
    ch.addEdgeAssemblies(core)
    second = list(core._children[n:])
    assert len(second) == low1 + low2 and inv(core, pool), "edge assemblies are added again"
    for k in range(len(second)):
        a = lower[k]
        im = rot120((a.spatialLocator.i, a.spatialLocator.j))
        assert at(core, im[0], im[1]) is second[k] and second[k] is not first[k] and second[k].p.assemNum > first[k].p.assemNum, "new copies with new numbers"
        assert eq(second[k]._children[0].p.power, a._children[0].p.power)
    ch.removeEdgeAssemblies(core)
    assert unchanged(core, pool, snap) and inv(core, pool) and str(core.symmetry) == "third periodic", "and the core is back at the entry state again"


@lemma(gen=dict(GEN, v=(1.0, 1e4)), stubs=STUBS, overrides=OVERRIDES, timeout=200)
def half_values_on_both_halves_scaled_then_edges_removed_give_back_the_whole_hexagon(centre: int, low2: int, nb: int, f0: int, f1: int, maxNum: int, p0: float, p1: float, p2: float,
                                                                                   fl: float, v: float):
    """the finite-difference workflow: add edge assemblies; the solve leaves HALF of every volume-integrated whole-hexagon
    value (power, multigroup flux) on each of the two half hexagons (the two are symmetric identicals); scaleParamsRelatedToSymmetry (REAL, on the real
    core; its block-level algebra is proved in contracts/C13_scaling.py); removeEdgeAssemblies.  Afterwards the core is at
    its entry state: same assemblies, places, names, and the entry (whole-hexagon) parameter values; parameters that
    are not volume-integrated (temperature) were never touched.  Stand-in: BlockStub.getVolume() = its `volume`."""
    centre = choose(centre, 0, 1)
    low2 = choose(low2, 0, 1)
    nb = choose(nb, 1, 2)
    assume(v > 0)
    mk_defs(f0, f1)
    core, r, pool, allA, lower, upper = build("third periodic", centre, 0, 1, low2, 0, nb, maxNum, p0, p1, p2, fl)
    for a in allA:
        for bi, b in enumerate(a._children):
            b.volume = v
            b.p.power = b.p.power + bi * p2  # every block has its own values
            b.p.mgFlux = [b.p.mgFlux[0] + bi * p0, b.p.mgFlux[1] + bi]
    snap = snapshot_of(core, allA)
    n = len(allA)
    ch = EdgeAssemblyChanger()
    ch.addEdgeAssemblies(core)
    copies = list(core._children[n:])
    assert len(copies) == len(lower)
    for q in range(len(lower)):
        for bi in range(nb):
            for b in (lower[q]._children[bi], copies[q]._children[bi]):
                b.p.power = b.p.power / 2
                b.p.mgFlux = [b.p.mgFlux[0] / 2, b.p.mgFlux[1] / 2]
    EdgeAssemblyChanger.scaleParamsRelatedToSymmetry(core)
    ch.removeEdgeAssemblies(core)
    assert unchanged(core, pool, snap), "the whole-hexagon values are back on the assemblies of the 0-degree line, everything else as at entry"
    assert inv(core, pool) and str(core.symmetry) == "third periodic"


@lemma(gen=GEN, stubs=STUBS, overrides=OVERRIDES, timeout=200)
def with_the_edge_assemblies_in_place_no_parameter_counts_as_assigned_since_the_transformation(
        centre: int, low1: int, low2: int, nb: int, maxNum: int, p0: float, p1: float, p2: float, fl: float, x: float):
    """addEdgeAssemblies ENDS the geometry transformation: placing the copies assigns parameters (numbers, names - the
    stand-in PMap marks every definition on each assignment, as the real setters do), yet on return no definition
    counts as assigned SINCE_LAST_GEOMETRY_TRANSFORMATION - so scaleParamsRelatedToSymmetry combines only what a
    solve assigns WHILE the edge assemblies are there, and values assigned earlier stay what they are.  A later
    assignment is seen again."""
    centre = choose(centre, 0, 1)
    low1 = choose(low1, 0, 1)
    low2 = choose(low2, 0, 1)
    nb = choose(nb, 1, 2)
    assume(low1 + low2 > 0)
    defs = mk_defs(SINCE_ANYTHING, SINCE_ANYTHING)
    core, r, pool, allA, lower, upper = build("third periodic", centre, 0, low1, low2, 0, nb, maxNum, p0, p1, p2, fl)
    n = len(allA)
    ch = EdgeAssemblyChanger()
    ch.addEdgeAssemblies(core)
    assert len(core._children) == n + len(lower), "the copies were placed"
    for d in defs:
        assert d.assigned & SINCE_LAST_GEOMETRY_TRANSFORMATION == 0, "nothing counts as assigned since the transformation"
    assert len(GCParameters.ALL_DEFINITIONS.since(SINCE_LAST_GEOMETRY_TRANSFORMATION).names) == 0
    core._children[n]._children[0].p.power = x
    assert defs[0].assigned & SINCE_LAST_GEOMETRY_TRANSFORMATION != 0, "an assignment made with the edges in place is seen"
