"""C09 - REFUTED ON THE UNCHANGED TREE (kept out of ./check): COMPXS headers the file structure allows but armi cannot
write.  Same real code as contracts/C09_compxs.py (no scattering data needed: one group, in-group band, dense stand-in).
Run:  cd /verif; python3-vt -m pyvc.run contracts/pending/C09_compxs_finding.py -v

  compxs_file_wide_chi_is_written           ICHI (fileWideChiFlag) = 1: _rw2DRecord passes the shape of the chi matrix to
        rwMatrix as ONE tuple argument; range(tuple) -> TypeError -> OSError on writing                  (known F115)
  compxs_delayed_families_are_written       NFAM (numDelayedFam) = 1: the same for the delayed chi matrix  (known F116)
  compxs_second_direction_multiplier_survives_a_rewrite   the group record holds PC, A1, B1, A2, B2, A3, B3; armi's field
        list names A1 twice (REGIONXS_POWER_CONVERT_DIRECTIONAL_DIFF = ..d1Multiplier, d1Additive, d1Multiplier..): reading
        a file whose A2 differs from A1 and writing it again puts A2 in the place of A1 - write(read(file)) != file
                                                                                                         (known F114)
"""
import struct

import numpy as np

from spec import *

CompxsIO = repo("armi.nuclearDataIO.cccc.compxs:_CompxsIO")
CompxsRegion = repo("armi.nuclearDataIO.cccc.compxs:CompxsRegion")
CompxsLibrary = repo("armi.nuclearDataIO.xsLibraries:CompxsLibrary")
BinaryRecordWriter = repo("armi.nuclearDataIO.cccc.cccc:BinaryRecordWriter")

if NATIVE:
    from scipy.sparse import csc_matrix as CscStandIn

    def csc(rows):
        return CscStandIn(np.array(rows))
else:
    class ColVec:
        def __init__(self, vals):
            self.vals = vals

        def __getitem__(self, s):
            return ColVec(self.vals[s.start:s.stop])

        def toarray(self):
            return np.array([[v] for v in self.vals])

    class Csc:
        """dense stand-in for scipy.sparse.csc_matrix (see contracts/C09_compxs.py)"""

        def __init__(self, rows):
            self.rows = rows

        def __getitem__(self, idx):
            return ColVec([r[idx[1]] for r in self.rows])

        def toarray(self):
            return np.array(self.rows)

        def eliminate_zeros(self):
            return None

    def CscStandIn(triple, shape=None):
        data, indices, indptr = triple
        rows = [[0.0 for c in range(shape[1])] for r in range(shape[0])]
        for c in range(shape[1]):
            for k in range(int(indptr[c]), int(indptr[c + 1])):
                rows[int(indices[k])][c] = rows[int(indices[k])][c] + data[k]
        return Csc(rows)

    def csc(rows):
        return Csc(rows)

OVERRIDES = {"armi.nuclearDataIO.cccc.compxs:csc_matrix": "CscStandIn"}
DIFF = ["powerConvMult", "d1Multiplier", "d1Additive", "d2Additive", "d3Multiplier", "d3Additive", "d2Multiplier"]  # the last one got its own entry with fix F114


def library(ichi, nfam, a):
    """one composition, one group, not fissionable; file-wide chi (ichi vectors) / nfam delayed families as announced"""
    lib = CompxsLibrary()
    m = lib.compxsMetadata
    vals = {"numComps": 1, "numGroups": 1, "fileWideChiFlag": ichi, "numFissComps": 0, "maxUpScatterGroups": 0, "maxDownScatterGroups": 0,
            "numDelayedFam": nfam, "maxScatteringOrder": 0, "reservedFlag1": 0, "reservedFlag2": 0}
    for key in vals:
        m[key] = vals[key]
    lib.neutronVelocity, lib.neutronEnergyUpperBounds = np.array([a]), np.array([a + 1.0])
    m["minimumNeutronEnergy"] = a
    m["compFamiliesWithPrecursors"] = np.array([0])
    m["fissionWattSeconds"], m["captureWattSeconds"] = np.array([a]), np.array([a])
    if ichi:
        m["fileWideChi"] = np.array([[1.0] * ichi])            # (groups, ICHI) as the reader would build it
    if nfam:
        m["delayedChi"] = np.array([[1.0]] * nfam)             # (families, groups)
        m["delayedDecayConstant"] = np.array([a] * nfam)
    reg = CompxsRegion(lib, 0)
    rm = reg.metadata
    rm["chiFlag"], rm["numUpScatterGroups"], rm["numDownScatterGroups"] = 0, [0], [0]
    for key in DIFF:
        rm[key] = [a]
    for name in ["absorption", "total", "removal", "transport", "n2n"]:
        reg.macros[name] = np.array([a])
    reg.macros.totalScatter = csc([[a]])
    return lib


def io(mode, st, lib):
    if "r" in mode:
        get = lambda number: CompxsRegion(lib, number)
    else:
        get = lambda number: lib[number]
    return new(CompxsIO, _fileName="COMPXS", _fileMode=mode, _stream=st, _lib=lib, _metadata=lib.compxsMetadata, _getRegion=get,
               _isReading="r" in mode)


@lemma(gen={"ichi": (0, 1), "a": (0.5, 4.0)}, overrides=OVERRIDES)
def compxs_file_wide_chi_is_written(ichi: int, a: float):
    """ICHI = 0..1: the composition independent record holds ICHI x groups chi values before the velocities.
    REFUTED for ICHI = 1 (OSError on writing)."""
    ichi = choose(ichi, 0, 1)
    st = memstream()
    io("wb", st, library(ichi, 0, a)).readWrite()
    (count,) = struct.unpack("i", st.written(3))
    assert count == 8 * (ichi + 3) + 4, "chi, velocity, upper bound, minimum energy; families per composition"


@lemma(gen={"nfam": (0, 1), "a": (0.5, 4.0)}, overrides=OVERRIDES)
def compxs_delayed_families_are_written(nfam: int, a: float):
    """NFAM = 0..1 delayed families: the composition independent record holds NFAM x groups delayed chi values and NFAM
    decay constants.  REFUTED for NFAM = 1 (OSError on writing)."""
    nfam = choose(nfam, 0, 1)
    st = memstream()
    io("wb", st, library(0, nfam, a)).readWrite()
    (count,) = struct.unpack("i", st.written(3))
    assert count == 8 * (3 + 2 * nfam) + 4


@lemma(gen={"a": (0.5, 4.0), "a1": (0.5, 2.0), "a2": (0.5, 2.0)}, overrides=OVERRIDES)
def compxs_second_direction_multiplier_survives_a_rewrite(a: float, a1: float, a2: float):
    """a COMPXS file (1 composition, 1 group) as another code writes it - built with the real BinaryRecordWriter, every
    record as armi writes it except that the group record carries directional multipliers A1, A2 of its own - is read
    and written again: same bytes.  REFUTED whenever A2 != A1 (the rewritten record has A2 in both places)."""
    lib = library(0, 0, a)
    st = memstream()
    io("wb", st, lib).readWrite()
    # the same file with the group record (record 4 of 5) rebuilt field by field: XA XTOT XREM XTR, XSCATJ, PC A1 B1 A2 B2 A3 B3, XN2N
    src = memstream()
    for r in range(5):
        if r != 3:
            for k in range(3):
                src.write(st.written(3 * r + k))
        else:
            with BinaryRecordWriter(src) as w:
                for v in [a, a, a, a, a, a, a1, a, a2, a, a, a, a]:
                    w.rwDouble(v)
    src.seek(0)
    back = CompxsLibrary()
    io("rb", src, back).readWrite()
    out = memstream()
    io("wb", out, back).readWrite()
    assert out.nwrites() == src.nwrites()
    for k in range(src.nwrites()):
        assert out.written(k) == src.written(k), "same bytes"
