from spec import *


class Box:
    pass


@lemma
def t1(n: int):
    l = [1, 2, 3]
    m = l
    m += (4, 5)
    assert l is m and l == [1, 2, 3, 4, 5]
    t = (1, 2)
    u = t
    u += (3,)
    assert t == (1, 2) and u == (1, 2, 3) and u is not t
    d = {"a": 1}
    e = d
    e |= {"b": 2}
    assert d is e and d == {"a": 1, "b": 2}
    d["a"] += n
    assert e["a"] == 1 + n
    x = n
    y = x
    y += 1
    assert x == n and y == n + 1
