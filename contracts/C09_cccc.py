"""C09 - CCCC record framing, primitive read/write pairs, record presence, banded storage.

struct / byte strings / the in-memory stream are the trusted model A4 (pyvc/bytesmodel.py); everything else is
the real armi code of nuclearDataIO/cccc.
"""
import struct

from spec import *

cccc = repo("armi.nuclearDataIO.cccc.cccc")
BinaryRecordWriter = repo("armi.nuclearDataIO.cccc.cccc:BinaryRecordWriter")
BinaryRecordReader = repo("armi.nuclearDataIO.cccc.cccc:BinaryRecordReader")
GeodstStream = repo("armi.nuclearDataIO.cccc.geodst:GeodstStream")


def payload_len(rec):
    return sum([len(d) for d in rec.data])


def open_writer(n0):
    """a writer record in an arbitrary reachable state: n0 payload bytes already buffered"""
    st = memstream()
    rec = BinaryRecordWriter(st)
    rec.open()
    if n0 > 0:
        rec.data.append(blob(n0))
        rec.numBytes += n0
    return st, rec


# ----------------------------------------------------------------------------- framing invariant, one lemma per field type
@lemma(gen={"n0": (0, 64), "v": (-1000, 1000)})
def writer_int_keeps_count(n0: int, v: int):
    assume(n0 >= 0)
    st, rec = open_writer(n0)
    assert rec.numBytes == payload_len(rec)
    assert rec.rwInt(v) == v
    assert rec.numBytes == payload_len(rec), "byte count equals the buffered payload length after rwInt"
    assert rec.numBytes == n0 + 4


@lemma(gen={"n0": (0, 64), "v": (-1000, 1000)})
def writer_long_keeps_count(n0: int, v: int):
    assume(n0 >= 0)
    st, rec = open_writer(n0)
    assert rec.rwLong(v) == v
    assert rec.numBytes == payload_len(rec), "byte count equals the buffered payload length after rwLong"
    assert rec.numBytes == n0 + 8


@lemma(gen={"n0": (0, 64)})
def writer_float_keeps_count(n0: int, x: float):
    assume(n0 >= 0)
    st, rec = open_writer(n0)
    rec.rwFloat(x)
    assert rec.numBytes == payload_len(rec), "byte count equals the buffered payload length after rwFloat"
    assert rec.numBytes == n0 + 4


@lemma(gen={"n0": (0, 64)})
def writer_double_keeps_count(n0: int, x: float):
    assume(n0 >= 0)
    st, rec = open_writer(n0)
    rec.rwDouble(x)
    assert rec.numBytes == payload_len(rec), "byte count equals the buffered payload length after rwDouble"
    assert rec.numBytes == n0 + 8


@lemma(gen={"n0": (0, 64)})
def writer_string_and_bool_keep_count(n0: int, b: bool):
    assume(n0 >= 0)
    st, rec = open_writer(n0)
    rec.rwString("ISOTXS", 8)
    assert rec.numBytes == payload_len(rec), "byte count equals the buffered payload length after rwString"
    assert rec.numBytes == n0 + 8
    rec.rwBool(b)
    assert rec.numBytes == payload_len(rec), "byte count equals the buffered payload length after rwBool"
    assert rec.numBytes == n0 + 12


@lemma(gen={"n0": (0, 64)})
def writer_list_and_map_keep_count(n0: int, a: int, b: int, x: float, y: float):
    assume(n0 >= 0)
    st, rec = open_writer(n0)
    rec.rwList([a, b, a], "int", 3)
    rec.rwList([x, y], "float", 2)
    rec.rwList([x, y], "double", 2)
    rec.rwList(["AB", "CD"], "string", 2, 6)
    assert rec.numBytes == payload_len(rec), "byte count equals the buffered payload length after rwList"
    assert rec.numBytes == n0 + 12 + 8 + 16 + 12
    m = rec.rwImplicitlyTypedMap(["NGROUP", "XKEFF", "ICHIST"], {"NGROUP": a, "XKEFF": x, "ICHIST": b})
    assert rec.numBytes == payload_len(rec), "byte count equals the buffered payload length after rwImplicitlyTypedMap"
    assert rec.numBytes == n0 + 48 + 12


@lemma(gen={"n0": (0, 64), "a": (-99, 99), "b": (-99, 99)})
def binary_record_is_framed_by_its_payload_length(n0: int, a: int, b: int, x: float):
    """close(): leading count, payload, identical trailing count - for a record mixing every field type"""
    assume(n0 >= 0)
    st, rec = open_writer(n0)
    rec.rwInt(a)
    rec.rwLong(b)
    rec.rwFloat(x)
    rec.rwDouble(x)
    rec.rwString("LABEL", 8)
    rec.rwBool(True)
    rec.close()
    k = st.nwrites()
    assert k >= 3
    head = st.written(0)
    tail = st.written(k - 1)
    body = sum([len(st.written(m)) for m in range(1, k - 1)])
    assert len(head) == 4 and len(tail) == 4
    (hn,) = struct.unpack("i", head)
    (tn,) = struct.unpack("i", tail)
    assert hn == tn, "leading and trailing byte counts are identical"
    assert hn == body, "the byte count equals the payload length"
    assert body == n0 + 4 + 8 + 4 + 8 + 8 + 4


# ----------------------------------------------------------------------------- primitive pairs are inverse; reader checks the frame
@lemma(gen={"a": (-2000000000, 2000000000), "b": (-9000000000, 9000000000), "x": [0.5, -1.25, 3.0, 1024.0, 0.0], "y": (-10.0, 10.0)})
def binary_primitives_read_back(a: int, b: int, x: float, y: float, flag: bool):
    assume(-2147483648 <= a and a <= 2147483647)
    assume(-9223372036854775808 <= b and b <= 9223372036854775807)
    st = memstream()
    with BinaryRecordWriter(st) as w:
        w.rwInt(a)
        w.rwLong(b)
        w.rwFloat(x)
        w.rwDouble(y)
        w.rwString("GEODST", 12)
        w.rwBool(flag)
        w.rwList([a, 7], "int", 2)
    st.seek(0)
    with BinaryRecordReader(st) as r:
        assert r.rwInt(None) == a
        assert r.rwLong(None) == b
        assert eq(r.rwFloat(None), x)
        assert eq(r.rwDouble(None), y)
        assert r.rwString(None, 12) == "GEODST"
        assert r.rwBool(None) == flag
        lst = r.rwList(None, "int", 2)
        assert lst[0] == a and lst[1] == 7
    # the reader consumed the whole record and accepted the frame (no BufferError)


@lemma(gen={"a": (-99, 99)})
def reader_rejects_a_record_that_was_not_fully_read(a: int, b: int):
    assume(-1000 <= a and a <= 1000 and -1000 <= b and b <= 1000)
    st = memstream()
    with BinaryRecordWriter(st) as w:
        w.rwInt(a)
        w.rwInt(b)
    st.seek(0)
    try:
        with BinaryRecordReader(st) as r:
            r.rwInt(None)
        ok = True
    except BufferError:
        ok = False
    # after one of two ints the "trailer" the reader sees is the second int: accepted only if it equals the count
    assert ok == (b == 8)


# ----------------------------------------------------------------------------- banded storage
@lemma(gen={"nintj": (1, 400), "nblok": (1, 12), "m": (1, 12)})
def block_bands_partition_the_interval(m: int, nintj: int, nblok: int):
    assume(nintj >= 1 and nblok >= 1)
    assume(1 <= m and m <= nblok)
    lo, hi = cccc.getBlockBandwidth(m, nintj, nblok)
    assert lo >= 0
    assert hi <= nintj - 1
    if m == 1:
        assert lo == 0, "first band starts at 0"
    if m < nblok:
        lo2, hi2 = cccc.getBlockBandwidth(m + 1, nintj, nblok)
        if lo2 <= hi2:
            assert lo2 == hi + 1, "bands are contiguous and disjoint"
        else:
            assert hi == nintj - 1, "an empty band only after the interval is exhausted"
    if m == nblok:
        assert hi == nintj - 1, "the last band ends at the last index"


# ----------------------------------------------------------------------------- record presence (GEODST)
class GeodstProbe(GeodstStream):
    """The real GeodstStream.readWrite with the record bodies replaced by a trace."""

    def _rwFileID(self):
        self.trace.append("ID")

    def _rw1DRecord(self):
        self.trace.append("1D")

    def _rw2DRecord(self):
        self.trace.append("2D")

    def _rw3DRecord(self):
        self.trace.append("3D")

    def _rw4DRecord(self):
        self.trace.append("4D")

    def _rw5DRecord(self):
        self.trace.append("5D")

    def _rw6DRecord(self):
        self.trace.append("6D")

    def _rw7DRecord(self):
        self.trace.append("7D")


@lemma(gen={"igom": (0, 20), "nbs": (0, 3), "nrass": (0, 2)})
def geodst_records_follow_the_header(igom: int, nbs: int, nrass: int):
    """GEODST file specification: 2D record iff 1<=IGOM<=3, 3D iff 6<=IGOM<=11, 4D iff IGOM>=12,
    5D iff IGOM>0 or NBS>0, 6D iff IGOM>0 and NRASS==0, 7D iff IGOM>0 and NRASS==1; always ID then 1D first."""
    assume(igom >= 0 and nbs >= 0 and nrass >= 0)
    s = new(GeodstProbe, _metadata={"IGOM": igom, "NBS": nbs, "NRASS": nrass}, trace=[])
    s.readWrite()
    t = s.trace
    assert t[0] == "ID" and t[1] == "1D"
    assert ("2D" in t) == (1 <= igom and igom <= 3), "1-D mesh record present iff IGOM in 1..3"
    assert ("3D" in t) == (6 <= igom and igom <= 11)
    assert ("4D" in t) == (igom >= 12)
    assert ("5D" in t) == (igom > 0 or nbs > 0)
    assert ("6D" in t) == (igom > 0 and nrass == 0)
    assert ("7D" in t) == (igom > 0 and nrass == 1)
