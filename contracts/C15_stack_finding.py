"""C15 - FINDINGS (refuted on the unchanged tree; not picked up by ./check).  Helpers copied from ../C15_stack.py.

1. deferred interfaces are called at EveryNode / EOC / EOL before deferredInterfacesCycle (known finding F169-F172):
   getActiveInterfaces applies cs['deferredInterfaceNames'] only at BOL and BOC.
2. tightCouplingMaxNumIters = 0 with tightCoupling on: _performTightCoupling raises UnboundLocalError ('converged')
   instead of doing zero iterations and writing the node.
"""
from spec import *

Operator = repo("armi.operators.operator:Operator")
Interface = repo("armi.interfaces:Interface")

NAMES = ("a", "b", "c")


class PMap:
    pass


class Holder:
    pass


class TimerCtx:
    def __enter__(self):
        return self

    def __exit__(self, *a):
        return False


class Timer:
    """stand-in for armi.utils.codeTiming master timer: a context manager per message, no effect"""

    def getTimer(self, msg):
        return TimerCtx()


class Rec(Interface):
    """recording interface: real Interface flags (enabled()/bolForce()/reverseAtEOL), hooks record (hook, name, args)"""

    def interactBOL(self):
        self.trace.append(("BOL", self.name))

    def interactBOC(self, cycle=None):
        self.trace.append(("BOC", self.name, cycle))
        return self.halts

    def interactEveryNode(self, cycle, node):
        self.trace.append(("EveryNode", self.name, cycle, node))

    def interactEOC(self, cycle=None):
        self.trace.append(("EOC", self.name, cycle))

    def interactEOL(self):
        self.trace.append(("EOL", self.name))

    def interactCoupled(self, iteration):
        self.trace.append(("Coupled", self.name, iteration))


def subset(mask):
    return tuple(NAMES[k] for k in range(3) if (mask // (2 ** k)) % 2 == 1)


def stack(trace, en, bf, rev, halts=(False, False, False)):
    return [new(Rec, name=NAMES[k], _enabled=en[k], _bolForce=bf[k], reverseAtEOL=rev[k], trace=trace, halts=halts[k],
                coupler=None) for k in range(3)]


def operator(ifaces, deferred=(), deferredCycle=0):
    r = new(Holder, p=new(PMap, cycle=0, timeNode=0, time=0.0), core=new(Holder, p=new(PMap, coupledIteration=0)))
    cs = {"verbosity": "info", "debugMem": False, "debugDB": False, "deferredInterfaceNames": list(deferred),
          "deferredInterfacesCycle": deferredCycle}
    return new(Operator, interfaces=ifaces, cs=cs, r=r, timer=new(Timer))


def wanted(hook, en, bf, rev, excluded, args):
    """the property text: enabled (or forced at BOL), not excluded / deferred, stack order, reverse-flagged last reversed"""
    act = [k for k in range(3) if (en[k] or (hook == "BOL" and bf[k])) and NAMES[k] not in excluded]
    if hook == "EOL":
        act = [k for k in act if not rev[k]] + [k for k in act if rev[k]][::-1]
    return [(hook, NAMES[k]) + tuple(args) for k in act]




# ----------------------------------------------------------------------------- tight coupling
class Coupler:
    """stand-in for interfaces.TightCoupler: whether interface k has converged after iteration n is an ARBITRARY
    boolean pat[n] (symbolic list); counts store/isConverged calls"""

    parameter = "power"
    eps = 0.0

    def storePreviousIterationValue(self, val):
        self.stored = self.stored + 1

    def isConverged(self, val):
        r = self.pat[self.asked]
        self.asked = self.asked + 1
        return r


class CRec(Rec):
    def getTightCouplingValue(self):
        return 1.0


class DbRec(Rec):
    """stand-in for the database interface (its name is what _performTightCoupling looks up)"""

    def writeDBEveryNode(self):
        self.trace.append(("DBWRITE",))


def no_report(summary):
    """contract of reportingUtils.writeTightCouplingConvergenceSummary: logging only"""
    return None


def coupled_operator(trace, pats, en, cap, skip):
    ifs = [new(CRec, name=NAMES[k], _enabled=en[k], _bolForce=False, reverseAtEOL=False, trace=trace, halts=False,
               coupler=(None if pats[k] is None else new(Coupler, pat=pats[k], asked=0, stored=0))) for k in range(3)]
    ifs.append(new(DbRec, name="database", _enabled=True, _bolForce=False, reverseAtEOL=False, trace=trace, halts=False, coupler=None))
    o = operator(ifs)
    o.cs["tightCoupling"] = True
    o.cs["tightCouplingMaxNumIters"] = cap
    o.cs["cyclesSkipTightCouplingInteraction"] = skip
    return o




@lemma(gen={"dmask": (1, 7), "dcycle": (1, 5), "cycle": (0, 5), "node": (0, 3)})
def every_node_skips_interfaces_deferred_until_a_later_cycle(e0: bool, e1: bool, e2: bool, dmask: int, dcycle: int, cycle: int, node: int):
    dmask = choose(dmask, 0, 7)
    en, bf, rev = (e0, e1, e2), (False, False, False), (False, False, False)
    assume(cycle < dcycle)
    trace = []
    o = operator(stack(trace, en, bf, rev), subset(dmask), dcycle)
    o.r.p.cycle = cycle
    o.interactAllEveryNode(cycle, node)
    assert trace == wanted("EveryNode", en, bf, rev, subset(dmask), (cycle, node)), "not excluded OR DEFERRED"




@lemma(gen={"k": (0, 1), "cycle": (0, 3), "node": (0, 3)},
       stubs={"armi.bookkeeping.report.reportingUtils:writeTightCouplingConvergenceSummary": "no_report"})
def a_cap_of_zero_iterations_runs_none_and_still_writes_the_node(k: int, cycle: int, node: int):
    """'all tight-coupling settings': tightCouplingMaxNumIters has no lower bound in the settings schema.  With a cap <= 0
    the property text leaves exactly one behaviour - the cap is reached at once: no Coupled call, the node is written.
    (contracts/C15_stack.py assumes cap >= 1.)  The code reads `converged` after a loop that never ran: UnboundLocalError
    at the first time node.  The design round saw this (candidate F7) and dropped it as outside the statement.
    Symbolically this lemma is UNDECIDED on the unrepaired tree (the engine reports a read of an unbound local as
    Unsupported, not as UnboundLocalError); the native replay fails with the UnboundLocalError; with `converged = False`
    before the loop it is discharged."""
    cap = [0, -1][choose(k, 0, 1)]
    pa = sym_list("bool", "pa", maxlen=3)
    trace = []
    o = coupled_operator(trace, (pa, None, None), (True, True, True), cap, [])
    o._performTightCoupling(cycle, node)
    assert trace == [("DBWRITE",)], "no iteration, the node is still written"
