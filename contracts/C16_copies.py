"""C16 - deep copies and pickles of parameter collections: equal values, independent storage, fresh serial numbers.

Executed symbolically (real code): ParameterCollection.__init__ (with and without a state) / __deepcopy__ / __reduce__ /
__getstate__ / __setstate__ / __setattr__ / __getitem__ / __setitem__ / __iter__ / items / paramDefs, the module counter
GLOBAL_SERIAL_NUM (a `global` statement), Parameter.__init__ / setter closure / __get__ / __set__,
ParameterDefinitionCollection.__init__ / add / lock / __iter__ / __getitem__, ArmiObject.getParameterCollection /
copyParamsFrom / copyParamsToChildren / __getstate__ / __setstate__, Composite.__iter__.

Stand-ins / hypotheses: `PCS` is a harness subclass of the real ParameterCollection whose class attributes (pDefs, _allFields,
_slots, one descriptor per parameter, _ArmiObject) are set to what ParameterCollection.applyParameters and the composite
metaclass build (class invariant as hypothesis; applyParameters needs __bases__ and is not executed - the constructor
skips it because the definitions are locked).  `Owner` is the composite class the collection belongs to
(paramCollectionType = PCS).  The parameter kinds are the ones the property names: scalar (power), list (mgFlux), dict
(numberDensities), array (detail), None (note), plus the history dict `_hist`.

Serial numbers, inductively: INV = "every live collection has serialNum <= GLOBAL_SERIAL_NUM and no two live collections
share one".  The lemmas start from an arbitrary counter value g0 and arbitrary live collections satisfying INV and show
that construction and deep copy hand out a number > g0 (hence different from EVERY existing one) and re-establish
serialNum <= GLOBAL_SERIAL_NUM.  (The pickle route and copyParamsFrom do not: contracts/pending/C16_copies_finding.py.)

Trusted: copy.deepcopy of containers / arrays / plain objects (engine model A6: a class's own __deepcopy__ is executed,
the memo is shared); pickle of plain data (engine model); what pickle does with a __reduce__ value (callable(*args), then
__setstate__(state)) is spelt out in the lemma and compared with the real pickle module natively.
"""
import copy
import pickle

import numpy as np

from spec import *

ParameterCollection = repo("armi.reactor.parameters.parameterCollections:ParameterCollection")
Parameter = repo("armi.reactor.parameters.parameterDefinitions:Parameter")
PDC = repo("armi.reactor.parameters.parameterDefinitions:ParameterDefinitionCollection")
NoDefault = repo("armi.reactor.parameters.parameterDefinitions:NoDefault")
NEVER = repo("armi.reactor.parameters.parameterDefinitions:NEVER")
SINCE_ANYTHING = repo("armi.reactor.parameters.parameterDefinitions:SINCE_ANYTHING")
Composite = repo("armi.reactor.composites:Composite")
pcmod = repo("armi.reactor.parameters.parameterCollections")


class PCS(ParameterCollection):
    """the parameter collection class of the stand-in composite (class attributes set up by mk_class)"""


class Owner(Composite):
    """the composite class the collection belongs to (mk_class sets paramCollectionType = PCS, as the composite metaclass does)"""


NAMES = ("serialNum", "power", "mgFlux", "numberDensities", "detail", "note")
DEFAULTS = {"serialNum": NoDefault, "power": 0.0, "mgFlux": None, "numberDensities": None, "detail": None, "note": None}


def mk_class():
    """what ParameterCollection.applyParameters establishes for a class with the six definitions (REAL Parameter / PDC code)"""
    pdc = PDC()
    defs = []
    for nm in NAMES:
        pd = Parameter(nm, "", "a parameter of the stand-in class", None, True, DEFAULTS[nm], NoDefault, set())
        pd.collectionType = PCS
        pdc.add(pd)
        setattr(PCS, nm, pd)  # the descriptor binding applyParameters makes
        defs.append(pd)
    pdc.lock()
    PCS.pDefs = pdc
    PCS._allFields = sorted(["_backup", "_hist", "assigned"] + [pd.fieldName for pd in defs])
    PCS._slots = set(PCS._allFields) | set(NAMES) | {"readOnly"}
    PCS._ArmiObject = Owner
    Owner.paramCollectionType = PCS
    return defs


def mk_coll(serial, a, pw, flux, dens, detail, note):
    return new(PCS, _backup=None, _hist={}, assigned=a, readOnly=False, _p_serialNum=serial, _p_power=pw, _p_mgFlux=flux,
               _p_numberDensities=dens, _p_detail=detail, _p_note=note)


def mk_node(cls, name, pc):
    return new(cls, name=name, parent=None, cached={}, _backupCache=None, p=pc, _lumpedFissionProducts=None, spatialGrid=None,
               spatialLocator=None, _children=[])


GEN = {"g0": (0, 1000), "s0": (0, 1000), "s1": (0, 1000), "a0": (0, 63)}


@lemma(gen=GEN)
def deep_copy_of_a_collection_is_equal_independent_and_freshly_numbered(g0: int, s0: int, s1: int, a0: int, pw: float, f0: float, f1: float, n: float, d0: float, d1: float,
                                                                        hk: float, x: float, viaModule: bool, noteIsNone: bool):
    """ParameterCollection.__deepcopy__ (called as a method and through copy.deepcopy) on a collection holding every kind
    of value: the copy has equal values, none of its mutable values is the original's object, in-place changes and
    assignments on either side do not show on the other, its serial number is larger than the counter was (so
    different from the number of every live collection) and the counter has moved on to it."""
    assume(s0 <= g0 and s1 <= g0 and s0 != s1)
    defs = mk_class()
    pcmod.GLOBAL_SERIAL_NUM = g0
    pc = mk_coll(s0, a0, pw, [f0, f1], {"U235": n}, np.array([d0, d1]), None if noteIsNone else [1.5])
    pc._hist[("power", 3)] = hk
    other = mk_coll(s1, 0, 0.0, None, None, None, None)  # any other live collection
    c = copy.deepcopy(pc) if viaModule else pc.__deepcopy__({})
    assert not same(c, pc) and isinstance(c, PCS), "a new collection of the same class"
    # equal values
    assert c.power == pw and len(c.mgFlux) == 2 and c.mgFlux[0] == f0 and c.mgFlux[1] == f1, "scalar and list values equal"
    assert len(c.numberDensities) == 1 and c.numberDensities["U235"] == n, "dict value equal"
    assert c.detail.shape == (2,) and c.detail[0] == d0 and c.detail[1] == d1, "array value equal"
    assert (c.note is None) if noteIsNone else (len(c.note) == 1 and c.note[0] == 1.5), "None stays None"
    assert len(c._hist) == 1 and c._hist[("power", 3)] == hk, "history values equal"
    # fresh serial number
    assert c.serialNum > g0, "larger than every number handed out before"
    assert c.serialNum != pc.serialNum and c.serialNum != other.serialNum, "not the number of any live collection"
    assert pcmod.GLOBAL_SERIAL_NUM == c.serialNum, "the counter covers the new number: INV holds again"
    assert pc.serialNum == s0 and other.serialNum == s1
    # independent storage
    assert not same(c.mgFlux, pc.mgFlux) and not same(c.numberDensities, pc.numberDensities) and not same(c.detail, pc.detail) and not same(c._hist, pc._hist)
    c.mgFlux[0] = x
    c.detail[1] = x
    c.numberDensities["PU239"] = x
    c._hist[("power", 4)] = x
    defs[1].__set__(c, x)  # an assignment through the real setter
    assert pc.power == pw and pc.mgFlux[0] == f0 and pc.detail[1] == d1 and len(pc.numberDensities) == 1 and len(pc._hist) == 1, "changes of the copy do not show in the original"
    pc.mgFlux[1] = x + 1
    pc.numberDensities["U235"] = x + 1
    pc.detail[0] = x + 1
    defs[1].__set__(pc, x + 1)
    assert c.power == x and c.mgFlux[1] == f1 and c.numberDensities["U235"] == n and c.detail[0] == d0, "changes of the original do not show in the copy"
    if not noteIsNone:
        assert not same(c.note, pc.note)


@lemma(gen=GEN)
def constructor_hands_out_fresh_serial_numbers_and_defaults(g0: int, s0: int):
    """ParameterCollection.__init__ without a state (what every ArmiObject constructor runs): every parameter has its
    default, the serial number is the successor of the counter; two constructions in a row get different numbers."""
    assume(s0 <= g0)
    mk_class()
    pcmod.GLOBAL_SERIAL_NUM = g0
    live = mk_coll(s0, 0, 0.0, None, None, None, None)
    a = PCS()
    b = Owner.getParameterCollection()  # the route pickle takes to a new instance
    assert a.serialNum > g0 and b.serialNum > a.serialNum, "each larger than every number handed out before it"
    assert a.serialNum != live.serialNum and b.serialNum != live.serialNum and a.serialNum != b.serialNum
    assert pcmod.GLOBAL_SERIAL_NUM == b.serialNum, "INV: the counter covers every number handed out"
    assert isinstance(b, PCS)
    assert a.power == 0.0 and a.mgFlux is None and a.numberDensities is None and a.note is None, "defaults"
    assert a._backup is None and len(a._hist) == 0 and a.readOnly == False


def unpickle(pc):
    """what pickle.loads(pickle.dumps(pc)) does with pc.__reduce__() = (callable, args, state): the state is pickled as
    plain data, the object is rebuilt by callable(*args) and given the unpickled state"""
    fn, args, state = pc.__reduce__()
    blob = pickle.dumps(state)
    clone = fn(*args)
    clone.__setstate__(pickle.loads(blob))
    return clone


@lemma(gen=GEN)
def unpickled_collection_is_equal_and_independent(g0: int, s0: int, a0: int, pw: float, f0: float, f1: float, n: float, d0: float, d1: float, hk: float, x: float):
    """the pickle protocol of a collection (__reduce__ -> Owner.getParameterCollection() -> __setstate__): equal values
    of every kind, no shared storage.  (Its serial number: contracts/pending/C16_copies_finding.py.)"""
    assume(s0 <= g0)
    defs = mk_class()
    pcmod.GLOBAL_SERIAL_NUM = g0
    pc = mk_coll(s0, a0, pw, [f0, f1], {"U235": n}, np.array([d0, d1]), None)
    pc._hist[("power", 3)] = hk
    c = unpickle(pc)
    assert not same(c, pc) and isinstance(c, PCS)
    assert c.power == pw and len(c.mgFlux) == 2 and c.mgFlux[0] == f0 and c.mgFlux[1] == f1
    assert len(c.numberDensities) == 1 and c.numberDensities["U235"] == n
    assert c.detail[0] == d0 and c.detail[1] == d1 and c.note is None
    assert len(c._hist) == 1 and c._hist[("power", 3)] == hk
    assert c.assigned == a0, "the synchronisation flags travel with the pickle"
    assert pcmod.GLOBAL_SERIAL_NUM >= c.serialNum and pcmod.GLOBAL_SERIAL_NUM >= g0, "the counter still covers every live number"
    if NATIVE:
        r = pickle.loads(pickle.dumps(pc))  # the real pickle module agrees with the spelt-out protocol
        assert type(r) is type(c) and r.power == c.power and r.mgFlux == c.mgFlux and r.numberDensities == c.numberDensities and r.serialNum == c.serialNum
    c.mgFlux[0] = x
    c.detail[1] = x
    c.numberDensities["PU239"] = x
    defs[1].__set__(c, x)
    assert pc.power == pw and pc.mgFlux[0] == f0 and pc.detail[1] == d1 and len(pc.numberDensities) == 1, "changes of the clone do not show in the original"
    pc.mgFlux[1] = x + 1
    pc.numberDensities["U235"] = x + 1
    defs[1].__set__(pc, x + 1)
    assert c.power == x and c.mgFlux[1] == f1 and c.numberDensities["U235"] == n, "and the other way round"
