"""C16 - deep copies and pickles of parameter collections: equal values, independent storage, fresh serial numbers.

Executed symbolically (real code): ParameterCollection.__init__ (with and without a state) / __deepcopy__ / __reduce__ /
__getstate__ / __setstate__ / __setattr__ / __getitem__ / __setitem__ / __iter__ / items / paramDefs, the module counter
GLOBAL_SERIAL_NUM (a `global` statement), Parameter.__init__ / setter closure / __get__ / __set__,
ParameterDefinitionCollection.__init__ / add / lock / __iter__ / __getitem__, ArmiObject.getParameterCollection /
copyParamsFrom / copyParamsToChildren / __getstate__ / __setstate__, Composite.__iter__.

Stand-ins / hypotheses: `PCS` is a harness subclass of the real ParameterCollection whose class attributes (pDefs, _allFields,
_slots, one descriptor per parameter, _ArmiObject) are set to what ParameterCollection.applyParameters and the composite
metaclass build (class invariant as hypothesis; applyParameters needs __bases__ and is not executed - the constructor
skips it because the definitions are locked).  `Owner` is the composite class the collection belongs to
(paramCollectionType = PCS).  The parameter kinds are the ones the property names: scalar (power), list (mgFlux), dict
(numberDensities), array (detail), None (note), plus the history dict `_hist`.

Serial numbers, inductively: INV = "every live collection has serialNum <= GLOBAL_SERIAL_NUM and no two live collections
share one".  The lemmas start from an arbitrary counter value g0 and arbitrary live collections satisfying INV and show
that construction and deep copy hand out a number > g0 (hence different from EVERY existing one) and re-establish
serialNum <= GLOBAL_SERIAL_NUM.  (The pickle route and copyParamsFrom do not: contracts/pending/C16_copies_finding.py.)

Trusted: copy.deepcopy of containers / arrays / plain objects (engine model A6: a class's own __deepcopy__ is executed,
the memo is shared); pickle (engine model A6: plain data; object graphs by the reduce protocol - __reduce__ / __getstate__
at dumps, callable(*args) / cls.__new__, memo, then __setstate__ at loads); what pickle does with a __reduce__ value is ALSO
spelt out in one lemma (both routes are proved) and everything is compared with the real pickle module natively.
"""
import copy
import pickle

import numpy as np

from spec import *

ParameterCollection = repo("armi.reactor.parameters.parameterCollections:ParameterCollection")
Parameter = repo("armi.reactor.parameters.parameterDefinitions:Parameter")
PDC = repo("armi.reactor.parameters.parameterDefinitions:ParameterDefinitionCollection")
NoDefault = repo("armi.reactor.parameters.parameterDefinitions:NoDefault")
NEVER = repo("armi.reactor.parameters.parameterDefinitions:NEVER")
SINCE_ANYTHING = repo("armi.reactor.parameters.parameterDefinitions:SINCE_ANYTHING")
Composite = repo("armi.reactor.composites:Composite")
pcmod = repo("armi.reactor.parameters.parameterCollections")


class PCS(ParameterCollection):
    """the parameter collection class of the stand-in composite (class attributes set up by mk_class)"""


class Owner(Composite):
    """the composite class the collection belongs to (mk_class sets paramCollectionType = PCS, as the composite metaclass does)"""


NAMES = ("serialNum", "power", "mgFlux", "numberDensities", "detail", "note")
DEFAULTS = {"serialNum": NoDefault, "power": 0.0, "mgFlux": None, "numberDensities": None, "detail": None, "note": None}


def mk_class():
    """what ParameterCollection.applyParameters establishes for a class with the six definitions (REAL Parameter / PDC code)"""
    pdc = PDC()
    defs = []
    for nm in NAMES:
        pd = Parameter(nm, "", "a parameter of the stand-in class", None, True, DEFAULTS[nm], NoDefault, set())
        pd.collectionType = PCS
        pdc.add(pd)
        setattr(PCS, nm, pd)  # the descriptor binding applyParameters makes
        defs.append(pd)
    pdc.lock()
    PCS.pDefs = pdc
    PCS._allFields = sorted(["_backup", "_hist", "assigned"] + [pd.fieldName for pd in defs])
    PCS._slots = set(PCS._allFields) | set(NAMES) | {"readOnly"}
    PCS._ArmiObject = Owner
    Owner.paramCollectionType = PCS
    return defs


def mk_coll(serial, a, pw, flux, dens, detail, note):
    return new(PCS, _backup=None, _hist={}, assigned=a, readOnly=False, _p_serialNum=serial, _p_power=pw, _p_mgFlux=flux,
               _p_numberDensities=dens, _p_detail=detail, _p_note=note)


def mk_node(cls, name, pc):
    return new(cls, name=name, parent=None, cached={}, _backupCache=None, p=pc, _lumpedFissionProducts=None, spatialGrid=None,
               spatialLocator=None, _children=[])


GEN = {"g0": (0, 1000), "s0": (0, 1000), "s1": (0, 1000), "a0": (0, 63)}


@lemma(gen=GEN)
def deep_copy_of_a_collection_is_equal_independent_and_freshly_numbered(g0: int, s0: int, s1: int, a0: int, pw: float, f0: float, f1: float, n: float, d0: float, d1: float,
                                                                        hk: float, x: float, viaModule: bool, noteIsNone: bool):
    """ParameterCollection.__deepcopy__ (called as a method and through copy.deepcopy) on a collection holding every kind
    of value: the copy has equal values, none of its mutable values is the original's object, in-place changes and
    assignments on either side do not show on the other, its serial number is larger than the counter was (so
    different from the number of every live collection) and the counter has moved on to it."""
    assume(s0 <= g0 and s1 <= g0 and s0 != s1)
    defs = mk_class()
    pcmod.GLOBAL_SERIAL_NUM = g0
    pc = mk_coll(s0, a0, pw, [f0, f1], {"U235": n}, np.array([d0, d1]), None if noteIsNone else [1.5])
    pc._hist[("power", 3)] = hk
    other = mk_coll(s1, 0, 0.0, None, None, None, None)  # any other live collection
    c = copy.deepcopy(pc) if viaModule else pc.__deepcopy__({})
    assert not same(c, pc) and isinstance(c, PCS), "a new collection of the same class"
    # equal values
    assert c.power == pw and len(c.mgFlux) == 2 and c.mgFlux[0] == f0 and c.mgFlux[1] == f1, "scalar and list values equal"
    assert len(c.numberDensities) == 1 and c.numberDensities["U235"] == n, "dict value equal"
    assert c.detail.shape == (2,) and c.detail[0] == d0 and c.detail[1] == d1, "array value equal"
    assert (c.note is None) if noteIsNone else (len(c.note) == 1 and c.note[0] == 1.5), "None stays None"
    assert len(c._hist) == 1 and c._hist[("power", 3)] == hk, "history values equal"
    # fresh serial number
    assert c.serialNum > g0, "larger than every number handed out before"
    assert c.serialNum != pc.serialNum and c.serialNum != other.serialNum, "not the number of any live collection"
    assert pcmod.GLOBAL_SERIAL_NUM == c.serialNum, "the counter covers the new number: INV holds again"
    assert pc.serialNum == s0 and other.serialNum == s1
    # independent storage
    assert not same(c.mgFlux, pc.mgFlux) and not same(c.numberDensities, pc.numberDensities) and not same(c.detail, pc.detail) and not same(c._hist, pc._hist)
    c.mgFlux[0] = x
    c.detail[1] = x
    c.numberDensities["PU239"] = x
    c._hist[("power", 4)] = x
    defs[1].__set__(c, x)  # an assignment through the real setter
    assert pc.power == pw and pc.mgFlux[0] == f0 and pc.detail[1] == d1 and len(pc.numberDensities) == 1 and len(pc._hist) == 1, "changes of the copy do not show in the original"
    pc.mgFlux[1] = x + 1
    pc.numberDensities["U235"] = x + 1
    pc.detail[0] = x + 1
    defs[1].__set__(pc, x + 1)
    assert c.power == x and c.mgFlux[1] == f1 and c.numberDensities["U235"] == n and c.detail[0] == d0, "changes of the original do not show in the copy"
    if not noteIsNone:
        assert not same(c.note, pc.note)


@lemma(gen=GEN)
def deep_copy_reaches_the_mutable_values_held_inside_a_tuple(g0: int, s0: int, a0: int, f0: float, f1: float, n: float, d0: float, d1: float, x: float, viaModule: bool):
    """a parameter whose value is a TUPLE of mutable things (an array, a list, a dict - e.g. per-pin data kept as a
    tuple): the tuple itself cannot change, but what it holds can - the deep copy owns its own array / list / dict, so an
    in-place change on either side does not show on the other."""
    assume(s0 <= g0)
    mk_class()
    pcmod.GLOBAL_SERIAL_NUM = g0
    pc = mk_coll(s0, a0, 1.0, (np.array([d0, d1]), [f0, f1], {"U235": n}), None, None, None)
    c = copy.deepcopy(pc) if viaModule else pc.__deepcopy__({})
    assert len(c.mgFlux) == 3 and c.mgFlux[0][1] == d1 and c.mgFlux[1][0] == f0 and c.mgFlux[2]["U235"] == n, "equal contents"
    assert not same(c.mgFlux[0], pc.mgFlux[0]) and not same(c.mgFlux[1], pc.mgFlux[1]) and not same(c.mgFlux[2], pc.mgFlux[2]), "own array, list and dict"
    c.mgFlux[0][0] = x
    c.mgFlux[1].append(x)
    c.mgFlux[2]["U235"] = x
    assert pc.mgFlux[0][0] == d0 and len(pc.mgFlux[1]) == 2 and pc.mgFlux[2]["U235"] == n, "changes of the copy do not show in the original"
    pc.mgFlux[0][1] = x + 1
    pc.mgFlux[1][0] = x + 1
    pc.mgFlux[2]["PU239"] = x + 1
    assert c.mgFlux[0][1] == d1 and c.mgFlux[1][0] == f0 and len(c.mgFlux[2]) == 1, "changes of the original do not show in the copy"


@lemma(gen=GEN)
def constructor_hands_out_fresh_serial_numbers_and_defaults(g0: int, s0: int):
    """ParameterCollection.__init__ without a state (what every ArmiObject constructor runs): every parameter has its
    default, the serial number is the successor of the counter; two constructions in a row get different numbers."""
    assume(s0 <= g0)
    mk_class()
    pcmod.GLOBAL_SERIAL_NUM = g0
    live = mk_coll(s0, 0, 0.0, None, None, None, None)
    a = PCS()
    b = Owner.getParameterCollection()  # the route pickle takes to a new instance
    assert a.serialNum > g0 and b.serialNum > a.serialNum, "each larger than every number handed out before it"
    assert a.serialNum != live.serialNum and b.serialNum != live.serialNum and a.serialNum != b.serialNum
    assert pcmod.GLOBAL_SERIAL_NUM == b.serialNum, "INV: the counter covers every number handed out"
    assert isinstance(b, PCS)
    assert a.power == 0.0 and a.mgFlux is None and a.numberDensities is None and a.note is None, "defaults"
    assert a._backup is None and len(a._hist) == 0 and a.readOnly == False


def unpickle(pc):
    """what pickle.loads(pickle.dumps(pc)) does with pc.__reduce__() = (callable, args, state): the state is pickled as
    plain data, the object is rebuilt by callable(*args) and given the unpickled state"""
    fn, args, state = pc.__reduce__()
    blob = pickle.dumps(state)
    clone = fn(*args)
    clone.__setstate__(pickle.loads(blob))
    return clone


@lemma(gen=GEN)
def unpickled_collection_is_equal_and_independent(g0: int, s0: int, a0: int, pw: float, f0: float, f1: float, n: float, d0: float, d1: float, hk: float, x: float, viaModule: bool):
    """the pickle protocol of a collection (__reduce__ -> Owner.getParameterCollection() -> __setstate__), spelt out step
    by step and through pickle.loads(pickle.dumps(...)): equal values of every kind, no shared storage.  (Its serial
    number: contracts/pending/C16_copies_finding.py.)"""
    assume(s0 <= g0)
    defs = mk_class()
    pcmod.GLOBAL_SERIAL_NUM = g0
    pc = mk_coll(s0, a0, pw, [f0, f1], {"U235": n}, np.array([d0, d1]), None)
    pc._hist[("power", 3)] = hk
    c = pickle.loads(pickle.dumps(pc)) if viaModule else unpickle(pc)
    assert not same(c, pc) and isinstance(c, PCS)
    assert c.power == pw and len(c.mgFlux) == 2 and c.mgFlux[0] == f0 and c.mgFlux[1] == f1
    assert len(c.numberDensities) == 1 and c.numberDensities["U235"] == n
    assert c.detail[0] == d0 and c.detail[1] == d1 and c.note is None
    assert len(c._hist) == 1 and c._hist[("power", 3)] == hk
    assert c.assigned == a0, "the synchronisation flags travel with the pickle"
    assert pcmod.GLOBAL_SERIAL_NUM >= c.serialNum and pcmod.GLOBAL_SERIAL_NUM >= g0, "the counter still covers every live number"
    if NATIVE:
        r = pickle.loads(pickle.dumps(pc))  # the real pickle module agrees with the spelt-out protocol
        assert type(r) is type(c) and r.power == c.power and r.mgFlux == c.mgFlux and r.numberDensities == c.numberDensities and r.serialNum == c.serialNum
    c.mgFlux[0] = x
    c.detail[1] = x
    c.numberDensities["PU239"] = x
    defs[1].__set__(c, x)
    assert pc.power == pw and pc.mgFlux[0] == f0 and pc.detail[1] == d1 and len(pc.numberDensities) == 1, "changes of the clone do not show in the original"
    pc.mgFlux[1] = x + 1
    pc.numberDensities["U235"] = x + 1
    defs[1].__set__(pc, x + 1)
    assert c.power == x and c.mgFlux[1] == f1 and c.numberDensities["U235"] == n, "and the other way round"


# ------------------------------------------------------------------------------------------------ composites
def mk_tree(k, hasParent, s, pws, fls, dens):
    """root (collection 0) with k children (collections 1..k); every collection holds a scalar, a list and a dict"""
    root = mk_node(Owner, "root", mk_coll(s[0], 0, pws[0], [fls[0], 2.0], {"U235": dens[0]}, None, None))
    kids = []
    for i in range(1, k + 1):
        c = mk_node(Owner, "kid%d" % i, mk_coll(s[i], 0, pws[i], [fls[i], 3.0], {"U235": dens[i]}, None, None))
        c.parent = root
        root._children.append(c)
        kids.append(c)
    if hasParent:
        up = mk_node(Owner, "up", mk_coll(s[3], 0, 0.0, None, None, None, None))
        up._children.append(root)
        root.parent = up
    return root, kids


@lemma(gen={"g0": (10, 1000), "k": (0, 2)})
def deep_copy_of_a_subtree_copies_every_collection_with_its_own_serial_number(g0: int, k: int, hasParent: bool, p0: float, p1: float, p2: float, f0: float, f1: float, f2: float,
                                                                               n0: float, n1: float, n2: float, x: float):
    """copy.deepcopy of a composite with k = 0..2 children (shape enumerated, all values symbolic; the composite may
    itself hang in a tree): every node of the copy has a NEW collection with the values of its original, no mutable
    value is shared, the serial numbers of the copy are pairwise different and all larger than the counter was (the
    live numbers 0..3 are <= g0), the originals keep theirs."""
    k = choose(k, 0, 2)
    assume(g0 >= 10)
    defs = mk_class()
    pcmod.GLOBAL_SERIAL_NUM = g0
    pws, fls, dens = [p0, p1, p2], [f0, f1, f2], [n0, n1, n2]
    root, kids = mk_tree(k, hasParent, [0, 1, 2, 3], pws, fls, dens)
    cp = copy.deepcopy(root)
    orig = [root] + kids
    new_ = [cp] + list(cp._children)
    assert len(cp._children) == k and cp.parent is None
    serials = []
    for i in range(k + 1):
        o, c = orig[i], new_[i]
        assert not same(c, o) and not same(c.p, o.p) and isinstance(c.p, PCS), "its own collection"
        assert c.name == o.name
        assert c.p.power == pws[i] and len(c.p.mgFlux) == 2 and c.p.mgFlux[0] == fls[i] and c.p.numberDensities["U235"] == dens[i], "equal values"
        assert not same(c.p.mgFlux, o.p.mgFlux) and not same(c.p.numberDensities, o.p.numberDensities), "no shared storage"
        assert c.p.serialNum > g0 and o.p.serialNum == i, "a number no live object holds; the original keeps its own"
        for sn in serials:
            assert c.p.serialNum != sn, "no two nodes of the copy share a number"
        serials.append(c.p.serialNum)
        assert pcmod.GLOBAL_SERIAL_NUM >= c.p.serialNum
    assert pcmod.GLOBAL_SERIAL_NUM == g0 + k + 1, "one number per copied node"
    # later changes on either side
    for i in range(k + 1):
        new_[i].p.mgFlux[0] = x
        new_[i].p.numberDensities["U235"] = x
        new_[i].p.power = x
    for i in range(k + 1):
        assert orig[i].p.power == pws[i] and orig[i].p.mgFlux[0] == fls[i] and orig[i].p.numberDensities["U235"] == dens[i], "the original does not see changes of the copy"
        orig[i].p.mgFlux[1] = x + 1
        orig[i].p.power = x + 1
        assert new_[i].p.power == x and new_[i].p.mgFlux[1] == (2.0 if i == 0 else 3.0), "nor the copy changes of the original"


@lemma(gen={"k": (0, 2), "s0": (0, 50), "s1": (51, 100), "s2": (101, 150)})
def copyParamsToChildren_gives_every_child_the_parents_value(k: int, s0: int, s1: int, s2: int, cpPower: bool, cpFlux: bool, p0: float, p1: float, p2: float,
                                                            f0: float, f1: float, f2: float, n0: float, n1: float, n2: float):
    """ArmiObject.copyParamsToChildren for every subset of {power, mgFlux} on a parent with 0..2 children: the named
    parameters of every child equal the parent's, everything else (other parameters, serial numbers, the parent) is
    as before."""
    k = choose(k, 0, 2)
    mk_class()
    pws, fls, dens = [p0, p1, p2], [f0, f1, f2], [n0, n1, n2]
    root, kids = mk_tree(k, False, [s0, s1, s2, 0], pws, fls, dens)
    names = (["power"] if cpPower else []) + (["mgFlux"] if cpFlux else [])
    root.copyParamsToChildren(names)
    for i in range(1, k + 1):
        c = kids[i - 1]
        assert c.p.power == (p0 if cpPower else pws[i]), "power: the parent's value iff named"
        assert len(c.p.mgFlux) == 2 and c.p.mgFlux[0] == (f0 if cpFlux else fls[i]) and c.p.mgFlux[1] == (2.0 if cpFlux else 3.0), "mgFlux: the parent's value iff named"
        assert c.p.numberDensities["U235"] == dens[i] and c.p.serialNum == [s0, s1, s2][i], "everything else untouched"
        assert same(c.parent, root)
    assert root.p.power == p0 and root.p.mgFlux[0] == f0 and root.p.serialNum == s0 and len(root._children) == k


@lemma(gen={"g0": (200, 1000), "s0": (0, 100), "s1": (101, 200)})
def copyParamsFrom_gives_equal_values_in_a_new_collection(g0: int, s0: int, s1: int, neverPower: bool, neverFlux: bool, pw: float, f0: float, n: float, q: float):
    """ArmiObject.copyParamsFrom(other): the object gets a NEW collection of other's class in which every parameter
    that was ever assigned (definition flag != NEVER; both cases for power and for mgFlux) equals
    other's value, never-assigned ones have their default; other is unchanged.  (The serial number it ends up with:
    contracts/pending/C16_copies_finding.py.)"""
    m1 = m2 = SINCE_ANYTHING
    if neverPower:
        m1 = NEVER
    if neverFlux:
        m2 = NEVER
    assume(s0 <= g0 and s1 <= g0 and s0 != s1)
    defs = mk_class()
    pcmod.GLOBAL_SERIAL_NUM = g0
    for d in defs:
        d.assigned = SINCE_ANYTHING
    defs[1].assigned = m1
    defs[2].assigned = m2
    a = mk_node(Owner, "a", mk_coll(s0, 0, pw, [f0, 2.0], {"U235": n}, None, None))
    b = mk_node(Owner, "b", mk_coll(s1, 0, q, None, None, None, None))
    oldP = b.p
    b.copyParamsFrom(a)
    assert not same(b.p, a.p) and not same(b.p, oldP) and isinstance(b.p, PCS), "a new collection of the same class"
    assert b.p.power == (pw if m1 != NEVER else 0.0), "assigned parameter: other's value; never assigned: the default"
    if m2 != NEVER:
        assert len(b.p.mgFlux) == 2 and b.p.mgFlux[0] == f0
    else:
        assert b.p.mgFlux is None
    assert b.p.numberDensities["U235"] == n
    assert a.p.power == pw and a.p.mgFlux[0] == f0 and a.p.serialNum == s0, "other unchanged"


@lemma(gen={"g0": (10, 1000), "k": (0, 2)})
def unpickled_subtree_carries_equal_independent_values(g0: int, k: int, hasParent: bool, p0: float, p1: float, p2: float, f0: float, f1: float, f2: float,
                                                       n0: float, n1: float, n2: float, x: float):
    """pickle.loads(pickle.dumps(root)) of a composite with k = 0..2 children: every node of the clone has its own
    collection of the same class with the values of its original, no mutable value is shared, later changes on either
    side do not show on the other; the counter still covers every number in use.  (The serial numbers of the clone:
    contracts/pending/C16_copies_finding.py.)"""
    k = choose(k, 0, 2)
    assume(g0 >= 10)
    defs = mk_class()
    pcmod.GLOBAL_SERIAL_NUM = g0
    pws, fls, dens = [p0, p1, p2], [f0, f1, f2], [n0, n1, n2]
    root, kids = mk_tree(k, hasParent, [0, 1, 2, 3], pws, fls, dens)
    cp = pickle.loads(pickle.dumps(root))
    orig = [root] + kids
    new_ = [cp] + list(cp._children)
    assert len(cp._children) == k and cp.parent is None
    for i in range(k + 1):
        o, c = orig[i], new_[i]
        assert not same(c, o) and not same(c.p, o.p) and isinstance(c.p, PCS) and c.name == o.name, "its own collection"
        assert c.p.power == pws[i] and len(c.p.mgFlux) == 2 and c.p.mgFlux[0] == fls[i] and c.p.numberDensities["U235"] == dens[i], "equal values"
        assert not same(c.p.mgFlux, o.p.mgFlux) and not same(c.p.numberDensities, o.p.numberDensities), "no shared storage"
        assert pcmod.GLOBAL_SERIAL_NUM >= c.p.serialNum and o.p.serialNum == i
        if i > 0:
            assert same(c.parent, cp)
    assert pcmod.GLOBAL_SERIAL_NUM >= g0
    for i in range(k + 1):
        new_[i].p.mgFlux[0] = x
        new_[i].p.numberDensities["U235"] = x
        new_[i].p.power = x
    for i in range(k + 1):
        assert orig[i].p.power == pws[i] and orig[i].p.mgFlux[0] == fls[i] and orig[i].p.numberDensities["U235"] == dens[i], "the original does not see changes of the clone"
        orig[i].p.mgFlux[1] = x + 1
        orig[i].p.power = x + 1
        assert new_[i].p.power == x and new_[i].p.mgFlux[1] == (2.0 if i == 0 else 3.0), "nor the clone changes of the original"
