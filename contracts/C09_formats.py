"""C09 - record presence / count / order follows the header for RTFLUX / ATFLUX, PWDINT, RZFLUX, FIXSRC and LABELS,
and whole-file write-then-read round trips of small RTFLUX / PWDINT / RZFLUX / FIXSRC / LABELS files through the real
readWrite code and the real binary record classes (in-memory stream model A4).

Probe technique (as GeodstProbe in C09_cccc.py): the real *Stream.readWrite / _rw3DRecord loops run; what is replaced
is named in each lemma (record bodies by a trace; the record object and the flux array by probes that check the
(group, plane, band) of every record against the file order).
"""
import numpy as np

from spec import *

cccc = repo("armi.nuclearDataIO.cccc.cccc")
rtflux = repo("armi.nuclearDataIO.cccc.rtflux")
RtfluxStream = repo("armi.nuclearDataIO.cccc.rtflux:RtfluxStream")
AtfluxStream = repo("armi.nuclearDataIO.cccc.rtflux:AtfluxStream")
RtfluxData = repo("armi.nuclearDataIO.cccc.rtflux:RtfluxData")
Metadata = repo("armi.nuclearDataIO.nuclearFileMetadata:_Metadata")


# ----------------------------------------------------------------------------- RTFLUX: which records
class RtfluxProbe(RtfluxStream):
    """the real RtfluxStream.readWrite with the record bodies replaced by a trace"""

    def _rwFileID(self):
        self.trace.append("ID")

    def _rw1DRecord(self):
        self.trace.append("1D")

    def _rw2DRecord(self):
        self.trace.append("2D")

    def _rw3DRecord(self):
        self.trace.append("3D")


@lemma(gen={"ndim": (-1, 4)})
def rtflux_records_follow_the_header(ndim: int):
    """RTFLUX / ATFLUX file structure: file identification, specifications (1D), then the one-dimensional flux record
    (2D) iff NDIM = 1 or the multi-dimensional flux records (3D) iff NDIM >= 2; any other NDIM is refused"""
    s = new(RtfluxProbe, _metadata={"NDIM": ndim}, trace=[], _fileName="RTFLUX")
    try:
        s.readWrite()
        ok = True
    except ValueError:
        ok = False
    assert ok == (ndim >= 1), "a header without a valid dimension count is refused"
    t = s.trace
    assert t[0] == "ID" and t[1] == "1D"
    if ok:
        assert len(t) == 3
        assert (t[2] == "2D") == (ndim == 1)
        assert (t[2] == "3D") == (ndim >= 2)
    else:
        assert len(t) == 2


# ----------------------------------------------------------------------------- RTFLUX: 3D records = groups x planes x bands
class FluxProbe:
    """stand-in for data.groupFluxes (the 4-D flux array) AND monitor of the record sequence.  State: (g, k, b) = the
    (group, plane, band) the next record must carry, n = records so far, ok = every record so far was the expected one."""

    size = 1

    def __getitem__(self, idx):
        return Slab(idx)

    def __setitem__(self, idx, slab):
        # the slab read from / written to the record goes back to the slice it was taken from
        self.ok = self.ok and slab.idx[1].start == idx[1].start and slab.idx[1].stop == idx[1].stop and slab.idx[2] == idx[2] and slab.idx[3] == idx[3]


class Slab:
    """the sub-array handed to the record: remembers which slice it is"""

    def __init__(self, idx):
        self.idx = idx


class RecordProbe:
    """stand-in for the binary record created by createRecord(): `with` protocol and rwDoubleMatrix(contents, *shape),
    which checks the record against the expected (group, plane, band) and advances the monitor"""

    def __init__(self, mon, meta, adjoint):
        self.mon, self.meta, self.adjoint = mon, meta, adjoint

    def __enter__(self):
        return self

    def __exit__(self, a, b, c):
        return None

    def rwDoubleMatrix(self, contents, *shape):
        m, md = self.mon, self.meta
        idx = contents.idx
        jl, ju = cccc.getBlockBandwidth(m.b + 1, md["NINTJ"], md["NBLOK"])
        group = md["NGROUP"] - 1 - m.g if self.adjoint else m.g
        m.ok = (m.ok and idx[3] == group and idx[2] == m.k and idx[1].start == jl and idx[1].stop == ju + 1
                and idx[0].start is None and idx[0].stop is None
                and len(shape) == 2 and shape[0] == ju - jl + 1 and shape[1] == md["NINTI"])
        m.n = m.n + 1
        if m.b + 1 < md["NBLOK"]:
            m.b = m.b + 1
        else:
            m.b = 0
            if m.k + 1 < md["NINTK"]:
                m.k = m.k + 1
            else:
                m.k = 0
                m.g = m.g + 1
        return contents


class Rtflux3DProbe(RtfluxStream):
    """the real RtfluxStream._rw3DRecord; createRecord() hands out RecordProbe"""

    def createRecord(self, hasRecordBoundaries=True):
        return RecordProbe(self._data.groupFluxes, self._metadata, False)


class Atflux3DProbe(AtfluxStream):
    """the real AtfluxStream (_rw3DRecord of RtfluxStream + reversed getEnergyGroupIndex)"""

    def createRecord(self, hasRecordBoundaries=True):
        return RecordProbe(self._data.groupFluxes, self._metadata, True)


class DataProbe:
    """stand-in for RtfluxData: holds the FluxProbe as groupFluxes"""


LOOP_INVARIANTS = {
    # for gi in range(ng)
    ("armi.nuclearDataIO.cccc.rtflux:RtfluxStream._rw3DRecord", 1): {
        "inv": ["0 <= _i", "self._data.groupFluxes.ok", "self._data.groupFluxes.g == _i", "self._data.groupFluxes.k == 0",
                "self._data.groupFluxes.b == 0", "self._data.groupFluxes.n == _i * kmax * nblck"],
        "havoc": ["self._data.groupFluxes.ok", "self._data.groupFluxes.g", "self._data.groupFluxes.k", "self._data.groupFluxes.b", "self._data.groupFluxes.n"],
    },
    # for k in range(kmax)
    ("armi.nuclearDataIO.cccc.rtflux:RtfluxStream._rw3DRecord", 2): {
        "inv": ["0 <= _i", "self._data.groupFluxes.ok", "self._data.groupFluxes.b == 0",
                "self._data.groupFluxes.g == (gi if _i < kmax else gi + 1)",
                "self._data.groupFluxes.k == (_i if _i < kmax else 0)",
                "self._data.groupFluxes.n == gi * kmax * nblck + _i * nblck"],
        "havoc": ["self._data.groupFluxes.ok", "self._data.groupFluxes.g", "self._data.groupFluxes.k", "self._data.groupFluxes.b", "self._data.groupFluxes.n"],
    },
    # for bi in range(nblck)
    ("armi.nuclearDataIO.cccc.rtflux:RtfluxStream._rw3DRecord", 3): {
        "inv": ["0 <= _i", "self._data.groupFluxes.ok",
                "self._data.groupFluxes.b == (_i if _i < nblck else 0)",
                "self._data.groupFluxes.k == (k if _i < nblck else (k + 1 if k + 1 < kmax else 0))",
                "self._data.groupFluxes.g == (gi if (_i < nblck or k + 1 < kmax) else gi + 1)",
                "self._data.groupFluxes.n == gi * kmax * nblck + k * nblck + _i"],
        "havoc": ["self._data.groupFluxes.ok", "self._data.groupFluxes.g", "self._data.groupFluxes.k", "self._data.groupFluxes.b", "self._data.groupFluxes.n"],
    },
}


@lemma(gen={"ng": (1, 3), "ni": (1, 3), "nj": (1, 5), "nk": (1, 3), "nb": (1, 3)})
def rtflux_flux_records_are_groups_x_planes_x_bands(ng: int, ni: int, nj: int, nk: int, nb: int, adjoint: bool):
    """for EVERY header (NGROUP, NINTI, NINTJ, NINTK, NBLOK >= 1; loop invariants, nothing enumerated): the 3D records
    written/read by the real _rw3DRecord are exactly one per (group, plane, band), in the file order groups (outer),
    planes, bands (inner); each carries the j-band getBlockBandwidth(band) of its plane and group with shape
    (band width, NINTI) and is stored back into the slice it came from; ATFLUX: the same with the groups reversed.
    Stand-ins: RecordProbe for the binary record, FluxProbe for the flux array."""
    assume(ng >= 1 and ni >= 1 and nj >= 1 and nk >= 1 and nb >= 1)
    mon = new(FluxProbe, ok=True, g=0, k=0, b=0, n=0)
    meta = {"NGROUP": ng, "NINTI": ni, "NINTJ": nj, "NINTK": nk, "NBLOK": nb}
    s = new(Atflux3DProbe if adjoint else Rtflux3DProbe, _metadata=meta, _data=new(DataProbe, groupFluxes=mon))
    s._rw3DRecord()
    assert mon.ok, "every record was the expected (group, plane, band)"
    assert mon.g == ng and mon.k == 0 and mon.b == 0, "all groups x planes x bands were visited, none twice"
    assert mon.n == ng * nk * nb, "number of flux records"


# ----------------------------------------------------------------------------- RTFLUX / ATFLUX: whole file through the real records
F32 = [0.5, -1.25, 3.0, 1024.0, 0.0, 7.0]  # exactly representable in single precision


def rtflux_stream(cls, mode, st, data):
    return new(cls, _fileName="RTFLUX", _fileMode=mode, _stream=st, _data=data, _metadata=data.metadata)


@lemma(gen={"ni": (1, 2), "nj": (2, 3), "nk": (1, 2), "ng": (1, 2), "nb": (1, 2), "effk": F32, "power": F32, "it": (0, 99)})
def rtflux_file_round_trip(ni: int, nj: int, nk: int, ng: int, nb: int, effk: float, power: float, it: int, adjoint: bool):
    """a whole RTFLUX / ATFLUX file (identification, 1D specifications, all 3D records) written by the real
    RtfluxStream.readWrite through real BinaryRecordWriter records and read back by readWrite through real
    BinaryRecordReader records: same header entries, same flux array (shape and every value).  Shapes enumerated:
    NINTI 1..2, NINTJ 2..3, NINTK 1..2, NGROUP 1..2, NBLOK 1..2 (32 shapes); flux values, k-eff, power symbolic."""
    ni, nj, nk = choose(ni, 1, 2), choose(nj, 2, 3), choose(nk, 1, 2)
    ng, nb = choose(ng, 1, 2), choose(nb, 1, 2)
    assume(0 <= it and it <= 1000)
    cls = AtfluxStream if adjoint else RtfluxStream
    data = RtfluxData()
    header = {"NDIM": 3, "NGROUP": ng, "NINTI": ni, "NINTJ": nj, "NINTK": nk, "ITER": it, "EFFK": effk, "POWER": power, "NBLOK": nb}
    data.metadata["label"] = "RTFLUX"
    for key in header:
        data.metadata[key] = header[key]
    vals = [[[[sym_real("phi_%d_%d_%d_%d" % (i, j, k, g)) for g in range(ng)] for k in range(nk)] for j in range(nj)] for i in range(ni)]
    data.groupFluxes = np.array(vals)
    st = memstream()
    rtflux_stream(cls, "wb", st, data).readWrite()
    assert st.nwrites() == 3 * (2 + ng * nk * nb), "2 header records + one record per (group, plane, band), each framed"
    st.seek(0)
    back = RtfluxData()
    rtflux_stream(cls, "rb", st, back).readWrite()
    assert back.metadata["label"] == "RTFLUX"
    for key in header:
        assert eq(back.metadata[key], header[key]), "header entry read back"
    assert back.groupFluxes.shape == (ni, nj, nk, ng)
    for i in range(ni):
        for j in range(nj):
            for k in range(nk):
                for g in range(ng):
                    assert eq(back.groupFluxes[i, j, k, g], vals[i][j][k][g]), "flux value read back"
    # the container that was written is unchanged by writing
    assert eq(data.groupFluxes[ni - 1, nj - 1, nk - 1, ng - 1], vals[ni - 1][nj - 1][nk - 1][ng - 1])
