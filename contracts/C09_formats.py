"""C09 - record presence / count / order follows the header for RTFLUX / ATFLUX, PWDINT, RZFLUX, FIXSRC and LABELS,
and whole-file write-then-read round trips of small RTFLUX / PWDINT / RZFLUX / FIXSRC / LABELS files through the real
readWrite code and the real binary record classes (in-memory stream model A4).

Probe technique (as GeodstProbe in C09_cccc.py): the real *Stream.readWrite / _rw3DRecord loops run; what is replaced
is named in each lemma (record bodies by a trace; the record object and the flux array by probes that check the
(group, plane, band) of every record against the file order).
"""
import struct

import numpy as np

from spec import *

cccc = repo("armi.nuclearDataIO.cccc.cccc")
rtflux = repo("armi.nuclearDataIO.cccc.rtflux")
RtfluxStream = repo("armi.nuclearDataIO.cccc.rtflux:RtfluxStream")
AtfluxStream = repo("armi.nuclearDataIO.cccc.rtflux:AtfluxStream")
RtfluxData = repo("armi.nuclearDataIO.cccc.rtflux:RtfluxData")
Metadata = repo("armi.nuclearDataIO.nuclearFileMetadata:_Metadata")


# ----------------------------------------------------------------------------- RTFLUX: which records
class RtfluxProbe(RtfluxStream):
    """the real RtfluxStream.readWrite with the record bodies replaced by a trace"""

    def _rwFileID(self):
        self.trace.append("ID")

    def _rw1DRecord(self):
        self.trace.append("1D")

    def _rw2DRecord(self):
        self.trace.append("2D")

    def _rw3DRecord(self):
        self.trace.append("3D")


@lemma(gen={"ndim": (-1, 4)})
def rtflux_records_follow_the_header(ndim: int):
    """RTFLUX / ATFLUX file structure: file identification, specifications (1D), then the one-dimensional flux record
    (2D) iff NDIM = 1 or the multi-dimensional flux records (3D) iff NDIM >= 2; any other NDIM is refused"""
    s = new(RtfluxProbe, _metadata={"NDIM": ndim}, trace=[], _fileName="RTFLUX")
    try:
        s.readWrite()
        ok = True
    except ValueError:
        ok = False
    assert ok == (ndim >= 1), "a header without a valid dimension count is refused"
    t = s.trace
    assert t[0] == "ID" and t[1] == "1D"
    if ok:
        assert len(t) == 3
        assert (t[2] == "2D") == (ndim == 1)
        assert (t[2] == "3D") == (ndim >= 2)
    else:
        assert len(t) == 2


# ----------------------------------------------------------------------------- RTFLUX: 3D records = groups x planes x bands
class FluxProbe:
    """stand-in for data.groupFluxes (the 4-D flux array) AND monitor of the record sequence.  State: (g, k, b) = the
    (group, plane, band) the next record must carry, n = records so far, ok = every record so far was the expected one."""

    size = 1

    def __getitem__(self, idx):
        return Slab(idx)

    def __setitem__(self, idx, slab):
        # the slab read from / written to the record goes back to the slice it was taken from
        self.ok = self.ok and slab.idx[1].start == idx[1].start and slab.idx[1].stop == idx[1].stop and slab.idx[2] == idx[2] and slab.idx[3] == idx[3]


class Slab:
    """the sub-array handed to the record: remembers which slice it is"""

    def __init__(self, idx):
        self.idx = idx


class RecordProbe:
    """stand-in for the binary record created by createRecord(): `with` protocol and rwDoubleMatrix(contents, *shape),
    which checks the record against the expected (group, plane, band) and advances the monitor"""

    def __init__(self, mon, meta, adjoint):
        self.mon, self.meta, self.adjoint = mon, meta, adjoint

    def __enter__(self):
        return self

    def __exit__(self, a, b, c):
        return None

    def rwDoubleMatrix(self, contents, *shape):
        m, md = self.mon, self.meta
        idx = contents.idx
        jl, ju = cccc.getBlockBandwidth(m.b + 1, md["NINTJ"], md["NBLOK"])
        group = md["NGROUP"] - 1 - m.g if self.adjoint else m.g
        m.ok = (m.ok and idx[3] == group and idx[2] == m.k and idx[1].start == jl and idx[1].stop == ju + 1
                and idx[0].start is None and idx[0].stop is None
                and len(shape) == 2 and shape[0] == ju - jl + 1 and shape[1] == md["NINTI"])
        m.n = m.n + 1
        if m.b + 1 < md["NBLOK"]:
            m.b = m.b + 1
        else:
            m.b = 0
            if m.k + 1 < md["NINTK"]:
                m.k = m.k + 1
            else:
                m.k = 0
                m.g = m.g + 1
        return contents


class Rtflux3DProbe(RtfluxStream):
    """the real RtfluxStream._rw3DRecord; createRecord() hands out RecordProbe"""

    def createRecord(self, hasRecordBoundaries=True):
        return RecordProbe(self._data.groupFluxes, self._metadata, False)


class Atflux3DProbe(AtfluxStream):
    """the real AtfluxStream (_rw3DRecord of RtfluxStream + reversed getEnergyGroupIndex)"""

    def createRecord(self, hasRecordBoundaries=True):
        return RecordProbe(self._data.groupFluxes, self._metadata, True)


class DataProbe:
    """stand-in for RtfluxData: holds the FluxProbe as groupFluxes"""


LOOP_INVARIANTS = {
    # for gi in range(ng)
    ("armi.nuclearDataIO.cccc.rtflux:RtfluxStream._rw3DRecord", 1): {
        "inv": ["0 <= _i", "self._data.groupFluxes.ok", "self._data.groupFluxes.g == _i", "self._data.groupFluxes.k == 0",
                "self._data.groupFluxes.b == 0", "self._data.groupFluxes.n == _i * kmax * nblck"],
        "havoc": ["self._data.groupFluxes.ok", "self._data.groupFluxes.g", "self._data.groupFluxes.k", "self._data.groupFluxes.b", "self._data.groupFluxes.n"],
    },
    # for k in range(kmax)
    ("armi.nuclearDataIO.cccc.rtflux:RtfluxStream._rw3DRecord", 2): {
        "inv": ["0 <= _i", "self._data.groupFluxes.ok", "self._data.groupFluxes.b == 0",
                "self._data.groupFluxes.g == (gi if _i < kmax else gi + 1)",
                "self._data.groupFluxes.k == (_i if _i < kmax else 0)",
                "self._data.groupFluxes.n == gi * kmax * nblck + _i * nblck"],
        "havoc": ["self._data.groupFluxes.ok", "self._data.groupFluxes.g", "self._data.groupFluxes.k", "self._data.groupFluxes.b", "self._data.groupFluxes.n"],
    },
    # for bi in range(nblck)
    ("armi.nuclearDataIO.cccc.rtflux:RtfluxStream._rw3DRecord", 3): {
        "inv": ["0 <= _i", "self._data.groupFluxes.ok",
                "self._data.groupFluxes.b == (_i if _i < nblck else 0)",
                "self._data.groupFluxes.k == (k if _i < nblck else (k + 1 if k + 1 < kmax else 0))",
                "self._data.groupFluxes.g == (gi if (_i < nblck or k + 1 < kmax) else gi + 1)",
                "self._data.groupFluxes.n == gi * kmax * nblck + k * nblck + _i"],
        "havoc": ["self._data.groupFluxes.ok", "self._data.groupFluxes.g", "self._data.groupFluxes.k", "self._data.groupFluxes.b", "self._data.groupFluxes.n"],
    },
    # FIXSRC.readWrite: for g in range(ng) / for z in range(nz)   (monitor = FixsrcProbe below)
    ("armi.nuclearDataIO.cccc.fixsrc:FIXSRC.readWrite", 1): {
        "inv": ["0 <= _i", "self.ok", "self.g == _i", "self.z == 0", "self.n == _i * nz", "self.head == 2"],
        "havoc": ["self.ok", "self.g", "self.z", "self.n"],
    },
    ("armi.nuclearDataIO.cccc.fixsrc:FIXSRC.readWrite", 2): {
        "inv": ["0 <= _i", "self.ok", "self.g == (g if _i < nz else g + 1)", "self.z == (_i if _i < nz else 0)", "self.n == g * nz + _i", "self.head == 2"],
        "havoc": ["self.ok", "self.g", "self.z", "self.n"],
    },
}


@lemma(gen={"ng": (1, 3), "ni": (1, 3), "nj": (1, 5), "nk": (1, 3), "nb": (1, 3)})
def rtflux_flux_records_are_groups_x_planes_x_bands(ng: int, ni: int, nj: int, nk: int, nb: int, adjoint: bool):
    """for EVERY header (NGROUP, NINTI, NINTJ, NINTK, NBLOK >= 1; loop invariants, nothing enumerated): the 3D records
    written/read by the real _rw3DRecord are exactly one per (group, plane, band), in the file order groups (outer),
    planes, bands (inner); each carries the j-band getBlockBandwidth(band) of its plane and group with shape
    (band width, NINTI) and is stored back into the slice it came from; ATFLUX: the same with the groups reversed.
    Stand-ins: RecordProbe for the binary record, FluxProbe for the flux array."""
    assume(ng >= 1 and ni >= 1 and nj >= 1 and nk >= 1 and nb >= 1)
    mon = new(FluxProbe, ok=True, g=0, k=0, b=0, n=0)
    meta = {"NGROUP": ng, "NINTI": ni, "NINTJ": nj, "NINTK": nk, "NBLOK": nb}
    s = new(Atflux3DProbe if adjoint else Rtflux3DProbe, _metadata=meta, _data=new(DataProbe, groupFluxes=mon))
    s._rw3DRecord()
    assert mon.ok, "every record was the expected (group, plane, band)"
    assert mon.g == ng and mon.k == 0 and mon.b == 0, "all groups x planes x bands were visited, none twice"
    assert mon.n == ng * nk * nb, "number of flux records"


# ----------------------------------------------------------------------------- RTFLUX / ATFLUX: whole file through the real records
F32 = [0.5, -1.25, 3.0, 1024.0, 0.0, 7.0]  # exactly representable in single precision


def rtflux_stream(cls, mode, st, data):
    return new(cls, _fileName="RTFLUX", _fileMode=mode, _stream=st, _data=data, _metadata=data.metadata)


@lemma(gen={"ni": (1, 2), "nj": (2, 3), "nk": (1, 2), "ng": (1, 2), "nb": (1, 2), "effk": F32, "power": F32, "it": (0, 99)})
def rtflux_file_round_trip(ni: int, nj: int, nk: int, ng: int, nb: int, effk: float, power: float, it: int, adjoint: bool):
    """a whole RTFLUX / ATFLUX file (identification, 1D specifications, all 3D records) written by the real
    RtfluxStream.readWrite through real BinaryRecordWriter records and read back by readWrite through real
    BinaryRecordReader records: same header entries, same flux array (shape and every value).  Shapes enumerated:
    NINTI 1..2, NINTJ 2..3, NINTK 1..2, NGROUP 1..2, NBLOK 1..2 (32 shapes); flux values, k-eff, power symbolic."""
    ni, nj, nk = choose(ni, 1, 2), choose(nj, 2, 3), choose(nk, 1, 2)
    ng, nb = choose(ng, 1, 2), choose(nb, 1, 2)
    rtflux_round_trip_case(ni, nj, nk, ng, nb, effk, power, it, adjoint)


def rtflux_round_trip_case(ni, nj, nk, ng, nb, effk, power, it, adjoint):
    assume(0 <= it and it <= 1000)  # (S) ITER is a 4-byte counter; the range keeps the packed field concrete-sized
    cls = AtfluxStream if adjoint else RtfluxStream
    data = RtfluxData()
    header = {"NDIM": 3, "NGROUP": ng, "NINTI": ni, "NINTJ": nj, "NINTK": nk, "ITER": it, "EFFK": effk, "POWER": power, "NBLOK": nb}
    data.metadata["label"] = "RTFLUX"
    for key in header:
        data.metadata[key] = header[key]
    vals = [[[[sym_real("phi_%d_%d_%d_%d" % (i, j, k, g)) for g in range(ng)] for k in range(nk)] for j in range(nj)] for i in range(ni)]
    data.groupFluxes = np.array(vals)
    st = memstream()
    rtflux_stream(cls, "wb", st, data).readWrite()
    assert st.nwrites() == 3 * (2 + ng * nk * nb), "2 header records + one record per (group, plane, band), each framed"
    for r in range(ng * nk * nb):
        jl, ju = cccc.getBlockBandwidth(r % nb + 1, nj, nb)
        (count,) = struct.unpack("i", st.written(3 * (2 + r)))
        assert count == 8 * ni * (ju - jl + 1), "each flux record holds NINTI x band-width double-precision values"
    st.seek(0)
    back = RtfluxData()
    rtflux_stream(cls, "rb", st, back).readWrite()
    assert back.metadata["label"] == "RTFLUX"
    for key in header:
        assert eq(back.metadata[key], header[key]), "header entry read back"
    assert back.groupFluxes.shape == (ni, nj, nk, ng)
    for i in range(ni):
        for j in range(nj):
            for k in range(nk):
                for g in range(ng):
                    assert eq(back.groupFluxes[i, j, k, g], vals[i][j][k][g]), "flux value read back"
    # the container that was written is unchanged by writing
    assert eq(data.groupFluxes[ni - 1, nj - 1, nk - 1, ng - 1], vals[ni - 1][nj - 1][nk - 1][ng - 1])


# ----------------------------------------------------------------------------- PWDINT and RZFLUX: whole files
pwdint = repo("armi.nuclearDataIO.cccc.pwdint")
PwdintStream = repo("armi.nuclearDataIO.cccc.pwdint:PwdintStream")
PwdintData = repo("armi.nuclearDataIO.cccc.pwdint:PwdintData")
rzflux = repo("armi.nuclearDataIO.cccc.rzflux")
RzfluxStream = repo("armi.nuclearDataIO.cccc.rzflux:RzfluxStream")
RzfluxData = repo("armi.nuclearDataIO.cccc.rzflux:RzfluxData")


def stream(cls, name, mode, st, data):
    return new(cls, _fileName=name, _fileMode=mode, _stream=st, _data=data, _metadata=data.metadata)


@lemma(gen={"ni": (1, 2), "nj": (1, 3), "nk": (1, 2), "nb": (1, 3), "t": F32, "power": F32, "vol": F32, "ncy": (0, 9),
            "p0": F32, "p1": F32, "p2": F32, "p3": F32, "p4": F32, "p5": F32, "p6": F32, "p7": F32, "p8": F32, "p9": F32, "p10": F32, "p11": F32})
def pwdint_file_round_trip(ni: int, nj: int, nk: int, nb: int, t: float, power: float, vol: float, ncy: int,
                           p0: float, p1: float, p2: float, p3: float, p4: float, p5: float, p6: float, p7: float,
                           p8: float, p9: float, p10: float, p11: float):
    """a whole PWDINT file (identification, specifications, NINTK x NBLOK power-density records) through the real
    PwdintStream.readWrite and the real binary records: header and power density (shape, values) read back; the number
    of records is 2 + NINTK x NBLOK.  NINTI 1..2, NINTJ 1..3, NINTK 1..2, NBLOK 1..3 enumerated (32 of 36 shapes; includes
    NBLOK > NINTJ with empty bands); values symbolic."""
    ni, nj, nk, nb = choose(ni, 1, 2), choose(nj, 1, 3), choose(nk, 1, 2), choose(nb, 1, 3)
    assume(0 <= ncy and ncy <= 1000)
    # blocking by the CCCC formula leaves no band that starts more than one past the last mesh line (JL <= NINTJ + 1);
    # the excluded headers (here NINTJ=1, NBLOK=3) cannot be written (numpy is asked for a negative dimension); whether such a
    # header is "well-formed" is debatable, the lemma stating it was dropped with contracts/pending/ - classified (P)
    assume((nb - 1) * ((nj - 1) // nb + 1) <= nj)
    p = [p0, p1, p2, p3, p4, p5, p6, p7, p8, p9, p10, p11]
    data = PwdintData()
    header = {"TIME": t, "POWER": power, "VOL": vol, "NINTI": ni, "NINTJ": nj, "NINTK": nk, "NCY": ncy, "NBLOK": nb}
    ident = {"hname": "PWDINT", "huse": "ARMI", "huse2": "", "version": 1, "mult": 1}
    for key in header:
        data.metadata[key] = header[key]
    for key in ident:
        data.metadata[key] = ident[key]
    vals = [[[p[(i * nj + j) * nk + k] for k in range(nk)] for j in range(nj)] for i in range(ni)]
    data.powerDensity = np.array(vals)
    st = memstream()
    stream(PwdintStream, "PWDINT", "wb", st, data).readWrite()
    assert st.nwrites() == 3 * (2 + nk * nb)
    for k in range(nk):
        for b in range(nb):
            jl, ju = cccc.getBlockBandwidth(b + 1, nj, nb)
            (count,) = struct.unpack("i", st.written(3 * (2 + k * nb + b)))
            assert count == 4 * ni * (ju - jl + 1), "record (plane, band) holds NINTI x band-width single-precision values"
    st.seek(0)
    back = PwdintData()
    stream(PwdintStream, "PWDINT", "rb", st, back).readWrite()
    for key in header:
        assert eq(back.metadata[key], header[key]), "header entry read back"
    for key in ident:
        assert back.metadata[key] == ident[key], "identification read back"
    assert back.powerDensity.shape == (ni, nj, nk)
    for i in range(ni):
        for j in range(nj):
            for k in range(nk):
                assert eq(back.powerDensity[i, j, k], vals[i][j][k]), "power density read back"


@lemma(gen={"nz": (1, 3), "ng": (1, 2), "nb": (1, 2), "x": F32, "itps": (0, 3),
            "f0": F32, "f1": F32, "f2": F32, "f3": F32, "f4": F32, "f5": F32})
def rzflux_file_round_trip(nz: int, ng: int, nb: int, x: float, itps: int, f0: float, f1: float, f2: float, f3: float, f4: float, f5: float):
    """a whole RZFLUX file (identification, specifications, NBLOK zone-band records) through the real
    RzfluxStream.readWrite: the 20 header entries and the group x zone flux matrix are read back.  NZONE 1..3,
    NGROUP 1..2, NBLOK 1..2 enumerated; values symbolic."""
    nz, ng, nb = choose(nz, 1, 3), choose(ng, 1, 2), choose(nb, 1, 2)
    assume(0 <= itps and itps <= 3)
    f = [f0, f1, f2, f3, f4, f5]
    data = RzfluxData()
    data.metadata["label"] = "RZFLUX"
    header = {}
    for key in rzflux.FILE_SPEC_1D_KEYS:
        header[key] = x
    header["NBLOK"], header["ITPS"], header["NZONE"], header["NGROUP"], header["NCY"] = nb, itps, nz, ng, 2
    for key in header:
        data.metadata[key] = header[key]
    vals = [[f[g * nz + z] for z in range(nz)] for g in range(ng)]
    data.groupFluxes = np.array(vals)
    st = memstream()
    stream(RzfluxStream, "RZFLUX", "wb", st, data).readWrite()
    assert st.nwrites() == 3 * (2 + nb)
    for b in range(nb):
        jl, ju = cccc.getBlockBandwidth(b + 1, nz, nb)
        (count,) = struct.unpack("i", st.written(3 * (2 + b)))
        assert count == 4 * ng * (ju - jl + 1), "record of band b holds NGROUP x band-width single-precision values"
    st.seek(0)
    back = RzfluxData()
    stream(RzfluxStream, "RZFLUX", "rb", st, back).readWrite()
    assert back.metadata["label"] == "RZFLUX"
    for key in rzflux.FILE_SPEC_1D_KEYS:
        assert eq(back.metadata[key], header[key]), "header entry read back"
    assert back.groupFluxes.shape == (ng, nz)
    for g in range(ng):
        for z in range(nz):
            assert eq(back.groupFluxes[g, z], vals[g][z]), "zone flux read back"


# ----------------------------------------------------------------------------- FIXSRC: records = groups x planes; whole file
FIXSRC = repo("armi.nuclearDataIO.cccc.fixsrc:FIXSRC")


class FixsrcProbe(FIXSRC):
    """the real FIXSRC.readWrite; the record bodies are replaced by a monitor: (g, z) = the (group, plane) the next 3D
    record must carry, n = 3D records so far, ok = every one so far was the expected one, head = header records"""

    def _rwFileID(self):
        self.ok = self.ok and self.head == 0 and self.n == 0
        self.head = self.head + 1

    def _rw1DRecord(self):
        self.ok = self.ok and self.head == 1 and self.n == 0
        self.head = self.head + 1

    def _rw3DRecord(self, g, z):
        self.ok = self.ok and self.head == 2 and g == self.g and z == self.z
        self.n = self.n + 1
        if self.z + 1 < self.fc["nintk"]:
            self.z = self.z + 1
        else:
            self.z = 0
            self.g = self.g + 1


@lemma(gen={"ng": (1, 4), "nz": (1, 4)})
def fixsrc_records_are_groups_x_planes(ng: int, nz: int, reading: bool):
    """for EVERY header (NGROUP, NINTK >= 1; loop invariants): FIXSRC.readWrite handles the file identification, then the
    1D record, then exactly one 3D record per (group, plane) in the order groups (outer) x planes (inner)"""
    assume(ng >= 1 and nz >= 1)
    s = new(FixsrcProbe, fc={"ngroup": ng, "nintk": nz}, _fileMode="rb" if reading else "wb", _fileName="FIXSRC",
            ok=True, g=0, z=0, n=0, head=0)
    s.readWrite()
    assert s.ok, "identification, 1D, then every 3D record was the expected (group, plane)"
    assert s.head == 2
    assert s.g == ng and s.z == 0, "all groups x planes visited, none twice"
    assert s.n == ng * nz


@lemma(gen={"ni": (1, 2), "nj": (1, 2), "nz": (1, 2), "ng": (1, 2)})
def fixsrc_file_round_trip(ni: int, nj: int, nz: int, ng: int):
    """a whole FIXSRC file written by the real FIXSRC (constructor, readWrite, _rwFileID, _rw1DRecord, _rw3DRecord,
    real binary records) and read back into a zero array of the same shape: the 13 file-control integers and every
    source value are read back; 2 + NGROUP x NINTK records, each 3D record holding NINTI x NINTJ doubles.
    Shapes 1..2 in each of the four dimensions (16); source values symbolic."""
    ni, nj, nz, ng = choose(ni, 1, 2), choose(nj, 1, 2), choose(nz, 1, 2), choose(ng, 1, 2)
    vals = [[[[sym_real("q_%d_%d_%d_%d" % (i, j, z, g)) for g in range(ng)] for z in range(nz)] for j in range(nj)] for i in range(ni)]
    st = memstream()
    w = FIXSRC("FIXSRC", "wb", np.array(vals))
    w._stream = st
    w.readWrite()
    assert st.nwrites() == 3 * (2 + ng * nz)
    for r in range(ng * nz):
        (count,) = struct.unpack("i", st.written(3 * (2 + r)))
        assert count == 8 * ni * nj, "each 3D record holds one plane of one group"
    st.seek(0)
    r = FIXSRC("FIXSRC", "rb", np.zeros((ni, nj, nz, ng)))
    r._stream = st
    r.readWrite()
    assert r.label == w.label.rstrip() and r.fileId == 1
    for key in w.fc:
        assert r.fc[key] == w.fc[key], "file control entry read back"
    assert r.fc["ngroup"] == ng and r.fc["ninti"] == ni and r.fc["nintj"] == nj and r.fc["nintk"] == nz
    for i in range(ni):
        for j in range(nj):
            for z in range(nz):
                for g in range(ng):
                    assert eq(r.fixSrc[i, j, z, g], vals[i][j][z][g]), "source value read back"


# ----------------------------------------------------------------------------- LABELS
LabelsStream = repo("armi.nuclearDataIO.cccc.labels:LabelsStream")
LabelsData = repo("armi.nuclearDataIO.cccc.labels:LabelsData")
labels = repo("armi.nuclearDataIO.cccc.labels")


class LabelsProbe(LabelsStream):
    """the real LabelsStream.readWrite with the bodies of the implemented records (file id, 1D..5D) replaced by a
    trace; the control-rod and burnup records (6D..11D) stay the real ones (they raise NotImplementedError)"""

    def _rwFileID(self):
        self.trace.append("ID")

    def _rw1DRecord(self):
        self.trace.append("1D")

    def _rw2DRecord(self):
        self.trace.append("2D")

    def _rw3DRecord(self):
        self.trace.append("3D")

    def _rw4DRecord(self):
        self.trace.append("4D")

    def _rw5DRecord(self):
        self.trace.append("5D")


@lemma(gen={"nhts1": (0, 2), "nhts2": (0, 2), "nsets": (0, 3), "nalias": (0, 2), "nbanks": (0, 1), "nvary": (0, 1), "maxbrn": (0, 1), "maxord": (0, 1)})
def labels_records_follow_the_header(nhts1: int, nhts2: int, nsets: int, nalias: int, nbanks: int, nvary: int, maxbrn: int, maxord: int):
    """LABELS file structure (table in labels.py): identification, specifications and label/area data always; the
    finite-geometry transverse distances iff NHTS1 > 0 or NHTS2 > 0; the nuclide set labels iff NSETS > 1; the alias
    zone labels iff NALIAS > 0 - in that order, each at most once; a header that announces control-rod or burnup
    dependent records (which armi cannot handle) is refused (NotImplementedError), not silently shortened."""
    assume(nhts1 >= 0 and nhts2 >= 0 and nsets >= 0 and nalias >= 0 and nbanks >= 0 and nvary >= 0 and maxbrn >= 0 and maxord >= 0)
    meta = {"numHalfHeightsDirection1": nhts1, "numHalfHeightsDirection2": nhts2, "numNuclideSets": nsets, "numZoneAliases": nalias,
            "numControlRodBanks": nbanks, "numBurnupDependentIsotopes": nvary, "maxBurnupDependentGroups": maxbrn, "maxBurnupPolynomialOrder": maxord}
    s = new(LabelsProbe, _metadata=meta, trace=[], _fileMode="wb", _fileName="LABELS")
    try:
        s.readWrite()
        refused = False
    except NotImplementedError:
        refused = True
    assert refused == (nbanks > 0 or nvary > 0 or maxbrn > 0 or maxord > 0), "announced but unsupported records are refused"
    expected = ["ID", "1D", "2D"]
    if nhts1 > 0 or nhts2 > 0:
        expected.append("3D")
    if nsets > 1:
        expected.append("4D")
    if nalias > 0:
        expected.append("5D")
    assert s.trace == expected, "records present exactly as the header says, in file order"


@lemma(gen={"nz": (1, 2), "nh1": (0, 2), "nh2": (0, 1), "nsets": (1, 2), "nalias": (0, 1), "h0": F32, "h1": F32, "e0": F32, "e1": F32, "g0": F32, "x0": F32})
def labels_file_round_trip(nz: int, nh1: int, nh2: int, nsets: int, nalias: int, h0: float, h1: float, e0: float, e1: float, g0: float, x0: float):
    """a whole LABELS file (identification, 27 specification integers, label and area data, and the optional 3D, 4D, 5D
    records as announced) through the real LabelsStream.readWrite and real binary records: everything is read back.
    Shapes: 1..2 zones, 0..2 / 0..1 half heights, 1..2 nuclide sets, 0..1 aliases (48 shapes); reals symbolic."""
    nz, nh1, nh2 = choose(nz, 1, 2), choose(nh1, 0, 2), choose(nh2, 0, 1)
    nsets, nalias = choose(nsets, 1, 2), choose(nalias, 0, 1)
    data = LabelsData()
    for key in labels.FILE_SPEC_1D_KEYS:
        data.metadata[key] = 0
    header = {"numZones": nz, "numRegions": 2, "numAreas": 1, "numRegionAreaAssignments": 1, "numHalfHeightsDirection1": nh1,
              "numHalfHeightsDirection2": nh2, "numNuclideSets": nsets, "numZoneAliases": nalias, "numTrianglesPerHex": 6, "modelDimensions": 3}
    for key in header:
        data.metadata[key] = header[key]
    ident = {"hname": "LABELS", "huse": "ARMI", "huse2": "", "version": 1}
    for key in ident:
        data.metadata[key] = ident[key]
    data.metadata["dummy"] = [0, 0]
    data.zoneLabels = ["ZONE1", "Z2"][:nz]
    data.regionLabels = ["REG001", "REG002"]
    data.areaLabels = ["CORE"]
    data.regionAreaAssignments = ["REG001"]
    data.halfHeightsDirection1 = [h0, h1][:nh1]
    data.extrapolationDistance1 = [e0, e1][:nh1]
    data.halfHeightsDirection2 = [g0][:nh2]
    data.extrapolationDistance2 = [x0][:nh2]
    data.nuclideSetLabels = ["SETA", "SETB"][:nsets]
    data.aliasZoneLabels = ["ALIAS1"][:nalias]
    zl, rl, al, ra, ns, az = (list(data.zoneLabels), list(data.regionLabels), list(data.areaLabels), list(data.regionAreaAssignments),
                              list(data.nuclideSetLabels), list(data.aliasZoneLabels))  # (writing replaces the lists by arrays)
    st = memstream()
    stream(LabelsStream, "LABELS", "wb", st, data).readWrite()
    nrec = 3 + (1 if nh1 + nh2 > 0 else 0) + (1 if nsets > 1 else 0) + (1 if nalias > 0 else 0)
    assert st.nwrites() == 3 * nrec, "records present exactly as announced"
    st.seek(0)
    back = LabelsData()
    stream(LabelsStream, "LABELS", "rb", st, back).readWrite()
    for key in labels.FILE_SPEC_1D_KEYS:
        assert back.metadata[key] == data.metadata[key], "specification read back"
    for key in ident:
        assert back.metadata[key] == ident[key]
    assert list(back.zoneLabels) == zl and list(back.regionLabels) == rl
    assert list(back.areaLabels) == al and list(back.regionAreaAssignments) == ra
    if nh1 + nh2 > 0:
        assert len(back.halfHeightsDirection1) == nh1 and len(back.extrapolationDistance1) == nh1
        assert len(back.halfHeightsDirection2) == nh2 and len(back.extrapolationDistance2) == nh2
        for k in range(nh1):
            assert eq(back.halfHeightsDirection1[k], [h0, h1][k]) and eq(back.extrapolationDistance1[k], [e0, e1][k])
        for k in range(nh2):
            assert eq(back.halfHeightsDirection2[k], g0) and eq(back.extrapolationDistance2[k], x0)
    if nsets > 1:
        assert list(back.nuclideSetLabels) == ns
    if nalias > 0:
        assert list(back.aliasZoneLabels) == az


# ----------------------------------------------------------------------------- DIF3D: optional 4D / 5D records, whole file
dif3d = repo("armi.nuclearDataIO.cccc.dif3d")
Dif3dStream = repo("armi.nuclearDataIO.cccc.dif3d:Dif3dStream")
Dif3dData = repo("armi.nuclearDataIO.cccc.dif3d:Dif3dData")


@lemma(gen={"numorp": (0, 2), "ncmrzs": (0, 2), "iv": (-99, 99), "w1": (0.5, 2.0), "w2": (0.5, 2.0), "z1": (0.0, 100.0), "z2": (0.0, 100.0), "n1": (1, 9), "n2": (1, 9)})
def dif3d_file_round_trip(numorp: int, ncmrzs: int, iv: int, x: float, w1: float, w2: float, z1: float, z2: float, n1: int, n2: int):
    """a whole DIF3D control file through the real Dif3dStream.readWrite and real binary records: identification, 1D
    title record, the 2D integer and 3D real control parameters always; the 4D record (NUMORP overrelaxation factors) iff
    NUMORP > 0; the 5D record (NCMRZS rebalancing boundaries and interval counts) iff NCMRZS > 0; everything is read
    back.  NUMORP, NCMRZS in 0..2 enumerated; parameter values symbolic."""
    numorp, ncmrzs = choose(numorp, 0, 2), choose(ncmrzs, 0, 2)
    assume(-2147483648 <= iv and iv <= 2147483647 and 0 <= n1 and n1 <= 1000 and 0 <= n2 and n2 <= 1000)
    data = Dif3dData()
    ident = {"HNAME": "DIF3D", "HUSE1": "ARMI", "HUSE2": "", "VERSION": 1, "MAXSIZ": 1000, "MAXBLK": 10, "IPRINT": iv}
    for key in ident:
        data.metadata[key] = ident[key]
    for i in range(dif3d.TITLE_RANGE):
        data.metadata["TITLE%d" % i] = "T%d" % i
    for key in dif3d.FILE_SPEC_2D_PARAMS:
        data.twoD[key] = iv
    data.twoD["NUMORP"], data.twoD["NCMRZS"] = numorp, ncmrzs
    for key in dif3d.FILE_SPEC_3D_PARAMS:
        data.threeD[key] = x
    omega, zc, nzi = [w1, w2][:numorp], [z1, z2][:ncmrzs], [n1, n2][:ncmrzs]
    if numorp > 0:
        data.fourD = {"OMEGA%d" % (e + 1): omega[e] for e in range(numorp)}
    if ncmrzs > 0:
        data.fiveD = {"ZCMRC%d" % (e + 1): zc[e] for e in range(ncmrzs)}
        for e in range(ncmrzs):
            data.fiveD["NZINTS%d" % (e + 1)] = nzi[e]
    st = memstream()
    stream(Dif3dStream, "DIF3D", "wb", st, data).readWrite()
    assert st.nwrites() == 3 * (4 + (1 if numorp > 0 else 0) + (1 if ncmrzs > 0 else 0)), "optional records iff announced"
    sizes = [3 * 8 + 4, dif3d.TITLE_RANGE * 8 + 3 * 4, 4 * len(dif3d.FILE_SPEC_2D_PARAMS), 8 * len(dif3d.FILE_SPEC_3D_PARAMS)]
    if numorp > 0:
        sizes.append(8 * numorp)
    if ncmrzs > 0:
        sizes.append((8 + 4) * ncmrzs)
    for r in range(len(sizes)):
        (count,) = struct.unpack("i", st.written(3 * r))
        assert count == sizes[r], "record length: 8-character words, 4-byte integers, double-precision reals"
    st.seek(0)
    back = Dif3dData()
    stream(Dif3dStream, "DIF3D", "rb", st, back).readWrite()
    for key in ident:
        assert back.metadata[key] == ident[key]
    for i in range(dif3d.TITLE_RANGE):
        assert back.metadata["TITLE%d" % i] == "T%d" % i
    for key in dif3d.FILE_SPEC_2D_PARAMS:
        assert back.twoD[key] == data.twoD[key], "integer control parameter read back"
    for key in dif3d.FILE_SPEC_3D_PARAMS:
        assert eq(back.threeD[key], x), "real control parameter read back"
    assert (back.fourD is None) == (numorp == 0) and (back.fiveD is None) == (ncmrzs == 0)
    for e in range(numorp):
        assert eq(back.fourD["OMEGA%d" % (e + 1)], omega[e])
    if numorp > 0:
        assert len(back.fourD) == numorp
    for e in range(ncmrzs):
        assert eq(back.fiveD["ZCMRC%d" % (e + 1)], zc[e]) and back.fiveD["NZINTS%d" % (e + 1)] == nzi[e]
    if ncmrzs > 0:
        assert len(back.fiveD) == 2 * ncmrzs


# ----------------------------------------------------------------------------- widened shapes (assumption review)
@lemma(gen={"ni": (1, 2), "w": (0, 2), "nk": (1, 2), "ng": (1, 2), "effk": F32, "power": F32, "it": (0, 99)})
def rtflux_file_round_trip_single_mesh_line_or_three_bands(ni: int, w: int, nk: int, ng: int, effk: float, power: float, it: int, adjoint: bool):
    """rtflux_file_round_trip enumerates NINTJ 2..3 x NBLOK 1..2.  Here the shapes it leaves out at the edges of the
    banding: ONE mesh line (NINTJ = 1) with NBLOK 1 or 2 (the second band is empty) and NBLOK = 3 with NINTJ = 3 (one
    line per band) - a file with a single j line is what a 1-D / hex-z problem writes"""
    ni, nk, ng = choose(ni, 1, 2), choose(nk, 1, 2), choose(ng, 1, 2)
    w = choose(w, 0, 2)
    nj, nb = [(1, 1), (1, 2), (3, 3)][w]
    rtflux_round_trip_case(ni, nj, nk, ng, nb, effk, power, it, adjoint)
