"""C09 - PMATRX (gamma production matrices, MC2-3): which records an isotope has follows its heading record; whole-file
round trip and write(read(file)) == file through the real PmatrxIO.readWrite / _PmatrxNuclideIO (armi/nuclearDataIO/
cccc/pmatrx.py), the real IsotxsLibrary / XSNuclide and the real binary records on the in-memory stream (model A4).

File structure (pmatrx.py): file identification / sizes; group structures; dose conversion factors IFF the file says it
has them; isotope names; then per isotope: heading (flags and counts), neutron heating + damage IFF flagged, one
record per activation cross section (NXS of them), gamma heating IFF flagged, one production matrix (neutron groups x
gamma groups) per Legendre order 1..MAXORD.
Collaborator replaced: XSNuclide.updateBaseNuclide (look-up in the global nuclide directory) by a no-op stub.
The clauses the unchanged tree violates (activation records, order >= 3) are in contracts/pending/C09_pmatrx_finding.py.
"""
import struct

import numpy as np

from spec import *

PmatrxIO = repo("armi.nuclearDataIO.cccc.pmatrx:PmatrxIO")
PmatrxNuclideIO = repo("armi.nuclearDataIO.cccc.pmatrx:_PmatrxNuclideIO")
IsotxsLibrary = repo("armi.nuclearDataIO.xsLibraries:IsotxsLibrary")
XSNuclide = repo("armi.nuclearDataIO.xsNuclides:XSNuclide")
NuclideMetadata = repo("armi.nuclearDataIO.nuclearFileMetadata:NuclideMetadata")

F32 = [0.5, -1.25, 3.0, 1024.0, 0.0, 7.0]  # exactly representable in single precision
LABELS = ["U235AA", "FE56AA"]


def no_base_lookup(self):
    """contract assumed for XSNuclide.updateBaseNuclide: touches neither the file nor the data"""
    return None


STUBS = {"armi.nuclearDataIO.xsNuclides:XSNuclide.updateBaseNuclide": "no_base_lookup"}


# ----------------------------------------------------------------------------- records of one isotope (probe)
class RecordProbe:
    """stand-in for a binary record in writing mode: every field method returns what it is given and notes
    (record number, field kind, shape) in the trace of the stream probe"""

    def __init__(self, io):
        self.io = io

    def __enter__(self):
        self.io.nrec = self.io.nrec + 1
        return self

    def __exit__(self, a, b, c):
        return None

    def rwBool(self, val):
        self.io.trace.append((self.io.nrec, "bool"))
        return val

    def rwInt(self, val):
        self.io.trace.append((self.io.nrec, "int"))
        return val

    def rwMatrix(self, contents, *shape):
        self.io.trace.append((self.io.nrec, "matrix", contents, shape))
        return contents


class StreamProbe:
    """stand-in for PmatrxIO as seen by the isotope reader/writer: createRecord()"""

    def createRecord(self):
        return RecordProbe(self)


class NuclideStub:
    """stand-in for XSNuclide: the data attributes of the PMATRX part (names only; the probe never looks inside)"""


@lemma(gen={"maxord": (0, 2), "nng": (1, 3), "ngg": (1, 3)})
def pmatrx_isotope_records_follow_the_heading(heat: bool, gheat: bool, maxord: int, nng: int, ngg: int):
    """records of one isotope for every heading (flags symbolic, MAXORD 0..2 enumerated, no activation cross sections,
    group counts symbolic): record 1 = heading (flag, order, flag, NXS, region: bool int bool int int); then the
    neutron heating + damage record (two vectors over the neutron groups) iff flagged; the gamma heating record (one
    vector over the gamma groups) iff flagged; then one production matrix record (neutron groups x gamma groups) per
    order, order 1 = isotropic, 2 = linear anisotropic - in this order, nothing else.  Stand-ins: RecordProbe,
    StreamProbe, NuclideStub."""
    maxord = choose(maxord, 0, 2)
    assume(nng >= 1 and ngg >= 1)
    meta = NuclideMetadata()
    meta["hasNeutronHeatingAndDamage"], meta["maxScatteringOrder"], meta["hasGammaHeating"] = heat, maxord, gheat
    meta["numberNeutronXS"], meta["collapsingRegionNumber"] = 0, 1
    nuc = new(NuclideStub, neutronHeating="nh", neutronDamage="nd", gammaHeating="gh", isotropicProduction="p1",
              linearAnisotropicProduction="p2", nOrderProductionMatrix={})
    io = new(StreamProbe, trace=[], nrec=0)
    rw = new(PmatrxNuclideIO, _nuclide=nuc, _metadata=meta, _pmatrixIO=io, _numNeutronGroups=nng, _numGammaGroups=ngg)
    rw.rwNuclide()
    expected = [(1, "bool"), (1, "int"), (1, "bool"), (1, "int"), (1, "int")]
    r = 1
    if heat:
        r = r + 1
        expected.extend([(r, "matrix", "nh", (nng,)), (r, "matrix", "nd", (nng,))])
    if gheat:
        r = r + 1
        expected.append((r, "matrix", "gh", (ngg,)))
    for lrd in range(1, maxord + 1):
        r = r + 1
        expected.append((r, "matrix", "p%d" % lrd, (nng, ngg)))
    assert io.nrec == r, "number of records of the isotope"
    assert io.trace == expected, "records and their fields exactly as the heading announces, in file order"


# ----------------------------------------------------------------------------- whole library through the real records
def pmatrx_library(niso, nng, ngg, dose, heat, gheat, maxord, x, w):
    """a library as the PMATRX reader leaves it: niso isotopes, nng neutron x ngg gamma groups; isotope k has neutron
    heating iff heat[k], gamma heating iff gheat[k], production matrices of orders 1..maxord[k]"""
    lib = IsotxsLibrary()
    m = lib.pmatrxMetadata
    ints = {"numberCollapsingSpatialRegions": 1, "numGammaGroups": ngg, "numNeutronGroups": nng, "maxScatteringOrder": 2,
            "maxNumberOfCompositions": 3, "maxMaterials": 4, "maxNumberOfRegions": 5, "maxNumberOfCollapsingRegions": 6, "_dummy1": 7, "_dummy2": 8}
    for key in ints:
        m[key] = ints[key]
    m["hasInPlateData"], m["hasDoseConversionFactor"] = False, dose
    m["minimumNeutronEnergy"], m["minimumGammaEnergy"] = x[0], x[1]
    lib.neutronEnergyUpperBounds = np.array([x[2], x[3]][:nng])
    lib.gammaEnergyUpperBounds = np.array([x[4], x[5]][:ngg])
    if dose:
        lib.neutronDoseConversionFactors = np.array([x[6], x[7]][:nng])
        lib.gammaDoseConversionFactors = np.array([x[8], x[9]][:ngg])
    for k in range(niso):
        nuc = XSNuclide(lib, LABELS[k])
        lib[LABELS[k]] = nuc
        nm = nuc.pmatrxMetadata
        nm["hasNeutronHeatingAndDamage"], nm["maxScatteringOrder"], nm["hasGammaHeating"] = heat[k], maxord[k], gheat[k]
        nm["numberNeutronXS"], nm["collapsingRegionNumber"] = 0, k + 1
        if heat[k]:
            nuc.neutronHeating = np.array([w[k][0], w[k][1]][:nng])
            nuc.neutronDamage = np.array([w[k][2], w[k][3]][:nng])
        if gheat[k]:
            nuc.gammaHeating = np.array([w[k][4], w[k][5]][:ngg])
        # production matrices as the reader builds them: (gamma groups, neutron groups)
        if maxord[k] >= 1:
            nuc.isotropicProduction = np.array([[w[k][6 + 2 * g + n] for n in range(nng)] for g in range(ngg)])
        if maxord[k] >= 2:
            nuc.linearAnisotropicProduction = np.array([[w[k][10 + 2 * g + n] for n in range(nng)] for g in range(ngg)])
    return lib, ints


def pmatrx_io(mode, st, lib):
    if "r" in mode:
        get = lambda label: XSNuclide(lib, label)
    else:
        get = lambda label: lib[label]
    return new(PmatrxIO, _fileName="PMATRX", _fileMode=mode, _stream=st, _lib=lib, _metadata=lib.pmatrxMetadata, _getNuclide=get,
               _dummyNuclideKeysAddedToLibrary=[])


def record_sizes(niso, nng, ngg, dose, heat, gheat, maxord):
    """payload length of every record in file order (4-byte integers, logicals and reals, 8-character names)"""
    sizes = [4 * 13, 4 * (nng + 1 + ngg + 1)]
    if dose:
        sizes.append(4 * (nng + ngg))
    sizes.append(8 * niso + 4 * niso)
    for k in range(niso):
        sizes.append(4 * 5)
        if heat[k]:
            sizes.append(4 * 2 * nng)
        if gheat[k]:
            sizes.append(4 * ngg)
        sizes.extend([4 * nng * ngg] * maxord[k])
    return sizes


def same_array(a, b):
    fa, fb = a.flatten(), b.flatten()
    return a.shape == b.shape and all([eq(fa[i], fb[i]) for i in range(a.size)])


def same_or_absent(got, want):
    if want is None:
        return got is None
    return got is not None and same_array(got, want)


G_PM = {"niso": (1, 2), "nng": (1, 2), "ngg": (1, 2), "oc": (0, 2), "hp": (0, 2)}
ORDERS = [(0, 1), (1, 2), (2, 0)]                            # MAXORD of (first, second) isotope
HEATING = [(False, False), (True, False), (True, True)]      # (neutron heating, gamma heating) of the first isotope
for _k in range(10):
    G_PM["x%d" % _k] = F32
for _k in range(14):
    G_PM["w%d" % _k] = F32


@lemma(gen=G_PM, stubs=STUBS)
def pmatrx_library_round_trip(niso: int, nng: int, ngg: int, dose: bool, hp: int, oc: int,
                              x0: float, x1: float, x2: float, x3: float, x4: float, x5: float, x6: float, x7: float, x8: float, x9: float,
                              w0: float, w1: float, w2: float, w3: float, w4: float, w5: float, w6: float, w7: float,
                              w8: float, w9: float, w10: float, w11: float, w12: float, w13: float):
    """a whole PMATRX library written by the real PmatrxIO.readWrite / _PmatrxNuclideIO and read back into an empty
    IsotxsLibrary: the records on the stream are exactly those the flags announce, each with the specified length; the
    13 file control words, both group structures, the dose conversion factors iff announced, and per isotope the heading,
    heating / damage vectors iff flagged and every production matrix are read back; data the file does not hold stay
    unset.  Enumerated: 1..2 isotopes x 1..2 neutron x 1..2 gamma groups x MAXORD (0,1) / (1,2) / (2,0) of the two isotopes
    x (neutron, gamma) heating of the first isotope none / neutron / both, the second isotope the opposite; dose flag
    symbolic; reals symbolic."""
    niso, nng, ngg = choose(niso, 1, 2), choose(nng, 1, 2), choose(ngg, 1, 2)
    o0, o1 = ORDERS[choose(oc, 0, 2)]
    h0, g0 = HEATING[choose(hp, 0, 2)]
    x = [x0, x1, x2, x3, x4, x5, x6, x7, x8, x9]
    w = [w0, w1, w2, w3, w4, w5, w6, w7, w8, w9, w10, w11, w12, w13]
    heat, gheat, maxord = [h0, not h0], [g0, not g0], [o0, o1]
    lib, ints = pmatrx_library(niso, nng, ngg, dose, heat, gheat, maxord, x, [w, [v + 1.0 for v in w]])
    st = memstream()
    pmatrx_io("wb", st, lib).readWrite()
    sizes = record_sizes(niso, nng, ngg, dose, heat, gheat, maxord)
    assert st.nwrites() == 3 * len(sizes), "exactly the records the flags announce"
    for r in range(len(sizes)):
        (count,) = struct.unpack("i", st.written(3 * r))
        assert count == sizes[r], "record length as the file structure prescribes"
    st.seek(0)
    back = IsotxsLibrary()
    pmatrx_io("rb", st, back).readWrite()
    ref, ints = pmatrx_library(niso, nng, ngg, dose, heat, gheat, maxord, x, [w, [v + 1.0 for v in w]])
    bm = back.pmatrxMetadata
    for key in ints:
        assert bm[key] == ints[key], "file control word read back"
    assert bm["hasInPlateData"] == False and bm["hasDoseConversionFactor"] == dose
    assert eq(bm["minimumNeutronEnergy"], x0) and eq(bm["minimumGammaEnergy"], x1)
    assert same_array(back.neutronEnergyUpperBounds, ref.neutronEnergyUpperBounds) and same_array(back.gammaEnergyUpperBounds, ref.gammaEnergyUpperBounds)
    if dose:
        assert same_array(back.neutronDoseConversionFactors, ref.neutronDoseConversionFactors)
        assert same_array(back.gammaDoseConversionFactors, ref.gammaDoseConversionFactors)
    assert back.nuclideLabels == LABELS[:niso], "the isotopes of the file, in file order"
    for k in range(niso):
        b, a = back[LABELS[k]], ref[LABELS[k]]
        for key in ["hasNeutronHeatingAndDamage", "maxScatteringOrder", "hasGammaHeating", "numberNeutronXS", "collapsingRegionNumber"]:
            assert b.pmatrxMetadata[key] == a.pmatrxMetadata[key], "isotope heading read back"
        assert same_or_absent(b.neutronHeating, a.neutronHeating) and same_or_absent(b.neutronDamage, a.neutronDamage)
        assert same_or_absent(b.gammaHeating, a.gammaHeating)
        assert same_or_absent(b.isotropicProduction, a.isotropicProduction), "isotropic production matrix read back"
        assert same_or_absent(b.linearAnisotropicProduction, a.linearAnisotropicProduction)
        assert len(b.nOrderProductionMatrix) == 0


@lemma(gen=G_PM, stubs=STUBS)
def pmatrx_rewrite_of_what_was_read_is_the_same_file(niso: int, nng: int, ngg: int, dose: bool, hp: int, oc: int,
                                                     x0: float, x1: float, x2: float, x3: float, x4: float, x5: float, x6: float, x7: float, x8: float, x9: float,
                                                     w0: float, w1: float, w2: float, w3: float, w4: float, w5: float, w6: float, w7: float,
                                                     w8: float, w9: float, w10: float, w11: float, w12: float, w13: float):
    """write(read(file)) == file for PMATRX: the library read from a file, written again by the real code, produces the
    same sequence of stream writes, field by field equal bytes.  Same enumeration as pmatrx_library_round_trip."""
    niso, nng, ngg = choose(niso, 1, 2), choose(nng, 1, 2), choose(ngg, 1, 2)
    o0, o1 = ORDERS[choose(oc, 0, 2)]
    h0, g0 = HEATING[choose(hp, 0, 2)]
    x = [x0, x1, x2, x3, x4, x5, x6, x7, x8, x9]
    w = [w0, w1, w2, w3, w4, w5, w6, w7, w8, w9, w10, w11, w12, w13]
    lib, ints = pmatrx_library(niso, nng, ngg, dose, [h0, not h0], [g0, not g0], [o0, o1], x, [w, [v + 1.0 for v in w]])
    st = memstream()
    pmatrx_io("wb", st, lib).readWrite()
    st.seek(0)
    back = IsotxsLibrary()
    pmatrx_io("rb", st, back).readWrite()
    st2 = memstream()
    pmatrx_io("wb", st2, back).readWrite()
    assert st2.nwrites() == st.nwrites(), "same number of records"
    for k in range(st.nwrites()):
        assert st2.written(k) == st.written(k), "same bytes"
