"""C02 - mass / volume / number-density accounting of Component, Composite and Block (the real methods).

World of these lemmas (stand-ins, all named here):
* nuclide table: four nuclides A, B, C, D with ARBITRARY positive atomic weights (uninterpreted constants w1..w4;
  override of nuclideBases.byName, stub of nucDir.getAtomicWeight = "the weight recorded in the table"), one chemical
  element E = {A, B} (override of elements.bySymbol) so that an element selection is exercised as well;
* `self.p` of every object is a PMap (name -> value map: trusted view of a ParameterCollection, as in C03);
* component volumes are given through `p.volume` (the cached volume that Component.getVolume returns); the
  shape-specific area code is covered by C03.
Everything else - Component / Composite / Block methods, densityTools, units - is the real armi text.
Shapes enumerated: number of children k = 1..3 (choose); nuclides per component <= 3.  Contents symbolic.
"""
from spec import *

composites = repo("armi.reactor.composites")
Composite = repo("armi.reactor.composites:Composite")
Component = repo("armi.reactor.components.component:Component")
Block = repo("armi.reactor.blocks:Block")
densityTools = repo("armi.utils.densityTools")
units = repo("armi.utils.units")


class Nuc:
    pass


class Elem:
    pass


class PMap:
    """Abstract view of a ParameterCollection: a name -> value map (trusted model of `self.p`)."""

    def __getitem__(self, k):
        return getattr(self, k)

    def __setitem__(self, k, v):
        setattr(self, k, v)

    def get(self, k, d=None):
        return getattr(self, k, d)

    def __contains__(self, k):
        return hasattr(self, k)


W1 = 1.0079
W2 = 235.04
W3 = 15.9949
W4 = 238.05

def nuc(name, w, sym):
    return new(Nuc, name=name, weight=w if NATIVE else uf(sym))


TABLE = {"A": nuc("A", W1, "w1"), "B": nuc("B", W2, "w2"), "C": nuc("C", W3, "w3"), "D": nuc("D", W4, "w4")}
ELEMENTS = {"E": new(Elem, nuclides=[TABLE["A"], TABLE["B"]])}


def weight_contract(nucName):
    """contract of nucDir.getAtomicWeight: the weight recorded for that nuclide in the table"""
    return TABLE[nucName].weight


OV = {"armi.nucDirectory.nuclideBases:byName": "TABLE", "armi.nucDirectory.elements:bySymbol": "ELEMENTS"}
ST = {"armi.nucDirectory.nucDir:getAtomicWeight": "weight_contract"}
K = units.MOLES_PER_CC_TO_ATOMS_PER_BARN_CM


def weights_positive():
    assume(TABLE["A"].weight > 0 and TABLE["B"].weight > 0 and TABLE["C"].weight > 0 and TABLE["D"].weight > 0)


def wt(n):
    return TABLE[n].weight


def component(nd, vol, parent=None):
    """a Component holding the number densities `nd` with (cached) volume `vol`"""
    p = new(PMap, numberDensities=nd, volume=vol, detailedNDens=None, pinNDens=None)
    return new(Component, p=p, parent=parent, cached={})


GEN = {"a": (0.0, 0.1), "b": (0.0, 0.1), "c": (0.0, 0.1), "V": (-200.0, 500.0)}


@lemma(overrides=OV, stubs=ST, gen=GEN)
def component_mass_is_density_times_volume(a: float, b: float, c: float, V: float):
    """Component.getMass (total, nuclide, element, list) = sum_i N_i A_i / K x V; getMasses / getNumberOfAtoms agree."""
    weights_positive()
    # no hypothesis on the volume: signed (a gap component has a negative one), zero
    comp = component({"A": a, "B": b, "C": c}, V)
    assert eq(comp.getVolume(), V)
    rho = (a * wt("A") + b * wt("B") + c * wt("C")) / K
    assert eq(comp.getMass(), rho * V), "mass = density x volume"
    assert eq(comp.getMass("B"), b * wt("B") / K * V), "mass of one nuclide"
    assert eq(comp.getMass("E"), (a * wt("A") + b * wt("B")) / K * V), "mass of an element = its nuclides"
    assert eq(comp.getMass(["A", "C"]), (a * wt("A") + c * wt("C")) / K * V), "mass of a list"
    assert eq(comp.getMass("D"), 0.0), "a nuclide that is not there has no mass"
    assert eq(comp.getNumberDensity("B"), b) and eq(comp.getNumberDensity("D"), 0.0)
    assert eq(comp.getNuclideNumberDensities(["C", "D", "A"]), [c, 0.0, a])
    assert eq(comp.getNumberOfAtoms("B"), b * V / units.CM2_PER_BARN), "atoms = density x volume"
    ms = comp.getMasses()
    assert eq(ms["A"], comp.getMass("A")) and eq(ms["B"], comp.getMass("B")) and eq(ms["C"], comp.getMass("C"))
    assert eq(ms["A"] + ms["B"] + ms["C"], comp.getMass()), "total = sum over nuclides"
    if rho != 0:  # an all-zero composition defers to the material's density: known finding F57 (density.component.all-zero)
        assert eq(comp.density(), rho), "density() is the mass density"


def composite(cls, kids, **attrs):
    """a `cls` object (Composite / Block probe) whose children are `kids`"""
    parent = new(cls, name="o", _children=kids, p=new(PMap, detailedNDens=None, pinNDens=None), parent=None, cached={}, **attrs)
    for c in kids:
        c.parent = parent
    return parent


def three_children(k, a1, b1, v1, b2, c2, v2, a3, b3, c3, v3):
    """k = 1..3 components with different (overlapping) nuclide sets: {A,B}, {B,C}, {A,B,C}"""
    kids = [component({"A": a1, "B": b1}, v1), component({"B": b2, "C": c2}, v2), component({"A": a3, "B": b3, "C": c3}, v3)]
    nd = [{"A": a1, "B": b1, "C": 0.0, "D": 0.0}, {"A": 0.0, "B": b2, "C": c2, "D": 0.0}, {"A": a3, "B": b3, "C": c3, "D": 0.0}]
    return kids[:k], nd[:k], [v1, v2, v3][:k]


def rho_of(nd, nucs):
    """mass density of the nuclides `nucs` of a composition (the densityTools formula)"""
    return sum(nd[n] * wt(n) for n in nucs) / K


GEN3 = {"k": (1, 3), "a1": (0.0, 0.1), "b1": (0.0, 0.1), "b2": (0.0, 0.1), "c2": (0.0, 0.1), "a3": (0.0, 0.1), "b3": (0.0, 0.1), "c3": (0.0, 0.1),
        "v1": (-200.0, 500.0), "v2": (-200.0, 500.0), "v3": (-200.0, 500.0), "sf": [1.0, 2.0, 3.0, 4.0]}
# volumes are SIGNED (a gap component has a negative area that compensates the overlap of its hot neighbours) and may be zero;
# the only hypothesis on them is the one the specification expression itself needs: a non-zero divisor.


@lemma(overrides=OV, stubs=ST, gen=GEN3)
def composite_mass_and_volume_are_sums_over_children(k: int, a1: float, b1: float, v1: float, b2: float, c2: float, v2: float, a3: float, b3: float, c3: float, v3: float):
    """Composite.getMass / getVolume over k = 1..3 real Component children: mass (total, nuclide, element, list) and volume
    are the sums of the children's; and equal sum_i rho_i V_i with the densityTools formula."""
    weights_positive()
    # no hypothesis on the volumes: signed (gap components), zero, any order
    k = choose(k, 1, 3)
    kids, nd, vol = three_children(k, a1, b1, v1, b2, c2, v2, a3, b3, c3, v3)
    o = composite(Composite, kids)
    assert eq(o.getVolume(), sum(vol)), "volume = sum of the children's volumes"
    assert eq(o.getVolume(), sum(c.getVolume() for c in kids))
    for sel, nucs in ((None, ["A", "B", "C"]), ("B", ["B"]), ("E", ["A", "B"]), (["C", "A"], ["A", "C"]), ("D", [])):
        m = o.getMass(sel)
        assert eq(m, sum(c.getMass(sel) for c in kids)), "mass = sum of the children's masses"
        assert eq(m, sum(rho_of(nd[i], nucs) * vol[i] for i in range(k))), "mass = sum of density x volume over the leaves"


@lemma(overrides=OV, stubs=ST, gen=GEN3)
def composite_number_density_is_volume_weighted_mean(k: int, a1: float, b1: float, v1: float, b2: float, c2: float, v2: float, a3: float, b3: float, c3: float, v3: float):
    """Composite.getNumberDensity / getNuclideNumberDensities / _getNdensHelper / getNumberDensities / getNumberOfAtoms /
    getMasses / getMassFrac / density over k = 1..3 real Component children."""
    weights_positive()
    # (S) the only hypothesis on the SIGNED volumes: the divisor of the mean is not zero (assumed below, once `vol` is known)
    k = choose(k, 1, 3)
    kids, nd, vol = three_children(k, a1, b1, v1, b2, c2, v2, a3, b3, c3, v3)
    o = composite(Composite, kids)
    V = sum(vol)
    assume(V != 0)
    mean = {n: sum(nd[i][n] * vol[i] for i in range(k)) / V for n in ("A", "B", "C", "D")}
    for n in ("A", "B", "C", "D"):
        assert eq(o.getNumberDensity(n), mean[n]), "number density = volume-weighted mean of the children's"
        assert eq(o.getNumberDensity(n) * o.getVolume(), sum(c.getNumberDensity(n) * c.getVolume() for c in kids))
        assert eq(o.getNumberOfAtoms(n), sum(c.getNumberOfAtoms(n) for c in kids)), "atoms agree between parent and children"
        assert eq(o.getNumberOfAtoms(n), mean[n] * V / units.CM2_PER_BARN), "atoms = density x volume"
    assert eq(list(o.getNuclideNumberDensities(["C", "D", "A"])), [mean["C"], 0.0, mean["A"]]), "list query, in the order asked"
    present = sorted(set(n for c in kids for n in c.getNuclides()))
    for h in (o._getNdensHelper(), o.getNumberDensities()):
        assert sorted(h.keys()) == present, "exactly the nuclides some child holds"
        for n in present:
            assert eq(h[n], mean[n])


@lemma(overrides=OV, stubs=ST, gen=dict(GEN3, v2=(-5.0, -0.001), v1=(3.0, 500.0)))
def composite_with_a_child_of_negative_volume_accounts_like_its_leaves(a1: float, b1: float, v1: float, b2: float, c2: float, v2: float, a3: float, b3: float, c3: float, v3: float):
    """A child may have a NEGATIVE volume (the gap component whose negative area compensates the overlap of its hot
    neighbours): volume, atoms, number densities and mass of the parent are still the signed sums / the signed
    volume-weighted mean over ALL children, so density x volume = mass and atoms agree between the levels."""
    weights_positive()
    assume(v1 > 0 and v2 < 0 and v3 > 0 and v1 + v2 + v3 > 0)
    kids, nd, vol = three_children(3, a1, b1, v1, b2, c2, v2, a3, b3, c3, v3)
    o = composite(Composite, kids)
    V = v1 + v2 + v3
    assert eq(o.getVolume(), V), "volume = signed sum of the children's volumes"
    mean = {n: sum(nd[i][n] * vol[i] for i in range(3)) / V for n in ("A", "B", "C", "D")}
    for n in ("A", "B", "C"):
        assert eq(o.getNumberDensity(n), mean[n]), "number density = signed volume-weighted mean over all children"
        assert eq(o.getNumberDensity(n) * o.getVolume(), sum(c.getNumberDensity(n) * c.getVolume() for c in kids)), "atoms agree"
    assert eq(list(o.getNuclideNumberDensities(["C", "D", "A"])), [mean["C"], 0.0, mean["A"]])
    assert eq(o.getMass(), sum(c.getMass() for c in kids)), "mass = sum of the children's masses"
    assert eq(o.density() * o.getVolume(), o.getMass()), "mass = density x volume at the parent's level"


@lemma(overrides=OV, stubs=ST, gen=GEN3)
def composite_mass_is_density_times_volume(k: int, a1: float, b1: float, v1: float, b2: float, c2: float, v2: float, a3: float, b3: float, c3: float, v3: float):
    """ArmiObject.density x Composite.getVolume = Composite.getMass, k = 1..3 real Component children."""
    weights_positive()
    # (S) signed volumes; the total must not vanish (below): with V = 0 the mean density is undefined
    k = choose(k, 1, 3)
    kids, nd, vol = three_children(k, a1, b1, v1, b2, c2, v2, a3, b3, c3, v3)
    o = composite(Composite, kids)
    assume(sum(vol) != 0)
    assert eq(o.density() * o.getVolume(), o.getMass()), "mass = density x volume at the parent's level"
    assert eq(o.density() * sum(vol), sum(rho_of(nd[i], ["A", "B", "C"]) * vol[i] for i in range(k)))


@lemma(overrides=OV, stubs=ST, gen=GEN3)
def composite_getMasses_agrees_with_getMass(k: int, a1: float, b1: float, v1: float, b2: float, c2: float, v2: float, a3: float, b3: float, c3: float, v3: float):
    """ArmiObject.getMasses()[n] = getMass(n) for every nuclide present; the total is their sum.  k = 1..3 children."""
    weights_positive()
    k = choose(k, 1, 3)
    kids, nd, vol = three_children(k, a1, b1, v1, b2, c2, v2, a3, b3, c3, v3)
    o = composite(Composite, kids)
    # (S) signed volumes, zero allowed; getMasses goes through the mean density, undefined for a total volume of zero
    assume(sum(vol) != 0)
    present = sorted(set(n for c in kids for n in c.getNuclides()))
    ms = o.getMasses()
    assert sorted(ms.keys()) == present
    for n in present:
        assert eq(ms[n], sum(nd[i][n] * wt(n) / K * vol[i] for i in range(k))), "getMasses()[n] is the mass of n"
    assert eq(sum(ms[n] for n in present), sum(rho_of(nd[i], ["A", "B", "C"]) * vol[i] for i in range(k)))


@lemma(overrides=OV, stubs=ST, gen=GEN3)
def composite_mass_fractions_are_mass_ratios(k: int, a1: float, b1: float, v1: float, b2: float, c2: float, v2: float, a3: float, b3: float, c3: float, v3: float):
    """ArmiObject.getMassFrac / getMassFracs: fraction of n (nuclide or element) = mass of n / total mass.  k = 1..3 children."""
    weights_positive()
    k = choose(k, 1, 3)
    kids, nd, vol = three_children(k, a1, b1, v1, b2, c2, v2, a3, b3, c3, v3)
    o = composite(Composite, kids)
    # (S) signed volumes, zero allowed; the fractions go through the mean density, undefined for a total volume of zero
    # (and the total MASS must not vanish for a fraction to exist: `if total != 0`)
    assume(sum(vol) != 0)
    present = sorted(set(n for c in kids for n in c.getNuclides()))
    mass = {n: sum(nd[i][n] * wt(n) / K * vol[i] for i in range(k)) for n in ("A", "B", "C")}
    total = mass["A"] + mass["B"] + mass["C"]
    fr = o.getMassFracs()
    assert sorted(fr.keys()) == present
    if total != 0:
        for n in present:
            assert eq(fr[n], mass[n] / total), "mass fraction = mass of n / total mass"
        assert eq(sum(fr[n] for n in present), 1.0), "mass fractions sum to one"
        assert eq(o.getMassFrac("B"), mass["B"] / total)
        assert eq(o.getMassFrac("E"), (mass["A"] + mass["B"]) / total), "element = sum over its nuclides"
        assert eq(o.getMassFrac("D"), 0.0)


class CutBlock(Block):
    """probe: a real Block whose symmetry factor is GIVEN (stand-in for HexBlock / CartesianBlock.getSymmetryFactor, which read
    the core grid: 3 at the centre of a third-core model, 2 on a modelled symmetry line, 4 / 2 for a Cartesian quarter core,
    else 1).  Everything else (getVolume, getMass, number densities ...) is the real Block / Composite text."""

    def getSymmetryFactor(self):
        return self.sf


@lemma(overrides=OV, stubs=ST, gen=GEN3)
def block_volume_mass_and_atoms_are_reduced_by_the_symmetry_factor(k: int, sf: float, a1: float, b1: float, v1: float, b2: float, c2: float, v2: float, a3: float, b3: float, c3: float, v3: float):
    """Block.getVolume, Composite.getMass, Component.getMass (of a child of a cut block), getNumberDensity, getNumberOfAtoms,
    density, getMasses on a Block with k = 1..3 real Component children and an ARBITRARY symmetry factor sf > 0."""
    weights_positive()
    assume(sf > 0)  # (P) a symmetry factor is 1, 2, 3 or 4; volumes signed, total non-zero (S, below)
    k = choose(k, 1, 3)
    kids, nd, vol = three_children(k, a1, b1, v1, b2, c2, v2, a3, b3, c3, v3)
    b = composite(CutBlock, kids, sf=sf)
    V = sum(vol)
    assume(V != 0)
    assert eq(b.getVolume() * sf, V), "block volume = sum of the children's volumes reduced by the symmetry factor"
    assert eq(b.getVolume() * sf, sum(c.getVolume() for c in kids))
    for sel, nucs in ((None, ["A", "B", "C"]), ("B", ["B"]), ("E", ["A", "B"]), (["C", "A"], ["A", "C"])):
        m = b.getMass(sel)
        assert eq(m, sum(c.getMass(sel) for c in kids)), "mass = sum of the children's masses"
        assert eq(m * sf, sum(rho_of(nd[i], nucs) * vol[i] for i in range(k))), "mass = density x (volume / symmetry factor) over the leaves"
    for i in range(k):
        assert eq(kids[i].getMass() * sf, rho_of(nd[i], ["A", "B", "C"]) * vol[i]), "a component's mass is that of the modelled part"
    for n in ("A", "B", "C", "D"):
        mean = sum(nd[i][n] * vol[i] for i in range(k)) / V
        assert eq(b.getNumberDensity(n), mean), "number density = volume-weighted mean (the factor cancels)"
        assert eq(b.getNumberOfAtoms(n) * sf, sum(c.getNumberOfAtoms(n) for c in kids)), "atoms = children's atoms over the symmetry factor"
        assert eq(b.getNumberOfAtoms(n), mean * b.getVolume() / units.CM2_PER_BARN)
    if V > 0:  # case split on the sign of the total volume: a hint for the nonlinear solver only, both branches assert the same
        assert eq(b.density() * b.getVolume(), b.getMass()), "mass = density x volume at block level"
    else:
        assert eq(b.density() * b.getVolume(), b.getMass()), "mass = density x volume at block level (negative total volume)"


@lemma(overrides=OV, stubs=ST, gen=GEN3)
def block_getMasses_agrees_with_getMass(k: int, sf: float, a1: float, b1: float, v1: float, b2: float, c2: float, v2: float, a3: float, b3: float, c3: float, v3: float):
    """ArmiObject.getMasses on a cut Block: getMasses()[n] = getMass(n) = sum over the children.  k = 1..3 children."""
    weights_positive()
    assume(sf > 0)  # (P) a symmetry factor is 1, 2, 3 or 4
    k = choose(k, 1, 3)
    kids, nd, vol = three_children(k, a1, b1, v1, b2, c2, v2, a3, b3, c3, v3)
    b = composite(CutBlock, kids, sf=sf)
    assume(sum(vol) != 0)  # (S) signed volumes, zero allowed, total not zero (mean density)
    present = sorted(set(n for c in kids for n in c.getNuclides()))
    ms = b.getMasses()
    assert sorted(ms.keys()) == present
    for n in present:
        assert eq(ms[n] * sf, sum(nd[i][n] * wt(n) / K * vol[i] for i in range(k))), "getMasses()[n] is the mass of n in the modelled part"


@lemma
def uncut_objects_have_symmetry_factor_one():
    """Block.getSymmetryFactor / ArmiObject.getSymmetryFactor defaults: no reduction outside a cut position."""
    assert new(Block, _children=[], parent=None).getSymmetryFactor() == 1.0
    assert new(Composite, _children=[], parent=None).getSymmetryFactor() == 1.0
    assert component({"A": 1.0}, 2.0).getSymmetryFactor() == 1.0


# ----------------------------------------------------------------------------- setters at component level
import numpy as np

parameters = repo("armi.reactor.parameters")


class Mat:
    """stand-in material: the linear expansion is an ARBITRARY function of temperature only.  (No composition dependence:
    true of every material of the framework; with a composition-dependent correlation updateNumberDensities rescales the
    densities on purpose, see its docstring.)"""

    def linearExpansionPercent(self, Tk=None, Tc=None):
        return 0.002 * Tc if NATIVE else uf("P", Tc)


class PDef:
    """stand-in parameter definition: only its `assigned` flag is written"""


def settable(nd, vol, T, detailed=None, pin=None, parent=None):
    """a Component as `component`, with what the setters touch besides the densities: material, temperature, assigned flags"""
    p = new(PMap, numberDensities=nd, volume=vol, detailedNDens=detailed, pinNDens=pin, temperatureInC=T, assigned=0,
            paramDefs={"numberDensities": new(PDef, assigned=0)})
    return new(Component, p=p, parent=parent, cached={}, material=new(Mat))


def nuclide_dict(n, a, b, c):
    return {"A": a, "B": b} if n == 2 else {"A": a, "B": b, "C": c}


GENS = {"n": (2, 3), "a": (0.0, 0.1), "b": (0.0, 0.1), "c": (0.0, 0.1), "x": (0.0, 0.1), "y": (0.0, 0.1), "V": (-200.0, 500.0), "T": (20.0, 600.0),
        "f": (-1.0, 3.0)}


@lemma(overrides=OV, stubs=ST, gen=GENS)
def component_setNumberDensity_reads_back_and_leaves_the_rest(n: int, a: float, b: float, c: float, x: float, y: float, V: float, T: float):
    """Component.setNumberDensity (through updateNumberDensities): the touched nuclide reads back the requested value, every
    other nuclide, the nuclide list and the volume are unchanged; a nuclide that was absent is created.  n = 2..3 nuclides."""
    weights_positive()
    n = choose(n, 2, 3)  # no hypothesis on the volume (signed, zero)
    comp = settable(nuclide_dict(n, a, b, c), V, T)
    old = {m: comp.getNumberDensity(m) for m in ("A", "B", "C", "D")}
    nucs = sorted(comp.getNuclides())
    comp.setNumberDensity("B", x)
    assert eq(comp.getNumberDensity("B"), x), "the touched nuclide reads back the requested value"
    for m in ("A", "C", "D"):
        assert eq(comp.getNumberDensity(m), old[m]), "every other nuclide is unchanged"
    assert sorted(comp.getNuclides()) == nucs and eq(comp.getVolume(), V)
    assert eq(comp.getMass("B"), x * wt("B") / K * V), "and so does its mass"
    assert comp.p.assigned == parameters.SINCE_ANYTHING and comp.p.paramDefs["numberDensities"].assigned == parameters.SINCE_ANYTHING
    comp.setNumberDensity("D", y)
    assert eq(comp.getNumberDensity("D"), y), "a nuclide that was absent reads back too"
    assert eq(comp.getNumberDensity("B"), x) and eq(comp.getNumberDensity("A"), old["A"]) and eq(comp.getNumberDensity("C"), old["C"])
    assert sorted(comp.getNuclides()) == sorted(nucs + ["D"])
    comp.setNumberDensity("A", 0.0)
    assert eq(comp.getNumberDensity("A"), 0.0) and eq(comp.getNumberDensity("B"), x), "removal = set to zero"


@lemma(overrides=OV, stubs=ST, gen=GENS)
def component_update_and_set_number_densities(n: int, a: float, b: float, c: float, x: float, y: float, V: float, T: float):
    """Component.updateNumberDensities: listed nuclides read back, unlisted are unchanged;
    Component.setNumberDensities: listed nuclides read back, everything not listed reads zero.  n = 2..3 nuclides."""
    n = choose(n, 2, 3)  # no hypothesis on the volume (signed, zero)
    comp = settable(nuclide_dict(n, a, b, c), V, T)
    old = {m: comp.getNumberDensity(m) for m in ("A", "B", "C", "D")}
    req = {"A": x, "D": y}
    comp.updateNumberDensities(req)
    assert eq(comp.getNumberDensity("A"), x) and eq(comp.getNumberDensity("D"), y), "listed nuclides read back"
    assert eq(comp.getNumberDensity("B"), old["B"]) and eq(comp.getNumberDensity("C"), old["C"]), "unlisted nuclides unchanged"
    assert eq(comp.getVolume(), V)
    assert eq(req["A"], x) and eq(req["D"], y) and len(req) == 2, "the caller's dict is not changed"
    comp.setNumberDensities({"B": y, "D": x})
    assert eq(comp.getNumberDensity("B"), y) and eq(comp.getNumberDensity("D"), x), "listed nuclides read back"
    assert eq(comp.getNumberDensity("A"), 0.0) and eq(comp.getNumberDensity("C"), 0.0), "everything not listed is cleared"
    assert sorted(comp.getNuclides()) == ["B", "D"]
    assert comp.p.assigned == parameters.SINCE_ANYTHING


@lemma(overrides=OV, stubs=ST, gen=GENS)
def component_changeNDensByFactor_scales_every_nuclide(n: int, a: float, b: float, c: float, f: float, V: float, T: float, d1: float, d2: float):
    """Component.changeNDensByFactor / _changeOtherDensParamsByFactor: every nuclide reads back factor x old (nothing else
    appears), the detailed and pin density vectors follow, mass scales by the factor.  n = 2..3 nuclides."""
    weights_positive()
    n = choose(n, 2, 3)  # no hypothesis on the volume (signed, zero) nor on the factor (zero, negative)
    comp = settable(nuclide_dict(n, a, b, c), V, T, detailed=np.array([d1, d2]), pin=np.array([d2, d1]))
    old = {m: comp.getNumberDensity(m) for m in ("A", "B", "C", "D")}
    nucs = sorted(comp.getNuclides())
    m0 = comp.getMass()
    comp.changeNDensByFactor(f)
    for m in ("A", "B", "C", "D"):
        assert eq(comp.getNumberDensity(m), f * old[m]), "each nuclide reads back factor x its old density"
    assert sorted(comp.getNuclides()) == nucs and eq(comp.getVolume(), V)
    assert eq(comp.getMass(), f * m0)
    assert eq(comp.p.detailedNDens[0], f * d1) and eq(comp.p.detailedNDens[1], f * d2)
    assert eq(comp.p.pinNDens[0], f * d2) and eq(comp.p.pinNDens[1], f * d1)
    plain = settable(nuclide_dict(n, a, b, c), V, T)
    plain.changeNDensByFactor(f)
    assert eq(plain.getNumberDensity("A"), f * a) and plain.p.detailedNDens is None and plain.p.pinNDens is None


# ----------------------------------------------------------------------------- setters at composite level
def two_children(k, a1, b1, v1, b2, c2, v2, T):
    """k = 1..2 settable components: {A,B} and {B,C}: B is in both, A and C in one child each, D in none"""
    kids = [settable({"A": a1, "B": b1}, v1, T), settable({"B": b2, "C": c2}, v2, T)]
    return kids[:k]


GENC = {"k": (1, 2), "a1": (0.0, 0.1), "b1": (0.0, 0.1), "b2": (0.0, 0.1), "c2": (0.0, 0.1), "v1": (-200.0, 500.0), "v2": (-200.0, 500.0),
        "x": (0.0, 0.1), "f": (-1.0, 3.0), "T": (20.0, 600.0), "sf": [1.0, 2.0, 3.0, 4.0], "which": ["A", "B", "C"]}


def spread_volumes(k, v1, v2):
    """(S) the hypothesis of the de-homogenising setters on the SIGNED child volumes (a gap component has a negative one): the
    total volume and the volume of the children that hold the touched nuclide (child 1 alone for A, child 2 alone for C, both
    for B) are not zero - the setters divide the requested density by that volume fraction, so there is no answer otherwise."""
    assume(v1 != 0 and (k == 1 or (v2 != 0 and v1 + v2 != 0)))


def composite_setNumberDensity_contract(o, nuc, x):
    old = {m: o.getNumberDensity(m) for m in ("A", "B", "C", "D")}
    nucs = sorted(o.getNuclides())
    V = o.getVolume()
    o.setNumberDensity(nuc, x)
    assert eq(o.getNumberDensity(nuc), x), "the touched nuclide reads back, at the same level, the requested value"
    for m in ("A", "B", "C", "D"):
        if m != nuc:
            assert eq(o.getNumberDensity(m), old[m]), "every other nuclide's density is unchanged"
    assert sorted(o.getNuclides()) == nucs and eq(o.getVolume(), V)
    assert eq(o.getNumberOfAtoms(nuc), x * V / units.CM2_PER_BARN)


@lemma(overrides=OV, stubs=ST, gen=GENC)
def composite_setNumberDensity_reads_back_at_the_same_level(k: int, a1: float, b1: float, v1: float, b2: float, c2: float, v2: float, x: float, T: float):
    """Composite.setNumberDensity / getChildrenWithNuclides / getVolumeFractions on a Composite with k = 1..2 real Component
    children, for a nuclide held by every child (B) and by one child only (A)."""
    k = choose(k, 1, 2)
    spread_volumes(k, v1, v2)
    o = composite(Composite, two_children(k, a1, b1, v1, b2, c2, v2, T))
    composite_setNumberDensity_contract(o, "B", x)
    composite_setNumberDensity_contract(o, "A", x + 1.0)


@lemma(overrides=OV, stubs=ST, gen=GENC)
def block_setNumberDensity_reads_back_at_the_same_level(sf: float, a1: float, b1: float, v1: float, b2: float, c2: float, v2: float, x: float, T: float):
    """the same on a cut Block (arbitrary symmetry factor) with two children, for the nuclide held by the second child only (C)
    and the shared one (B)"""
    assume(sf > 0)  # (P) a symmetry factor is 1, 2, 3 or 4
    spread_volumes(2, v1, v2)
    o = composite(CutBlock, two_children(2, a1, b1, v1, b2, c2, v2, T), sf=sf)
    composite_setNumberDensity_contract(o, "C", x)
    composite_setNumberDensity_contract(o, "B", x / 2.0)


@lemma(overrides=OV, stubs=ST, gen=GENC)
def composite_refuses_to_create_a_nuclide_no_child_holds(k: int, a1: float, b1: float, v1: float, b2: float, c2: float, v2: float, x: float, T: float):
    """Composite.setNumberDensity of a nuclide none of the children holds: refused loudly (ValueError) with nothing changed,
    unless the requested value is zero (then nothing to do)."""
    k = choose(k, 1, 2)  # no hypothesis on the volumes: signed, zero, cancelling
    o = composite(Composite, two_children(k, a1, b1, v1, b2, c2, v2, T))
    old = {m: o.getNumberDensity(m) for m in ("A", "B", "C", "D")}
    try:
        o.setNumberDensity("D", x)
        refused = False
    except ValueError:
        refused = True
    assert refused == (x != 0), "refused exactly when a non-zero density is requested"
    for m in ("A", "B", "C", "D"):
        assert eq(o.getNumberDensity(m), old[m]), "nothing changed"
    assert implies(not refused, eq(o.getNumberDensity("D"), x))


def scaled_contract(o, f, present):
    old = {m: o.getNumberDensity(m) for m in ("A", "B", "C", "D")}
    V = o.getVolume()
    o.changeNDensByFactor(f)
    for m in ("A", "B", "C", "D"):
        assert eq(o.getNumberDensity(m), f * old[m]), "each nuclide reads back, at the same level, factor x its old density"
    assert sorted(o.getNuclides()) == present and eq(o.getVolume(), V)


@lemma(overrides=OV, stubs=ST, gen=GENC)
def composite_changeNDensByFactor_scales_every_nuclide(k: int, a1: float, b1: float, v1: float, b2: float, c2: float, v2: float, f: float, T: float, d1: float):
    """Composite.changeNDensByFactor -> getNumberDensities -> setNumberDensities -> updateNumberDensities (the de-homogenising
    distribution over the children that hold each nuclide) on a Composite with k = 1..2 real Component children.
    Precondition (class invariant given through the parameter map): the object's parameter collection HAS detailedNDens and
    pinNDens (None or a vector) - real Block / Assembly / Core collections lack one of them: known findings F47 / F51 / F59."""
    k = choose(k, 1, 2)
    spread_volumes(k, v1, v2)
    o = composite(Composite, two_children(k, a1, b1, v1, b2, c2, v2, T))
    scaled_contract(o, f, ["A", "B"] if k == 1 else ["A", "B", "C"])
    assert o.p.detailedNDens is None and o.p.pinNDens is None
    o.p.detailedNDens = np.array([d1, 1.0])
    o.p.pinNDens = np.array([2.0, d1])
    o.changeNDensByFactor(f)
    assert eq(o.p.detailedNDens[0], f * d1) and eq(o.p.detailedNDens[1], f) and eq(o.p.pinNDens[0], 2.0 * f) and eq(o.p.pinNDens[1], f * d1)


@lemma(overrides=OV, stubs=ST, gen=GENC)
def block_changeNDensByFactor_scales_every_nuclide(sf: float, a1: float, b1: float, v1: float, b2: float, c2: float, v2: float, f: float, T: float):
    """the same on a cut Block (arbitrary symmetry factor) with two children; its mass scales by the factor"""
    weights_positive()
    assume(sf > 0)  # (P)
    spread_volumes(2, v1, v2)
    o = composite(CutBlock, two_children(2, a1, b1, v1, b2, c2, v2, T), sf=sf)
    m0 = o.getMass()
    mB = o.getMass("B")
    scaled_contract(o, f, ["A", "B", "C"])
    assert eq(o.getMass(), f * m0) and eq(o.getMass("B"), f * mB)


@lemma(overrides=OV, stubs=ST, gen=GENC)
def composite_update_and_set_number_densities(k: int, a1: float, b1: float, v1: float, b2: float, c2: float, v2: float, x: float, f: float, T: float):
    """Composite.updateNumberDensities: listed nuclides (held by all / one / NO child) read back at the same level, unlisted are
    unchanged; Composite.setNumberDensities: listed read back, everything not listed reads zero.  k = 1..2 children."""
    k = choose(k, 1, 2)
    spread_volumes(k, v1, v2)
    o = composite(Composite, two_children(k, a1, b1, v1, b2, c2, v2, T))
    old = {m: o.getNumberDensity(m) for m in ("A", "B", "C", "D")}
    o.updateNumberDensities({"B": x, "D": f})
    assert eq(o.getNumberDensity("B"), x), "a nuclide every child holds reads back"
    assert eq(o.getNumberDensity("D"), f), "a nuclide no child held is created everywhere and reads back"
    assert eq(o.getNumberDensity("A"), old["A"]) and eq(o.getNumberDensity("C"), old["C"]), "unlisted nuclides unchanged"
    o.setNumberDensities({"A": x})
    assert eq(o.getNumberDensity("A"), x), "a nuclide one child holds reads back"
    assert eq(o.getNumberDensity("B"), 0.0) and eq(o.getNumberDensity("C"), 0.0) and eq(o.getNumberDensity("D"), 0.0), "everything not listed is cleared"


# ----------------------------------------------------------------------------- the symmetry factor itself
HexBlock = repo("armi.reactor.blocks:HexBlock")
Core = repo("armi.reactor.reactors:Core")
HexGrid = repo("armi.reactor.grids.hexagonal:HexGrid")
hexagon = repo("armi.utils.hexagon")


class Loc:
    """stand-in spatial locator: its grid and its complete (core-level) indices (IndexLocation.getCompleteIndices: C07)"""

    def getCompleteIndices(self):
        return self.ijk


class CoreGrid(HexGrid):
    """probe: the real HexGrid (symmetry, overlapsWhichSymmetryLine, getCoordinates) whose item access hands out the index
    triple itself as the location key (IndexLocation hashes and compares as that triple)"""

    def __getitem__(self, ijk):
        return tuple(ijk)


def core_grid(symmetry):
    us = HexGrid._getRawUnitSteps(1.0, False)
    return new(CoreGrid, _unitSteps=np.array(us), _bounds=(None, None, None), _stepDims=((0, 1, 2),), _boundDims=((),), _offset=np.zeros(3),
               _unitStepLimits=((-3, 3), (-3, 3), (0, 1)), _symmetry=symmetry, _isAxialOnly=False, armiObject=None, _locations={})


def block_in_core(i, j, k, symmetry, edgeModelled):
    """a HexBlock at axial index k of an assembly at (i, j) of a core with the given symmetry; edgeModelled: an assembly
    sits at (-1, 2), the first position of the 120-degree symmetry line"""
    g = core_grid(symmetry)
    core = new(Core, name="core", parent=None, spatialGrid=g, childrenByLocator={(-1, 2, 0): "an assembly"} if edgeModelled else {}, _children=[])
    a = new(Composite, name="a", parent=core, spatialLocator=new(Loc, grid=g, ijk=(i, j, 0)), _children=[])
    b = new(HexBlock, name="b", parent=a, spatialLocator=new(Loc, grid=None, ijk=(i, j, k)), _children=[])
    return g, b


@lemma(gen={"i": (-6, 6), "j": (-6, 6), "k": (0, 5)})
def hex_block_symmetry_factor_follows_the_symmetry_lines(i: int, j: int, k: int, edgeModelled: bool):
    """HexBlock.getSymmetryFactor in a third-core periodic model: 3 at the centre, 2 for a position whose centre lies ON the
    0-degree or 120-degree boundary line (geometry from the real grid's coordinates) when the assemblies of the 120-degree
    line are modelled, 1 everywhere else.  Stand-ins: Loc, CoreGrid, Core / assembly built with new()."""
    g, b = block_in_core(i, j, k, "third periodic", edgeModelled)
    s = b.getSymmetryFactor()
    c = g.getCoordinates((i, j, 0))
    x, y = c[0], c[1]
    if i == 0 and j == 0:
        assert s == 3.0, "the central position is shared by the three thirds"
    elif edgeModelled and ((eq(y, 0.0) and x > 0) or (eq(y, -hexagon.SQRT3 * x) and x < 0)):
        assert s == 2.0, "a position bisected by a modelled boundary line is half in the model"
    else:
        assert s == 1.0, "not cut"


@lemma(gen={"i": (-6, 6), "j": (-6, 6), "k": (0, 5)})
def hex_block_outside_a_third_core_model_is_not_cut(i: int, j: int, k: int, edgeModelled: bool):
    """full core, or a block that is in no core grid at all: factor 1"""
    g, b = block_in_core(i, j, k, "full", edgeModelled)
    assert b.getSymmetryFactor() == 1.0
    lone = new(HexBlock, name="b", parent=None, spatialLocator=None, _children=[])
    assert lone.getSymmetryFactor() == 1.0


CartesianBlock = repo("armi.reactor.blocks:CartesianBlock")
geometry = repo("armi.reactor.geometry")


class SymGrid:
    """stand-in core grid of a Cartesian core: only its symmetry (a real geometry.SymmetryType) is read"""


def cartesian_block_in_core(i, j, k, symmetry):
    core = new(Core, name="core", parent=None, spatialGrid=new(SymGrid, symmetry=geometry.SymmetryType.fromStr(symmetry)), _children=[])
    a = new(Composite, name="a", parent=core, _children=[])
    return new(CartesianBlock, name="b", parent=a, spatialLocator=new(Loc, grid=None, ijk=(i, j, k)), _children=[])


@lemma(gen={"i": (0, 4), "j": (0, 4), "k": (0, 5)})
def cartesian_block_symmetry_factor_in_a_quarter_core(i: int, j: int, k: int):
    """CartesianBlock.getSymmetryFactor in a quarter-core model (i, j >= 0 are the modelled positions): with the boundary
    lines through the centre assembly the centre is cut by both lines (4), the positions on one line are halved (2); with the
    lines between assemblies nothing is cut; a block outside any core is whole.  (The full-core case is in
    contracts/pending/C02_composite_finding.py.)  Stand-ins: Loc, SymGrid, Core / assembly built with new()."""
    assume(i >= 0 and j >= 0)
    for bc in ("reflective", "periodic"):
        s = cartesian_block_in_core(i, j, k, "quarter core " + bc + " through center assembly").getSymmetryFactor()
        onX, onY = (j == 0), (i == 0)
        assert s == (4.0 if onX and onY else 2.0 if onX or onY else 1.0), "cut by two / one / no boundary line"
        assert cartesian_block_in_core(i, j, k, "quarter core " + bc).getSymmetryFactor() == 1.0, "boundary between assemblies: nothing is cut"
    assert new(CartesianBlock, name="b", parent=None, spatialLocator=None, _children=[]).getSymmetryFactor() == 1.0


# ----------------------------------------------------------------------------- component volume; two levels
class AreaShape(Component):
    """probe: a real Component whose shape-specific cross-section is GIVEN (stand-in for the getComponentArea of the shape
    classes, covered by C03); getArea / getVolume / computeVolume / clearCache are the real Component text"""

    def getComponentArea(self, cold=False, Tc=None):
        return self.area

    def containsVoidMaterial(self):
        return self.void

    def containsSolidMaterial(self):
        return not self.void


class HeightBlock(Block):
    """a Block whose children need its height only (Block.getHeight is real: p.height)"""


@lemma(gen={"area": (-10.0, 50.0), "other": (-10.0, 20.0), "h": [0.0, 0.1, 1.0, 25.0, 100.0]})
def component_volume_is_area_times_block_height(area: float, other: float, h: float, void: bool):
    """Component.getVolume / _updateVolume / computeVolume / getArea (incl. the modArea correction) / clearCache: an
    uncached volume is cross-section x height of the block, is remembered, and is recomputed after clearCache."""
    # (P) a block height is not negative (ZERO allowed).  With h < 0 a solid of positive cross-section gets a negative volume and
    # Component._checkNegativeVolume refuses it - an artefact of an ill-formed block, not a case of the property.
    assume(h >= 0)
    blk = new(HeightBlock, name="b", _children=[], p=new(PMap, height=h), parent=None, cached={}, derivedMustUpdate=False)
    c = new(AreaShape, name="c", p=new(PMap, volume=None, modArea=None), parent=blk, cached={}, area=area, void=void, material="m")
    d = new(AreaShape, name="d", p=new(PMap, volume=None, modArea=(c, "sub")), parent=blk, cached={}, area=other, void=void, material="m")
    e = new(AreaShape, name="e", p=new(PMap, volume=None, modArea=(c, "add")), parent=blk, cached={}, area=other, void=void, material="m")
    try:
        v = c.getVolume()
    except ArithmeticError:
        assert area < 0 and not void, "only a solid with negative cross-section is refused"
        return
    assert eq(v, area * h), "volume = cross-section x height"
    assert eq(c.p.volume, v) and eq(c.getVolume(), v), "remembered"
    for comp, a2 in ((e, other + area), (d, other - area)):
        try:
            assert eq(comp.getVolume(), a2 * h), "a subtracted / added cross-section enters the volume"
        except ArithmeticError:
            assert a2 < 0 and not void
    c.area = 2.0 * area
    assert eq(c.getVolume(), v), "cached until invalidated"
    c.clearCache()
    assert c.p.volume is None and blk.derivedMustUpdate is True, "invalidation also tells the block to update a derived shape"
    assert eq(c.getVolume(), 2.0 * area * h), "recomputed from the current dimensions"
    lone = new(AreaShape, name="x", p=new(PMap, volume=None, modArea=None), parent=None, cached={}, area=area, void=void, material="m")
    try:
        lone.getVolume()
        ok = True
    except (AttributeError, ValueError):
        ok = False
    assert not ok, "a 2-D component without a block has no volume: refused loudly"


GEN2 = dict(GEN3, s1=[1.0, 2.0, 3.0, 4.0], s2=[1.0, 2.0, 3.0, 4.0], k=(1, 2))


@lemma(overrides=OV, stubs=ST, gen=GEN2)
def assembly_of_cut_blocks_accounts_like_its_leaves(k: int, s1: float, s2: float, a1: float, b1: float, v1: float, b2: float, c2: float, v2: float, a3: float, b3: float, c3: float, v3: float):
    """Two levels: a Composite (assembly) of k = 1..2 Blocks with ARBITRARY symmetry factors s1, s2; block 1 holds two
    Components, block 2 one.  Volume, mass (total / nuclide / element), number density and atoms at the top equal the sums
    over the blocks AND the naive walk over the leaves with each leaf volume reduced by its block's factor."""
    weights_positive()
    assume(s1 > 0 and s2 > 0)  # (P) symmetry factors are 1, 2, 3 or 4
    k = choose(k, 1, 2)
    # (S) SIGNED leaf volumes; no block and not the assembly has a total volume of zero (the mean density divides by it)
    assume(v1 + v2 != 0 and (k == 1 or (v3 != 0 and (v1 + v2) / s1 + v3 / s2 != 0)))
    kids, nd, vol = three_children(3, a1, b1, v1, b2, c2, v2, a3, b3, c3, v3)
    blocks = [composite(CutBlock, kids[:2], sf=s1), composite(CutBlock, kids[2:], sf=s2)][:k]
    asm = composite(Composite, blocks)
    leaves = [(nd[0], v1 / s1), (nd[1], v2 / s1), (nd[2], v3 / s2)][: (2 if k == 1 else 3)]
    V = sum(v for _, v in leaves)
    assert eq(asm.getVolume(), V), "volume = sum over the leaves of volume / symmetry factor"
    assert eq(asm.getVolume(), sum(b.getVolume() for b in blocks)), "= sum of the blocks' volumes"
    for sel, nucs in ((None, ["A", "B", "C"]), ("C", ["C"]), ("E", ["A", "B"])):
        m = asm.getMass(sel)
        assert eq(m, sum(b.getMass(sel) for b in blocks)), "mass = sum of the blocks' masses"
        assert eq(m, sum(rho_of(n, nucs) * v for n, v in leaves)), "= density x reduced volume over the leaves"
    for n in ("A", "B", "C"):
        atoms = sum(d[n] * v for d, v in leaves)
        assert eq(asm.getNumberDensity(n) * V, atoms), "number density = volume-weighted mean over the modelled volumes"
        assert eq(asm.getNumberOfAtoms(n), sum(b.getNumberOfAtoms(n) for b in blocks)), "atoms agree between the levels"
        assert eq(asm.getNumberOfAtoms(n), atoms / units.CM2_PER_BARN)
    assert eq(asm.density() * asm.getVolume(), asm.getMass()), "mass = density x volume at the top"


# ----------------------------------------------------------------------------- mass setters
def mass_setters_contract(o, g, sf):
    """setMass / addMass / removeMass / addMasses of nuclide B (held by every child) on `o`: the mass of B reads back at the same
    level, every other nuclide's density and mass are unchanged"""
    oldN = {m: o.getNumberDensity(m) for m in ("A", "C", "D")}
    o.setMass("B", g)
    assert eq(o.getMass("B"), g), "setMass: the nuclide's mass reads back"
    o.addMass("B", 2.0 * g)
    assert eq(o.getMass("B"), 3.0 * g), "addMass: grows by the requested grams"
    o.removeMass("B", g)
    assert eq(o.getMass("B"), 2.0 * g), "removeMass: shrinks by the requested grams"
    o.addMasses({"B": g, "A": 0.0})
    assert eq(o.getMass("B"), 3.0 * g), "addMasses: each listed nuclide grows by its grams"
    assert eq(o.getNumberDensity("B") * o.getVolume() * wt("B") / K, 3.0 * g), "mass = density x volume"
    for m in ("A", "C", "D"):
        assert eq(o.getNumberDensity(m), oldN[m]), "every other nuclide is unchanged"


@lemma(overrides=OV, stubs=ST, gen=dict(GENC, g=(0.0, 50.0)))
def mass_setters_read_back_on_component_and_composite(k: int, a1: float, b1: float, v1: float, b2: float, c2: float, v2: float, g: float, T: float):
    """ArmiObject.setMass / addMass / removeMass / addMasses (-> densityTools.calculateNumberDensity -> setNumberDensity) on
    an uncut Component and on a Composite with k = 1..2 Component children."""
    weights_positive()
    k = choose(k, 1, 2)
    spread_volumes(k, v1, v2)
    mass_setters_contract(settable({"A": a1, "B": b1}, v1, T), g, 1.0)
    mass_setters_contract(composite(Composite, two_children(k, a1, b1, v1, b2, c2, v2, T)), g, 1.0)


@lemma(overrides=OV, stubs=ST, gen=dict(GENC, g=(0.0, 50.0)))
def mass_setters_read_back_on_a_cut_block(k: int, sf: float, a1: float, b1: float, v1: float, b2: float, c2: float, v2: float, g: float, T: float):
    """the same on a cut Block (arbitrary symmetry factor) with k = 1..2 Component children: the block's own mass reads back.
    (A component INSIDE a cut block does not read back: known findings F52-F56, F58.)"""
    weights_positive()
    assume(sf > 0)  # (P)
    k = choose(k, 1, 2)
    spread_volumes(k, v1, v2)
    mass_setters_contract(composite(CutBlock, two_children(k, a1, b1, v1, b2, c2, v2, T), sf=sf), g, sf)


# ----------------------------------------------------------------------------- mass fractions
def mass_fraction_contract(o, request, untouched):
    """ArmiObject.setMassFracs(request): the requested fractions read back, the untouched nuclides keep their proportions
    (and fill the rest), the total density is unchanged, the fractions sum to one"""
    rho0 = o.density()
    old = {n: o.getMassFrac(n) for n in untouched}
    o.setMassFracs(dict(request))
    assert eq(o.density(), rho0), "the total density is unchanged"
    total = 0.0
    for n in sorted(request):
        assert eq(o.getMassFrac(n), request[n]), "an assigned mass fraction reads back"
        total = total + request[n]
    rest = sum(old[n] for n in untouched)
    for n in untouched:
        assert eq(o.getMassFrac(n) * rest, old[n] * (1.0 - total)), "the remaining nuclides keep their proportions and fill the rest"
    fr = o.getMassFracs()
    assert eq(sum(fr[n] for n in sorted(fr)), 1.0), "mass fractions sum to one"


GENMF = dict(a=[0.0, 0.0, 0.02, 0.05, 0.1], b=[0.0, 0.0, 0.01, 0.03, 0.1], c=[0.0, 0.001, 0.04, 0.1], x=[0.0, 0.0, 0.1, 0.25, 0.45], y=[0.0, 0.0, 0.2, 0.33, 0.45],
             V=(-200.0, 500.0), T=(20.0, 600.0))


def mf_component(a, b, c, x, y, V, T, untouched=("A", "B", "C")):
    """a Component holding A, B, C with symbolic NON-NEGATIVE densities - a nuclide may be listed with density zero -
    (setMassFrac(s) is ArmiObject's, executed on it).  Hypotheses: (P) densities are not negative, the requested fractions are
    fractions (>= 0, ZERO included) that leave something for the rest (sum < 1; sum == 1 has its own lemma below), and the
    nuclides the request does not name have some mass to fill that rest with (otherwise no composition satisfies the request).
    No hypothesis on the volume (signed, zero): a component's densities do not depend on it."""
    weights_positive()
    assume(a >= 0 and b >= 0 and c >= 0 and x >= 0 and y >= 0 and x + y < 1)
    nd = {"A": a, "B": b, "C": c}
    assume(sum(nd[n] * wt(n) for n in untouched) > 0)
    return settable(nd, V, T)


@lemma(overrides=OV, stubs=ST, gen=GENMF)
def mass_fraction_of_a_present_nuclide_reads_back(a: float, b: float, c: float, x: float, y: float, V: float, T: float):
    mass_fraction_contract(mf_component(a, b, c, x, y, V, T, ["B", "C"]), {"A": x}, ["B", "C"])


@lemma(overrides=OV, stubs=ST, gen=GENMF)
def mass_fraction_of_a_new_nuclide_reads_back(a: float, b: float, c: float, x: float, y: float, V: float, T: float):
    """a nuclide that is NOT yet in the composition (D): its fraction reads back and is taken out of the others' share"""
    mass_fraction_contract(mf_component(a, b, c, x, y, V, T), {"D": y}, ["A", "B", "C"])


@lemma(overrides=OV, stubs=ST, gen=GENMF)
def mass_fractions_of_a_present_and_a_new_nuclide_read_back(a: float, b: float, c: float, x: float, y: float, V: float, T: float):
    mass_fraction_contract(mf_component(a, b, c, x, y, V, T, ["B", "C"]), {"A": x, "D": y}, ["B", "C"])


@lemma(overrides=OV, stubs=ST, gen=GENMF)
def mass_fractions_of_two_present_nuclides_read_back(a: float, b: float, c: float, x: float, y: float, V: float, T: float):
    mass_fraction_contract(mf_component(a, b, c, x, y, V, T, ["C"]), {"A": x, "B": y}, ["C"])


@lemma(overrides=OV, stubs=ST, gen=dict(a=[0.0, 0.01, 0.1], b=[0.0, 0.02, 0.1], x=[0.0, 0.0, 0.01, 0.5, 0.9], V=(-200.0, 500.0), T=(20.0, 600.0)))
def setMassFrac_of_one_nuclide(a: float, b: float, x: float, V: float, T: float):
    """setMassFrac(name, x) = setMassFracs({name: x}); a zero-density object refuses"""
    weights_positive()
    # (P) densities not negative, some mass present, a fraction (zero included) below one; no hypothesis on the volume
    assume(a >= 0 and b >= 0 and a * wt("A") + b * wt("B") > 0 and 0 <= x and x < 1)
    comp = settable({"A": a, "B": b}, V, T)
    rho0 = comp.density()
    comp.setMassFrac("D", x)
    assert eq(comp.getMassFrac("D"), x) and eq(comp.density(), rho0)
    assert eq(comp.getMassFrac("A") * b * wt("B"), comp.getMassFrac("B") * a * wt("A")), "A : B as before"


@lemma(overrides=OV, stubs=ST, gen=dict(a=[0.0, 0.0, 0.01, 0.1], b=[0.0, 0.0, 0.02, 0.1], c=[0.0, 0.03, 0.1], x=[0.0, 0.0, 1.0, 1.0, 0.01, 0.5, 0.99], V=(-200.0, 500.0), T=(20.0, 600.0)))
def mass_fractions_summing_to_one_leave_nothing_for_the_rest(a: float, b: float, c: float, x: float, V: float, T: float):
    """assigned fractions that sum to EXACTLY one (two nuclides, or one nuclide with fraction 1): they read back, every
    other nuclide ends with no mass, the total density is unchanged"""
    weights_positive()
    # (P) densities not negative, some mass present, fractions in [0, 1] (both ends included); no hypothesis on the volume
    assume(a >= 0 and b >= 0 and c >= 0 and a * wt("A") + b * wt("B") + c * wt("C") > 0 and 0 <= x and x <= 1)
    comp = settable({"A": a, "B": b, "C": c}, V, T)
    mass_fraction_contract(comp, {"A": x, "B": 1.0 - x}, ["C"])
    assert eq(comp.getMassFrac("C"), 0.0) and eq(comp.getNumberDensity("C"), 0.0), "nothing is left for the unnamed nuclide"
    comp2 = settable({"A": a, "B": b, "C": c}, V, T)
    rho0 = comp2.density()
    comp2.setMassFrac("B", 1.0)
    assert eq(comp2.getMassFrac("B"), 1.0) and eq(comp2.getMassFrac("A"), 0.0) and eq(comp2.getMassFrac("C"), 0.0)
    assert eq(comp2.density(), rho0)
