"""C10 - merging metadata, nuclides and libraries: union, lossless, order independent, conflicts refused.

Everything executed is the real code of armi/nuclearDataIO (nuclearFileMetadata, xsNuclides, xsCollections.XSCollection
.merge, xsLibraries.IsotxsLibrary) and armi/utils/properties.  Values are symbolic integers / reals (scalar metadata
entries, one-group "arrays" held as scalars or 2-element numpy arrays); the number of keys / nuclides is enumerated.
The clauses of the property that the unchanged tree violates (a refused merge that has already changed the target) are
stated in contracts/pending/C10_libmerge_finding.py.
"""
import numpy as np

from spec import *

nfm = repo("armi.nuclearDataIO.nuclearFileMetadata")
NuclideMetadata = repo("armi.nuclearDataIO.nuclearFileMetadata:NuclideMetadata")
NuclideXSMetadata = repo("armi.nuclearDataIO.nuclearFileMetadata:NuclideXSMetadata")
XSNuclide = repo("armi.nuclearDataIO.xsNuclides:XSNuclide")
XSCollection = repo("armi.nuclearDataIO.xsCollections:XSCollection")
IsotxsLibrary = repo("armi.nuclearDataIO.xsLibraries:IsotxsLibrary")
ImmutablePropertyError = repo("armi.utils.properties:ImmutablePropertyError")

KEYS = ["nuclideId", "libName", "ords"]


def meta(cls, present, vals):
    m = cls()
    for i in range(3):
        if present[i]:
            m[KEYS[i]] = vals[i]
    return m


def content(m):
    """observable content of a metadata object: key -> value"""
    return dict(m.items())


def bits(mask):
    return [mask % 2 == 1, (mask // 2) % 2 == 1, (mask // 4) % 2 == 1]


def try_merge(a, b, exc=OSError):
    try:
        return a.merge(b, "lib1", "lib2", "ISOTXS", exc), False
    except exc:
        return None, True


# ----------------------------------------------------------------------------- _Metadata.merge
@lemma(gen={"ma": (0, 7), "mb": (0, 7), "a0": (0, 2), "a1": (0, 2), "a2": (0, 2), "b0": (0, 2), "b1": (0, 2), "b2": (0, 2)})
def metadata_merge_is_lossless_or_refused(ma: int, mb: int, a0: int, a1: int, a2: int, b0: int, b1: int, b2: int):
    """_Metadata.merge for every pattern of up to 3 keys on each side (64 shapes) with arbitrary integer values:
    a successful merge holds exactly the union of the keys, each value identical to its source(s); it is refused only
    if some key reads differently on the two sides (an absent key reads as None, as documented); same keys with the
    same values are never refused; an empty side never conflicts; neither input is changed, refused or not; the result
    is a new object; and the outcome does not depend on the order."""
    ma = choose(ma, 0, 7)
    mb = choose(mb, 0, 7)
    pa, pb = bits(ma), bits(mb)
    va, vb = [a0, a1, a2], [b0, b1, b2]
    A = meta(NuclideMetadata, pa, va)
    B = meta(NuclideMetadata, pb, vb)
    r, refused = try_merge(A, B)
    differs = any([(A[k] != B[k]) for k in KEYS])
    if refused:
        assert differs, "refused only when some key reads differently"
        assert ma != 0 and mb != 0, "an empty side never conflicts"
    else:
        assert len(r) == len([i for i in range(3) if pa[i] or pb[i]]), "exactly the union of the keys"
        for i in range(3):
            if pa[i]:
                assert r[KEYS[i]] == va[i], "value identical to its source"
            if pb[i]:
                assert r[KEYS[i]] == vb[i], "value identical to its source"
            if not pa[i] and not pb[i]:
                assert KEYS[i] not in r.keys()
        assert not same(r, A) and not same(r, B)
    if any([pa[i] and pb[i] and va[i] != vb[i] for i in range(3)]):
        assert refused, "two different values for the same key are never silently combined"
    if ma == mb and all([implies(pa[i], va[i] == vb[i]) for i in range(3)]):
        assert not refused, "equal metadata always merge"
    # inputs unchanged
    assert len(A) == len([i for i in range(3) if pa[i]]) and len(B) == len([i for i in range(3) if pb[i]])
    for i in range(3):
        assert implies(pa[i], A[KEYS[i]] == va[i]) and implies(pb[i], B[KEYS[i]] == vb[i])
        assert implies(not pa[i], A[KEYS[i]] is None) and implies(not pb[i], B[KEYS[i]] is None)
    # order independence
    r2, refused2 = try_merge(B, A)
    assert refused2 == refused, "refused in one order iff refused in the other"
    if not refused:
        assert len(r2) == len(r)
        for k in KEYS:
            assert r2[k] == r[k], "same content in either order"


# ----------------------------------------------------------------------------- NuclideXSMetadata.merge (file-level metadata)
class Holder:
    """stand-in for the library holding a file-level metadata object: only .nuclides (list of objects with a real
    NuclideMetadata in .isotxsMetadata) is used by the metadata merge"""


def holder(fis, chiFlag):
    nm = NuclideMetadata()
    nm["fisFlag"] = fis
    nm["chiFlag"] = chiFlag
    return new(Holder, nuclides=[new(Holder, isotxsMetadata=nm)])


def file_meta(ng, up, label, chi, names):
    m = NuclideXSMetadata()
    m["numGroups"] = ng
    m["maxUpScatterGroups"] = up
    m["libraryLabel"] = label
    if chi is not None:
        m["chi"] = chi
        m["fileWideChiFlag"] = 1
    else:
        m["fileWideChiFlag"] = 0
    m.fileNames = names
    return m


@lemma(gen={"g1": (1, 3), "g2": (1, 3), "u1": (0, 1), "u2": (0, 1), "f1": (0, 2), "f2": (0, 2), "c1": (0, 1), "c2": (0, 1)})
def file_metadata_merge(g1: int, g2: int, u1: int, u2: int, chiA: bool, chiB: bool, labelA: bool, f1: int, f2: int, c1: int, c2: int, x: float):
    """NuclideXSMetadata.merge (real merge, _mergeLibrarySpecificData, _getSkippedKeys): the group structure entries
    must agree or the merge is refused (never silently combined); the source file names of both are kept; the label is
    the first non-empty one; a file-wide fission spectrum on either side is dropped (flag 0) and every fissile nuclide
    of both holders is flagged as carrying its own spectrum instead; without file-wide chi no nuclide is touched;
    inputs are not changed."""
    # (was: assume(f1 >= 0 and f2 >= 0) - dropped in the assumption review: the clause holds for any flag value)
    A = file_meta(g1, u1, "LIB-A" if labelA else "", np.array([x, 1.0 - x]) if chiA else None, ["ISOAA"])
    B = file_meta(g2, u2, "LIB-B", np.array([x, 1.0 - x]) if chiB else None, ["ISOAB", "ISOAC"])
    hA, hB = holder(f1, c1), holder(f2, c2)
    try:
        r = A.merge(B, hA, hB, "ISOTXS", OSError)
        refused = False
    except OSError:
        refused = True
    assert refused == (g1 != g2 or u1 != u2), "refused iff the group structures differ"
    if not refused:
        assert r["numGroups"] == g1 and r["maxUpScatterGroups"] == u1
        assert r.fileNames == ["ISOAA", "ISOAB", "ISOAC"], "source file names of both"
        assert r["libraryLabel"] == ("LIB-A" if labelA else "LIB-B")
        assert r["chi"] is None, "file-wide chi is not carried over (flag and data stay consistent)"
        assert r["fileWideChiFlag"] == 0
        nA, nB = hA.nuclides[0].isotxsMetadata, hB.nuclides[0].isotxsMetadata
        if chiA or chiB:
            assert nA["chiFlag"] == (1 if f1 > 0 else c1) and nB["chiFlag"] == (1 if f2 > 0 else c2), "fissile nuclides carry their own chi now"
        else:
            assert nA["chiFlag"] == c1 and nB["chiFlag"] == c2
        assert nA["fisFlag"] == f1 and nB["fisFlag"] == f2
    # inputs unchanged
    assert A["numGroups"] == g1 and B["numGroups"] == g2 and A["maxUpScatterGroups"] == u1 and B["maxUpScatterGroups"] == u2
    assert A.fileNames == ["ISOAA"] and B.fileNames == ["ISOAB", "ISOAC"]
    assert (A["chi"] is not None) == chiA and (B["chi"] is not None) == chiB
    assert A["fileWideChiFlag"] == (1 if chiA else 0) and B["fileWideChiFlag"] == (1 if chiB else 0)
    assert A["libraryLabel"] == ("LIB-A" if labelA else "") and B["libraryLabel"] == "LIB-B"


# ----------------------------------------------------------------------------- XSNuclide.merge (+ XSCollection.merge, _mergeAttributes)
def nuclide(lib, label, mask, w, v):
    """a real XSNuclide carrying the data kinds of `mask` (1 neutron/ISOTXS, 2 gamma/GAMISO, 4 production/PMATRX):
    for each kind its metadata (one symbolic entry w[k]) and its data (2-group arrays built from v[k])"""
    n = XSNuclide(lib, label)
    hasN, hasG, hasP = bits(mask)
    if hasN:
        n.isotxsMetadata["amass"] = w[0]
        n.micros.fission = np.array([v[0], v[0] + 1.0])
        n.micros.nGamma = np.array([2.0 * v[0], v[0]])
    if hasG:
        n.gamisoMetadata["amass"] = w[1]
        n.gammaXS.total = np.array([v[1], v[1] + 1.0])
    if hasP:
        n.pmatrxMetadata["numLegendre"] = w[2]
        n.neutronHeating = np.array([v[2], v[2] + 1.0])
        n.gammaHeating = np.array([v[2] + 2.0, v[2]])
        # every production datum a PMATRX nuclide can carry (isotropic and P1 gamma production, damage, higher orders)
        n.neutronDamage = np.array([v[2] + 3.0, v[2]])
        n.isotropicProduction = np.array([v[2] + 4.0, v[2]])
        n.linearAnisotropicProduction = np.array([v[2] + 5.0, v[2]])
        n.nOrderProductionMatrix = {2: np.array([v[2] + 6.0, v[2]])}
    return n


def first(a):
    return None if a is None else a[0]


def observe(n):
    """observable content of a nuclide: metadata entries and the leading value of every data array"""
    return [n.isotxsMetadata["amass"], n.gamisoMetadata["amass"], n.pmatrxMetadata["numLegendre"],
            len(n.isotxsMetadata), len(n.gamisoMetadata), len(n.pmatrxMetadata),
            first(n.micros.fission), first(n.micros.nGamma), first(n.gammaXS.total), first(n.gammaXS.fission),
            first(n.neutronHeating), first(n.gammaHeating), first(n.neutronDamage),
            first(n.isotropicProduction), first(n.linearAnisotropicProduction), first(n.nOrderProductionMatrix.get(2))]


def same_content(o1, o2):
    return all([(x is None and y is None) or (x is not None and y is not None and eq(x, y)) for x, y in zip(o1, o2)])


def try_nuclide_merge(a, b):
    try:
        a.merge(b)
        return False
    except AttributeError:
        return True


G_NUC = {"ma": (0, 7), "mb": (0, 7), "wa0": (0, 1), "wb0": (0, 1), "wa1": (0, 1), "wb1": (0, 1), "wa2": (0, 1), "wb2": (0, 1)}


@lemma(gen=G_NUC)
def nuclide_merge_unites_disjoint_kinds_and_refuses_overlap(ma: int, mb: int, wa0: int, wa1: int, wa2: int, wb0: int, wb1: int, wb2: int,
                                                            x0: float, x1: float, x2: float, y0: float, y1: float, y2: float):
    """XSNuclide.merge for every pair of data-kind sets (8 x 8 shapes), symbolic metadata entries and data:
    disjoint kinds -> the target holds the union, each kind (metadata and arrays) identical to its source, and the
    content is the same in either merge order; a kind present in both sources (same nuclide label) -> AttributeError,
    never a silent combination - whether or not the two copies happen to agree."""
    ma = choose(ma, 0, 7)
    mb = choose(mb, 0, 7)
    lib = IsotxsLibrary()
    wa, wb, va, vb = [wa0, wa1, wa2], [wb0, wb1, wb2], [x0, x1, x2], [y0, y1, y2]
    A = nuclide(lib, "U235AA", ma, wa, va)
    B = nuclide(lib, "U235AA", mb, wb, vb)
    srcA, srcB = observe(A), observe(B)
    pa, pb = bits(ma), bits(mb)
    overlap = any([pa[i] and pb[i] for i in range(3)])
    refused = try_nuclide_merge(A, B)
    assert refused == overlap, "refused iff some kind of data is present in both"
    if not refused:
        got = observe(A)
        for j in range(len(got)):
            if j in (3, 4, 5):
                assert got[j] == srcA[j] + srcB[j], "metadata entries: exactly those of the sources"
            elif srcA[j] is not None:
                assert eq(got[j], srcA[j]), "identical to its source"
            elif srcB[j] is not None:
                assert eq(got[j], srcB[j]), "identical to its source"
            else:
                assert got[j] is None, "nothing invented"
        # the other order
        A2 = nuclide(lib, "U235AA", ma, wa, va)
        B2 = nuclide(lib, "U235AA", mb, wb, vb)
        assert not try_nuclide_merge(B2, A2)
        assert same_content(observe(B2), got), "same content in either order"


# ----------------------------------------------------------------------------- IsotxsLibrary.merge
properties = repo("armi.utils.properties")
LABELS = ["U235AA", "U238AB"]
KIND_META = ["isotxsMetadata", "gamisoMetadata", "pmatrxMetadata"]


def xs_library(kind, labelmask, en, eg, dose, ngroups, w, v):
    """a real IsotxsLibrary as one of the readers leaves it: kind 0 = ISOTXS (neutron group bounds, velocity, ISOTXS
    metadata, nuclides with neutron data), 1 = GAMISO (gamma group bounds), 2 = PMATRX (both group structures and dose
    conversion factors); nuclide labels of labelmask out of LABELS"""
    lib = IsotxsLibrary()
    if kind == 0:
        lib.neutronEnergyUpperBounds = np.array([en, en + 1.0])
        lib.neutronVelocity = np.array([en, 2.0])
    elif kind == 1:
        lib.gammaEnergyUpperBounds = np.array([eg, eg + 1.0])
    else:
        lib.neutronEnergyUpperBounds = np.array([en, en + 1.0])
        lib.gammaEnergyUpperBounds = np.array([eg, eg + 1.0])
        lib.neutronDoseConversionFactors = np.array([dose, 1.0])
        lib.gammaDoseConversionFactors = np.array([dose, 2.0])
    getattr(lib, KIND_META[kind])["numGroups"] = ngroups
    getattr(lib, KIND_META[kind]).fileNames = ["file%d" % kind]
    for i in range(2):
        if bits(labelmask)[i]:
            lib[LABELS[i]] = nuclide(lib, LABELS[i], [1, 2, 4][kind], w, v)
    return lib


def prop(lib, name):
    """value of a write-once library property, None when it has not been set (read the way numGroups reads it)"""
    properties.unlockImmutableProperties(lib)
    val = getattr(lib, name)
    properties.lockImmutableProperties(lib)
    return val


PROPS = ["neutronEnergyUpperBounds", "neutronVelocity", "gammaEnergyUpperBounds", "neutronDoseConversionFactors", "gammaDoseConversionFactors"]


def observe_library(lib):
    out = [first(prop(lib, p)) for p in PROPS]
    for m in KIND_META:
        out.append(getattr(lib, m)["numGroups"])
    for lab in LABELS:
        if lab in lib:
            o = observe(lib[lab])
            out.extend(o[:3] + o[6:])  # metadata values and data of the nuclide
        else:
            out.extend([None] * 13)  # = len(o[:3] + o[6:]) of observe()
    return out, lib.nuclideLabels


def try_library_merge(a, b):
    try:
        a.merge(b)
        return None
    except (ImmutablePropertyError, OSError, AttributeError) as e:
        return e


G_LIB = {"ka": (0, 2), "kb": (0, 2), "la": (0, 3), "lb": (0, 3), "ena": [1.0, 2.0, 1.0], "enb": [1.0, 2.0, 1.0], "ega": [1.0, 2.0, 1.0], "egb": [1.0, 2.0, 1.0],
         "da": [1.0, 2.0, 1.0], "db": [1.0, 2.0, 1.0], "ga": (2, 3), "gb": (2, 3), "w": (0, 1)}


@lemma(gen=G_LIB)
def library_merge_is_the_union_or_refused(ka: int, kb: int, la: int, lb: int, ena: float, enb: float, ega: float, egb: float,
                                          da: float, db: float, ga: int, gb: int, w: int, x: float, y: float):
    """IsotxsLibrary.merge (real _mergeProperties, _mergeNeutronEnergies, _mergeMetadata, _mergeNuclides, XSNuclide.merge,
    write-once properties) for every pair of library kinds (ISOTXS / GAMISO / PMATRX: 3 x 3) and nuclide label sets
    (subsets of two labels: 4 x 4), symbolic group bounds, dose factors, metadata and data:
    refused (error) iff the inputs conflict - a group structure / dose factors defined by both with different values,
    the same kind of file metadata with different values, or the same kind of data for a common label; otherwise the
    result holds exactly the union of the labels (the target's, then the new ones in the source's order), every
    nuclide with the data of its sources, every library property and metadata entry of either source."""
    ka, kb = choose(ka, 0, 2), choose(kb, 0, 2)
    la, lb = choose(la, 0, 3), choose(lb, 0, 3)
    wv = [w, w, w]
    A = xs_library(ka, la, ena, ega, da, ga, wv, [x, x, x])
    B = xs_library(kb, lb, enb, egb, db, gb, wv, [y, y, y])
    obsA, labelsA = observe_library(A)
    obsB, labelsB = observe_library(B)
    files = [getattr(A, m).fileNames + getattr(B, m).fileNames for m in KIND_META]
    err = try_library_merge(A, B)
    bothN = ka != 1 and kb != 1   # both define the neutron group structure
    bothG = ka != 0 and kb != 0   # both define the gamma group structure
    conflict = (bothN and ena != enb) or (bothG and ega != egb) or (ka == 2 and kb == 2 and da != db) \
        or (ka == kb and ga != gb) or (ka == kb and any([bits(la)[i] and bits(lb)[i] for i in range(2)]))
    assert (err is not None) == conflict, "refused iff the inputs conflict"
    if err is None:
        assert A.nuclideLabels == labelsA + [lab for lab in labelsB if lab not in labelsA], "exactly the union of the nuclide labels"
        got, _ = observe_library(A)
        for j in range(len(got)):
            if obsA[j] is not None:
                assert eq(got[j], obsA[j]), "kept from the target"
            elif obsB[j] is not None:
                assert eq(got[j], obsB[j]), "identical to its source"
            else:
                assert got[j] is None, "nothing invented"
        for k in range(3):
            assert getattr(A, KIND_META[k]).fileNames == files[k], "source files of both libraries are recorded"
        for lab in A.nuclideLabels:
            assert same(A[lab].container, A), "every nuclide now belongs to the merged library"


@lemma(gen=G_LIB)
def library_merge_content_is_order_independent(ka: int, kb: int, la: int, lb: int, ena: float, enb: float, ega: float, egb: float,
                                               da: float, db: float, ga: int, gb: int, w: int, x: float, y: float):
    """A.merge(B) and B.merge(A) (fresh copies) are refused in the same cases and otherwise hold the same content: the same
    label set, per label the same data, the same library properties and metadata values.  (Same shapes as above; the
    neutron velocity is tied to the group structure here - independent velocities are the pending finding.)"""
    ka, kb = choose(ka, 0, 2), choose(kb, 0, 2)
    la, lb = choose(la, 0, 3), choose(lb, 0, 3)
    wv = [w, w, w]
    A = xs_library(ka, la, ena, ega, da, ga, wv, [x, x, x])
    B = xs_library(kb, lb, enb, egb, db, gb, wv, [y, y, y])
    A2 = xs_library(ka, la, ena, ega, da, ga, wv, [x, x, x])
    B2 = xs_library(kb, lb, enb, egb, db, gb, wv, [y, y, y])
    e1 = try_library_merge(A, B)
    e2 = try_library_merge(B2, A2)
    assert (e1 is None) == (e2 is None), "refused in one order iff refused in the other"
    if e1 is None:
        o1, l1 = observe_library(A)
        o2, l2 = observe_library(B2)
        assert sorted(l1) == sorted(l2), "same nuclide labels"
        assert same_content(o1, o2), "same content"


@lemma(gen=dict(G_LIB, k=(0, 2)))
def group_structure_conflict_between_like_libraries_changes_nothing(k: int, la: int, lb: int, ena: float, enb: float, ega: float, egb: float,
                                                                    da: float, db: float, ga: int, gb: int, w: int, x: float, y: float):
    """two libraries of the same kind (ISOTXS+ISOTXS, GAMISO+GAMISO, PMATRX+PMATRX; any label sets) whose group
    structures / dose factors / group counts differ: the merge is refused and the target AND the source are unchanged
    (labels, nuclide data, properties, metadata).  The general statement (any pair of kinds, any conflict) is refuted on
    the unchanged tree: contracts/pending/C10_libmerge_finding.py."""
    k = choose(k, 0, 2)
    la, lb = choose(la, 0, 3), choose(lb, 0, 3)
    assume((k != 1 and ena != enb) or (k != 0 and ega != egb) or (k == 2 and da != db) or ga != gb)
    wv = [w, w, w]
    A = xs_library(k, la, ena, ega, da, ga, wv, [x, x, x])
    B = xs_library(k, lb, enb, egb, db, gb, wv, [y, y, y])
    beforeA, labelsA = observe_library(A)
    beforeB, labelsB = observe_library(B)
    assert try_library_merge(A, B) is not None, "conflicting group structures are refused"
    afterA, labelsA2 = observe_library(A)
    afterB, labelsB2 = observe_library(B)
    assert labelsA2 == labelsA and same_content(afterA, beforeA), "target unchanged"
    assert labelsB2 == labelsB and same_content(afterB, beforeB), "source unchanged"
    for lab in labelsB:
        assert same(B[lab].container, B)
