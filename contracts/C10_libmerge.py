"""C10 - merging metadata, nuclides and libraries: union, lossless, order independent, conflicts refused.

Everything executed is the real code of armi/nuclearDataIO (nuclearFileMetadata, xsNuclides, xsCollections.XSCollection
.merge, xsLibraries.IsotxsLibrary) and armi/utils/properties.  Values are symbolic integers / reals (scalar metadata
entries, one-group "arrays" held as scalars or 2-element numpy arrays); the number of keys / nuclides is enumerated.
The clauses of the property that the unchanged tree violates (a refused merge that has already changed the target) are
stated in contracts/pending/C10_libmerge_finding.py.
"""
import numpy as np

from spec import *

nfm = repo("armi.nuclearDataIO.nuclearFileMetadata")
NuclideMetadata = repo("armi.nuclearDataIO.nuclearFileMetadata:NuclideMetadata")
NuclideXSMetadata = repo("armi.nuclearDataIO.nuclearFileMetadata:NuclideXSMetadata")
XSNuclide = repo("armi.nuclearDataIO.xsNuclides:XSNuclide")
XSCollection = repo("armi.nuclearDataIO.xsCollections:XSCollection")
IsotxsLibrary = repo("armi.nuclearDataIO.xsLibraries:IsotxsLibrary")
ImmutablePropertyError = repo("armi.utils.properties:ImmutablePropertyError")

KEYS = ["nuclideId", "libName", "ords"]


def meta(cls, present, vals):
    m = cls()
    for i in range(3):
        if present[i]:
            m[KEYS[i]] = vals[i]
    return m


def content(m):
    """observable content of a metadata object: key -> value"""
    return dict(m.items())


def bits(mask):
    return [mask % 2 == 1, (mask // 2) % 2 == 1, (mask // 4) % 2 == 1]


def try_merge(a, b, exc=OSError):
    try:
        return a.merge(b, "lib1", "lib2", "ISOTXS", exc), False
    except exc:
        return None, True


# ----------------------------------------------------------------------------- _Metadata.merge
@lemma(gen={"ma": (0, 7), "mb": (0, 7), "a0": (0, 2), "a1": (0, 2), "a2": (0, 2), "b0": (0, 2), "b1": (0, 2), "b2": (0, 2)})
def metadata_merge_is_lossless_or_refused(ma: int, mb: int, a0: int, a1: int, a2: int, b0: int, b1: int, b2: int):
    """_Metadata.merge for every pattern of up to 3 keys on each side (64 shapes) with arbitrary integer values:
    a successful merge holds exactly the union of the keys, each value identical to its source(s); it is refused only
    if some key reads differently on the two sides (an absent key reads as None, as documented); same keys with the
    same values are never refused; an empty side never conflicts; neither input is changed, refused or not; the result
    is a new object; and the outcome does not depend on the order."""
    ma = choose(ma, 0, 7)
    mb = choose(mb, 0, 7)
    pa, pb = bits(ma), bits(mb)
    va, vb = [a0, a1, a2], [b0, b1, b2]
    A = meta(NuclideMetadata, pa, va)
    B = meta(NuclideMetadata, pb, vb)
    r, refused = try_merge(A, B)
    differs = any([(A[k] != B[k]) for k in KEYS])
    if refused:
        assert differs, "refused only when some key reads differently"
        assert ma != 0 and mb != 0, "an empty side never conflicts"
    else:
        assert len(r) == len([i for i in range(3) if pa[i] or pb[i]]), "exactly the union of the keys"
        for i in range(3):
            if pa[i]:
                assert r[KEYS[i]] == va[i], "value identical to its source"
            if pb[i]:
                assert r[KEYS[i]] == vb[i], "value identical to its source"
            if not pa[i] and not pb[i]:
                assert KEYS[i] not in r.keys()
        assert not same(r, A) and not same(r, B)
    if any([pa[i] and pb[i] and va[i] != vb[i] for i in range(3)]):
        assert refused, "two different values for the same key are never silently combined"
    if ma == mb and all([implies(pa[i], va[i] == vb[i]) for i in range(3)]):
        assert not refused, "equal metadata always merge"
    # inputs unchanged
    assert len(A) == len([i for i in range(3) if pa[i]]) and len(B) == len([i for i in range(3) if pb[i]])
    for i in range(3):
        assert implies(pa[i], A[KEYS[i]] == va[i]) and implies(pb[i], B[KEYS[i]] == vb[i])
        assert implies(not pa[i], A[KEYS[i]] is None) and implies(not pb[i], B[KEYS[i]] is None)
    # order independence
    r2, refused2 = try_merge(B, A)
    assert refused2 == refused, "refused in one order iff refused in the other"
    if not refused:
        assert len(r2) == len(r)
        for k in KEYS:
            assert r2[k] == r[k], "same content in either order"


# ----------------------------------------------------------------------------- NuclideXSMetadata.merge (file-level metadata)
class Holder:
    """stand-in for the library holding a file-level metadata object: only .nuclides (list of objects with a real
    NuclideMetadata in .isotxsMetadata) is used by the metadata merge"""


def holder(fis, chiFlag):
    nm = NuclideMetadata()
    nm["fisFlag"] = fis
    nm["chiFlag"] = chiFlag
    return new(Holder, nuclides=[new(Holder, isotxsMetadata=nm)])


def file_meta(ng, up, label, chi, names):
    m = NuclideXSMetadata()
    m["numGroups"] = ng
    m["maxUpScatterGroups"] = up
    m["libraryLabel"] = label
    if chi is not None:
        m["chi"] = chi
        m["fileWideChiFlag"] = 1
    else:
        m["fileWideChiFlag"] = 0
    m.fileNames = names
    return m


@lemma(gen={"g1": (1, 3), "g2": (1, 3), "u1": (0, 1), "u2": (0, 1), "f1": (0, 2), "f2": (0, 2), "c1": (0, 1), "c2": (0, 1)})
def file_metadata_merge(g1: int, g2: int, u1: int, u2: int, chiA: bool, chiB: bool, labelA: bool, f1: int, f2: int, c1: int, c2: int, x: float):
    """NuclideXSMetadata.merge (real merge, _mergeLibrarySpecificData, _getSkippedKeys): the group structure entries
    must agree or the merge is refused (never silently combined); the source file names of both are kept; the label is
    the first non-empty one; a file-wide fission spectrum on either side is dropped (flag 0) and every fissile nuclide
    of both holders is flagged as carrying its own spectrum instead; without file-wide chi no nuclide is touched;
    inputs are not changed."""
    assume(f1 >= 0 and f2 >= 0)
    A = file_meta(g1, u1, "LIB-A" if labelA else "", np.array([x, 1.0 - x]) if chiA else None, ["ISOAA"])
    B = file_meta(g2, u2, "LIB-B", np.array([x, 1.0 - x]) if chiB else None, ["ISOAB", "ISOAC"])
    hA, hB = holder(f1, c1), holder(f2, c2)
    try:
        r = A.merge(B, hA, hB, "ISOTXS", OSError)
        refused = False
    except OSError:
        refused = True
    assert refused == (g1 != g2 or u1 != u2), "refused iff the group structures differ"
    if not refused:
        assert r["numGroups"] == g1 and r["maxUpScatterGroups"] == u1
        assert r.fileNames == ["ISOAA", "ISOAB", "ISOAC"], "source file names of both"
        assert r["libraryLabel"] == ("LIB-A" if labelA else "LIB-B")
        assert r["chi"] is None, "file-wide chi is not carried over (flag and data stay consistent)"
        assert r["fileWideChiFlag"] == 0
        nA, nB = hA.nuclides[0].isotxsMetadata, hB.nuclides[0].isotxsMetadata
        if chiA or chiB:
            assert nA["chiFlag"] == (1 if f1 > 0 else c1) and nB["chiFlag"] == (1 if f2 > 0 else c2), "fissile nuclides carry their own chi now"
        else:
            assert nA["chiFlag"] == c1 and nB["chiFlag"] == c2
        assert nA["fisFlag"] == f1 and nB["fisFlag"] == f2
    # inputs unchanged
    assert A["numGroups"] == g1 and B["numGroups"] == g2 and A["maxUpScatterGroups"] == u1 and B["maxUpScatterGroups"] == u2
    assert A.fileNames == ["ISOAA"] and B.fileNames == ["ISOAB", "ISOAC"]
    assert (A["chi"] is not None) == chiA and (B["chi"] is not None) == chiB
    assert A["fileWideChiFlag"] == (1 if chiA else 0) and B["fileWideChiFlag"] == (1 if chiB else 0)
    assert A["libraryLabel"] == ("LIB-A" if labelA else "") and B["libraryLabel"] == "LIB-B"


# ----------------------------------------------------------------------------- XSNuclide.merge (+ XSCollection.merge, _mergeAttributes)
def nuclide(lib, label, mask, w, v):
    """a real XSNuclide carrying the data kinds of `mask` (1 neutron/ISOTXS, 2 gamma/GAMISO, 4 production/PMATRX):
    for each kind its metadata (one symbolic entry w[k]) and its data (2-group arrays built from v[k])"""
    n = XSNuclide(lib, label)
    hasN, hasG, hasP = bits(mask)
    if hasN:
        n.isotxsMetadata["amass"] = w[0]
        n.micros.fission = np.array([v[0], v[0] + 1.0])
        n.micros.nGamma = np.array([2.0 * v[0], v[0]])
    if hasG:
        n.gamisoMetadata["amass"] = w[1]
        n.gammaXS.total = np.array([v[1], v[1] + 1.0])
    if hasP:
        n.pmatrxMetadata["numLegendre"] = w[2]
        n.neutronHeating = np.array([v[2], v[2] + 1.0])
        n.gammaHeating = np.array([v[2] + 2.0, v[2]])
    return n


def first(a):
    return None if a is None else a[0]


def observe(n):
    """observable content of a nuclide: metadata entries and the leading value of every data array"""
    return [n.isotxsMetadata["amass"], n.gamisoMetadata["amass"], n.pmatrxMetadata["numLegendre"],
            len(n.isotxsMetadata), len(n.gamisoMetadata), len(n.pmatrxMetadata),
            first(n.micros.fission), first(n.micros.nGamma), first(n.gammaXS.total), first(n.gammaXS.fission),
            first(n.neutronHeating), first(n.gammaHeating), first(n.neutronDamage)]


def same_content(o1, o2):
    return all([(x is None and y is None) or (x is not None and y is not None and eq(x, y)) for x, y in zip(o1, o2)])


def try_nuclide_merge(a, b):
    try:
        a.merge(b)
        return False
    except AttributeError:
        return True


G_NUC = {"ma": (0, 7), "mb": (0, 7), "wa0": (0, 1), "wb0": (0, 1), "wa1": (0, 1), "wb1": (0, 1), "wa2": (0, 1), "wb2": (0, 1)}


@lemma(gen=G_NUC)
def nuclide_merge_unites_disjoint_kinds_and_refuses_overlap(ma: int, mb: int, wa0: int, wa1: int, wa2: int, wb0: int, wb1: int, wb2: int,
                                                            x0: float, x1: float, x2: float, y0: float, y1: float, y2: float):
    """XSNuclide.merge for every pair of data-kind sets (8 x 8 shapes), symbolic metadata entries and data:
    disjoint kinds -> the target holds the union, each kind (metadata and arrays) identical to its source, and the
    content is the same in either merge order; a kind present in both sources (same nuclide label) -> AttributeError,
    never a silent combination - whether or not the two copies happen to agree."""
    ma = choose(ma, 0, 7)
    mb = choose(mb, 0, 7)
    lib = IsotxsLibrary()
    wa, wb, va, vb = [wa0, wa1, wa2], [wb0, wb1, wb2], [x0, x1, x2], [y0, y1, y2]
    A = nuclide(lib, "U235AA", ma, wa, va)
    B = nuclide(lib, "U235AA", mb, wb, vb)
    srcA, srcB = observe(A), observe(B)
    pa, pb = bits(ma), bits(mb)
    overlap = any([pa[i] and pb[i] for i in range(3)])
    refused = try_nuclide_merge(A, B)
    assert refused == overlap, "refused iff some kind of data is present in both"
    if not refused:
        got = observe(A)
        for j in range(len(got)):
            if j in (3, 4, 5):
                assert got[j] == srcA[j] + srcB[j], "metadata entries: exactly those of the sources"
            elif srcA[j] is not None:
                assert eq(got[j], srcA[j]), "identical to its source"
            elif srcB[j] is not None:
                assert eq(got[j], srcB[j]), "identical to its source"
            else:
                assert got[j] is None, "nothing invented"
        # the other order
        A2 = nuclide(lib, "U235AA", ma, wa, va)
        B2 = nuclide(lib, "U235AA", mb, wb, vb)
        assert not try_nuclide_merge(B2, A2)
        assert same_content(observe(B2), got), "same content in either order"
