"""C05 finding (refuted on the unchanged tree): flag classes with EXPLICIT bit values lose their meaning when the reader
defines the same names in another order.

C05: "Flag sets keep their meaning even when the set of defined flags is extended or reordered between writing and
reading."  armi.utils.flags.Flag allows fields with explicit integer values (`BAR = 1`, `Flag.extend({"X": 4})`).
FlagSerializer stores `flag_order` = the names sorted by value and, when the reader's order differs, maps stored BIT
POSITION b to the reader's bit position `flagOrderNow.index(flagOrderPassed[b])` - it takes the position of a name in
the sorted list for its bit position, which is only true when the values are 1, 2, 4, ... without gaps (auto() fields).
With a gap in the writer's values a stored set either cannot be read (KeyError - bounded-tier finding F98
`flags.explicit-values.read-error`) or is read SILENTLY AS ANOTHER NAME (new: no error at all); with a gap in the
reader's values the result is a number that is none of the reader's fields.

Not picked up by ./check (directory contracts/pending).  Run:
  python3-vt -m pyvc.run contracts/pending/C05_flags_finding.py
Native reproduction (PYTHONPATH=/repo /venv/bin/python):
  from armi.utils.flags import Flag
  from armi.reactor.composites import FlagSerializer
  M = type(Flag)
  W = M("W", (Flag,), {"X": 2, "Y": 8}); R = M("R", (Flag,), {"Y": 1, "X": 2})
  npa, attrs = FlagSerializer._packImpl([W.X], W)
  print([sorted(f._flagsOn()) for f in FlagSerializer._unpackImpl(npa, "1", attrs, R)])   # observed [['Y']], expected [['X']]
  npa, attrs = FlagSerializer._packImpl([W.Y], W)
  FlagSerializer._unpackImpl(npa, "1", attrs, R)                                         # observed KeyError: 3
"""
import numpy as np

from spec import *

Flag = repo("armi.utils.flags:Flag")
FlagSerializer = repo("armi.reactor.composites:FlagSerializer")


def mk_explicit(names, exps):
    """a Flag class whose field names[i] has the explicit value 2 ** exps[i], made by the real metaclass"""
    return type(Flag)("W", (Flag,), {names[i]: 2 ** exps[i] for i in range(len(names))})


def names_on(f):
    return sorted(f._flagsOn())


def flag_of(cls, on):
    f = cls(0)
    for nm in on:
        f = f | getattr(cls, nm)
    return f


@lemma(gen={"a": (0, 3), "b": (0, 3), "c": (0, 3), "d": (0, 3), "mask": (1, 3)})
def explicit_bit_values_keep_their_names_when_the_reader_reorders_them(a: int, b: int, c: int, d: int, mask: int):
    """writer: X = 2^a, Y = 2^b; reader: X = 2^c, Y = 2^d (a != b, c != d, all in 0..3, every combination); every
    non-empty flag set: _packImpl -> _unpackImpl must neither raise nor return other names"""
    a = choose(a, 0, 3)
    b = choose(b, 0, 3)
    c = choose(c, 0, 3)
    d = choose(d, 0, 3)
    mask = choose(mask, 1, 3)
    assume(a != b and c != d)
    W = mk_explicit(["X", "Y"], [a, b])
    R = mk_explicit(["X", "Y"], [c, d])
    on = [nm for q, nm in enumerate(["X", "Y"]) if (mask // (2 ** q)) % 2 == 1]
    npa, attrs = FlagSerializer._packImpl([flag_of(W, on)], W)
    back = FlagSerializer._unpackImpl(npa, FlagSerializer.version, {"flag_order": list(attrs["flag_order"])}, R)
    assert names_on(back[0]) == sorted(on), "same names on"
