"""C06 - FINDING (refuted on the unchanged tree; known finding F22; not picked up by ./check).

Database.mergeHistory(src, c, n) stops only at an EXACT match of (c, n): when the restart step itself is not a step of
the source, every later step is copied as well.  Native: src holds (0,0),(0,2); dst.mergeHistory(src, 0, 1) -> dst lists
(0,0),(0,2) (expected: (0,0) only).  Helpers copied from ../C06_abort.py.
"""
from spec import *

dbmod = repo("armi.bookkeeping.db.database")
Database = repo("armi.bookkeeping.db.database:Database")


class H5Group:
    pass


class H5File:
    """stand-in for h5py.File: groups by name (insertion ordered), file attributes, open flag"""

    def __contains__(self, name):
        return name in self.groups

    def __getitem__(self, name):
        return self.groups[name]

    def create_group(self, name, track_order=False):
        if name in self.groups:
            raise ValueError("group exists")
        g = new(H5Group, name="/" + name, attrs={}, state=None)
        self.groups[name] = g
        return g

    def keys(self):
        return list(self.groups.keys())

    def flush(self):
        self.flushed = self.flushed + 1

    def close(self):
        self.isopen = False


class SrcFile(H5File):
    """source database file: items() as h5py (name, group) pairs"""

    def items(self):
        return [(k, self.groups[k]) for k in self.groups.keys()]


class DstFile(H5File):
    def copy(self, group, name):
        """contract of h5py Group.copy(source, name): an identical group under that name; refuses an existing name"""
        key = name[1:] if name[:1] == "/" else name
        if key in self.groups:
            raise ValueError("h5py: destination exists")
        self.groups[key] = new(H5Group, name=name, attrs=dict(group.attrs), state=group.state)


@lemma
def merge_stops_at_a_restart_point_that_is_not_a_step_of_the_source():
    src = new(SrcFile, groups={}, attrs={}, flushed=0, isopen=True)
    src.create_group(dbmod.getH5GroupName(0, 0)).state = 1
    src.create_group(dbmod.getH5GroupName(0, 2)).state = 2
    dst = new(DstFile, groups={}, attrs={}, flushed=0, isopen=True)
    db = new(Database, h5db=dst)
    db.mergeHistory(new(Database, h5db=src, _versionMinor=4, _versionMajor=3), 0, 1)
    assert list(db.genTimeSteps()) == [(0, 0)], "steps up to, not including, (0, 1)"
