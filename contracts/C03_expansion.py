"""C03 - thermal expansion conserves mass per unit height and scales dimensions.

Symbolically the material correlation is an ARBITRARY function P(T) = linearExpansionPercent(T) with P(T) > -100
(class AbstractSolid below overrides only that method; everything else is the real armi Material / Component code),
so each lemma covers every material that goes through the base-class path, at every temperature.
Natively the same lemmas run on real components with real library materials.
"""
import math

from spec import *

Material = repo("armi.materials.material:Material")
Fluid = repo("armi.materials.material:Fluid")
Component = repo("armi.reactor.components.component:Component")
DimensionLink = repo("armi.reactor.components.component:_DimensionLink")
basic = repo("armi.reactor.components.basicShapes")
cplx = repo("armi.reactor.components.complexShapes")


class PMap:
    """Abstract view of a ParameterCollection: a name -> value map (trusted model of `self.p`)."""

    def __getitem__(self, k):
        return getattr(self, k)

    def __setitem__(self, k, v):
        setattr(self, k, v)

    def get(self, k, d=None):
        return getattr(self, k, d)

    def __contains__(self, k):
        return hasattr(self, k)


class AbstractSolid(Material):
    """A solid material with an arbitrary expansion correlation."""

    def linearExpansionPercent(self, Tk=None, Tc=None):
        return uf("P", Tc)


NATIVE_MATERIALS = ["HT9", "UZr", "Zr", "Inconel", "B4C", "UraniumOxide", "HastelloyN", "Alloy200", "Inconel600", "TZM", "Molybdenum", "Inconel625", "InconelX750", "Tantalum"]


def solid(cls, dims, T0, T1, nd):
    """A component of class cls with cold dims, input temperature T0, current temperature T1."""
    if NATIVE:
        import random

        c = cls("c", spec_rng().choice(NATIVE_MATERIALS), T0, T1, **dims)
        return c
    assume(uf("P", T0) > -100.0)
    assume(uf("P", T1) > -100.0)
    p = new(PMap, numberDensities={"U235": nd, "ZR": 2.0 * nd}, volume=None, detailedNDens=None, pinNDens=None, modArea=None, temperatureInC=T1, **dims)
    return new(cls, p=p, material=new(AbstractSolid), inputTemperatureInC=T0, parent=None, cached={})


def first_density(c):
    nd = c.p.numberDensities
    return nd[sorted(nd.keys())[0]] if NATIVE else nd["U235"]


def expansion_contract(cls, dims, T0, T1, T2):
    """The C03 contract for one shape: dims = cold x factor; area ~ factor^2; N x area conserved; path independent."""
    c = solid(cls, dims, T0, T1, 0.02 if NATIVE else sym_real("nd"))  # ANY number density (natively the material's own)
    try:
        f1 = c.getThermalExpansionFactor()
    except RuntimeError:
        return  # a material without expansion data refuses loudly: outside the statement
    if not NATIVE:
        assume(uf("P", T2) > -100.0)
        assert eq(f1, (100.0 + uf("P", T1)) / (100.0 + uf("P", T0))), "factor relative to the input temperature"
    assert f1 > 0
    for k in sorted(dims.keys()):
        if k in cls.THERMAL_EXPANSION_DIMS:
            assert eq(c.getDimension(k), dims[k] * f1), "expanding dimension = cold value x factor"
        else:
            assert eq(c.getDimension(k), dims[k]), "non-expanding dimension unchanged"
        assert eq(c.getDimension(k, cold=True), dims[k])
    try:
        a1 = c.getArea()
    except ArithmeticError:
        return  # holes larger than the solid: not a well-formed shape, refused loudly
    n1 = first_density(c)
    c.setTemperature(T2)
    try:
        f2 = c.getThermalExpansionFactor()
        a2 = c.getArea()
    except (RuntimeError, ArithmeticError):
        return
    n2 = first_density(c)
    assert eq(a2 * f1 * f1, a1 * f2 * f2, 1e-7), "area grows by the square of the linear expansion factor"
    assert eq(n2 * a2, n1 * a1, 1e-7), "mass per unit height conserved"
    assert eq(n2 * f2 * f2, n1 * f1 * f1, 1e-7), "number density shrinks by the same factor"
    for k in sorted(dims.keys()):
        if k in cls.THERMAL_EXPANSION_DIMS:
            assert eq(c.getDimension(k), dims[k] * f2)


GEN = {"T0": (20.0, 600.0), "T1": (25.0, 600.0), "T2": (25.0, 600.0)}  # the input temperature is anywhere in the range too (components built hot)


def D(**kw):
    return kw


def pos(*xs):
    """(P) dimensions and multiplicities are not negative (ZERO is allowed)"""
    for x in xs:
        assume(x >= 0)


@lemma(gen=dict(GEN, od=[0.0, 0.5, 1.0, 2.0, 3.0], idf=[0.0, 0.0, 0.3, 0.9, 1.0, 1.2], mult=(0, 300)))
def circle(T0: float, T1: float, T2: float, od: float, idf: float, mult: int):
    pos(od, mult)
    assume(0 <= idf)
    expansion_contract(basic.Circle, D(od=od, id=od * idf, mult=mult), T0, T1, T2)


@lemma(gen=dict(GEN, op=[0.0, 0.5, 3.0, 20.0], ipf=[0.0, 0.0, 0.3, 0.9, 1.0, 1.2], mult=(0, 300)))
def hexagon_shape(T0: float, T1: float, T2: float, op: float, ipf: float, mult: int):
    pos(op, mult)
    assume(0 <= ipf)  # the inner dimension may reach or exceed the outer one: a solid of negative area is refused loudly (ArithmeticError), the dimension clauses still hold
    expansion_contract(basic.Hexagon, D(op=op, ip=op * ipf, mult=mult), T0, T1, T2)


@lemma(gen=dict(GEN, lo=[0.0, 0.5, 3.0, 20.0], wo=[0.0, 0.5, 4.0, 20.0], f=[0.0, 0.0, 0.3, 0.9, 1.0, 1.2], mult=(0, 30)))
def rectangle(T0: float, T1: float, T2: float, lo: float, wo: float, f: float, mult: int):
    pos(lo, wo, mult)
    assume(0 <= f)  # the inner dimension may reach or exceed the outer one: a solid of negative area is refused loudly (ArithmeticError), the dimension clauses still hold
    expansion_contract(basic.Rectangle, D(lengthOuter=lo, widthOuter=wo, lengthInner=lo * f, widthInner=wo * f, mult=mult), T0, T1, T2)


@lemma(gen=dict(GEN, lo=(0.5, 20.0), wo=(0.5, 20.0), mult=(1, 30)))
def solid_rectangle(T0: float, T1: float, T2: float, lo: float, wo: float, mult: int):
    pos(lo, wo, mult)
    expansion_contract(basic.SolidRectangle, D(lengthOuter=lo, widthOuter=wo, mult=mult), T0, T1, T2)


@lemma(gen=dict(GEN, wo=[0.0, 0.5, 4.0, 20.0], f=[0.0, 0.0, 0.3, 0.9, 1.0, 1.2], mult=(0, 30)))
def square(T0: float, T1: float, T2: float, wo: float, f: float, mult: int):
    pos(wo, mult)
    assume(0 <= f)  # the inner dimension may reach or exceed the outer one: a solid of negative area is refused loudly (ArithmeticError), the dimension clauses still hold
    expansion_contract(basic.Square, D(widthOuter=wo, widthInner=wo * f, mult=mult), T0, T1, T2)


@lemma(gen=dict(GEN, base=(0.5, 20.0), height=(0.5, 20.0), mult=(1, 30)))
def triangle(T0: float, T1: float, T2: float, base: float, height: float, mult: int):
    pos(base, height, mult)
    expansion_contract(basic.Triangle, D(base=base, height=height, mult=mult), T0, T1, T2)


@lemma(gen=dict(GEN, op=(5.0, 20.0), holeOD=(0.1, 0.5), nHoles=(1, 7), mult=(1, 30)))
def holed_hexagon(T0: float, T1: float, T2: float, op: float, holeOD: float, nHoles: int, mult: int):
    pos(op, holeOD, nHoles, mult)
    expansion_contract(cplx.HoledHexagon, D(op=op, holeOD=holeOD, nHoles=nHoles, mult=mult), T0, T1, T2)


@lemma(gen=dict(GEN, od=(5.0, 20.0), holeOP=(0.1, 2.0), mult=(1, 30)))
def hex_holed_circle(T0: float, T1: float, T2: float, od: float, holeOP: float, mult: int):
    pos(od, holeOP, mult)
    expansion_contract(cplx.HexHoledCircle, D(od=od, holeOP=holeOP, mult=mult), T0, T1, T2)


@lemma(gen=dict(GEN, lo=(5.0, 20.0), wo=(5.0, 20.0), holeOD=(0.1, 2.0), mult=(1, 30)))
def holed_rectangle(T0: float, T1: float, T2: float, lo: float, wo: float, holeOD: float, mult: int):
    pos(lo, wo, holeOD, mult)
    expansion_contract(cplx.HoledRectangle, D(lengthOuter=lo, widthOuter=wo, holeOD=holeOD, mult=mult), T0, T1, T2)


@lemma(gen=dict(GEN, wo=(5.0, 20.0), holeOD=(0.1, 2.0), mult=(1, 30)))
def holed_square(T0: float, T1: float, T2: float, wo: float, holeOD: float, mult: int):
    pos(wo, holeOD, mult)
    expansion_contract(cplx.HoledSquare, D(widthOuter=wo, holeOD=holeOD, mult=mult), T0, T1, T2)


@lemma(gen=dict(GEN, od=(0.2, 1.0), idf=[0.0, 0.0, 0.3, 0.9, 1.0, 1.2], ap=(5.0, 40.0), hd=(1.0, 5.0), mult=(0, 30)))
def helix(T0: float, T1: float, T2: float, od: float, idf: float, ap: float, hd: float, mult: int):
    pos(od, ap, hd, mult)
    assume(0 <= idf)  # the inner dimension may reach or exceed the outer one: a solid of negative area is refused loudly (ArithmeticError), the dimension clauses still hold
    expansion_contract(cplx.Helix, D(od=od, id=od * idf, axialPitch=ap, helixDiameter=hd, mult=mult), T0, T1, T2)


# ----------------------------------------------------------------------------- material-level algebra
@lemma(native=False)
def density_reduction_is_path_independent(T1: float, T2: float, T3: float):
    m = new(AbstractSolid)
    assume(uf("P", T1) > -100.0 and uf("P", T2) > -100.0 and uf("P", T3) > -100.0)
    r12 = m.getThermalExpansionDensityReduction(T1, T2)
    r23 = m.getThermalExpansionDensityReduction(T2, T3)
    r13 = m.getThermalExpansionDensityReduction(T1, T3)
    assert eq(r12 * r23, r13), "the end state depends only on the final temperature"
    assert eq(m.getThermalExpansionDensityReduction(T1, T1), 1.0)
    assert eq(r12, ((100.0 + uf("P", T1)) / (100.0 + uf("P", T2))) ** 2)
    assert eq(m.linearExpansionFactor(T2, T1), (uf("P", T2) - uf("P", T1)) / (100.0 + uf("P", T1)))


@lemma(native=False)
def any_temperature_path_ends_in_the_same_state(T0: float, Ta: float, Tb: float, Tc: float, Tend: float, od: float):
    """three intermediate temperatures vs. going directly: same dimensions, area and densities"""
    pos(od)
    assume(uf("P", Ta) > -100.0 and uf("P", Tb) > -100.0 and uf("P", Tc) > -100.0 and uf("P", Tend) > -100.0)
    c = solid(basic.Circle, D(od=od, id=0.0, mult=1), T0, T0, 0.02)
    d = solid(basic.Circle, D(od=od, id=0.0, mult=1), T0, T0, 0.02)
    c.setTemperature(Ta)
    c.setTemperature(Tb)
    c.setTemperature(Tc)
    c.setTemperature(Tend)
    d.setTemperature(Tend)
    assert eq(c.p.numberDensities["U235"], d.p.numberDensities["U235"])
    assert eq(c.p.numberDensities["ZR"], d.p.numberDensities["ZR"])
    try:
        assert eq(c.getDimension("od"), d.getDimension("od"))
        assert eq(c.getArea(), d.getArea())
    except RuntimeError:
        pass


@lemma(gen=dict(GEN, od=(0.5, 3.0), hot=(0.5, 3.0)))
def hot_dimension_reads_back(T0: float, T1: float, od: float, hot: float):
    pos(od, hot)
    c = solid(basic.Circle, D(od=od, id=0.0, mult=1), T0, T1, 0.02)
    try:
        c.setDimension("od", hot, cold=False)
        assert eq(c.getDimension("od"), hot), "setting a hot dimension reads back that value"
        c.setDimension("mult", 7, cold=False)
        assert c.getDimension("mult") == 7
        c.setDimension("id", hot / 2.0, cold=True)
        assert eq(c.getDimension("id", cold=True), hot / 2.0)
        assert eq(c.getDimension("od"), hot), "other dimensions unchanged"
    except RuntimeError:
        pass


@lemma(native=False)
def linked_dimension_follows_the_other_component(T0: float, T1: float, T2: float, od: float, clad: float):
    pos(od, clad)
    fuel = solid(basic.Circle, D(od=od, id=0.0, mult=1), T0, T1, 0.02)
    gap = solid(basic.Circle, D(od=od + clad, id=DimensionLink((fuel, "od")), mult=1), T0, T1, 0.02)
    assume(uf("P", T2) > -100.0)
    try:
        assert eq(gap.getDimension("id"), fuel.getDimension("od"))
        fuel.setTemperature(T2)
        assert eq(gap.getDimension("id"), fuel.getDimension("od")), "a linked dimension equals the other component's current dimension"
        assert eq(gap.getDimension("id", cold=True), od)
    except RuntimeError:
        pass


@lemma(native=False)
def fluids_keep_their_dimensions(T0: float, T1: float, od: float):
    pos(od)
    p = new(PMap, numberDensities={"NA23": 0.02}, volume=None, detailedNDens=None, pinNDens=None, modArea=None, temperatureInC=T1, od=od, id=0.0, mult=1)
    c = new(basic.Circle, p=p, material=new(Fluid), inputTemperatureInC=T0, parent=None, cached={})
    assert c.getThermalExpansionFactor() == 1.0
    assert eq(c.getDimension("od"), od)
    assert eq(c.getArea(), math.pi * od * od / 4.0)


class AbstractSolid2(Material):
    """A second solid material with its own arbitrary expansion correlation Q(T)."""

    def linearExpansionPercent(self, Tk=None, Tc=None):
        return uf("Q", Tc)


def linked_pair(od, clad, T0, Tf, Tg, fluidGap):
    """fuel (material P, temperature Tf) and a gap / liner whose id is LINKED to fuel.od, of ANOTHER material
    (Q, or a fluid) at ANOTHER temperature Tg"""
    if NATIVE:
        fuel = basic.Circle("fuel", "UZr", T0, Tf, od=od, id=0.0, mult=1)
        gap = basic.Circle("gap", "Sodium" if fluidGap else "HT9", T0, Tg, od=od + clad, id="fuel.od", mult=1)
        gap.resolveLinkedDims({"fuel": fuel})
        return fuel, gap
    fuel = solid(basic.Circle, D(od=od, id=0.0, mult=1), T0, Tf, 0.02)
    assume(uf("Q", T0) > -100.0)
    assume(uf("Q", Tg) > -100.0)
    p = new(PMap, numberDensities={"FE": 0.02}, volume=None, detailedNDens=None, pinNDens=None, modArea=None, temperatureInC=Tg,
            od=od + clad, id=DimensionLink((fuel, "od")), mult=1)
    gap = new(basic.Circle, p=p, material=new(Fluid) if fluidGap else new(AbstractSolid2), inputTemperatureInC=T0, parent=None, cached={})
    return fuel, gap


@lemma(gen=dict(T0=(20.0, 600.0), Tf=(25.0, 700.0), Tg=(25.0, 700.0), od=(0.5, 2.0), clad=(0.05, 0.5), hot=(0.4, 2.0)))
def hot_dimension_set_through_a_link_reads_back_on_both_components(T0: float, Tf: float, Tg: float, od: float, clad: float, hot: float, fluidGap: bool):
    """Component.setDimension(key, hot, retainLink=True, cold=False) on a LINKED dimension, the two components being of
    different materials (arbitrary laws P and Q, or a fluid) and at different temperatures: the hot value reads back
    on the linking component AND is the owner's current dimension; a cold set through the link likewise."""
    pos(od, clad, hot)
    fuel, gap = linked_pair(od, clad, T0, Tf, Tg, fluidGap)
    try:
        assert eq(gap.getDimension("id"), fuel.getDimension("od")), "a linked dimension equals the other component's current dimension"
        gap.setDimension("id", hot, retainLink=True, cold=False)
        assert gap.dimensionIsLinked("id"), "the link is retained"
        assert eq(fuel.getDimension("od"), hot), "the owner's current (hot) dimension is the value set through the link"
        assert eq(gap.getDimension("id"), hot), "setting a hot dimension reads back that value"
        assert eq(gap.getDimension("id"), fuel.getDimension("od"))
        gap.setDimension("id", od / 2.0, retainLink=True, cold=True)
        assert eq(fuel.getDimension("od", cold=True), od / 2.0), "a cold value set through the link is the owner's cold dimension"
        assert eq(gap.getDimension("id", cold=True), od / 2.0)
    except RuntimeError:
        pass


@lemma(gen=dict(T0=(20.0, 600.0), Tf=(25.0, 700.0), Tg=(25.0, 700.0), T2=(25.0, 700.0), od=(0.5, 2.0), clad=(0.05, 0.5)))
def linked_dimension_follows_the_owner_at_the_owners_temperature(T0: float, Tf: float, Tg: float, T2: float, od: float, clad: float, fluidGap: bool):
    """the linked dimension is evaluated at the OWNER's temperature and material, not at the linking component's:
    components of different materials at different temperatures, then the owner alone changes temperature"""
    pos(od, clad)
    fuel, gap = linked_pair(od, clad, T0, Tf, Tg, fluidGap)
    if not NATIVE:
        assume(uf("P", T2) > -100.0)
    try:
        f = fuel.getThermalExpansionFactor()
        assert eq(gap.getDimension("id"), od * f), "= the owner's cold dimension x the OWNER's expansion factor"
        assert eq(gap.getDimension("id"), fuel.getDimension("od"))
        fuel.setTemperature(T2)
        assert eq(gap.getDimension("id"), od * fuel.getThermalExpansionFactor()), "follows the owner when only the owner's temperature changes"
        assert eq(gap.getDimension("id"), fuel.getDimension("od"))
        assert eq(gap.getDimension("id", cold=True), od)
    except RuntimeError:
        pass


@lemma(gen=dict(T0=(20.0, 600.0), T1=(25.0, 700.0), T2=(25.0, 700.0), od=(0.5, 3.0), nd=(0.001, 0.1)))
def heating_one_component_leaves_a_component_built_from_the_same_composition_table_alone(T0: float, T1: float, T2: float, od: float, nd: float):
    """two components whose number densities were assigned from ONE composition dict (`c.p.numberDensities = table`,
    the idiom the docstring of updateNumberDensities suggests): changing the temperature of one rescales ITS densities
    by the expansion ratio and leaves the other component - and the caller's table - exactly as they were, so the
    other's mass is conserved and its state still depends only on its own temperature."""
    assume(nd > 0 and od > 0)
    if not NATIVE:
        assume(uf("P", T2) > -100.0)
    a = solid(basic.Circle, D(od=od, id=0.0, mult=1.0), T0, T1, nd)
    b = solid(basic.Circle, D(od=od, id=0.0, mult=1.0), T0, T1, nd)
    table = {"U235": nd, "ZR": 2.0 * nd}
    a.p.numberDensities = table
    b.p.numberDensities = table
    a.setTemperature(T2)
    r = a.material.getThermalExpansionDensityReduction(T1, T2)
    assert eq(b.p.numberDensities["U235"], nd) and eq(b.p.numberDensities["ZR"], 2.0 * nd), "the other component is untouched"
    assert eq(table["U235"], nd) and eq(table["ZR"], 2.0 * nd), "and so is the table the caller holds"
    assert eq(a.p.numberDensities["U235"], nd * r) and eq(a.p.numberDensities["ZR"], 2.0 * nd * r), "the heated one is rescaled once"
    rb = b.material.getThermalExpansionDensityReduction(T1, T2)
    b.setTemperature(T2)
    assert eq(b.p.numberDensities["U235"], nd * rb), "heated to the same temperature later, the other ends in the same state"
