"""C06 - snapshot group names: one name per (cycle, node, label), and listing order = chronological order.

The real getH5GroupName and the real Database.timeNodeGroupPattern / genTimeSteps are executed.  Names are strings,
which the engine only handles concretely: cycles and nodes are ENUMERATED COMPLETELY over 0..99 x 0..99 (the range the
two-digit naming scheme admits and the property quantifies over) inside the engine - a complete proof over that finite
range, not a sample.  Stand-in: `H5` (the h5py.File of the database: a name -> group mapping with keys()).
"""
from spec import *

dbmod = repo("armi.bookkeeping.db.database")
Database = repo("armi.bookkeeping.db.database:Database")

LABELS = (None, "", "EOL", "error", "c00n00", "-BOL-01-main")


class H5:
    """stand-in for the open h5py.File: keys() lists the stored group names"""

    def keys(self):
        return list(self.names)

    def __contains__(self, k):
        return k in self.names


@lemma
def names_of_unlabelled_snapshots_parse_back_and_sort_chronologically():
    names = []
    for c in range(100):
        for n in range(100):
            nm = dbmod.getH5GroupName(c, n)
            m = Database.timeNodeGroupPattern.match(nm)
            assert m is not None and (int(m.group(1)), int(m.group(2))) == (c, n), "the name reads back as (cycle, node)"
            names.append(nm)
    assert len(set(names)) == 100 * 100, "distinct (cycle, node) give distinct names"
    assert sorted(names) == names, "name order = (cycle, node) order: listing sorted names is chronological"


@lemma
def written_steps_are_listed_once_in_chronological_order():
    """three snapshots written in ANY order (all ordered triples over a 3 x 3 grid of (cycle, node) values that cross
    the digit boundaries) next to non-snapshot groups: genTimeSteps lists exactly the written steps, sorted"""
    grid = [(c, n) for c in (0, 9, 10) for n in (1, 10, 99)]
    for s1 in grid:
        for s2 in grid:
            for s3 in grid:
                steps = [s1, s2, s3]
                if len(set(steps)) < 3:
                    continue
                db = new(Database, h5db=new(H5, names=["inputs"] + [dbmod.getH5GroupName(c, n) for c, n in steps] + ["c1n1", "xc01n01"]))
                listed = list(db.genTimeSteps())
                assert listed == sorted(steps), "every written snapshot and nothing else is listed, in chronological order"
                assert db.hasTimeStep(s1[0], s1[1]) and db.hasTimeStep(s3[0], s3[1])
                assert not db.hasTimeStep(s1[0], s1[1], "EOL"), "a labelled snapshot is a different snapshot"
                assert not db.hasTimeStep(s1[0] + 1, s1[1]) or (s1[0] + 1, s1[1]) in steps


@lemma
def labels_keep_snapshots_apart():
    seen = {}
    for c in (0, 1, 9, 10, 99):
        for n in (0, 1, 10, 11, 99):
            for lab in LABELS:
                nm = dbmod.getH5GroupName(c, n, lab)
                key = (c, n, lab or "")
                assert seen.get(nm, key) == key, "two different (cycle, node, label) never share a group name"
                seen[nm] = key
                m = Database.timeNodeGroupPattern.match(nm)
                assert (int(m.group(1)), int(m.group(2))) == (c, n)
                assert nm[6:] == (lab or ""), "the label is the rest of the name"
