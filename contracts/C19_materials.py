"""C19 (material library) - every library material has a finite positive density and a finite expansion at EVERY
temperature of its stated range.

One lemma per material class of armi.materials whose correlations are closed-form (polynomials, rational functions,
square / cube roots, np.interp over a concrete table, exp through sound bounds).  The temperature is a symbolic real
constrained to the material's STATED range, read from the real class attribute ``propertyValidTemperature`` under the
key the real method itself passes to ``checkPropertyTempRange`` (that is what "stated range of the property" means in
the code; the key is named in each lemma).  The object is built by the REAL constructor (``Material.__init__`` ->
``setDefaultMassFracs``), so the composition clause (fractions in [0, 1] summing to one within the data precision
1e-6 used by bounded/C19_directory.py) is decided on the way.  The real ``linearExpansionPercent`` / ``density`` /
``pseudoDensity`` / ``pseudoDensityKgM3`` / ``densityKgM3`` / ``linearExpansion`` of the class (own or inherited from
Material / SimpleSolid / Fluid / FuelMaterial) are executed; asserted, for ALL temperatures of the range:

* 1 + dL/L/100 > 0 (a finite, positive linear expansion factor - the hypothesis ``P(T) > -100`` of every C03 lemma);
* density > 0 and pseudoDensity > 0 (Void: = 0, admitted by the bounded tier too);
* where the base class defines one density by the other (Material.density = refDens/f^3, Material.pseudoDensity =
  refDens/f^2, SimpleSolid's expansion derived from its density): pseudoDensity = density x f;
* asking with Tc = Tk - 273.15 (the way components ask) gives the same value as asking with Tk;
* the kg/m^3 forms are 1000 x the g/cm^3 forms; a piecewise correlation is evaluated on every piece.

A material that states NO range for a property is outside the quantifier of C19; for those the lemma proves the
clause on the physically meaningful half line (Tk >= 0) or for all T where that is true, and says so.
Natively the same lemmas run on the real armi materials with random temperatures of the range.

Not here: Custom and _Mixture (no correlation: user-supplied density / composition).  Water is abstract by design
(lemma abstract_water_refuses); SaturatedWater / SaturatedSteam are proved with exact real roots (y^q = x) and with
e^x under-specified by facts true of the real exponential.
Known findings restated as refuted lemmas: contracts/pending/C19_materials_finding.py.
"""
import numpy

from spec import *

K0 = 273.15
TOL = 1e-6  # data precision of the composition tables (same bound as bounded/C19_directory.py)


class Nuc:
    """stand-in for a NuclideBase of the nuclide directory: only .weight and .abundance are read by the material
    constructors (contract assumed: weight > 0, 0 <= abundance <= 1)"""


def nuc(name, weight, abundance):
    """symbolically an ARBITRARY positive weight and an arbitrary abundance in [0, 1]; natively the tabulated values"""
    if NATIVE:
        return new(Nuc, weight=weight, abundance=abundance)
    w, a = uf("weight_" + name), uf("abundance_" + name)
    return new(Nuc, weight=w, abundance=a)


TABLE = {
    "B10": nuc("B10", 10.0129369, 0.199), "B11": nuc("B11", 11.0093054, 0.801), "C": nuc("C", 12.0107359, 0.0),
    "U235": nuc("U235", 235.043929, 0.007204), "U238": nuc("U238", 238.050788, 0.992742), "O": nuc("O", 15.9994, 0.0),
    "LI6": nuc("LI6", 6.01512289, 0.0759), "LI7": nuc("LI7", 7.01600344, 0.9241),
    "AG107": nuc("AG107", 106.905097, 0.51839), "AG109": nuc("AG109", 108.904752, 0.48161),
}
OV = {"armi.nucDirectory.nuclideBases:byName": "TABLE", "armi.nucDirectory.nuclideBases:byLabel": "TABLE"}


def table_is_physical(*names):
    for n in names:
        assume(TABLE[n].weight > 0 and 0 <= TABLE[n].abundance and TABLE[n].abundance <= 1)


# ----------------------------------------------------------------------------- the contract clauses
def stated_range(cls, key, unit, T):
    """hypothesis: T lies in the range the class states under `key`; the stated unit is the unit of the checked value"""
    (lo, hi), u = cls.propertyValidTemperature[key]
    assert u == unit, "the stated unit is the unit of the value the method checks"
    assert lo < hi, "the stated range is not empty"
    assume(lo <= T and T <= hi)
    return lo, hi


def composition(m, n):
    """n nuclides, every fraction in [0, 1], summing to one within the data precision"""
    fr = list(m.massFrac.values())
    assert len(fr) == n
    s = 0.0
    for v in fr:
        assert 0 <= v and v <= 1, "mass fraction in [0, 1]"
        s = s + v
    assert s - 1.0 <= TOL and 1.0 - s <= TOL, "mass fractions sum to one within data precision"


def solid(m, Tk, derived=True, kg=True):
    """the C19 clause for a solid at Tk (K): returns (dL/L %, pseudoDensity, density)"""
    Tc = Tk - K0
    d3 = m.density(Tk=Tk)
    assert d3 > 0, "density is positive"
    p = m.linearExpansionPercent(Tk=Tk)
    f = 1.0 + p / 100.0
    assert f > 0, "finite positive linear expansion factor"
    d2 = m.pseudoDensity(Tk=Tk)
    assert d2 > 0, "pseudoDensity is positive"
    if derived:
        assert eq(d2, d3 * f), "pseudoDensity = density x linear expansion factor"
    if kg:
        assert eq(m.pseudoDensityKgM3(Tk=Tk), 1000.0 * d2), "kg/m^3 = 1000 x g/cm^3 (pseudoDensity)"
    assert eq(m.densityKgM3(Tk=Tk), 1000.0 * d3), "kg/m^3 = 1000 x g/cm^3 (density)"
    assert eq(m.linearExpansionPercent(Tc=Tc), p), "Tc form = Tk form (expansion)"
    assert eq(m.density(Tc=Tc), d3) and eq(m.pseudoDensity(Tc=Tc), d2), "Tc form = Tk form (densities)"
    return p, d2, d3


def fluid(m, Tk, kg=True, celsius=True):
    """the C19 clause for a fluid at Tk (K): density = pseudoDensity > 0, no linear expansion"""
    Tc = Tk - K0
    d2 = m.pseudoDensity(Tk=Tk)
    assert d2 > 0, "pseudoDensity is positive"
    d3 = m.density(Tk=Tk)
    assert eq(d3, d2), "a fluid's density is its pseudoDensity"
    assert m.linearExpansionPercent(Tk=Tk) == 0 and m.linearExpansion(Tk=Tk) == 0, "fluids do not expand linearly"
    if kg:
        assert eq(m.pseudoDensityKgM3(Tk=Tk), 1000.0 * d2) and eq(m.densityKgM3(Tk=Tk), 1000.0 * d3), "kg/m^3 = 1000 x g/cm^3"
    if celsius:
        assert eq(m.pseudoDensity(Tc=Tc), d2) and eq(m.density(Tc=Tc), d2), "Tc form = Tk form"
    return d2


def mat(path):
    return repo("armi.materials." + path)


# ----------------------------------------------------------------------------- solids on the Material base class
HT9 = mat("ht9:HT9")


@lemma(gen={"Tk": (293.0, 1050.0)})
def ht9(Tk: float):
    """HT9, all Tk in [293, 1050] K (key "linear expansion", the one HT9.linearExpansionPercent checks): cubic dL/L"""
    stated_range(HT9, "linear expansion", "K", Tk)
    m = HT9()
    composition(m, 9)
    p, d2, d3 = solid(m, Tk)
    assert -0.01 <= p and p <= 1.0, "HT9 expands by less than 1 % over its range"
    assert d3 <= 7.778 * 1.001 and d2 <= 7.778 * 1.001


Be9 = mat("be9:Be9")


@lemma(gen={"Tk": (50.0, 1560.0)})
def be9(Tk: float):
    """Be9, all Tk in [50, 1560] K (key "linear expansion percent"): quadratic dL/L"""
    stated_range(Be9, "linear expansion percent", "K", Tk)
    m = Be9()
    composition(m, 1)
    solid(m, Tk)


Graphite = mat("graphite:Graphite")


@lemma(gen={"Tk": (0.0, 4000.0)})
def graphite(Tk: float):
    """Graphite states NO range (outside the quantifier): proved for ALL Tk >= 0 (quadratic dL/L in Tc)"""
    assume(Tk >= 0)
    assert "linear expansion percent" not in Graphite.propertyValidTemperature
    m = Graphite()
    composition(m, 1)
    solid(m, Tk)


HastelloyN = mat("hastelloyN:HastelloyN")


@lemma(gen={"Tk": (293.15, 1173.15)})
def hastelloy_n(Tk: float):
    """HastelloyN, all Tk in [293.15, 1173.15] K (key "thermal expansion", checked by meanCoefficientThermalExpansion):
    dL/L = 100 x mean coefficient x (Tc - Tref), a cubic"""
    stated_range(HastelloyN, "thermal expansion", "K", Tk)
    m = HastelloyN()
    composition(m, 13)
    p, d2, d3 = solid(m, Tk)
    assert p >= 0, "no contraction above the reference temperature"
    assert eq(m.linearExpansionPercent(Tk=m.refTempK), 0.0), "zero expansion at the reference temperature"


Inconel600 = mat("inconel600:Inconel600")
Inconel625 = mat("inconel625:Inconel625")
InconelX750 = mat("inconelX750:InconelX750")
Inconel800 = mat("inconel800:Inconel800")


def inconel_contract(cls, Tc, Ta, n):
    """Inconel 600 / 625 / X750: quadratic dL/L in Tc (key "linear expansion percent", C), linear coefficient (key
    "linear expansion", C)"""
    stated_range(cls, "linear expansion percent", "C", Tc)
    m = cls()
    composition(m, n)
    p, d2, d3 = solid(m, Tc + K0)
    stated_range(cls, "linear expansion", "C", Ta)
    a = m.linearExpansion(Tc=Ta)
    assert a > 0 and a < 1e-4, "finite positive instantaneous expansion coefficient on ITS stated range"
    assert eq(m.linearExpansion(Tk=Ta + K0), a)
    assert d2 < m.refDens * 1.001 and d3 < m.refDens * 1.001, "never denser than the reference density (beyond the fit offset at 21 C)"


@lemma(gen={"Tc": (21.0, 900.0), "Ta": (21.0, 900.0)})
def inconel600(Tc: float, Ta: float):
    """Inconel600, all Tc (dL/L, densities) and all Ta (coefficient) in [21, 900] C"""
    inconel_contract(Inconel600, Tc, Ta, 8)


@lemma(gen={"Tc": (21.0, 927.0), "Ta": (21.0, 927.0)})
def inconel625(Tc: float, Ta: float):
    """Inconel625, all Tc (dL/L, densities) and all Ta (coefficient) in [21, 927] C"""
    inconel_contract(Inconel625, Tc, Ta, 13)


@lemma(gen={"Tc": (21.1, 982.2), "Ta": (21.1, 982.2)})
def inconel_x750(Tc: float, Ta: float):
    """InconelX750, all Tc (dL/L, densities) and all Ta (coefficient) in [21.1, 982.2] C"""
    inconel_contract(InconelX750, Tc, Ta, 12)


@lemma(gen={"Tc": (20.0, 800.0)})
def inconel800(Tc: float):
    """Inconel800, all Tc in [20, 800] C (key "thermal expansion", checked by meanCoefficientThermalExpansion): quartic dL/L"""
    stated_range(Inconel800, "thermal expansion", "C", Tc)
    m = Inconel800()
    composition(m, 10)
    solid(m, Tc + K0)


MgO = mat("mgO:MgO")
Sc2O3 = mat("scandiumOxide:Sc2O3")
Y2O3 = mat("yttriumOxide:Y2O3")


@lemma(gen={"Tk": (273.15, 1273.15)})
def mgo(Tk: float):
    """MgO, all Tk in [273.15, 1273.15] K (key "linear expansion percent"; the "density" entry is never checked): cubic in Tc"""
    stated_range(MgO, "linear expansion percent", "K", Tk)
    m = MgO()
    composition(m, 2)
    p, d2, d3 = solid(m, Tk)
    assert p >= 0


@lemma(gen={"Tk": (273.15, 1573.15)})
def sc2o3(Tk: float):
    """Sc2O3, all Tk in [273.15, 1573.15] K: quadratic dL/L"""
    stated_range(Sc2O3, "linear expansion percent", "K", Tk)
    m = Sc2O3()
    composition(m, 2)
    solid(m, Tk)


@lemma(gen={"Tk": (273.15, 1573.15)})
def y2o3(Tk: float):
    """Y2O3, all Tk in [273.15, 1573.15] K: quadratic dL/L"""
    stated_range(Y2O3, "linear expansion percent", "K", Tk)
    m = Y2O3()
    composition(m, 2)
    solid(m, Tk)


TZM = mat("tZM:TZM")


@lemma(gen={"Tc": (21.11, 1382.22)})
def tzm(Tc: float):
    """TZM, all Tc in [21.11, 1382.22] C: dL/L = np.interp over the 11-point table (exact piecewise-linear model)"""
    lo, hi = stated_range(TZM, "linear expansion percent", "C", Tc)
    assert lo == TZM.temperatureC[0] and hi == TZM.temperatureC[-1], "the stated range is the span of the table"
    m = TZM()
    composition(m, 4)
    p, d2, d3 = solid(m, Tc + K0)
    assert 0 <= p and p <= 0.504, "interpolation stays inside the tabulated values"


Zr = mat("zr:Zr")


@lemma(gen={"Tk": (293.0, 1800.0), "Ta": (293.0, 1800.0)})
def zr(Tk: float, Ta: float):
    """Zr, all Tk in [293, 1800] K (key "linear expansion percent"; the constructor's density(298.15 K) under key
    "density"): two cubics, switching at the alpha-beta transition 1137 K (both pieces covered)"""
    stated_range(Zr, "linear expansion percent", "K", Tk)
    stated_range(Zr, "density", "K", Zr.refTempK)
    m = Zr()
    composition(m, 1)
    assert m.refDens > 6.5 and m.refDens < 6.6, "the constructor's reference density"
    p, d2, d3 = solid(m, Tk)
    if Tk < 1137:
        cover("alpha")
    else:
        cover("beta")
    assert p > -0.01 and p < 1.2
    stated_range(Zr, "linear expansion", "K", Ta)
    a = m.linearExpansion(Tk=Ta)
    assert 5.7e-6 <= a and a <= 1.13e-5, "instantaneous coefficient on ITS stated range: np.interp stays inside the table"
    assert eq(m.linearExpansion(Tc=Ta - K0), a)


Alloy200 = mat("alloy200:Alloy200")


@lemma(gen={"Tk": (73.15, 1273.15)})
def alloy200(Tk: float):
    """Alloy200: no linearExpansionPercent of its own (Material's 0.0, no range: density = 8.9 at EVERY temperature);
    linearExpansion = np.interp over a 12-point table, all Tk in [73.15, 1273.15] K (key "linear expansion")"""
    stated_range(Alloy200, "linear expansion", "K", Tk)
    m = Alloy200()
    composition(m, 7)
    p, d2, d3 = solid(m, Tk)
    assert p == 0 and d2 == 8.9 and d3 == 8.9
    a = m.linearExpansion(Tk=Tk)
    assert 10.1e-6 <= a and a <= 16.7e-6, "instantaneous coefficient stays inside the table"
    assert eq(m.linearExpansion(Tc=Tk - K0), a)


Thorium = mat("thorium:Thorium")
ThU = mat("thU:ThU")


@lemma(gen={"Tk": (0.0, 3000.0)})
def thorium_and_thu(Tk: float):
    """Thorium, ThU: no dL/L of their own (0.0): density = pseudoDensity = 11.68 at EVERY temperature (proved for all
    Tk); the constant coefficient is checked under key "linear expansion" [30, 600] K"""
    for cls, n in ((Thorium, 1), (ThU, 2)):
        m = cls()
        composition(m, n)
        p, d2, d3 = solid(m, Tk)
        assert p == 0 and d2 == 11.68 and d3 == 11.68
        (alo, ahi), u = cls.propertyValidTemperature["linear expansion"]
        assert u == "K" and alo < ahi
        if alo <= Tk and Tk <= ahi:
            assert m.linearExpansion(Tk=Tk) == 11.9e-6


UZr = mat("uZr:UZr")


@lemma(gen={"Tk": (0.0, 3000.0)})
def uzr(Tk: float):
    """UZr states NO range (outside the quantifier): proved for ALL Tk >= 0 (cubic dL/L; reference density by Vegard's law)"""
    assume(Tk >= 0)
    assert UZr.propertyValidTemperature == {}
    m = UZr()
    composition(m, 3)
    assert eq(m.refDens, 1.0 / (0.9 / 19.1 + 0.1 / 6.52))
    p, d2, d3 = solid(m, Tk)
    assert p >= -0.73


B4C = mat("b4c:B4C")


@lemma(gen={"Tc": (25.0, 500.0)}, overrides=OV)
def b4c(Tc: float):
    """B4C, all Tc in [25, 500] C: linear dL/L; densities carry the theoretical-density fraction.  Collaborator: the
    nuclide directory (nuclideBases.byName) is the stand-in TABLE - ARBITRARY positive atomic weights of B10, B11, C:
    the constructor's composition sums to one for any weights"""
    table_is_physical("B10", "B11", "C")
    stated_range(B4C, "linear expansion percent", "C", Tc)
    m = B4C()
    composition(m, 3)
    assert m.theoreticalDensityFrac > 0 and m.theoreticalDensityFrac <= 1
    p, d2, d3 = solid(m, Tc + K0)
    assert p >= 0
    assert eq(d3 * (1.0 + p / 100.0) ** 3, 2.52 * m.theoreticalDensityFrac), "3-d expansion of the reference density x TD"


SiC = mat("siC:SiC")


@lemma(gen={"Tc": (0.0, 1500.0)})
def sic(Tc: float):
    """SiC, all Tc in [0, 1500] C (keys "density" and "cumulative linear expansion"): pseudoDensity = 3.16 (1 + cA Tc)^-3
    with cA = (4.22 + 8.33e-4 Tc - 3.51 exp(-0.00527 Tc)) 1e-6; exp enters through the sound bounds 0 < exp(x) <= 1 for
    x <= 0 only.  density() is Material's (no dL/L: 3.21 at every temperature) - the two are NOT related by an
    expansion factor here (own pseudoDensity), so that clause is not asserted.  pseudoDensityKgM3 is NOT asserted here:
    it is refuted (SiC.pseudoDensity takes (Tc, Tk) positionally, Material.pseudoDensityKgM3 passes (Tk, Tc)) - see
    pending/C19_materials_finding.py:sic_kgm3_form_is_1000_times_the_gcc_form"""
    stated_range(SiC, "density", "C", Tc)
    stated_range(SiC, "cumulative linear expansion", "C", Tc)
    m = SiC()
    composition(m, 2)
    p, d2, d3 = solid(m, Tc + K0, derived=False, kg=False)
    assert p == 0 and d3 == 3.21
    assert d2 <= 3.16 and d2 > 3.16 * 0.97, "at most 1 % linear growth over the range"
    cA = m.cumulativeLinearExpansion(Tc=Tc)
    assert cA > 0.7e-6 and cA < 5.5e-6
    assert eq(d2 * (1.0 + cA * Tc) ** 3, 3.16), "the class's own stated equation propertyEquation['density']: rho0 (1 + cA (Tc - 0))^-3"


# ----------------------------------------------------------------------------- SimpleSolid: expansion derived from density
SIMPLE = {
    "CaH2": (mat("caH2:CaH2"), 1.7, 2), "Californium": (mat("californium:Californium"), 15.1, 1),
    "Inconel": (mat("inconel:Inconel"), 8.36, 13), "Inconel617": (mat("inconel:Inconel617"), 8.36, 13),
    "Molybdenum": (mat("molybdenum:Molybdenum"), 10.28, 1), "NZ": (mat("nZ:NZ"), 8.66, 2),
    "Tantalum": (mat("tantalum:Tantalum"), 16.6, 1),
}


@lemma(gen={"Tk": (0.0, 4000.0), "which": (0, 6)})
def constant_density_simple_solids(Tk: float, which: int):
    """CaH2, Californium, Inconel, Inconel617, Molybdenum, NZ, Tantalum (SimpleSolid with a constant density, NO stated
    range): for ALL Tk the real SimpleSolid.__init__ / linearExpansionPercent / pseudoDensity give dL/L = 0 and
    density = pseudoDensity = the tabulated constant (`which` enumerates the seven classes)"""
    which = choose(which, 0, 6)
    cls, rho, n = SIMPLE[sorted(SIMPLE.keys())[which]]
    m = cls()
    composition(m, n)
    assert m.refDens == rho, "SimpleSolid.__init__ takes the reference density from density(300 K)"
    p, d2, d3 = solid(m, Tk)
    assert p == 0 and d2 == rho and d3 == rho


Hafnium = mat("hafnium:Hafnium")
InconelPE16 = mat("inconelPE16:InconelPE16")
HF = [(174, 0.0016), (176, 0.0526), (177, 0.186), (178, 0.2728), (179, 0.1362), (180, 0.3508)]


def natural_hafnium(elementSymbol=None, z=None):
    """contract assumed for nucDir.getNaturalIsotopics("HF"): the six natural isotopes with positive number fractions
    (symbolically ARBITRARY positive reals, natively the tabulated abundances)"""
    assert elementSymbol == "HF"
    if NATIVE:
        return list(HF)
    out = []
    for a, _f in HF:
        f = uf("hf_fraction_%d" % a)
        assume(f > 0)
        out.append((a, f))
    return out


@lemma(gen={"Tk": (0.0, 4000.0)}, stubs={"armi.nucDirectory.nucDir:getNaturalIsotopics": "natural_hafnium"})
def hafnium(Tk: float):
    """Hafnium (SimpleSolid, constant 13.07, NO stated range): for ALL Tk.  The composition is the real
    nucDir.getNaturalMassIsotopics over the stub natural_hafnium (directory look-up): sums to one for ANY positive
    number fractions"""
    m = Hafnium()
    composition(m, 6)
    p, d2, d3 = solid(m, Tk)
    assert p == 0 and d2 == 13.07 and d3 == 13.07


@lemma(gen={"Tk": (0.0, 4000.0)}, overrides=OV)
def inconel_pe16(Tk: float):
    """InconelPE16 (SimpleSolid, constant 8.0, NO stated range): for ALL Tk.  Collaborator: nuclide directory = TABLE
    (abundances of Ag-107/109, B-10/11 arbitrary in [0, 1]); iron is the balance, so the sum is one"""
    table_is_physical("AG107", "AG109", "B10", "B11")
    m = InconelPE16()
    composition(m, 19)
    p, d2, d3 = solid(m, Tk)
    assert p == 0 and d2 == 8.0 and d3 == 8.0


NaCl = mat("sodiumChloride:NaCl")


@lemma(gen={"Tk": (0.0, 7000.0)})
def nacl(Tk: float):
    """NaCl states NO range (outside the quantifier): density = 2.23 - 3.13e-4 Tk; proved for ALL 0 <= Tk < 2.23/3.13e-4
    (~7124 K, where the linear law itself reaches zero): dL/L through SimpleSolid's cube root (exact: the positive real
    y with y^3 = rho(300)/rho(T))"""
    assume(0 <= Tk and Tk * 0.000313 < 2.23)
    m = NaCl()
    composition(m, 3)
    assert m.refDens > 0, "the reference density (density at 300 K, inside the range) is positive"
    p, d2, d3 = solid(m, Tk)
    assert implies(Tk >= 300, p >= 0) and implies(Tk <= 300, p <= 0), "expands above the reference temperature, contracts below"


UraniumOxide = mat("uraniumOxide:UraniumOxide")
UO2 = mat("uraniumOxide:UO2")
MOX = mat("mox:MOX")


def oxide_fuel(cls, Tk, Td, Ta, n):
    """UraniumOxide / UO2 / MOX, each property on ITS stated range: dL/L (two cubics switching at 923 K) and
    pseudoDensity = rho(300 K)/f^2 x TD for all Tk in "linear expansion percent" [273, 3123] K; density (own quadratic)
    for all Td in "density" [300, 3100] K; the coefficient for all Ta in "linear expansion" [273, 3120] K"""
    table_is_physical("U235", "U238", "O")
    lo, hi = stated_range(cls, "linear expansion percent", "K", Tk)
    assert lo == 273 and hi == 3123.0
    stated_range(cls, "density", "K", cls.refTempK)
    m = cls()
    composition(m, n)
    assert eq(m.refDens, 10.9805 - 1.29933e-4 * 300 - 1.01147e-7 * 90000), "SimpleSolid-style reference density = density(300 K)"
    assert m.getTD() == 1.0
    p = m.linearExpansionPercent(Tk=Tk)
    if Tk < 923.0:
        cover("low piece")
    else:
        cover("high piece")
    f = 1.0 + p / 100.0
    assert f > 0, "finite positive linear expansion factor"
    assert p > -0.01 and p < 4.7
    d2 = m.pseudoDensity(Tk=Tk)
    assert d2 > 0, "pseudoDensity is positive"
    assert eq(d2 * f * f, m.refDens), "2-d expansion of the reference density"
    assert eq(m.pseudoDensityKgM3(Tk=Tk), 1000.0 * d2)
    assert eq(m.pseudoDensity(Tc=Tk - K0), d2) and eq(m.linearExpansionPercent(Tc=Tk - K0), p)
    stated_range(cls, "density", "K", Td)
    d3 = m.density(Tk=Td)
    assert d3 > 9.5 and d3 < 10.95, "density is positive (own quadratic)"
    assert eq(m.densityKgM3(Tk=Td), 1000.0 * d3) and eq(m.density(Tc=Td - K0), d3)
    stated_range(cls, "linear expansion", "K", Ta)
    a = m.linearExpansion(Tk=Ta)
    assert a > 9e-6 and a < 2e-5, "finite positive instantaneous coefficient"


OXGEN = {"Tk": (273.0, 3123.0), "Td": (300.0, 3100.0), "Ta": (273.0, 3120.0)}


@lemma(gen=OXGEN, overrides=OV)
def uranium_oxide(Tk: float, Td: float, Ta: float):
    """UraniumOxide, all Tk of the stated ranges (see oxide_fuel).  Collaborator: nuclide directory = TABLE (arbitrary
    positive weights, abundances in [0, 1]): the natural-uranium composition sums to one for any of them"""
    oxide_fuel(UraniumOxide, Tk, Td, Ta, 3)


@lemma(gen=OXGEN, overrides=OV)
def uo2(Tk: float, Td: float, Ta: float):
    """UO2 (subclass of UraniumOxide, renamed): same contract"""
    oxide_fuel(UO2, Tk, Td, Ta, 3)


@lemma(gen=OXGEN, overrides=OV)
def mox(Tk: float, Td: float, Ta: float):
    """MOX: UraniumOxide's correlations with the JOYO composition (9 nuclides, 6-digit data: sums to one within 1e-6)"""
    oxide_fuel(MOX, Tk, Td, Ta, 9)


@lemma(native=False)
def oxide_expansion_pieces_meet_within_the_fit_precision():
    """not required by the property text: at the switch point 923 K the two UraniumOxide cubics differ by less than
    2e-3 percentage points (a 1e-5 relative step in length), so the density has no visible jump there"""
    m = new(UraniumOxide)
    below = (-2.66e-03 + 9.802e-06 * 923.0 - 2.705e-10 * 923.0**2 + 4.391e-13 * 923.0**3) * 100.0
    at = m.linearExpansionPercent(Tk=923.0)
    assert at - below < 2e-3 and below - at < 2e-3


ThoriumOxide = mat("thoriumOxide:ThoriumOxide")
ThO2 = mat("thoriumOxide:ThO2")


def thoria(cls, Tk):
    stated_range(cls, "linear expansion", "K", Tk)
    m = cls()
    composition(m, 2)
    p, d2, d3 = solid(m, Tk)
    assert p >= 0 and eq(p, 100 * 9.67e-6 * (Tk - 298))
    assert m.linearExpansion(Tk=Tk) == 9.67e-6


@lemma(gen={"Tk": (298.0, 1223.0)})
def thorium_oxide(Tk: float):
    """ThoriumOxide, all Tk in [298, 1223] K (key "linear expansion", checked through linearExpansion): linear dL/L;
    density = Material's x TD, pseudoDensity = SimpleSolid's"""
    thoria(ThoriumOxide, Tk)


@lemma(gen={"Tk": (298.0, 1223.0)})
def tho2(Tk: float):
    """ThO2 (subclass of ThoriumOxide): same contract"""
    thoria(ThO2, Tk)


# ----------------------------------------------------------------------------- fluids
Air = mat("air:Air")
Lead = mat("lead:Lead")
LeadBismuth = mat("leadBismuth:LeadBismuth")
Magnesium = mat("magnesium:Magnesium")
Sulfur = mat("sulfur:Sulfur")
Potassium = mat("potassium:Potassium")
Sodium = mat("sodium:Sodium")
Cs = mat("cs:Cs")
Lithium = mat("lithium:Lithium")
Void = mat("void:Void")


@lemma(gen={"Tk": (100.0, 2400.0)})
def air(Tk: float):
    """Air, all Tk in [100, 2400] K (key "pseudoDensity"): rational in 1/Tk"""
    stated_range(Air, "pseudoDensity", "K", Tk)
    m = Air()
    composition(m, 4)
    d = fluid(m, Tk)
    assert d < 0.01, "a gas"


@lemma(gen={"Tk": (600.0, 1700.0)})
def lead(Tk: float):
    """Lead, all Tk in [600, 1700] K (key "density"): linear"""
    stated_range(Lead, "density", "K", Tk)
    m = Lead()
    composition(m, 1)
    d = fluid(m, Tk)
    assert d > 9.3 and d < 10.7


@lemma(gen={"Tk": (400.0, 1300.0)})
def lead_bismuth(Tk: float):
    """LeadBismuth, all Tk in [400, 1300] K (key "density"): linear"""
    stated_range(LeadBismuth, "density", "K", Tk)
    m = LeadBismuth()
    composition(m, 2)
    d = fluid(m, Tk)
    assert d > 9.3 and d < 10.6


@lemma(gen={"Tk": (923.0, 1390.0)})
def magnesium(Tk: float):
    """Magnesium, all Tk in [923, 1390] K (key "density"): linear"""
    stated_range(Magnesium, "density", "K", Tk)
    m = Magnesium()
    composition(m, 1)
    d = fluid(m, Tk)
    assert d > 1.4 and d < 1.6


@lemma(gen={"Tc": (63.2, 1250.0)})
def potassium_density(Tc: float):
    """Potassium, all Tc in [63.2, 1250] C (key "density"): cubic in Tc.  (Its EMPTY composition is known finding F183 -
    the composition clause is therefore not asserted here.)"""
    stated_range(Potassium, "density", "C", Tc)
    m = Potassium()
    d = fluid(m, Tc + K0)
    assert d > 0.5 and d < 0.83


@lemma(gen={"Tk": (334.0, 430.0)})
def sulfur_density(Tk: float):
    """Sulfur, all Tk in [334, 430] K (key "density"): linear x fullDensFrac (1.0 as constructed).  (Its composition
    sums to 1.0018: known finding F184 - the composition clause is therefore not asserted here.)"""
    stated_range(Sulfur, "density", "K", Tk)
    m = Sulfur()
    assert m.fullDensFrac == 1.0
    d = fluid(m, Tk)
    assert d > 1.76 and d < 1.87


@lemma(gen={"Tc": (97.85, 2230.5)})
def sodium(Tc: float):
    """Sodium, all Tc in [97.85, 2230.55] C (key "density"): 219 + 275.32 x + 511.58 sqrt(x), x = 1 - (Tc+273.15)/2503.7;
    over the REALS (A1) x >= 0 on the whole range (x = 0 at the upper end), so the square root is real and the density
    is >= 0.219.  Known findings F187/F188 (complex value at Tc = 2230.55) are a floating-point effect at that end point
    (2230.55 + 273.15 rounds ABOVE 2503.7): invisible under A1, restated natively in pending/C19_materials_finding.py"""
    lo, hi = stated_range(Sodium, "density", "C", Tc)
    assert hi + K0 <= 2503.7 + (1e-9 if NATIVE else 0.0), "the stated range ends at the critical temperature (natively: up to rounding)"
    m = Sodium()
    composition(m, 1)
    d = fluid(m, Tc + K0)
    assert d >= 0.219 and d < 0.96


@lemma(gen={"Tk": (0.0, 3000.0)})
def cs_lithium_void(Tk: float):
    """Cs (1.93 below the melting point 301.7 K, 1.843 above: both pieces), Lithium (0.512): NO stated range, proved for
    ALL Tk.  Void: density = pseudoDensity = 0 at every temperature (the one admitted zero)"""
    m = Cs()
    composition(m, 1)
    d = fluid(m, Tk)
    assert d == (1.93 if Tk < 301.7 else 1.843)
    v = Void()
    assert v.pseudoDensity(Tk=Tk) == 0 and v.density(Tk=Tk) == 0 and v.massFrac == {}


@lemma(gen={"Tk": (0.0, 3000.0)}, overrides=OV)
def lithium(Tk: float):
    """Lithium: constant 0.512 for ALL Tk (no stated range).  Collaborator: nuclide directory = TABLE; the composition
    is the pair of natural abundances, summing to one iff the directory's abundances do (assumed within 1e-6)"""
    table_is_physical("LI6", "LI7")
    assume(TABLE["LI6"].abundance + TABLE["LI7"].abundance - 1.0 <= TOL and 1.0 - TABLE["LI6"].abundance - TABLE["LI7"].abundance <= TOL)
    m = Lithium()
    composition(m, 2)
    assert fluid(m, Tk) == 0.512


SaturatedWater = mat("water:SaturatedWater")
SaturatedSteam = mat("water:SaturatedSteam")
Water = mat("water:Water")


class Elem:
    """stand-in for an Element of the element table: only .standardWeight is read by Water.setDefaultMassFracs
    (contract assumed: standardWeight > 0)"""


ELEMENTS = {"H": new(Elem, standardWeight=1.008 if NATIVE else uf("weight_H")), "O": new(Elem, standardWeight=15.999 if NATIVE else uf("weight_O"))}
OVW = {"armi.nucDirectory.elements:bySymbol": "ELEMENTS"}
WGEN = {"Tk": (273.16, 647.096)}


def water_range(Tk):
    """Water states NO range (propertyValidTemperature is empty: outside the quantifier of C19); the lemmas take the
    range of the IAPWS supplementary release the class cites: triple point 273.16 K .. critical point 647.096 K"""
    assert Water.propertyValidTemperature == {}
    assume(ELEMENTS["H"].standardWeight > 0 and ELEMENTS["O"].standardWeight > 0)
    assume(273.16 <= Tk and Tk <= Water.TEMPERATURE_CRITICAL_K)


@lemma(gen=WGEN, overrides=OVW)
def saturated_water(Tk: float):
    """SaturatedWater, all Tk in [273.16, 647.096] K: rho/rho_c = 1 + b1 y + b2 y^2 + b3 y^5 + b4 y^16 + b5 y^43 + b6 y^111
    with y = tau^(1/3) the exact real cube root (tau = 1 - Tk/Tcrit in [0, 0.578]); density = pseudoDensity >= the
    critical density 0.322.  Collaborator: element table = ELEMENTS (arbitrary positive standard weights of H, O)"""
    water_range(Tk)
    m = SaturatedWater()
    composition(m, 2)
    d = fluid(m, Tk, kg=False, celsius=False)
    assert d >= 0.322 and d < 1.01, "between the critical density and that of cold water"


@lemma(gen=WGEN, overrides=OVW)
def saturated_steam(Tk: float):
    """SaturatedSteam, all Tk in [273.16, 647.096] K: rho = rho_c e^(c1 y^2 + ... + c6 y^71), y = tau^(1/6) the exact real
    sixth root, all c_i < 0; math.e ** x enters through the sound facts e^x > 0, e^x <= 1 for x <= 0 only, so:
    0 < density = pseudoDensity <= the critical density 0.322"""
    water_range(Tk)
    m = SaturatedSteam()
    composition(m, 2)
    d = fluid(m, Tk, kg=False, celsius=False)
    assert d <= 0.322




@lemma(gen=WGEN, overrides=OVW)
def abstract_water_refuses(Tk: float):
    """Water itself is abstract BY DESIGN: pseudoDensity / density raise NotImplementedError naming the concrete classes
    (it can be instantiated and has a normalised composition)"""
    water_range(Tk)
    m = Water()
    composition(m, 2)
    for ask in (m.pseudoDensity, m.density):
        try:
            ask(Tk=Tk)
            assert False, "the abstract class must refuse"
        except NotImplementedError:
            pass


# ----------------------------------------------------------------------------- the np.interp model against numpy
XP = [293, 400, 500, 600, 700, 800, 900, 940.9, 941, 1000, 1047.9, 1048, 1100, 1200, 1400, 1407.9, 1408, 1500, 1600]
FP = [19.07, 18.98, 18.89, 18.79, 18.68, 18.55, 18.41, 18.39, 18.16, 18.11, 18.07, 17.94, 17.88, 17.76, 17.53, 17.52, 16.95, 16.84, 16.71]


@lemma(gen={"x": (200.0, 1700.0)})
def interp_is_the_clamped_piecewise_linear_interpolant(x: float):
    """trusted-model check: numpy.interp (natively numpy itself, symbolically the engine's model) against the
    definition written out here - clamped outside, linear between the two neighbouring nodes, exact at the nodes -
    on Uranium's 19-point density table, for ALL x"""
    y = numpy.interp(x, XP, FP)
    if x <= XP[0]:
        assert eq(y, FP[0])
    elif x >= XP[-1]:
        assert eq(y, FP[-1])
    else:
        for j in range(len(XP) - 1):
            if XP[j] <= x and x < XP[j + 1]:
                assert eq(y, FP[j] + (FP[j + 1] - FP[j]) / (XP[j + 1] - XP[j]) * (x - XP[j]))
                assert min(FP[j], FP[j + 1]) <= y + 1e-12 and y <= max(FP[j], FP[j + 1]) + 1e-12
    for j in range(len(XP)):
        assert eq(numpy.interp(XP[j], XP, FP), FP[j])
    assert eq(numpy.interp(x, [1.0, 2.0, 2.0, 3.0], [5.0, 6.0, 8.0, 9.0]), 5.0 if x < 1 else (9.0 if x >= 3 else (4.0 + x if x < 2 else 6.0 + x))), "a repeated abscissa is a jump taken from the right"
