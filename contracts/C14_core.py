"""C14 - the core's lookup tables stay truthful: class invariant of Core over the real Core.add / Core.removeAssembly /
Assembly.moveTo / FuelHandler.swapAssemblies / FuelHandler.dischargeSwap.

Inv(core):   (I1) every child's parent is the core and its locator belongs to the core's grid,
             (I2) childrenByLocator maps exactly the children's locations to those children (so no two children share
                  a location: one location, at most one assembly),
             (I3) assembliesByName maps exactly the names of the assemblies in the core and in the pool to them,
             (I4) blocksByName maps exactly the names of their blocks to them.

Executed (real, re-read from /repo on every run): Core.add, Core.removeAssembly, Core._removeListFromAuxiliaries,
Core.r, Core.geomType, Composite.add/remove/moveTo, Assembly.moveTo/getSymmetryFactor/scaleParamsToNewSymmetryFactor/
orientBlocks/insert, FuelHandler.swapAssemblies/_transferStationaryBlocks/dischargeSwap, the real IndexLocation
(`__eq__`: same indices AND same grid; `__hash__`), StructuredGrid.__getitem__ (one locator object per cell), HexGrid
ring arithmetic and symmetry.  The cells (i, j) of all assemblies are SYMBOLIC integers; the SHAPE is enumerated:
0..2 assemblies in the core, 1..3 blocks per assembly (concrete names).

Stand-ins for collaborators (their stated contract is what the lemmas assume about them):
  PMap          a parameter collection viewed as a name -> value map,
  BlockStub     what Core/Assembly/FuelHandler need from a Block: a name, a symmetry factor, a (present) pin grid, flags,
  AxialStub     the assembly's axial grid: cell (0, 0, k) -> a locator of that grid,
  PoolStub      the spent-fuel pool (subclass of the real class with add/remove/getChildren replaced): add(a) makes `a` a
                child of the pool (its own placement rule is not under contract),
  ExcoreStub    Reactor.excore: name -> ex-core structure (dict and attribute access),
  OperatorStub  FuelHandler.o: holds the reactor,
  ParametersStub  the module armi.reactor.parameters as seen from cores.py (the `assigned` flags that add/remove reset
                are database bookkeeping outside this property): no parameter definitions.
Stubs: Assembly.getFissileMass / getMaxParam (charge bookkeeping values, uninterpreted).
"""
import numpy as np

from spec import *

Core = repo("armi.reactor.cores:Core")
Assembly = repo("armi.reactor.assemblies:Assembly")
Reactor = repo("armi.reactor.reactors:Reactor")
HexGrid = repo("armi.reactor.grids.hexagonal:HexGrid")
IndexLocation = repo("armi.reactor.grids.locations:IndexLocation")
CoordinateLocation = repo("armi.reactor.grids.locations:CoordinateLocation")
FuelHandler = repo("armi.physics.fuelCycle.fuelHandlers:FuelHandler")
SpentFuelPool = repo("armi.reactor.spentFuelPool:SpentFuelPool")


# ----------------------------------------------------------------------------- stand-ins (collaborators)
class PMap:
    def __getitem__(self, k):
        return getattr(self, k)

    def __setitem__(self, k, v):
        setattr(self, k, v)

    def __contains__(self, k):
        return hasattr(self, k)


class ParametersStub:
    """armi.reactor.parameters as seen from cores.py: no definitions whose `assigned` flag would be reset"""

    ALL_DEFINITIONS = ()
    SINCE_ANYTHING = 0

    @staticmethod
    def forType(cls):
        return ()


class BlockStub:
    """a block as seen by the core bookkeeping: name, flags, symmetry factor, an existing pin grid"""

    def getName(self):
        return self.name

    def hasFlags(self, f):
        return f in self.flags

    def getSymmetryFactor(self):
        return self.symmetryFactor

    def clearCache(self):
        return None


class AxialStub:
    """the axial grid of an assembly: (0, 0, k) -> a locator of this grid"""

    def __getitem__(self, ijk):
        return IndexLocation(ijk[0], ijk[1], ijk[2], self)


class PoolStub(SpentFuelPool):
    """spent-fuel pool (a SpentFuelPool as far as isinstance goes; the three methods the code under contract calls are
    replaced): add(a) makes `a` a child of the pool, remove(a) takes it out, getChildren() lists the children"""

    def add(self, a):
        a.parent = self
        self.kids.append(a)

    def getChildren(self):
        return list(self.kids)

    def remove(self, a):
        self.kids.remove(a)
        a.parent = None


class ExcoreStub:
    def get(self, name, default=None):
        return self.items.get(name, default)

    def __getitem__(self, name):
        return self.items[name]

    def __getattr__(self, name):
        if name.startswith("__") or name == "items":
            raise AttributeError(name)
        return self.items[name]


class OperatorStub:
    pass


class Marker:
    """an opaque object of which only the identity matters (a pin grid, a foreign grid)"""


def fissile_contract(self):
    return 1000.0


def maxparam_contract(self, name):
    return 0.5


def ringpos_contract(self, indices):
    """contract of HexGrid.getRingPos proved in contracts/C07_grids.py (hex_ring_is_distance_plus_one,
    hex_ringpos_roundtrip_from_indices): ring = hex distance + 1; the position is not used by the code under contract"""
    i, j = indices[0], indices[1]
    return max(abs(i), abs(j), abs(i + j)) + 1, 1


STUBS = {"armi.reactor.composites:ArmiObject.getFissileMass": "fissile_contract",
         "armi.reactor.composites:ArmiObject.getMaxParam": "maxparam_contract",
         "armi.reactor.grids.hexagonal:HexGrid.getRingPos": "ringpos_contract"}
STUBS_REAL_RINGS = {"armi.reactor.composites:ArmiObject.getFissileMass": "fissile_contract",
                    "armi.reactor.composites:ArmiObject.getMaxParam": "maxparam_contract"}  # where the ring POSITION matters (first-third test)
OVERRIDES = {"armi.reactor.cores:parameters": "ParametersStub"}


# ----------------------------------------------------------------------------- the world
def hexgrid(symmetry):
    us = HexGrid._getRawUnitSteps(1.0, False)
    return new(HexGrid, _unitSteps=np.array(us), _bounds=(None, None, None), _stepDims=((0, 1, 2),), _boundDims=((),),
               _offset=np.zeros(3), _unitStepLimits=((-3, 3), (-3, 3), (0, 1)), _symmetry=symmetry, _isAxialOnly=False,
               armiObject=None, _locations={}, _geomType="hex", _backup=None)


def block(name, k, grid, stationary):
    return new(BlockStub, name=name, flags=(["GRID_PLATE"] if stationary else ["FUEL"]), symmetryFactor=1.0,
               spatialGrid=new(Marker), spatialLocator=IndexLocation(0, 0, k, grid), parent=None, p=new(PMap, ztop=10.0 * (k + 1)))


def assembly(num, nBlocks, label, stationary=()):
    """Assembly number `num` with nBlocks blocks B<num>-00k; the blocks whose index is in `stationary` are grid plates"""
    ax = new(AxialStub)
    a = new(Assembly, name="A%04d" % num, _children=[], parent=None, spatialLocator=CoordinateLocation(0.0, 0.0, 0.0, None),
            spatialGrid=ax, lastLocationLabel=label, cached={},
            p=new(PMap, type="fuel", assemNum=num, numMoves=0, daysSinceLastMove=7.0, multiplicity=1.0, dischargeTime=0.0, chargeTime=0.0,
                  chargeCycle=0, chargeFis=0.0, chargeBu=0.0))
    for k in range(nBlocks):
        b = block("B%04d-%03d" % (num, k), k, ax, k in stationary)
        b.parent = a
        a._children.append(b)
    return a


def world(track, withPool, numRings, maxAssemNum, symmetry="full"):
    """an empty core in a reactor (with or without a pool); returns (core, reactor, pool)"""
    g = hexgrid(symmetry)
    pool = new(PoolStub, kids=[], parent=None)
    r = new(Reactor, name="r", p=new(PMap, time=12.5, cycle=3, maxAssemNum=maxAssemNum), excore=new(ExcoreStub, items=({"sfp": pool} if withPool else {})),
            parent=None, _children=[])
    core = new(Core, name="core", _children=[], childrenByLocator={}, assembliesByName={}, blocksByName={}, spatialGrid=g, parent=r,
               spatialLocator=CoordinateLocation(0.0, 0.0, 0.0, None), numRings=numRings, _trackAssems=track, cached={},
               stationaryBlockFlagsList=["GRID_PLATE"], p=new(PMap, maxAssemNum=maxAssemNum, numMoves=0))
    g.armiObject = core
    r.core = core
    pool.parent = r
    return core, r, pool


def place(core, a, i, j):
    """put `a` into the core's tables at cell (i, j) - the state Inv describes, built directly"""
    loc = core.spatialGrid[i, j, 0]
    a.parent = core
    a.spatialLocator = loc
    core._children.append(a)
    core.childrenByLocator[loc] = a
    core.assembliesByName[a.name] = a
    for b in a._children:
        core.blocksByName[b.name] = b


def register_pooled(core, pool, a):
    """`a` sits in the pool and is tracked by name"""
    a.parent = pool
    pool.kids.append(a)
    core.assembliesByName[a.name] = a
    for b in a._children:
        core.blocksByName[b.name] = b


def inv(core, pool):
    """the class invariant Inv(core) (see module docstring)"""
    g = core.spatialGrid
    kids = list(core._children)
    ok = len(core.childrenByLocator) == len(kids)
    nBlocks = 0
    for c in kids:
        ok = ok and c.parent is core and c.spatialLocator.grid is g
        ok = ok and core.childrenByLocator.get(c.spatialLocator) is c
    for c in kids + list(pool.kids):
        ok = ok and core.assembliesByName.get(c.name) is c
        for b in c._children:
            nBlocks += 1
            ok = ok and b.parent is c and core.blocksByName.get(b.name) is b
    ok = ok and len(core.assembliesByName) == len(kids) + len(pool.kids)
    ok = ok and len(core.blocksByName) == nBlocks
    return ok


def at(core, i, j):
    """the assembly the core's location lookup returns for cell (i, j), by an independent key (the index tuple)"""
    return core.childrenByLocator.get((i, j, 0))


def hexring(i, j):
    return max(abs(i), abs(j), abs(i + j)) + 1


GEN = {"n": (0, 2), "i1": (-3, 3), "j1": (-3, 3), "i2": (-3, 3), "j2": (-3, 3), "i": (-3, 3), "j": (-3, 3), "nb": (1, 3),
       "rings": (0, 5), "maxNum": (0, 12), "which": (0, 1), "mode": (0, 2)}


def populated(n, i1, j1, i2, j2, track, withPool, rings, maxNum):
    core, r, pool = world(track, withPool, rings, maxNum)
    a1 = assembly(1, 2, "001-001")
    a2 = assembly(2, 1, "002-001")
    if n >= 1:
        place(core, a1, i1, j1)
    if n >= 2:
        place(core, a2, i2, j2)
    return core, r, pool, a1, a2


# ----------------------------------------------------------------------------- Core.add
@lemma(gen=GEN, stubs=STUBS, overrides=OVERRIDES, timeout=60)
def add_at_a_free_location_keeps_the_tables_exact(n: int, i1: int, j1: int, i2: int, j2: int, i: int, j: int, nb: int, rings: int, maxNum: int, fromDb: bool, own: bool):
    """Core.add(a, locator of a FREE cell (i, j) of the core grid) with 0..2 assemblies already present at symbolic cells:
    Inv is preserved, `a` is appended, sits at (i, j) and is found there and by name; nobody else moved."""
    n = choose(n, 0, 2)
    nb = choose(nb, 1, 2)
    core, r, pool, a1, a2 = populated(n, i1, j1, i2, j2, False, True, rings, maxNum)
    assume(inv(core, pool))
    assume(rings >= (0 if n == 0 else hexring(i1, j1) if n == 1 else max(hexring(i1, j1), hexring(i2, j2))))
    assume(n < 1 or (i, j) != (i1, j1))  # the target cell is free
    assume(n < 2 or (i, j) != (i2, j2))
    a = assembly(7, nb, "database" if fromDb else "LoadQueue")
    target = core.spatialGrid[i, j, 0]
    if own:
        a.spatialLocator = target  # the locator travels on the assembly (Core.add(a) without a second argument)
        core.add(a)
    else:
        core.add(a, target)
    assert inv(core, pool), "Inv preserved"
    assert len(core._children) == n + 1 and core._children[n] is a, "appended as the last child"
    assert a.parent is core
    assert a.spatialLocator.grid is core.spatialGrid and (a.spatialLocator.i, a.spatialLocator.j, a.spatialLocator.k) == (i, j, 0), "sits where it was put"
    assert at(core, i, j) is a, "the location lookup finds it there"
    assert core.assembliesByName["A0007"] is a
    assert core.blocksByName["B0007-000"] is a._children[0] and len(a._children) == nb, "blocks untouched and findable"
    if n >= 1:
        assert core._children[0] is a1 and at(core, i1, j1) is a1 and (a1.spatialLocator.i, a1.spatialLocator.j) == (i1, j1), "nobody else moved"
    if n >= 2:
        assert core._children[1] is a2 and at(core, i2, j2) is a2 and (a2.spatialLocator.i, a2.spatialLocator.j) == (i2, j2)
    assert core.numRings == max(rings, hexring(i, j)), "ring count covers the new assembly"
    assert core.p.maxAssemNum == max(maxNum, 7)
    assert a.p.numMoves == (0 if fromDb else 1), "placing is a move unless the assembly comes back from the database"
    assert len(pool.kids) == 0


@lemma(gen=GEN, stubs=STUBS, overrides=OVERRIDES, timeout=60)
def add_at_an_occupied_location_is_refused_and_changes_nothing(n: int, i1: int, j1: int, i2: int, j2: int, which: int, nb: int, rings: int, maxNum: int, own: bool):
    """Core.add(a, locator of the core grid at a cell that holds an assembly): ValueError, and neither the core nor `a`
    changed (1..2 assemblies present, the occupied one chosen symbolically)."""
    n = choose(n, 1, 2)
    nb = choose(nb, 1, 2)
    which = choose(which, 0, n - 1)
    core, r, pool, a1, a2 = populated(n, i1, j1, i2, j2, False, True, rings, maxNum)
    assume(inv(core, pool))
    occ = core._children[which]
    i, j = occ.spatialLocator.i, occ.spatialLocator.j
    a = assembly(7, nb, "LoadQueue")
    loc0 = a.spatialLocator
    target = IndexLocation(i, j, 0, core.spatialGrid)  # any locator equal to the occupied one (not necessarily the same object)
    if own:
        a.spatialLocator = target
        loc0 = target
    try:
        if own:
            core.add(a)
        else:
            core.add(a, target)
        refused = False
    except ValueError:
        refused = True
    assert refused, "adding at an occupied location is an error"
    assert inv(core, pool), "Inv still holds"
    assert len(core._children) == n and core._children[0] is a1 and (n < 2 or core._children[1] is a2), "children unchanged"
    assert at(core, i, j) is occ, "the occupant is still the one found there"
    assert a.parent is None and a.spatialLocator is loc0 and a.p.numMoves == 0, "the rejected assembly is untouched"
    assert "A0007" not in core.assembliesByName and "B0007-000" not in core.blocksByName
    assert core.numRings == rings and core.p.maxAssemNum == maxNum


# ----------------------------------------------------------------------------- Core.removeAssembly
@lemma(gen=GEN, stubs=STUBS, overrides=OVERRIDES, timeout=60)
def remove_keeps_the_tables_exact(n: int, i1: int, j1: int, i2: int, j2: int, which: int, mode: int, rings: int, maxNum: int):
    """Core.removeAssembly(a, discharge) with 1..2 assemblies present. mode 0: tracked discharge into the pool,
    1: discharge without tracking (purged), 2: discharge=False (purged even when tracking).  Inv is preserved; the
    assembly is out of the core, its location is free; pooled assemblies stay findable by name, purged ones are not."""
    n = choose(n, 1, 2)
    which = choose(which, 0, n - 1)
    mode = choose(mode, 0, 2)
    core, r, pool, a1, a2 = populated(n, i1, j1, i2, j2, mode != 1, True, rings, maxNum)
    assume(inv(core, pool))
    out = core._children[which]
    other = core._children[1 - which] if n == 2 else None
    i, j = out.spatialLocator.i, out.spatialLocator.j
    nOutBlocks = len(out._children)
    core.removeAssembly(out, discharge=(mode != 2))
    assert inv(core, pool), "Inv preserved"
    assert len(core._children) == n - 1 and (n == 1 or core._children[0] is other), "exactly that child left"
    assert at(core, i, j) is None, "its location is free"
    assert out.spatialLocator.grid is None, "its locator no longer belongs to the core grid"
    assert len(out._children) == nOutBlocks and out._children[0].parent is out, "contents untouched"
    if mode == 0:
        assert out.parent is pool and len(pool.kids) == 1 and pool.kids[0] is out, "discharged into the pool"
        assert core.assembliesByName[out.name] is out and core.blocksByName[out._children[0].name] is out._children[0], "still findable by name"
    else:
        assert out.parent is None and len(pool.kids) == 0
        assert out.name not in core.assembliesByName and out._children[0].name not in core.blocksByName, "purged: not findable any more"
    if n == 2:
        assert other.parent is core and at(core, other.spatialLocator.i, other.spatialLocator.j) is other and core.assembliesByName[other.name] is other, "the other one is untouched"
    assert out.p.dischargeTime == 12.5


@lemma(gen=GEN, stubs=STUBS, overrides=OVERRIDES, timeout=60)
def remove_of_a_stranger_is_refused_and_changes_nothing(n: int, i1: int, j1: int, i2: int, j2: int, i: int, j: int, discharge: bool, track: bool):
    """Core.removeAssembly of an assembly that is not in the core (free locator, or a locator of another grid with the
    indices of an occupied cell): an error, and no table changed."""
    n = choose(n, 0, 2)
    core, r, pool, a1, a2 = populated(n, i1, j1, i2, j2, track, True, 3, 9)
    assume(inv(core, pool))
    s = assembly(7, 1, "LoadQueue")
    s.spatialLocator = IndexLocation(i, j, 0, new(Marker))
    try:
        core.removeAssembly(s, discharge=discharge)
        refused = False
    except (KeyError, ValueError):
        refused = True
    assert refused
    assert inv(core, pool)
    assert len(core._children) == n and len(pool.kids) == 0 and s.parent is None
    if n >= 1:
        assert at(core, i1, j1) is a1
    if n >= 2:
        assert at(core, i2, j2) is a2


# ----------------------------------------------------------------------------- Assembly.moveTo
@lemma(gen=GEN, stubs=STUBS, overrides=OVERRIDES, timeout=60)
def move_puts_the_assembly_at_the_locator_and_refuses_foreign_grids(n: int, i1: int, j1: int, i2: int, j2: int, i: int, j: int, fromDb: bool, foreign: bool):
    """Assembly.moveTo(locator): with a locator of the parent's grid the assembly sits there, the location table finds it
    there, the other assemblies' entries are untouched and the move is counted; a locator of any other grid is refused
    (ValueError) without any change.  (That the OLD location is released is a separate clause, see
    contracts/pending/C14_core_finding.py.)"""
    n = choose(n, 1, 2)
    core, r, pool, a1, a2 = populated(n, i1, j1, i2, j2, False, True, 4, 9)
    assume(inv(core, pool))
    assume(n < 2 or (i, j) != (i2, j2))  # the target is not occupied by somebody else
    if fromDb:
        a1.lastLocationLabel = "database"
    old = a1.spatialLocator
    if foreign:
        g2 = hexgrid("full")
        g2.armiObject = new(Marker)
        try:
            a1.moveTo(g2[i, j, 0])
            refused = False
        except ValueError:
            refused = True
        assert refused, "a locator of another grid is refused"
        assert inv(core, pool) and a1.spatialLocator is old and a1.p.numMoves == 0
        return
    a1.moveTo(core.spatialGrid[i, j, 0])
    assert a1.parent is core and a1.spatialLocator.grid is core.spatialGrid
    assert (a1.spatialLocator.i, a1.spatialLocator.j, a1.spatialLocator.k) == (i, j, 0), "sits where it was put"
    assert at(core, i, j) is a1, "and is found there"
    assert a1.p.numMoves == (0 if fromDb else 1) and (fromDb or a1.p.daysSinceLastMove == 0.0)
    assert len(core._children) == n and core._children[0] is a1
    if n == 2:
        assert at(core, i2, j2) is a2 and (a2.spatialLocator.i, a2.spatialLocator.j) == (i2, j2) and a2.p.numMoves == 0, "nobody else moved"
    assert len(a1._children) == 2 and a1._children[0].name == "B0001-000" and a1._children[1].name == "B0001-001", "contents untouched"


# ----------------------------------------------------------------------------- FuelHandler.swapAssemblies
def names(a):
    return [b.name for b in a._children]


def stationary_of(mask, nBlocks):
    return tuple(k for k in range(nBlocks) if (mask // (2 ** k)) % 2 == 1)


def swap_world(n, i1, j1, i2, j2, i3, j3, m1, m2, nb):
    """a core with a1 (nb blocks, stationary pattern m1), a2 (nb blocks, pattern m2) and, for n == 3, a bystander a3"""
    core, r, pool = world(True, True, 4, 9)
    a1 = assembly(1, nb, "001-001", stationary_of(m1, nb))
    a2 = assembly(2, nb, "002-001", stationary_of(m2, nb))
    a3 = assembly(3, 1, "002-002")
    place(core, a1, i1, j1)
    place(core, a2, i2, j2)
    if n == 3:
        place(core, a3, i3, j3)
    fh = new(FuelHandler, o=new(OperatorStub, r=r), moved=[])
    return core, r, pool, fh, a1, a2, a3


SWAPGEN = dict(GEN, n=(2, 3), i3=(-3, 3), j3=(-3, 3), m1=(0, 3), m2=(0, 3), nb=(2, 2))


@lemma(gen=SWAPGEN, stubs=STUBS, overrides=OVERRIDES, timeout=90)
def swap_exchanges_the_two_locations_and_nothing_else(n: int, i1: int, j1: int, i2: int, j2: int, i3: int, j3: int, m1: int, m2: int, dz: float):
    """FuelHandler.swapAssemblies(a1, a2) on a core with 2..3 assemblies at symbolic cells, two blocks each with every
    stationary (grid plate) pattern: a1 sits where a2 was and vice versa, the bystander did not move, the child list
    (the inventory) is the same list, Inv holds; travelling blocks travel, stationary blocks keep their core position
    and exchange assemblies; differing stationary patterns are refused without moving anything."""
    n = choose(n, 2, 3)
    m1 = choose(m1, 0, 3)
    m2 = choose(m2, 0, 3)
    core, r, pool, fh, a1, a2, a3 = swap_world(n, i1, j1, i2, j2, i3, j3, m1, m2, 2)
    assume(inv(core, pool))
    b1, b2 = list(a1._children), list(a2._children)
    for b in b2:
        b.p.ztop = b.p.ztop + dz  # the two assemblies need not have the same block elevations
    try:
        fh.swapAssemblies(a1, a2)
        done = True
    except ValueError:
        done = False
    assert done == (m1 == m2), "refused exactly when the stationary blocks of the two assemblies do not line up"
    assert inv(core, pool), "Inv holds afterwards (also after a refusal)"
    assert len(core._children) == n and core._children[0] is a1 and core._children[1] is a2, "same assemblies in the core, none duplicated or lost"
    if not done:
        assert at(core, i1, j1) is a1 and at(core, i2, j2) is a2 and a1.p.numMoves == 0 and a2.p.numMoves == 0, "nothing moved"
        return
    assert (a1.spatialLocator.i, a1.spatialLocator.j) == (i2, j2) and (a2.spatialLocator.i, a2.spatialLocator.j) == (i1, j1), "each sits where the other was"
    assert at(core, i2, j2) is a1 and at(core, i1, j1) is a2, "location lookups agree"
    assert len(core.childrenByLocator) == n
    assert a1.p.numMoves == 1 and a2.p.numMoves == 1
    if n == 3:
        assert core._children[2] is a3 and at(core, i3, j3) is a3 and (a3.spatialLocator.i, a3.spatialLocator.j) == (i3, j3) and a3.p.numMoves == 0, "the bystander did not move"
    for k in range(2):
        if k in stationary_of(m1, 2):
            assert a1._children[k] is b2[k] and a2._children[k] is b1[k], "stationary blocks stay at their core position: they exchange assemblies"
        else:
            assert a1._children[k] is b1[k] and a2._children[k] is b2[k], "travelling blocks travel with their assembly"
        assert a1._children[k].parent is a1 and a2._children[k].parent is a2
        assert a1._children[k].spatialLocator.k == k and a2._children[k].spatialLocator.k == k, "block order / axial index unchanged"
    assert len(a1._children) == 2 and len(a2._children) == 2
    assert eq(b1[0].p.ztop, 10.0) and eq(b1[1].p.ztop, 20.0) and eq(b2[0].p.ztop, 10.0 + dz) and eq(b2[1].p.ztop, 20.0 + dz), "block elevations untouched"
    assert len(fh.moved) == 2 and fh.moved[0] is a1 and fh.moved[1] is a2


# ----------------------------------------------------------------------------- FuelHandler.dischargeSwap
@lemma(gen=GEN, stubs=STUBS, overrides=OVERRIDES, timeout=90)
def discharge_swap_puts_the_incoming_assembly_at_the_outgoing_place(n: int, i1: int, j1: int, i2: int, j2: int, track: bool, fromPool: bool, rings: int):
    """FuelHandler.dischargeSwap(incoming, outgoing), no block designated stationary, 1..2 assemblies in the core, the
    incoming one fresh or stored in the pool, spent-fuel tracking on / off: the incoming assembly sits at the outgoing
    one's place, the outgoing one is in the pool (tracked) or gone for good (not findable by name), the bystander did
    not move, nothing is duplicated or lost, Inv holds."""
    n = choose(n, 1, 2)
    core, r, pool = world(track, True, rings, 9)
    out = assembly(1, 2, "001-001")
    by = assembly(2, 1, "002-001")
    inc = assembly(7, 2, "SFP" if fromPool else "LoadQueue")
    place(core, out, i1, j1)
    if n == 2:
        place(core, by, i2, j2)
    if fromPool:
        register_pooled(core, pool, inc)
        inc.spatialLocator = IndexLocation(2, 0, 0, new(Marker))  # a cell of the pool's own grid
    assume(inv(core, pool))
    assume(rings >= hexring(i1, j1))
    fh = new(FuelHandler, o=new(OperatorStub, r=r), moved=[])
    incBlocks, outBlocks = list(inc._children), list(out._children)
    fh.dischargeSwap(inc, out)
    assert inv(core, pool), "Inv preserved"
    assert inc.parent is core and (inc.spatialLocator.i, inc.spatialLocator.j, inc.spatialLocator.k) == (i1, j1, 0) and inc.spatialLocator.grid is core.spatialGrid, "incoming sits at the outgoing place"
    assert at(core, i1, j1) is inc, "and is found there"
    assert len(core._children) == n and core._children[n - 1] is inc
    assert out.spatialLocator.grid is None, "the outgoing assembly holds no location of the core any more"
    if track:
        assert out.parent is pool and len(pool.kids) == 1 and pool.kids[0] is out, "outgoing is in the pool, the incoming one left it"
        assert core.assembliesByName["A0001"] is out and core.blocksByName["B0001-001"] is outBlocks[1]
    else:
        assert out.parent is None and len(pool.kids) == 0
        assert "A0001" not in core.assembliesByName and "B0001-000" not in core.blocksByName and "B0001-001" not in core.blocksByName, "purged: never returned again"
    assert core.assembliesByName["A0007"] is inc and core.blocksByName["B0007-000"] is incBlocks[0] and core.blocksByName["B0007-001"] is incBlocks[1]
    assert inc._children[0] is incBlocks[0] and inc._children[1] is incBlocks[1] and out._children[0] is outBlocks[0] and out._children[1] is outBlocks[1], "contents untouched"
    if n == 2:
        assert core._children[0] is by and at(core, i2, j2) is by and (by.spatialLocator.i, by.spatialLocator.j) == (i2, j2) and by.p.numMoves == 0, "bystander untouched"
    assert inc.p.multiplicity == 1 and out.p.multiplicity == 1, "full core: every assembly stands for itself"
    assert core.numRings == rings


def inv_but_block_names(core, pool):
    """Inv without its clause on blocksByName"""
    kids = list(core._children)
    ok = len(core.childrenByLocator) == len(kids)
    for c in kids:
        ok = ok and c.parent is core and c.spatialLocator.grid is core.spatialGrid and core.childrenByLocator.get(c.spatialLocator) is c
    for c in kids + list(pool.kids):
        ok = ok and core.assembliesByName.get(c.name) is c
        for b in c._children:
            ok = ok and b.parent is c
    return ok and len(core.assembliesByName) == len(kids) + len(pool.kids)


@lemma(gen=dict(GEN, m=(0, 3), m2=(0, 3)), stubs=STUBS, overrides=OVERRIDES, timeout=90)
def discharge_swap_with_stationary_blocks_leaves_them_at_the_core_position(n: int, i1: int, j1: int, i2: int, j2: int, m: int, m2: int, track: bool, fromPool: bool):
    """dischargeSwap WITH blocks designated stationary (the lemma above has none), every pair of patterns of two blocks:
    refused (ValueError, nothing changed) exactly when the patterns differ; otherwise the incoming assembly sits at the
    outgoing one's place, the stationary blocks stayed at that core position (they now belong to the incoming assembly,
    at their own axial index; the incoming assembly's stationary blocks left with the outgoing one), travelling blocks
    travelled, and the location and assembly-name tables are exact.  The BLOCK-name table is not asserted here: it is wrong
    for the exchanged blocks (known findings F166 / F194, bounded ids lookups.blocksByName.*)."""
    n = choose(n, 1, 2)
    m = choose(m, 0, 3)
    m2 = choose(m2, 0, 3)
    core, r, pool = world(track, True, 4, 9)
    out = assembly(1, 2, "001-001", stationary_of(m, 2))
    by = assembly(2, 1, "002-001")
    inc = assembly(7, 2, "SFP" if fromPool else "LoadQueue", stationary_of(m2, 2))
    place(core, out, i1, j1)
    if n == 2:
        place(core, by, i2, j2)
    if fromPool:
        register_pooled(core, pool, inc)
        inc.spatialLocator = IndexLocation(2, 0, 0, new(Marker))
    assume(inv(core, pool))
    assume(4 >= hexring(i1, j1))
    fh = new(FuelHandler, o=new(OperatorStub, r=r), moved=[])
    bi, bo = list(inc._children), list(out._children)
    try:
        fh.dischargeSwap(inc, out)
        done = True
    except ValueError:
        done = False
    assert done == (m == m2), "refused exactly when the stationary blocks do not line up"
    if not done:
        assert inv(core, pool) and at(core, i1, j1) is out and len(core._children) == n, "a refusal changes nothing"
        assert inc._children[0] is bi[0] and inc._children[1] is bi[1] and out._children[0] is bo[0] and out._children[1] is bo[1]
        return
    assert inv_but_block_names(core, pool), "location and assembly-name tables exact"
    assert at(core, i1, j1) is inc and inc.parent is core and len(core._children) == n and core._children[n - 1] is inc
    assert (out.parent is pool) if track else (out.parent is None and "A0001" not in core.assembliesByName)
    for k in range(2):
        if k in stationary_of(m, 2):
            assert inc._children[k] is bo[k] and out._children[k] is bi[k], "stationary blocks keep their core position and exchange assemblies"
        else:
            assert inc._children[k] is bi[k] and out._children[k] is bo[k], "travelling blocks travel"
        assert inc._children[k].spatialLocator.k == k and out._children[k].spatialLocator.k == k
    assert len(inc._children) == 2 and len(out._children) == 2
    if n == 2:
        assert at(core, i2, j2) is by and by.p.numMoves == 0, "bystander untouched"


# ----------------------------------------------------------------------------- lookups
@lemma(gen=dict(GEN, ring=(1, 3), pos=(1, 12)), stubs=STUBS, overrides=OVERRIDES, timeout=60)
def lookups_by_location_and_name_agree_with_the_children(n: int, i1: int, j1: int, i2: int, j2: int, ring: int, pos: int):
    """In any core state satisfying Inv (0..2 assemblies at symbolic cells): getAssemblyWithStringLocation(label) returns
    the assembly whose cell is the labelled (ring, position), None when that cell is empty; getAssemblyByName /
    getBlockByName return the children / their blocks and raise KeyError for unknown names."""
    n = choose(n, 0, 2)
    ring = choose(ring, 1, 3)
    pos = choose(pos, 1, 12)
    assume(pos <= (1 if ring == 1 else 6 * (ring - 1)))
    core, r, pool, a1, a2 = populated(n, i1, j1, i2, j2, False, True, 4, 9)
    assume(inv(core, pool))
    label = "%03d-%03d" % (ring, pos)
    ci, cj = HexGrid.getIndicesFromRingAndPos(ring, pos)  # the labelled cell (bijection proved in C07)
    found = core.getAssemblyWithStringLocation(label)
    if n >= 1 and (i1, j1) == (ci, cj):
        assert found is a1
    elif n >= 2 and (i2, j2) == (ci, cj):
        assert found is a2
    else:
        assert found is None, "an empty cell holds nobody"
    if n >= 1:
        assert core.getAssemblyByName("A0001") is a1 and core.getBlockByName("B0001-001") is a1._children[1]
    if n >= 2:
        assert core.getAssemblyByName("A0002") is a2 and core.getBlockByName("B0002-000") is a2._children[0]
    try:
        core.getAssemblyByName("A0007")
        known = True
    except KeyError:
        known = False
    assert not known, "a name that is not in the core is not found"


@lemma(gen=dict(SWAPGEN, n=(3, 3), m=(0, 3)), stubs=STUBS, overrides=OVERRIDES, timeout=90)
def cascade_moves_every_assembly_one_place_on(i1: int, j1: int, i2: int, j2: int, i3: int, j3: int, m: int):
    """FuelHandler.swapCascade([a1, a2, a3]) (three assemblies at symbolic cells, two blocks each, the same stationary
    pattern in all three - every pattern enumerated): a2 takes a1's place, a3 takes a2's, a1 goes to the far end; the
    inventory is unchanged, Inv holds; stationary blocks stay at their core location, travelling blocks travel."""
    m = choose(m, 0, 3)
    core, r, pool = world(True, True, 4, 9)
    a1 = assembly(1, 2, "001-001", stationary_of(m, 2))
    a2 = assembly(2, 2, "002-001", stationary_of(m, 2))
    a3 = assembly(3, 2, "002-002", stationary_of(m, 2))
    place(core, a1, i1, j1)
    place(core, a2, i2, j2)
    place(core, a3, i3, j3)
    assume(inv(core, pool))
    fh = new(FuelHandler, o=new(OperatorStub, r=r), moved=[])
    b1, b2, b3 = list(a1._children), list(a2._children), list(a3._children)
    fh.swapCascade([a1, a2, a3])
    assert inv(core, pool), "Inv preserved"
    assert len(core._children) == 3 and core._children[0] is a1 and core._children[1] is a2 and core._children[2] is a3, "same inventory"
    assert at(core, i1, j1) is a2 and at(core, i2, j2) is a3 and at(core, i3, j3) is a1, "every assembly one place on, the first to the far end"
    assert (a2.spatialLocator.i, a2.spatialLocator.j) == (i1, j1) and (a3.spatialLocator.i, a3.spatialLocator.j) == (i2, j2) and (a1.spatialLocator.i, a1.spatialLocator.j) == (i3, j3)
    assert len(core.childrenByLocator) == 3
    for k in range(2):
        if k in stationary_of(m, 2):
            assert a2._children[k] is b1[k] and a3._children[k] is b2[k] and a1._children[k] is b3[k], "stationary blocks stay at their core location"
        else:
            assert a1._children[k] is b1[k] and a2._children[k] is b2[k] and a3._children[k] is b3[k], "travelling blocks travel"
        assert a1._children[k].parent is a1 and a2._children[k].parent is a2 and a3._children[k].parent is a3
    assert a1.p.numMoves == 2 and a2.p.numMoves == 1 and a3.p.numMoves == 1, "one count per move made"


@lemma(gen=dict(SWAPGEN, m=(0, 7), m2=(0, 7)), stubs=STUBS, overrides=OVERRIDES, timeout=120)
def swap_of_three_block_assemblies_with_any_stationary_pattern(i1: int, j1: int, i2: int, j2: int, m: int, m2: int):
    """swapAssemblies on assemblies of THREE blocks (the lemma above: two), every pair of stationary patterns 0..7 - among
    them several stationary blocks that are not neighbours (bottom and top block stationary, the middle one travelling):
    refused exactly when the patterns differ; otherwise stationary blocks exchange assemblies at their own axial
    position, travelling blocks travel, block order is unchanged."""
    m = choose(m, 0, 7)
    m2 = choose(m2, 0, 7)
    core, r, pool, fh, a1, a2, a3 = swap_world(2, i1, j1, i2, j2, 0, 0, m, m2, 3)
    assume(inv(core, pool))
    b1, b2 = list(a1._children), list(a2._children)
    try:
        fh.swapAssemblies(a1, a2)
        done = True
    except ValueError:
        done = False
    assert done == (m == m2), "refused exactly when the stationary blocks of the two assemblies do not line up"
    assert inv(core, pool)
    if not done:
        assert at(core, i1, j1) is a1 and at(core, i2, j2) is a2 and a1.p.numMoves == 0 and a2.p.numMoves == 0, "nothing moved"
        for k in range(3):
            assert a1._children[k] is b1[k] and a2._children[k] is b2[k]
        return
    assert at(core, i2, j2) is a1 and at(core, i1, j1) is a2 and len(core.childrenByLocator) == 2
    assert len(a1._children) == 3 and len(a2._children) == 3
    for k in range(3):
        if k in stationary_of(m, 3):
            assert a1._children[k] is b2[k] and a2._children[k] is b1[k], "stationary blocks stay at their core position: they exchange assemblies"
        else:
            assert a1._children[k] is b1[k] and a2._children[k] is b2[k], "travelling blocks travel with their assembly"
        assert a1._children[k].parent is a1 and a2._children[k].parent is a2
        assert a1._children[k].spatialLocator.k == k and a2._children[k].spatialLocator.k == k, "block order / axial index unchanged"


@lemma(gen=dict(SWAPGEN, n=(2, 3), m=(0, 3)), stubs=STUBS, overrides=OVERRIDES, timeout=90)
def swap_of_an_assembly_with_itself_moves_nothing(n: int, i1: int, j1: int, i2: int, j2: int, i3: int, j3: int, m: int):
    """FuelHandler.swapAssemblies(a1, a1) - the two inputs are the SAME assembly (the lemma above always swaps two different
    ones), every stationary pattern: a1 stays where it is with all of its blocks in order, nobody else moves, Inv holds;
    and swapAssemblies(None, a2) / (a2, None) does nothing at all."""
    n = choose(n, 2, 3)
    m = choose(m, 0, 3)
    core, r, pool, fh, a1, a2, a3 = swap_world(n, i1, j1, i2, j2, i3, j3, m, m, 2)
    assume(inv(core, pool))
    b1 = list(a1._children)
    fh.swapAssemblies(a1, a1)
    assert inv(core, pool), "Inv holds"
    assert len(core._children) == n and core._children[0] is a1 and core._children[1] is a2
    assert (a1.spatialLocator.i, a1.spatialLocator.j) == (i1, j1) and at(core, i1, j1) is a1 and a1.spatialLocator.grid is core.spatialGrid, "it sits where it was"
    assert at(core, i2, j2) is a2 and a2.p.numMoves == 0 and len(core.childrenByLocator) == n, "nobody else moved"
    assert len(a1._children) == 2 and a1._children[0] is b1[0] and a1._children[1] is b1[1] and b1[0].parent is a1 and b1[1].parent is a1, "it keeps its own blocks, in order"
    assert b1[0].spatialLocator.k == 0 and b1[1].spatialLocator.k == 1
    moves = a1.p.numMoves
    fh.swapAssemblies(None, a2)
    fh.swapAssemblies(a2, None)
    assert inv(core, pool) and at(core, i2, j2) is a2 and at(core, i1, j1) is a1 and a2.p.numMoves == 0 and a1.p.numMoves == moves, "a swap with nothing is no move"


@lemma(gen=dict(SWAPGEN, shape=(0, 5), m=(0, 3)), stubs=STUBS, overrides=OVERRIDES, timeout=120)
def cascade_of_any_list_keeps_the_inventory_and_the_lookups(i1: int, j1: int, i2: int, j2: int, i3: int, j3: int, m: int, shape: int):
    """FuelHandler.swapCascade on the lists the lemma above leaves out (three assemblies in the core, the same stationary
    pattern): the empty list, one assembly, two, a list with a hole ([a1, None, a3]), and lists naming an assembly twice
    ([a1, a2, a1], [a1, a1]; the code only warns).  Whatever the list: the core holds the same three assemblies, each
    on one of the three cells that were occupied (each cell once), Inv holds, every assembly still has two blocks of
    its own axial positions; for the lists without repetition the moves are the documented ones."""
    m = choose(m, 0, 3)
    shape = choose(shape, 0, 5)
    core, r, pool = world(True, True, 4, 9)
    a1 = assembly(1, 2, "001-001", stationary_of(m, 2))
    a2 = assembly(2, 2, "002-001", stationary_of(m, 2))
    a3 = assembly(3, 2, "002-002", stationary_of(m, 2))
    place(core, a1, i1, j1)
    place(core, a2, i2, j2)
    place(core, a3, i3, j3)
    assume(inv(core, pool))
    fh = new(FuelHandler, o=new(OperatorStub, r=r), moved=[])
    b1, b2, b3 = list(a1._children), list(a2._children), list(a3._children)
    fh.swapCascade([[], [a1], [a1, a2], [a1, None, a3], [a1, a2, a1], [a1, a1]][shape])
    assert inv(core, pool), "Inv preserved"
    assert len(core._children) == 3 and core._children[0] is a1 and core._children[1] is a2 and core._children[2] is a3, "same inventory"
    assert len(core.childrenByLocator) == 3 and at(core, i1, j1) is not None and at(core, i2, j2) is not None and at(core, i3, j3) is not None, "the three cells stay occupied, one assembly each"
    for a in (a1, a2, a3):
        assert len(a._children) == 2 and a._children[0].parent is a and a._children[1].parent is a
        assert a._children[0].spatialLocator.k == 0 and a._children[1].spatialLocator.k == 1
    blocks = [a1._children[0], a2._children[0], a3._children[0], a1._children[1], a2._children[1], a3._children[1]]
    for b in b1 + b2 + b3:
        assert len([x for x in blocks if x is b]) == 1, "no block duplicated or lost"
    if shape <= 1:
        assert at(core, i1, j1) is a1 and at(core, i2, j2) is a2 and at(core, i3, j3) is a3 and a1.p.numMoves == 0, "nothing to do"
    elif shape == 2:
        assert at(core, i1, j1) is a2 and at(core, i2, j2) is a1 and at(core, i3, j3) is a3 and a3.p.numMoves == 0, "a cascade of two is a swap"
    elif shape == 3:
        assert at(core, i1, j1) is a3 and at(core, i3, j3) is a1 and at(core, i2, j2) is a2 and a2.p.numMoves == 0, "the hole is skipped"


@lemma(gen=dict(GEN, i1=(-1, 4), j1=(-2, 4)), stubs=STUBS_REAL_RINGS, overrides=OVERRIDES, timeout=90)
def discharge_swap_in_a_third_core_records_what_the_outgoing_assembly_stood_for(i1: int, j1: int, track: bool):
    """dischargeSwap in a third-core (periodic) model, the outgoing assembly anywhere in the represented third
    (symbolic cell): the incoming assembly takes its place and stands for itself, the outgoing one remembers that it
    stood for three assemblies (one at the centre); Inv holds."""
    core, r, pool = world(track, True, 9, 9, "third periodic")
    out = assembly(1, 1, "001-001")
    inc = assembly(7, 1, "LoadQueue")
    place(core, out, i1, j1)
    assume(core.spatialGrid.isInFirstThird(out.spatialLocator, includeTopEdge=True))
    assume(hexring(i1, j1) <= 9)
    assume(inv(core, pool))
    fh = new(FuelHandler, o=new(OperatorStub, r=r), moved=[])
    fh.dischargeSwap(inc, out)
    assert inv(core, pool)
    assert at(core, i1, j1) is inc and inc.parent is core and len(core._children) == 1
    assert out.p.multiplicity == (1 if (i1, j1) == (0, 0) else 3), "a third-core assembly off the centre stands for three"
    assert inc.p.multiplicity == 1
    assert (out.parent is pool) == track


# ----------------------------------------------------------------------------- the constructor, and a history from it
class ClockStub:
    """the module `time` as seen from cores.py (Core.timeOfStart is not part of this property)"""

    @staticmethod
    def time():
        return 0.0


def armiobject_init_contract(self, name):
    """contract of ArmiObject.__init__ (the parameter collection it creates is viewed as a PMap)"""
    self.name = name
    self.parent = None
    self.cached = {}
    self._backupCache = None
    self.p = new(PMap, maxAssemNum=0)
    self._lumpedFissionProducts = None
    self.spatialGrid = None
    self.spatialLocator = CoordinateLocation(0.0, 0.0, 0.0, None)


CTOR_STUBS = {"armi.reactor.composites:ArmiObject.getFissileMass": "fissile_contract",
              "armi.reactor.composites:ArmiObject.getMaxParam": "maxparam_contract",
              "armi.reactor.grids.hexagonal:HexGrid.getRingPos": "ringpos_contract",
              "armi.reactor.composites:ArmiObject.__init__": "armiobject_init_contract"}
CTOR_OVERRIDES = {"armi.reactor.cores:parameters": "ParametersStub", "armi.reactor.cores:time": "ClockStub"}


@lemma(gen=GEN, stubs=CTOR_STUBS, overrides=CTOR_OVERRIDES, timeout=90)
def a_history_from_the_constructor_keeps_the_tables_exact(i1: int, j1: int, i2: int, j2: int, track: bool):
    """the real constructor Core(name) establishes Inv (empty tables, no tracking); then the history
    add, add, swap, discharge-swap, remove at symbolic cells keeps it, with every assembly where the history put it"""
    core = Core("core")
    assert len(core._children) == 0 and len(core.childrenByLocator) == 0 and len(core.assembliesByName) == 0 and len(core.blocksByName) == 0
    assert core._trackAssems is False and core.numRings == 0 and core.parent is None
    # attach it to a reactor and a grid (what the blueprints do)
    g = hexgrid("full")
    pool = new(PoolStub, kids=[], parent=None)
    r = new(Reactor, name="r", p=new(PMap, time=12.5, cycle=3, maxAssemNum=0), excore=new(ExcoreStub, items={"sfp": pool}), parent=None, _children=[], core=core)
    core.parent, core.spatialGrid, g.armiObject, pool.parent = r, g, core, r
    core._trackAssems = track
    core.stationaryBlockFlagsList = ["GRID_PLATE"]
    assert inv(core, pool), "Inv after construction"
    assume((i1, j1) != (i2, j2))
    a1, a2, a7 = assembly(1, 2, "LoadQueue"), assembly(2, 2, "LoadQueue"), assembly(7, 2, "LoadQueue")
    core.add(a1, g[i1, j1, 0])
    assert inv(core, pool)
    core.add(a2, g[i2, j2, 0])
    assert inv(core, pool) and at(core, i1, j1) is a1 and at(core, i2, j2) is a2
    fh = new(FuelHandler, o=new(OperatorStub, r=r), moved=[])
    fh.swapAssemblies(a1, a2)
    assert inv(core, pool) and at(core, i1, j1) is a2 and at(core, i2, j2) is a1
    fh.dischargeSwap(a7, a1)
    assert inv(core, pool) and at(core, i1, j1) is a2 and at(core, i2, j2) is a7
    assert (a1.parent is pool) == track and ("A0001" in core.assembliesByName) == track
    core.removeAssembly(a2, discharge=False)
    assert inv(core, pool) and at(core, i1, j1) is None and at(core, i2, j2) is a7 and len(core._children) == 1 and core._children[0] is a7
    assert "A0002" not in core.assembliesByName and a2.parent is None
    assert core.numRings == max(hexring(i1, j1), hexring(i2, j2))


# ----------------------------------------------------------------------------- what a location key is
@lemma(gen={"i1": (-2, 2), "j1": (-2, 2), "i2": (-2, 2), "j2": (-2, 2)})
def a_location_key_is_its_indices_and_its_grid(i1: int, j1: int, i2: int, j2: int):
    """the real IndexLocation as dictionary key (what childrenByLocator relies on): two locators are the same key iff
    they have the same indices AND belong to the same grid; the bare index tuple finds the locator of any grid"""
    g, h = new(Marker), new(Marker)
    a, b, c = IndexLocation(i1, j1, 0, g), IndexLocation(i2, j2, 0, g), IndexLocation(i1, j1, 0, h)
    d = {a: 1}
    assert a in d and (b in d) == ((i1, j1) == (i2, j2))
    assert c not in d, "same indices in another grid: a different key"
    assert (i1, j1, 0) in d and IndexLocation(i1, j1, 0, None) not in d
    d[b] = 2
    assert len(d) == (1 if (i1, j1) == (i2, j2) else 2) and d[a] == (2 if (i1, j1) == (i2, j2) else 1)
    d[c] = 3
    assert d[(i1, j1, 0)] == d[a], "an index tuple finds the first equal stored key"
    assert d.pop(b) == 2 and (a in d) == ((i1, j1) != (i2, j2)) and c in d
