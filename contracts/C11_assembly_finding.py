"""C11 - FINDING (refuted on the unchanged tree; not picked up by ./check).

Property text: "The blocks reported between two elevations partition the interval: their overlap heights are positive and
sum to its length."  Assembly.getBlocksBetweenElevations drops every block whose overlap is <= 1e-10 of the block height,
so (a) the reported heights sum to LESS than zUpper - zLower when an end of the interval lies within 1e-10 x height of a
block boundary, and (b) when the dropped sliver exceeds 1e-5 cm (block taller than 1e5 cm) the function raises
ValueError for an interval inside the assembly.  What does hold (sum up to 1e-10 x total height; refusal only above
1e5 cm) is proved in contracts/C11_assembly.py.

native reproduction (plain armi):
  blocks of 10, 10 cm:  getBlocksBetweenElevations(10.0 - 5e-10, 15.0) -> [(block1, 5.0)]: sum 5.0, length 5.0000000005
  blocks of 1, 1, 100001, 1 cm: getBlocksBetweenElevations(50002.0 - 1.000005e-5, 50002.0) -> ValueError
(3) Assembly.setBlockMesh on a ONE-block assembly does nothing (a warning is logged): the block's topIndex 0 is read as the
    marker "excluded from the uniform mesh".   native: one block of 10 cm, setBlockMesh([25.0]) -> height stays 10.0.
run: python3-vt -m pyvc.run contracts/pending/C11_assembly_finding.py -v
"""
from spec import *

HexAssembly = repo("armi.reactor.assemblies:HexAssembly")
HexBlock = repo("armi.reactor.blocks:HexBlock")


class PMap:
    def __getitem__(self, k):
        return getattr(self, k)

    def __setitem__(self, k, v):
        setattr(self, k, v)


def stacked(n, hs):
    blocks = []
    z = 0.0
    for k in range(n):
        blocks.append(new(HexBlock, p=new(PMap, height=hs[k], zbottom=z, ztop=z + hs[k], z=z + hs[k] / 2.0, flags=None, type="b", xsType="A", envGroup="A"),
                          _children=[], name="b", parent=None, spatialLocator=None))
        z = z + hs[k]
    a = new(HexAssembly, _children=blocks, p=new(PMap, assemNum=1), name="A", parent=None, spatialGrid=None, spatialLocator=None)
    return a, blocks, z


@lemma(gen={"n": (1, 3), "h0": (0.5, 80.0), "h1": (0.5, 80.0), "h2": (0.5, 80.0), "zl": (0.0, 60.0), "zu": (0.0, 90.0)})
def blocks_between_elevations_sum_exactly_to_the_interval(n: int, h0: float, h1: float, h2: float, zl: float, zu: float):
    """exact reading of the property text (n = 1..3): never refused inside the assembly, heights sum to zUpper - zLower"""
    n = choose(n, 1, 3)
    assume(h0 > 0 and h1 > 0 and h2 > 0)
    a, blocks, H = stacked(n, [h0, h1, h2])
    assume(0 <= zl and zl < zu and zu <= H)
    res = a.getBlocksBetweenElevations(zl, zu)
    total = 0.0
    for b, h in res:
        assert h > 0
        total = total + h
    assert eq(total, zu - zl), "overlap heights sum to the length of the interval"


@lemma(gen={"h0": (0.5, 80.0), "m0": (0.5, 80.0)})
def single_block_assembly_is_snapped_to_the_mesh(h0: float, m0: float):
    assume(h0 > 0 and m0 > 0)
    b = new(HexBlock, p=new(PMap, height=h0, zbottom=0.0, ztop=h0, z=h0 / 2.0, flags=None, type="b", xsType="A", envGroup="A", topIndex=0),
            _children=[], name="b", parent=None, spatialLocator=None, cached={})
    a = new(HexAssembly, _children=[b], p=new(PMap, assemNum=1, type="A"), name="A", parent=None, spatialGrid=None, spatialLocator=None)
    b.parent = a
    a.reestablishBlockOrder()
    a.calculateZCoords()
    a.setBlockMesh([m0], conserveMassFlag=False)
    assert eq(b.p.height, m0) and eq(b.p.ztop, m0), "the block spans [0, mesh[0]]"
