"""C10 - write-once library properties and metadata merging (scalar values; array contents are bounded)."""
from spec import *

properties = repo("armi.utils.properties")
ImmutablePropertyError = repo("armi.utils.properties:ImmutablePropertyError")


class Lib:
    """a library with one write-once property, exactly as xsLibraries._XSLibrary declares them"""

    groups = properties.createImmutableProperty("groups", "an ISOTXS", "number of groups")


@lemma
def write_once_property_contract(a: int, b: int, unlocked: bool):
    lib = new(Lib)
    if unlocked:
        properties.unlockImmutableProperties(lib)
    # reading before any assignment
    try:
        v0 = lib.groups
        raised = False
    except ImmutablePropertyError:
        raised = True
    assert raised == (not unlocked), "reading an unset property is refused unless the object is unlocked"
    if not raised:
        assert v0 is None
    lib.groups = a
    assert lib.groups == a, "unset -> set"
    lib.groups = a
    assert lib.groups == a, "assigning an equal value keeps it"
    lib.groups = None
    assert lib.groups == a, "assigning None keeps the stored value"
    try:
        lib.groups = b
        refused = False
    except ImmutablePropertyError:
        refused = True
    assert refused == (a != b), "a different value is refused, an equal one accepted"
    assert lib.groups == a, "and the stored value is unchanged either way"


@lemma
def write_once_property_none_then_value(a: int):
    lib = new(Lib)
    lib.groups = None
    lib.groups = a
    assert lib.groups == a, "a property holding None takes the first real value"
