"""C15 - cycle history: the conversion of the simple (flat) and the detailed (`cycles` list) input into per-cycle
lists - step lengths, cycle lengths, burn steps, nodes per cycle, availability factors, power fractions, names - for
ALL numeric values, shapes enumerated for 1..3 cycles x 1..3 steps; the '3R' repeat shorthand; refusal of inconsistent
input; and the link to the run: the real Operator, computing its history through these functions from a detailed
input, visits exactly getNodesPerCycle(cs)[c] nodes in cycle c.

Real code executed: armi.utils getPowerFractions / getCycleNames / getAvailabilityFactors / _getStepAndCycleLengths /
getStepLengths / getCycleLengths / getBurnSteps / hasBurnup / getMaxBurnSteps / getNodesPerCycle / getCumulativeNodeNum,
armi.utils.mathematics expandRepeatedFloats / getStepsFromValues / isMonotonic, globalSettings
_isMonotonicIncreasing / _mutuallyExclusiveCyclesInputs (the two custom validators of the `cycles` schema),
Operator.burnSteps / maxBurnSteps / stepLengths / cycleLengths / powerFractions / availabilityFactors / cycleNames /
_checkReactorCycleAttrs / _consistentPowerFractionsAndStepLengths / _mainOperate / _cycleLoop / _timeNodeLoop /
_performTightCoupling.
Stand-ins: `cs` is a plain dict (the functions only index it); `Vol` for the voluptuous package in globalSettings
(contract: Invalid / error.Invalid are exception classes - nothing else of it is reached); `Probe(Operator)` keeps the
real loops and history properties and replaces the interactAll* fan-out by a recorder (as in C15_loops.py).
Zero burn steps / zero availability in the DETAILED form are known findings (F167, F168: division by zero) and are
excluded by hypothesis here.
"""
from spec import *

utils = repo("armi.utils")
mathematics = repo("armi.utils.mathematics")
gs = repo("armi.settings.fwSettings.globalSettings")
Operator = repo("armi.operators.operator:Operator")

if NATIVE:
    import voluptuous

    Invalid = voluptuous.Invalid
else:

    class Invalid(Exception):
        pass


class VolError:
    Invalid = Invalid


class Vol:
    """stand-in for the voluptuous package as far as the two custom validators use it"""

    error = VolError
    Invalid = Invalid


OVG = {"armi.settings.fwSettings.globalSettings:vol": "Vol"}


# ----------------------------------------------------------------------------- the repeat shorthand
@lemma(gen={"k": (0, 3), "m": (0, 3), "a": (0.0, 400.0), "b": (0.0, 400.0)})
def repeat_shorthand_expands_to_that_many_more_copies(k: int, m: int, a: float, b: float):
    """expandRepeatedFloats on the family [a, 'kR', b, 'mr'] (k, m = 0..3 enumerated, a, b symbolic) and a few concrete
    lists: 'nR' stands for n MORE copies of the entry before it"""
    k = choose(k, 0, 3)
    m = choose(m, 0, 3)
    out = mathematics.expandRepeatedFloats([a, "%dR" % k, b, "%dr" % m])
    assert len(out) == k + m + 2
    for i in range(k + 1):
        assert eq(out[i], a)
    for i in range(m + 1):
        assert eq(out[k + 1 + i], b)
    assert eq(mathematics.expandRepeatedFloats([a, b]), [a, b]), "numbers pass unchanged"
    assert mathematics.expandRepeatedFloats(["2.5", 3, "1R"]) == [2.5, 3.0, 3.0], "numeric text is read as a number"
    assert len(mathematics.expandRepeatedFloats([150, 200, "9R"])) == 11, "a 150 day cycle followed by 10 200 day cycles"
    assert mathematics.expandRepeatedFloats([]) == []
    for bad in ([a, "RR"], [a, "1R2R"], ["2R"], [a, "xR"], [a, "two"]):
        try:
            mathematics.expandRepeatedFloats(bad)
            ok = True
        except (ValueError, IndexError):
            ok = False
        assert not ok, "text that is neither a number nor one repeat count after an entry is refused"


# ----------------------------------------------------------------------------- simple (flat) input
def simple_cs(nCycles, burnSteps, cycleLength=None, cycleLengths=None, availabilityFactor=None, availabilityFactors=None,
              powerFractions=None):
    return {"cycles": [], "nCycles": nCycles, "burnSteps": burnSteps, "cycleLength": cycleLength, "cycleLengths": cycleLengths,
            "availabilityFactor": availabilityFactor, "availabilityFactors": availabilityFactors, "powerFractions": powerFractions}


def shorthand(values, form):
    """the list as the user may write it: plain (form 1) or, when all entries are the same one, [x, '(n-1)R'] (form 2)"""
    if form == 2 and len(values) >= 2:
        return [values[0], "%dR" % (len(values) - 1)]
    return list(values)


@lemma(gen={"nCycles": (1, 3), "burnSteps": (1, 3), "form": (0, 2), "L0": (1.0, 500.0), "L1": (1.0, 500.0), "L2": (1.0, 500.0),
            "a0": (0.0, 1.0), "a1": (0.0, 1.0), "a2": (0.0, 1.0), "p0": (0.0, 1.0), "p1": (0.0, 1.0), "p2": (0.0, 1.0)})
def simple_history_gives_one_entry_per_cycle(nCycles: int, burnSteps: int, form: int, L0: float, L1: float, L2: float,
                                             a0: float, a1: float, a2: float, p0: float, p1: float, p2: float):
    """simple input, 1..3 cycles x 1..3 burn steps x 3 forms: 0 = one cycleLength / availabilityFactor for all cycles,
    1 = per-cycle lists cycleLengths / availabilityFactors / powerFractions, 2 = those lists in repeat shorthand
    [x, '(n-1)R'] (all cycles alike); values symbolic"""
    nCycles = choose(nCycles, 1, 3)
    burnSteps = choose(burnSteps, 1, 3)
    form = choose(form, 0, 2)
    assume(L0 >= 0 and L1 >= 0 and L2 >= 0)
    if form == 1:
        L, a, p = [L0, L1, L2][:nCycles], [a0, a1, a2][:nCycles], [p0, p1, p2][:nCycles]
        cs = simple_cs(nCycles, burnSteps, cycleLength=L2, cycleLengths=list(L), availabilityFactor=a2, availabilityFactors=list(a),
                       powerFractions=list(p))
    elif form == 2:
        L, a, p = [L0] * nCycles, [a0] * nCycles, [p0] * nCycles
        cs = simple_cs(nCycles, burnSteps, cycleLength=L2, cycleLengths=shorthand(L, 2), availabilityFactor=a2,
                       availabilityFactors=shorthand(a, 2), powerFractions=shorthand(p, 2))
    else:
        L, a, p = [L0] * nCycles, [a0] * nCycles, [1.0] * nCycles
        cs = simple_cs(nCycles, burnSteps, cycleLength=L0, availabilityFactor=a0)
    steps = utils.getStepLengths(cs)
    lengths = utils.getCycleLengths(cs)
    avail = utils.getAvailabilityFactors(cs)
    fracs = utils.getPowerFractions(cs)
    bs = utils.getBurnSteps(cs)
    npc = utils.getNodesPerCycle(cs)
    assert len(steps) == nCycles and len(lengths) == nCycles and len(avail) == nCycles and len(fracs) == nCycles
    assert len(bs) == nCycles and len(npc) == nCycles and utils.getCycleNames(cs) == [None] * nCycles
    for c in range(nCycles):
        assert eq(lengths[c], L[c]) and eq(avail[c], a[c]), "cycle c has its own length and availability"
        assert bs[c] == burnSteps and len(steps[c]) == burnSteps and npc[c] == bs[c] + 1, "burn steps + 1 = nodes"
        assert eq(sum(steps[c]), a[c] * L[c]), "step lengths sum to availability x cycle length"
        for s in steps[c]:
            assert eq(s * burnSteps, a[c] * L[c]), "equal steps"
        assert eq(fracs[c], [p[c]] * burnSteps), "one power fraction per step: the cycle's"
    assert utils.getMaxBurnSteps(cs) == burnSteps and utils.hasBurnup(cs)
    assert utils.getCumulativeNodeNum(nCycles - 1, burnSteps, cs) == nCycles * (burnSteps + 1) - 1, "last node of the run"


@lemma(gen={"nCycles": (1, 3), "none": (0, 1), "L": (1.0, 500.0)})
def simple_history_without_burn_steps_is_one_static_cycle(nCycles: int, none: int, L: float, a: float):
    """burnSteps = 0 or None: one node per cycle, no steps.  The functions return ONE cycle whatever nCycles says, so
    the Operator accepts this for nCycles = 1 and refuses it (ValueError) for more cycles"""
    nCycles = choose(nCycles, 1, 3)
    none = choose(none, 0, 1)
    cs = simple_cs(nCycles, None if none else 0, cycleLength=L, availabilityFactor=a)
    assert utils.getStepLengths(cs) == [[]] and utils.getBurnSteps(cs) == [0] and utils.getNodesPerCycle(cs) == [1]
    assert utils.getMaxBurnSteps(cs) == 0 and not utils.hasBurnup(cs)
    assert utils.getPowerFractions(cs) == [[]] * nCycles
    o = bare_operator(cs)
    try:
        got = o.burnSteps
        ok = True
    except ValueError:
        ok = False
    assert ok == (nCycles == 1), "a multi-cycle run without burn steps is refused"
    if ok:
        assert got == [0] and o.stepLengths == [[]] and o.maxBurnSteps == 0


def bare_operator(cs):
    """an Operator as __init__ leaves its history cache (all None), without reactor or interfaces"""
    return new(Operator, cs=cs, _cycleNames=None, _stepLengths=None, _cycleLengths=None, _burnSteps=None, _maxBurnSteps=None,
               _powerFractions=None, _availabilityFactors=None)


# ----------------------------------------------------------------------------- detailed input
def detailed_cycle(kind, n, L, a, d):
    """one entry of cs['cycles'] with n steps: kind 0 = cycle length + burn steps, 1 = step days, 2 = cumulative days"""
    if kind == 0:
        return {"cycle length": L, "burn steps": n, "availability factor": a}
    if kind == 1:
        return {"step days": [d[i] for i in range(n)], "availability factor": a}
    return {"cumulative days": [sum(d[: i + 1]) for i in range(n)], "availability factor": a}


DETAILED_GEN = {"nCycles": (1, 2), "k0": (0, 2), "k1": (0, 2), "k2": (0, 2), "n0": (1, 3), "n1": (1, 3), "n2": (1, 3),
                "L0": (1.0, 500.0), "L1": (1.0, 500.0), "L2": (1.0, 500.0), "a0": (0.1, 1.0), "a1": (0.1, 1.0), "a2": (0.1, 1.0),
                "d00": (0.5, 90.0), "d01": (0.5, 90.0), "d02": (0.5, 90.0), "d10": (0.5, 90.0), "d11": (0.5, 90.0), "d12": (0.5, 90.0),
                "d20": (0.5, 90.0), "d21": (0.5, 90.0), "d22": (0.5, 90.0)}


def detailed_case(nCycles, kinds, ns, L, a, d, zeroAvailability=False):
    for c in range(nCycles):
        # an availability of exactly 0 only where the cycle LENGTH is given (kind 0): for step days / cumulative days the
        # cycle length is sum(steps) / availability, which has no value (the input contradicts itself unless all days are 0)
        assume(L[c] >= 0 and (0 <= a[c] if zeroAvailability and kinds[c] == 0 else 0 < a[c]) and a[c] <= 1)
    cs = {"cycles": [detailed_cycle(kinds[c], ns[c], L[c], a[c], d[c]) for c in range(nCycles)], "nCycles": nCycles}
    steps = utils.getStepLengths(cs)
    lengths = utils.getCycleLengths(cs)
    avail = utils.getAvailabilityFactors(cs)
    fracs = utils.getPowerFractions(cs)
    bs = utils.getBurnSteps(cs)
    npc = utils.getNodesPerCycle(cs)
    assert len(steps) == nCycles and len(lengths) == nCycles and len(avail) == nCycles and len(fracs) == nCycles
    assert len(bs) == nCycles and len(npc) == nCycles and utils.getCycleNames(cs) == [None] * nCycles
    for c in range(nCycles):
        assert bs[c] == ns[c] and len(steps[c]) == ns[c] and npc[c] == bs[c] + 1, "burn steps + 1 = nodes"
        assert eq(avail[c], a[c])
        # a cycle WITHOUT burn steps (only in the ..._without_burn_steps_or_availability lemma) has no step lengths to sum: its
        # given cycle length is kept as it is, and a cycle given by 0 step days / cumulative days has length 0
        assert eq(sum(steps[c]), avail[c] * lengths[c]) or (ns[c] == 0 and kinds[c] == 0), "step lengths sum to availability x cycle length"
        assert ns[c] > 0 or steps[c] == [], "no burn steps: no step lengths"
        assert eq(fracs[c], [1] * ns[c]), "full power unless power fractions are given"
        if kinds[c] == 0:
            assert eq(lengths[c], L[c]), "the given cycle length"
            for s in steps[c]:
                assert eq(s * ns[c], a[c] * L[c]), "equal steps"
        else:
            assert eq(steps[c], d[c][: ns[c]]), "the given step days / the differences of the cumulative days"
    assert utils.getMaxBurnSteps(cs) == max(ns) and utils.hasBurnup(cs) == (max(ns) > 0)
    assert utils.getCumulativeNodeNum(nCycles - 1, ns[nCycles - 1], cs) == sum(ns) + nCycles - 1, "last node of the run"


@lemma(gen=dict(DETAILED_GEN, n0=(0, 2), n1=(0, 2), a0=[0.0, 0.0, 0.5, 1.0], a1=[0.0, 0.5, 1.0]))
def detailed_history_with_cycles_without_burn_steps_or_availability(nCycles: int, k0: int, k1: int, n0: int, n1: int, L0: float, L1: float, a0: float, a1: float,
                                                                    d00: float, d01: float, d10: float, d11: float):
    """the lemma below for the schema-valid shapes it leaves out (they raised ZeroDivisionError before the fix of F167 /
    F168): 1..2 cycles in each of the 3 ways with 0..2 burn steps - a cycle WITHOUT steps has one node and an empty
    step list, in every position - and an availability factor of exactly 0 for a cycle given by length + burn steps."""
    nCycles = choose(nCycles, 1, 2)
    kinds = [choose(k0, 0, 2), choose(k1, 0, 2) if nCycles > 1 else 0][:nCycles]
    ns = [choose(n0, 0, 2), choose(n1, 0, 2) if nCycles > 1 else 1][:nCycles]
    detailed_case(nCycles, kinds, ns, [L0, L1], [a0, a1], [[d00, d01], [d10, d11]], True)


@lemma(gen=DETAILED_GEN)
def detailed_history_gives_one_entry_per_cycle(nCycles: int, k0: int, k1: int, k2: int, n0: int, n1: int, n2: int,
                                               L0: float, L1: float, L2: float, a0: float, a1: float, a2: float,
                                               d00: float, d01: float, d02: float, d10: float, d11: float, d12: float,
                                               d20: float, d21: float, d22: float):
    """detailed input, 1..2 cycles, each given in one of the 3 ways (cycle length + burn steps / step days / cumulative
    days) with 1..3 steps - all (3 x 3)^nCycles shapes; lengths, availabilities and days symbolic"""
    nCycles = choose(nCycles, 1, 2)
    kinds = [choose(k0, 0, 2), choose(k1, 0, 2) if nCycles > 1 else 0][:nCycles]
    ns = [choose(n0, 1, 3), choose(n1, 1, 3) if nCycles > 1 else 1][:nCycles]
    detailed_case(nCycles, kinds, ns, [L0, L1, L2], [a0, a1, a2], [[d00, d01, d02], [d10, d11, d12], [d20, d21, d22]])


DETAILED_GEN_3 = {"nCycles": (3, 3), "k0": (0, 2), "k1": (0, 2), "k2": (0, 2), "n0": (1, 2), "n1": (1, 2), "n2": (1, 2),
                  "L0": (1.0, 500.0), "L1": (1.0, 500.0), "L2": (1.0, 500.0), "a0": (0.1, 1.0), "a1": (0.1, 1.0), "a2": (0.1, 1.0),
                  "d00": (0.5, 90.0), "d01": (0.5, 90.0), "d02": (0.5, 90.0), "d10": (0.5, 90.0), "d11": (0.5, 90.0), "d12": (0.5, 90.0),
                  "d20": (0.5, 90.0), "d21": (0.5, 90.0), "d22": (0.5, 90.0)}


@lemma(gen=DETAILED_GEN_3)
def detailed_history_of_three_cycles(nCycles: int, k0: int, k1: int, k2: int, n0: int, n1: int, n2: int,
                                     L0: float, L1: float, L2: float, a0: float, a1: float, a2: float,
                                     d00: float, d01: float, d02: float, d10: float, d11: float, d12: float,
                                     d20: float, d21: float, d22: float):
    """the same for 3 cycles, each in one of the 3 ways with 1..2 steps - all (3 x 2)^3 shapes"""
    kinds = [choose(k0, 0, 2), choose(k1, 0, 2), choose(k2, 0, 2)]
    ns = [choose(n0, 1, 2), choose(n1, 1, 2), choose(n2, 1, 2)]
    detailed_case(3, kinds, ns, [L0, L1, L2], [a0, a1, a2], [[d00, d01, d02], [d10, d11, d12], [d20, d21, d22]])


@lemma(gen={"pres": (0, 63), "k0": (0, 2), "k1": (0, 2), "L": (1.0, 500.0), "a": (0.1, 1.0), "d0": (0.5, 90.0), "d1": (0.5, 90.0),
            "p0": (0.0, 1.0), "p1": (0.0, 1.0)})
def optional_entries_of_a_detailed_cycle_default_per_cycle(pres: int, k0: int, k1: int, L: float, a: float, d0: float, d1: float,
                                                           p0: float, p1: float):
    """2 cycles x 2 steps, 3 x 3 ways, and for each cycle 'availability factor' / 'power fractions' / 'name' present
    or not (2^6): an absent one defaults for THAT cycle only"""
    pres = choose(pres, 0, 63)
    kinds = [choose(k0, 0, 2), choose(k1, 0, 2)]
    assume(L >= 0 and 0 < a and a <= 1)
    cycles = []
    for c in range(2):
        cyc = detailed_cycle(kinds[c], 2, L, a, [d0, d1])
        if not (pres // 2 ** (3 * c)) % 2 == 1:
            del cyc["availability factor"]
        if (pres // 2 ** (3 * c + 1)) % 2 == 1:
            cyc["power fractions"] = [p0, p1] if c == 0 else [p1, "1R"]
        if (pres // 2 ** (3 * c + 2)) % 2 == 1:
            cyc["name"] = "cycle-%d" % c
        cycles.append(cyc)
    cs = {"cycles": cycles, "nCycles": 2}
    avail = utils.getAvailabilityFactors(cs)
    fracs = utils.getPowerFractions(cs)
    names = utils.getCycleNames(cs)
    steps = utils.getStepLengths(cs)
    lengths = utils.getCycleLengths(cs)
    for c in range(2):
        hasA = (pres // 2 ** (3 * c)) % 2 == 1
        hasP = (pres // 2 ** (3 * c + 1)) % 2 == 1
        hasN = (pres // 2 ** (3 * c + 2)) % 2 == 1
        assert eq(avail[c], a if hasA else 1), "availability defaults to 1"
        assert eq(fracs[c], ([p0, p1] if c == 0 else [p1, p1]) if hasP else [1, 1]), "power fractions default to full power"
        assert names[c] == (("cycle-%d" % c) if hasN else None), "a cycle without a name has none"
        assert eq(sum(steps[c]), avail[c] * lengths[c]), "step lengths sum to availability x cycle length"
        assert len(steps[c]) == 2 and len(fracs[c]) == len(steps[c])


# ----------------------------------------------------------------------------- inconsistent input is refused
TIMEKEYS = ("cumulative days", "step days", "cycle length", "burn steps")


@lemma(overrides=OVG, gen={"mask": (0, 15), "named": (0, 1), "L": (1.0, 500.0), "d0": (0.5, 90.0), "d1": (0.5, 90.0)})
def a_cycle_must_be_given_in_exactly_one_way(mask: int, named: int, L: float, d0: float, d1: float):
    """every subset (2^4) of the four time entries of one cycle: it is accepted - by the schema's validator
    _mutuallyExclusiveCyclesInputs AND by getStepLengths - exactly when it is one complete way: only 'cumulative days',
    only 'step days', or 'cycle length' together with 'burn steps'"""
    mask = choose(mask, 0, 15)
    named = choose(named, 0, 1)
    assume(d0 > 0 and d1 > 0 and L >= 0)
    values = ([d0, d0 + d1], [d0, d1], L, 2)
    cyc = {"name": "c1"} if named else {}
    for k in range(4):
        if (mask // 2 ** k) % 2 == 1:
            cyc[TIMEKEYS[k]] = values[k]
    try:
        same = gs._mutuallyExclusiveCyclesInputs(cyc)
        schemaOk = True
    except Invalid:
        schemaOk = False
    try:
        steps = utils.getStepLengths({"cycles": [cyc], "nCycles": 1})
        convOk = True
    except ValueError:
        convOk = False
    complete = mask in (1, 2, 12)
    assert (schemaOk and convOk) == complete, "accepted exactly when given in exactly one complete way"
    if schemaOk:
        assert same is cyc, "an accepted cycle passes unchanged"
    if complete:
        assert len(steps) == 1 and len(steps[0]) == 2
    if mask in (3, 7, 11, 15, 5, 9, 13, 6, 10, 14):
        assert not schemaOk, "two ways at once are refused by the schema"
    if mask == 0:
        assert not schemaOk and not convOk, "no way at all is refused"


@lemma(overrides=OVG, gen={"n": (0, 4), "d0": (0.0, 90.0), "d1": (0.0, 90.0), "d2": (0.0, 90.0), "d3": (0.0, 90.0), "tie": (0, 4)})
def cumulative_days_must_increase(n: int, tie: int, d0: float, d1: float, d2: float, d3: float):
    """_isMonotonicIncreasing on lists of 0..4 symbolic days (natively `tie` forces an equal pair)"""
    n = choose(n, 0, 4)
    days = [d0, d1, d2, d3][:n]
    if NATIVE and 1 <= tie and tie < n:
        days[tie] = days[tie - 1]
    try:
        out = gs._isMonotonicIncreasing(days)
        ok = True
    except Invalid:
        ok = False
    increasing = True
    for i in range(n - 1):
        increasing = increasing and days[i] < days[i + 1]
    assert ok == increasing, "accepted exactly when strictly increasing (equal or decreasing neighbours are refused)"
    if ok:
        assert out is days
        if n >= 1:
            assume(days[0] > 0)
            steps = mathematics.getStepsFromValues(days)
            assert len(steps) == n and eq(sum(steps), days[n - 1]), "then the steps are the differences, adding up to the last day"
            for s in steps:
                assert s > 0, "and every step is positive"


@lemma(gen={"n": (1, 3), "p": (0, 4), "first": (0, 1), "kind": (0, 2), "L": (1.0, 500.0), "a": (0.1, 1.0), "d0": (0.5, 90.0),
            "d1": (0.5, 90.0), "d2": (0.5, 90.0), "pf": (0.0, 1.0)})
def power_fractions_of_the_wrong_length_are_refused(n: int, p: int, first: int, kind: int, L: float, a: float, d0: float, d1: float,
                                                     d2: float, pf: float):
    """Operator.stepLengths / powerFractions on a detailed cycle with n = 1..3 steps and p = 0..4 power fractions (3 ways,
    either property asked first): ValueError exactly when p != n"""
    n = choose(n, 1, 3)
    p = choose(p, 0, 4)
    first = choose(first, 0, 1)
    kind = choose(kind, 0, 2)
    assume(L >= 0 and 0 < a and a <= 1)
    cyc = detailed_cycle(kind, n, L, a, [d0, d1, d2])
    cyc["power fractions"] = [pf] * p
    o = bare_operator({"cycles": [cyc], "nCycles": 1})
    try:
        if first == 0:
            s = o.stepLengths
            f = o.powerFractions
        else:
            f = o.powerFractions
            s = o.stepLengths
        ok = True
    except ValueError:
        ok = False
    assert ok == (p == n), "refused exactly when the number of power fractions differs from the number of steps"
    if ok:
        assert len(s) == 1 and len(f) == 1 and len(s[0]) == n and eq(f[0], [pf] * n)
        assert o.burnSteps == [n] and o.maxBurnSteps == n and eq(o.availabilityFactors, [a]) and o.cycleNames == [None]
        assert eq(o.cycleLengths[0] * a, sum(s[0]))


@lemma(gen={"nCycles": (0, 4), "m": (1, 3), "which": (0, 5), "L": (1.0, 500.0)})
def a_history_that_does_not_match_the_number_of_cycles_is_refused(nCycles: int, m: int, which: int, L: float):
    """m = 1..3 detailed cycles against the setting nCycles = 0..4: each of the six history properties of the Operator
    raises ValueError exactly when m != nCycles"""
    nCycles = choose(nCycles, 0, 4)
    m = choose(m, 1, 3)
    which = choose(which, 0, 5)
    assume(L >= 0)
    o = bare_operator({"cycles": [{"cycle length": L, "burn steps": 2}] * m, "nCycles": nCycles})
    try:
        got = (o.burnSteps, o.stepLengths, o.cycleLengths, o.powerFractions, o.availabilityFactors, o.cycleNames)[0] if which == 0 else (
            o.stepLengths if which == 1 else (o.cycleLengths if which == 2 else (o.powerFractions if which == 3 else (
                o.availabilityFactors if which == 4 else o.cycleNames))))
        ok = True
    except ValueError:
        ok = False
    assert ok == (m == nCycles), "refused exactly when the history has another number of cycles than nCycles"
    if ok:
        assert len(got) == nCycles


# ----------------------------------------------------------------------------- the run visits the nodes these functions return
class PMap:
    pass


class Holder:
    pass


class Probe(Operator):
    """the real main / cycle / time-node loops and history properties; the interactAll* fan-out replaced by a recorder"""

    def interactAllBOL(self):
        self.trace.append(("BOL",))
        # a restart establishes its starting point during beginning-of-life (as the main interface does)
        self.r.p.cycle = self.restartCycle
        self.r.p.timeNode = self.restartNode

    def interactAllBOC(self, cycle):
        self.trace.append(("BOC", cycle))
        return cycle == self.haltCycle

    def interactAllEveryNode(self, cycle, node):
        self.trace.append(("NODE", cycle, node, utils.getCumulativeNodeNum(cycle, node, self.cs)))
        self.seen.append((cycle, node, self.r.p.stepLength, self.r.p.cycleLength, self.r.p.availabilityFactor))

    def interactAllEOC(self, cycle):
        self.trace.append(("EOC", cycle))

    def interactAllEOL(self):
        self.trace.append(("EOL",))

    def couplingIsActive(self):
        return False


@lemma(gen={"nCycles": (1, 3), "shift": (0, 2), "n0": (1, 2), "n1": (1, 2), "n2": (1, 2), "c0": (0, 2), "node0": (0, 2), "halt": (0, 1),
            "L": (1.0, 500.0), "a": (0.1, 1.0), "d0": (0.5, 90.0), "d1": (0.5, 90.0), "pf": (0.1, 1.0)}, timeout=30)
def run_visits_the_nodes_the_history_functions_return(nCycles: int, shift: int, n0: int, n1: int, n2: int, c0: int, node0: int,
                                                      halt: int, L: float, a: float, d0: float, d1: float, pf: float):
    """the real Operator on a DETAILED input of 1..3 cycles x 1..2 steps (the way cycle c is given rotates with `shift`
    through the 3 ways), history cache empty: burn steps, step lengths, cycle lengths, power fractions and availability
    come from the real armi.utils functions (no stub).  Every restart point (c0, node0), with and without a halt at
    the beginning of cycle 1.  The nodes visited are numbered consecutively by getCumulativeNodeNum and are, per
    cycle run to its end, exactly getNodesPerCycle(cs)[c] many."""
    nCycles = choose(nCycles, 1, 3)
    shift = choose(shift, 0, 2)
    ns = [choose(n0, 1, 2), choose(n1, 1, 2) if nCycles > 1 else 1, choose(n2, 1, 2) if nCycles > 2 else 1][:nCycles]
    c0 = choose(c0, 0, 2)
    assume(c0 < nCycles)
    node0 = choose(node0, 0, 2)
    assume(node0 <= ns[c0])
    haltCycle = 1 if choose(halt, 0, 1) else -1
    assume(L >= 0 and 0 < a and a <= 1 and d0 > 0 and d1 > 0)
    cycles = []
    for c in range(nCycles):
        cyc = detailed_cycle((c + shift) % 3, ns[c], L, a, [d0, d1])
        cyc["power fractions"] = [pf] * ns[c]
        cycles.append(cyc)
    cs = {"cycles": cycles, "nCycles": nCycles, "power": 100.0, "powerDensity": 0.0}
    r = new(Holder, p=new(PMap, cycle=0, timeNode=0, cycleLength=0.0, availabilityFactor=1.0, capacityFactor=0.0, stepLength=0.0),
            core=new(Holder, p=new(PMap, coupledIteration=0, power=0.0)))
    o = new(Probe, r=r, cs=cs, trace=[], seen=[], restartCycle=c0, restartNode=node0, haltCycle=haltCycle,
            _cycleNames=None, _stepLengths=None, _cycleLengths=None, _burnSteps=None, _maxBurnSteps=None, _powerFractions=None,
            _availabilityFactors=None)
    o._mainOperate()
    npc = utils.getNodesPerCycle(cs)
    assert npc == [n + 1 for n in ns]
    want = [("BOL",)]
    t = utils.getCumulativeNodeNum(c0, node0, cs)
    for c in range(c0, nCycles):
        want.append(("BOC", c))
        if c == haltCycle:
            break
        for n in range(node0 if c == c0 else 0, npc[c]):
            want.append(("NODE", c, n, t))
            t += 1
        want.append(("EOC", c))
    want.append(("EOL",))
    assert o.trace == want, "BOL; per cycle from the start: BOC, the nodes start..npc[c]-1 numbered consecutively, EOC; EOL once"
    steps = utils.getStepLengths(cs)
    lengths = utils.getCycleLengths(cs)
    for (c, n, stepLength, cycleLength, availability) in o.seen:
        assert eq(cycleLength, lengths[c]) and eq(availability, a), "the reactor's time state carries the cycle's length and availability"
        if n < ns[c]:
            assert eq(stepLength, steps[c][n]), "and the length of the step that starts at the node"


@lemma(gen={"nCycles": (1, 3), "m": (1, 4), "which": (0, 2), "x": (0.0, 1.0), "L": (1.0, 500.0)})
def a_simple_history_list_of_the_wrong_length_is_refused(nCycles: int, m: int, which: int, x: float, L: float):
    """simple input with ONE per-cycle list (cycleLengths / availabilityFactors / powerFractions) of m = 1..4 entries
    against nCycles = 1..3: the Operator property fed by that list raises ValueError exactly when m != nCycles"""
    nCycles = choose(nCycles, 1, 3)
    m = choose(m, 1, 4)
    which = choose(which, 0, 2)
    assume(L >= 0 and 0 <= x and x <= 1)
    if which == 0:
        cs = simple_cs(nCycles, 2, cycleLength=L, cycleLengths=[L] * m, availabilityFactor=x)
    elif which == 1:
        cs = simple_cs(nCycles, 2, cycleLength=L, availabilityFactor=x, availabilityFactors=[x] * m)
    else:
        cs = simple_cs(nCycles, 2, cycleLength=L, availabilityFactor=x, powerFractions=[x] * m)
    o = bare_operator(cs)
    try:
        got = o.cycleLengths if which == 0 else (o.availabilityFactors if which == 1 else o.powerFractions)
        ok = True
    except ValueError:
        ok = False
    assert ok == (m == nCycles), "refused exactly when the list has another number of entries than nCycles"
    if ok:
        assert len(got) == nCycles and len(o.stepLengths) == nCycles and o.burnSteps == [2] * nCycles


@lemma(gen={"nCycles": (1, 3), "shift": (0, 2), "n0": (1, 2), "n1": (1, 2), "n2": (1, 2), "c": (0, 2), "n": (0, 2), "L": (1.0, 500.0),
            "d0": (0.5, 90.0), "d1": (0.5, 90.0)})
def node_numbering_on_a_detailed_history_is_inverse_and_in_visiting_order(nCycles: int, shift: int, n0: int, n1: int, n2: int, c: int,
                                                                          n: int, L: float, d0: float, d1: float):
    """the (cycle, node) <-> cumulative node / cumulative step conversions with the REAL getNodesPerCycle / getBurnSteps
    on a detailed input (1..3 cycles x 1..2 steps, the 3 ways rotating with `shift`), for every node (c, n) of the run;
    C15_nodes.py proves the same for arbitrary vectors through the contract 'returns the vector'"""
    nCycles = choose(nCycles, 1, 3)
    shift = choose(shift, 0, 2)
    ns = [choose(n0, 1, 2), choose(n1, 1, 2) if nCycles > 1 else 1, choose(n2, 1, 2) if nCycles > 2 else 1][:nCycles]
    c = choose(c, 0, 2)
    assume(c < nCycles)
    n = choose(n, 0, 2)
    assume(n <= ns[c])
    assume(L >= 0 and d0 > 0 and d1 > 0)
    cs = {"cycles": [detailed_cycle((k + shift) % 3, ns[k], L, 1.0, [d0, d1]) for k in range(nCycles)], "nCycles": nCycles}
    t = utils.getCumulativeNodeNum(c, n, cs)
    assert t == sum(ns[:c]) + c + n, "nodes of the earlier cycles (steps + 1 each) + node"
    assert utils.getCycleNodeFromCumulativeNode(t, cs) == (c, n), "inverse"
    if n < ns[c]:
        assert utils.getCumulativeNodeNum(c, n + 1, cs) == t + 1
        assert utils.getPreviousTimeNode(c, n + 1, cs) == (c, n)
        s = sum(ns[:c]) + n + 1  # the step that starts at (c, n), numbered from 1
        assert utils.getCycleNodeFromCumulativeStep(s, cs) == (c, n), "step numbers name the node at which the step starts"
    elif c + 1 < nCycles:
        assert utils.getCumulativeNodeNum(c + 1, 0, cs) == t + 1, "the first node of the next cycle follows the last of this one"
        assert utils.getPreviousTimeNode(c + 1, 0, cs) == (c, n)
