"""C10 - REFUTED ON THE UNCHANGED TREE (kept out of ./check): the macroscopic constants of an empty / all-zero
composition must be zero (property text: "zero for an empty composition").  computeMacroscopicGroupConstants returns
None instead of a zero array, and the energy-deposition wrappers then raise TypeError (None * float).

Same stand-ins as contracts/C10_macro.py (Library / Nuclide / Micro hold the arrays; the summation code is real).
Run:  cd /verif; python3-vt -m pyvc.run contracts/pending/C10_macro_finding.py -v
"""
import numpy as np

from spec import *

xsc = repo("armi.nuclearDataIO.xsCollections")
SFX = "AA"


class Micro:
    """stand-in for the microscopic XSCollection of one nuclide"""


class Nuclide:
    """stand-in for XSNuclide"""


class Library:
    """stand-in for IsotxsLibrary: getNuclide(name, suffix) -> nuclide stored under name+suffix or KeyError"""

    def getNuclide(self, name, suffix):
        return self.nuclides[name + suffix]


def lib2(a1, a2, b1, b2):
    return new(Library, nuclides={
        "AAA": new(Nuclide, name="A", micros=new(Micro, fission=np.array([a1, a2])), neutronHeating=np.array([a1, a2]), isotxsMetadata={"efiss": 1.0}),
        "BAA": new(Nuclide, name="B", micros=new(Micro, fission=np.array([b1, b2])), neutronHeating=np.array([b1, b2]), isotxsMetadata={"efiss": 1.0}),
    })


@lemma
def all_zero_composition_gives_zero_constants(a1: float, a2: float, b1: float, b2: float):
    lib = lib2(a1, a2, b1, b2)
    m = xsc.computeMacroscopicGroupConstants("fission", {"A": 0.0, "B": 0.0}, lib, SFX, libType="micros")
    assert m is not None, "a zero array, not None"
    assert eq(m[0], 0.0) and eq(m[1], 0.0)


@lemma
def empty_composition_gives_zero_constants(a1: float, a2: float, b1: float, b2: float):
    lib = lib2(a1, a2, b1, b2)
    m = xsc.computeMacroscopicGroupConstants("fission", {}, lib, SFX, libType="micros")
    assert m is not None, "a zero array, not None"


@lemma
def all_zero_composition_deposits_no_energy(a1: float, a2: float, b1: float, b2: float):
    lib = lib2(a1, a2, b1, b2)
    d = xsc.computeNeutronEnergyDepositionConstants({"A": 0.0, "B": 0.0}, lib, SFX)
    assert eq(d[0], 0.0) and eq(d[1], 0.0)
