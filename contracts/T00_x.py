from spec import *


class Acc:
    def __init__(self):
        self.n = 0

    def bump(self):
        self.n += 10
        return 1


@lemma
def t(n: int):
    a = Acc()
    a.n = n
    a.n += a.bump()
    assert a.n == n + 11


@lemma
def t2(n: int):
    a = Acc()
    a.n = n
    a.n += a.bump()
    assert a.n == n + 1
