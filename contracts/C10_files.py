"""C10 - which nuclides / files belong to which cross-section id: label suffixes, library look-up by suffix, and the
choice of the ISOTXS files that are merged (pure functions on names; all names concrete and enumerated).

Real code: armi/nuclearDataIO/xsLibraries.py getSuffixFromNuclideLabel, IsotxsLibrary (constructor, __setitem__,
__contains__, __len__, nuclideLabels, nuclides, xsIDs, items, getNuclides, getNuclide, get), getISOTXSLibrariesToMerge.
Stand-ins: Nuc - an XSNuclide as far as the container is concerned (it only gets `.container` assigned);
Bases - the module nuclideBases (byName[name].label = the 4-character library label of a nuclide).
"""
from spec import *

xsl = repo("armi.nuclearDataIO.xsLibraries")
IsotxsLibrary = repo("armi.nuclearDataIO.xsLibraries:IsotxsLibrary")

NAMES = ["U235", "PU239", "FE56"]
LABELS = {"U235": "U235", "PU239": "PU39", "FE56": "FE56"}  # library labels have at most four characters
SUFFIXES = ["AA", "AB", "BA", "Zz"]


class Nuc:
    pass


class _U235:
    label = "U235"


class _PU39:
    label = "PU39"


class _FE56:
    label = "FE56"


class Bases:
    byName = {"U235": _U235, "PU239": _PU39, "FE56": _FE56}


@lemma(gen={"k1": (0, 4), "k2": (0, 4), "k3": (0, 4)}, overrides={"armi.nuclearDataIO.xsLibraries:nuclideBases": "Bases"})
def library_nuclides_are_partitioned_by_their_label_suffix(k1: int, k2: int, k3: int):
    """a library filled (real __setitem__) with up to three nuclides U235, PU239, FE56, each absent or under one of the
    suffixes AA, AB, BA, Zz (all 5^3 combinations enumerated): the suffix of a label is the XS id it was stored under;
    xsIDs are exactly the suffixes in use; getNuclides(id) are exactly the nuclides stored under that id (each
    nuclide under exactly one id), getNuclides('') all; getNuclide(name, id) finds the nuclide under label + id and
    raises KeyError for any other id; storing a label twice is refused"""
    ks = [choose(k1, 0, 4), choose(k2, 0, 4), choose(k3, 0, 4)]
    lib = IsotxsLibrary()
    stored = []
    for name, k in zip(NAMES, ks):
        if k > 0:
            n = new(Nuc, name=name)
            lib[LABELS[name] + SUFFIXES[k - 1]] = n
            stored.append((name, SUFFIXES[k - 1], n))
    assert len(lib) == len(stored) and lib.nuclideLabels == [LABELS[a] + s for a, s, _ in stored]
    for name, s, n in stored:
        assert xsl.getSuffixFromNuclideLabel(LABELS[name] + s) == s, "the suffix of a label is its XS id"
        assert same(n.container, lib) and (LABELS[name] + s) in lib and same(lib.get(LABELS[name] + s, None), n)
    assert sorted(lib.xsIDs) == sorted(set(s for _, s, _ in stored)), "the XS ids in use"
    for s in SUFFIXES:
        mine = [n for _, s2, n in stored if s2 == s]
        got = lib.getNuclides(s)
        assert len(got) == len(mine) and all(same(a, b) for a, b in zip(got, mine)), "exactly the nuclides stored under this id"
    assert len(lib.getNuclides("")) == len(stored)
    for name, s, n in stored:
        for s2 in SUFFIXES:
            try:
                found = lib.getNuclide(name, s2)
            except KeyError:
                found = None
            assert (found is not None) == (s2 == s) and (found is None or same(found, n)), "found under its own id only"
        try:
            lib[LABELS[name] + s] = new(Nuc, name=name)
            refused = False
        except AttributeError:
            refused = True
        assert refused and len(lib) == len(stored), "a label is stored once"


POOL = ["ISOAA", "ISOAB", "ISOBA", "ISOAA-n2", "ISOBA-n2", "ISOAB-n1", "ISOTXS", "ISOAA.ascii", "ISOTXS-n2", "ISOBA.BCD"]
WANTED = ["", "-n2", "-n1"]


def base_name(path):
    return path.split("/")[-1]


def expected_files(suffix, files):
    """specification (docstring of getISOTXSLibrariesToMerge / mergeXSLibrariesInWorkingDirectory): per XS id the file
    carrying the requested suffix if there is one, else the file without suffix; never the merged ISOTXS file or a
    text (.ascii / BCD) version; files with another suffix are not touched"""
    libs = [f for f in files if "ISOTXS" not in f and ".ascii" not in f and "BCD" not in f]
    plain = [f for f in libs if "-" not in base_name(f)]
    if suffix == "":
        return sorted(plain)
    with_suffix = [f for f in libs if base_name(f).endswith(suffix) and len(base_name(f)) == 5 + len(suffix)]
    replaced = [base_name(f)[:5] for f in with_suffix]
    return sorted([f for f in plain if base_name(f) not in replaced] + with_suffix)


def files_case(mask, w, prefix):
    files = [prefix + POOL[i] for i in range(len(POOL)) if (mask // (2 ** i)) % 2 == 1]
    got = xsl.getISOTXSLibrariesToMerge(WANTED[w], list(files))
    assert sorted(got) == expected_files(WANTED[w], files), "per XS id: the suffixed file, else the plain one"
    assert len(got) == len(set(got)), "no file twice"
    ids = [base_name(f)[3:5] for f in got]
    assert len(ids) == len(set(ids)), "at most one file per XS id (two files of one id would collide in the merge)"


@lemma(gen={"mask": (0, 1023), "w": (0, 2)})
def files_to_merge_are_one_per_xs_id(mask: int, w: int):
    """getISOTXSLibrariesToMerge for EVERY subset of ten file names in the working directory (ISOAA, ISOAB, ISOBA,
    ISOAA-n2, ISOBA-n2, ISOAB-n1, ISOTXS, ISOAA.ascii, ISOTXS-n2, ISOBA.BCD; 1024 subsets enumerated) and the
    requested suffixes '', '-n2', '-n1' (enumerated); names without directory.  With a directory: see
    contracts/pending/C10_files_finding.py"""
    mask = choose(mask, 0, 1023)
    w = choose(w, 0, 2)
    files_case(mask, w, "")


# ----------------------------------------------------------------------------- which nuclide a library entry is
XSNuclide = repo("armi.nuclearDataIO.xsNuclides:XSNuclide")


class RegularBase:
    def __init__(self, name, label):
        self.name, self.label = name, label


class DummyBase(RegularBase):
    pass


class BasesMod:
    """stand-in for the module armi.nucDirectory.nuclideBases as seen from xsNuclides: the two look-up tables, the
    class of dummy nuclides and changeLabel (its own text)"""

    NuclideWrapper = repo("armi.nucDirectory.nuclideBases:NuclideWrapper")  # the real base class of XSNuclide
    DummyNuclideBase = DummyBase
    byName = {}
    byLabel = {}

    @staticmethod
    def changeLabel(nuclideBase, newLabel):
        nuclideBase.label = newLabel
        BasesMod.byLabel[newLabel] = nuclideBase


IDS = ["U235", "DUMMY", "LFP35", "XYZ"]
LIB_LABELS = ["U235", "DUMP", "LFP5", "U5"]


@lemma(gen={"i": (0, 3), "j": (0, 3)}, overrides={"armi.nuclearDataIO.xsNuclides:nuclideBases": "BasesMod"})
def library_entry_resolves_to_its_nuclide(i: int, j: int, already: bool):
    """XSNuclide.updateBaseNuclide (real constructor, NuclideWrapper) for every combination of the nuclide id in the
    file metadata (U235: a real nuclide; DUMMY: a dummy nuclide; LFP35: a lumped fission product the name table does
    not know; XYZ: unknown) and the 4-character label of the entry (U235, DUMP, LFP5: known labels; U5: unknown):
    a real nuclide id decides; otherwise the label decides; neither -> OSError; an entry that already points to a
    nuclide is left alone.  Afterwards the entry's label resolves to its nuclide (byLabel[label] is the base and
    the base carries that label)."""
    i = choose(i, 0, 3)
    j = choose(j, 0, 3)
    u235, dummy, dump, lfp = RegularBase("U235", "U235"), DummyBase("DUMMY", "DUMMY"), DummyBase("DUMP1", "DUMP"), RegularBase("LFP35", "LFP5")
    BasesMod.byName = {"U235": u235, "DUMMY": dummy, "DUMP1": dump}
    BasesMod.byLabel = {"U235": u235, "DUMMY": dummy, "DUMP": dump, "LFP5": lfp}
    n = XSNuclide(None, LIB_LABELS[j] + "AA")
    assert n.nucLabel == LIB_LABELS[j] and n.xsId == "AA"
    n.isotxsMetadata["nuclideId"] = IDS[i]
    other = RegularBase("PU239", "PU39")
    if already:
        n._base = other
    try:
        n.updateBaseNuclide()
        refused = False
    except OSError:
        refused = True
    byLabel = {"U235": u235, "DUMP": dump, "LFP5": lfp}
    if already:
        assert not refused and same(n._base, other) and other.label == "PU39", "already resolved: untouched"
    elif i == 0:
        assert not refused and same(n._base, u235), "the nuclide named in the file"
    elif LIB_LABELS[j] in byLabel:
        assert not refused and same(n._base, byLabel[LIB_LABELS[j]]), "no real nuclide id: the label decides"
    else:
        assert refused and n._base is None, "unknown id and unknown label: refused"
    if not refused and not already:
        assert n._base.label == n.nucLabel and same(BasesMod.byLabel[n.nucLabel], n._base), "the label resolves to this nuclide"


# ----------------------------------------------------------------------------- merging the files of a directory
DummyNuclideBase = repo("armi.nucDirectory.nuclideBases:DummyNuclideBase")


class FileNuc:
    """nuclide of a library that was read: only `_base` is looked at (is there a dummy nuclide?)"""


class FileLib:
    """a library as returned by isotxs.readBinary (stand-in, see read_contract)"""


class FileMeta:
    pass


class TargetLib:
    """the library the files are merged into: merge(other) is recorded (its content: C10_libmerge.py)"""

    def merge(self, other):
        self.merged.append(other.path)


class GlobStandIn:
    """stand-in for the module glob: glob(pattern) = the directory listing given by the lemma, each name with the
    directory in front (what glob.glob(os.path.join(baseDir, 'ISO*')) returns)"""

    listing = []

    @staticmethod
    def glob(pattern):
        assert pattern.endswith("/ISO*")
        return [pattern[:-4] + name for name in GlobStandIn.listing if name.startswith("ISO")]


def read_contract(path):
    """contract assumed for isotxs.readBinary(path): a library read from that file; it remembers the path, carries a
    neutron velocity that depends on the file only (uninterpreted function of the XS id in the file NAME), and
    already holds a dummy nuclide (so that no dummy data have to be added and written)"""
    name = path.split("/")[-1]
    nuc = new(FileNuc, _base=new(DummyNuclideBase))
    return new(FileLib, path=path, neutronVelocity=uf("velocity", POOL.index(name)) if not NATIVE else float(POOL.index(name)), nuclides=[nuc])


def read_contract_cls(cls, path):
    return read_contract(path)


# isotxs.readBinary is the module-level alias `readBinary = IsotxsIO.readBinary` of the class method Stream.readBinary:
# the engine replaces the function behind the alias (second entry), the native run the alias itself (first entry)
READ_STUBS = {"armi.nuclearDataIO.cccc.isotxs:readBinary": "read_contract",
              "armi.nuclearDataIO.cccc.cccc:Stream.readBinary": "read_contract_cls"}


def merge_directory_case(directory, mask, w, have=0):
    names = [POOL[i] for i in range(len(POOL)) if (mask // (2 ** i)) % 2 == 1]
    GlobStandIn.listing = names
    known = [directory + "/" + POOL[have - 1]] if have else []
    lib = new(TargetLib, merged=[], isotxsMetadata=new(FileMeta, fileNames=known))
    velocities = xsl.mergeXSLibrariesInWorkingDirectory(lib, xsLibrarySuffix=WANTED[w], alternateDirectory=directory)
    want = [n for n in expected_files(WANTED[w], names) if directory + "/" + n not in known]
    assert sorted(lib.merged) == sorted(directory + "/" + n for n in want), "exactly the chosen files are merged, each once"
    assert sorted(velocities.keys()) == sorted(n[3:5] for n in want), "one neutron velocity per XS id, under that id"
    for n in want:
        v = uf("velocity", POOL.index(n)) if not NATIVE else float(POOL.index(n))
        assert eq(velocities[n[3:5]], v), "the velocity of the file of that XS id"


@lemma(gen={"mask": (0, 63), "w": (0, 2), "have": (0, 6)}, stubs=READ_STUBS, overrides={"armi.nuclearDataIO.xsLibraries:glob": "GlobStandIn"})
def directory_merge_reads_one_file_per_xs_id(mask: int, w: int, have: int):
    """mergeXSLibrariesInWorkingDirectory (neutron libraries only; stand-ins: glob, isotxs.readBinary, the target
    library - see their contracts) for every subset of the six library names ISOAA, ISOAB, ISOBA, ISOAA-n2, ISOBA-n2,
    ISOAB-n1 that does not hold a plain AND a suffixed file of the same XS id for the requested suffix (that case:
    contracts/pending/C10_xs_finding.py), suffixes '', '-n2', '-n1'; the target library already holds the data of
    none or one of the six files (`have`, enumerated): the files chosen per XS id and not yet in the library are merged
    exactly once and the returned neutron velocities are keyed by the XS id of each file."""
    mask = choose(mask, 0, 63)
    w = choose(w, 0, 2)
    have = choose(have, 0, 6)
    names = [POOL[i] for i in range(6) if (mask // (2 ** i)) % 2 == 1]
    clash = any(n + WANTED[w] in names for n in names if "-" not in n) and WANTED[w] != ""
    assume(not clash)
    merge_directory_case("/work/run1", mask, w, have)
