"""C11 - mapping the state of an assembly onto another axial mesh: the REAL
UniformMeshGeometryConverter.setAssemblyStateFromOverlaps, setNumberDensitiesFromOverlaps, ParamMapper.paramGetter /
paramSetter and Assembly.getBlocksBetweenElevations, executed on a source assembly of n blocks and a destination
assembly of m blocks that span the same height (n, m enumerated with choose(); heights, densities and parameter
values symbolic).

Stand-ins (trusted, stated here):
* MeshBlock(HexBlock): the block-level nuclide plumbing getNumberDensities / setNumberDensities /
  clearNumberDensities (real ones distribute over components by volume fraction) is a name->density map `nd`;
* PMap: a ParameterCollection viewed as a name->value map;
* ParamMapper is allocated with new(): isPeak / isVolIntegrated are given directly (its __init__ reads the parameter
  definitions, whose location flags are bit masks outside the engine's subset).

Overlaps thinner than 1e-10 of a source block are dropped by getBlocksBetweenElevations (see C11_assembly.py), so
totals are conserved up to that relative tolerance; the statements below carry it explicitly.
"""
from spec import *

HexAssembly = repo("armi.reactor.assemblies:HexAssembly")
HexBlock = repo("armi.reactor.blocks:HexBlock")
Converter = repo("armi.reactor.converters.uniformMesh:UniformMeshGeometryConverter")
ParamMapper = repo("armi.reactor.converters.uniformMesh:ParamMapper")
setNumberDensitiesFromOverlaps = repo("armi.reactor.converters.uniformMesh:setNumberDensitiesFromOverlaps")


class PMap:
    def __getitem__(self, k):
        return getattr(self, k)

    def __setitem__(self, k, v):
        setattr(self, k, v)


class CompStub:
    """a child of the destination block: only its p.volume cache is touched"""


class MeshBlock(HexBlock):
    """HexBlock whose homogenised number densities are a plain map"""

    def getNumberDensities(self):
        return dict(self.nd)

    def setNumberDensities(self, d):
        for k, v in d.items():
            self.nd[k] = v

    def clearNumberDensities(self):
        self.nd = {}


def mesh_block(zb, zt, nd, **params):
    p = new(PMap, height=zt - zb, zbottom=zb, ztop=zt, z=(zb + zt) / 2.0, flags=None, type="b", xsType="A", envGroup="A", **params)
    c = new(CompStub, p=new(PMap, volume=1.0))
    return new(MeshBlock, p=p, _children=[c], name="b", parent=None, spatialLocator=None, nd=nd)


def assembly(blocks):
    return new(HexAssembly, _children=blocks, p=new(PMap, assemNum=1), name="A", parent=None, spatialGrid=None, spatialLocator=None)


NAMES = ["power", "temp", "flat", "unset"]
GEN = {"n": (2, 3), "m": (1, 3), "h0": (0.5, 80.0), "h1": (0.5, 80.0), "h2": (0.5, 80.0), "g0": (0.5, 80.0), "g1": (0.5, 80.0),
       "a0": (0.0, 0.05), "a1": (0.0, 0.05), "a2": (0.0, 0.05), "p0": (-5.0, 5.0), "p1": (-5.0, 5.0), "p2": (-5.0, 5.0),
       "t0": (300.0, 900.0), "t1": (300.0, 900.0), "t2": (300.0, 900.0), "c": (-9.0, 9.0), "stale": (0.0, 9.0)}


def build(n, m, hs, g0, g1, dens, pw, tm, c, stale):
    src = []
    z = 0.0
    for k in range(n):
        src.append(mesh_block(z, z + hs[k], {"U235": dens[k], "NA23": 2.0 * dens[k] + 1.0}, power=pw[k], temp=tm[k], flat=c, unset=None))
        z = z + hs[k]
    H = z
    cuts = [0.0, H] if m == 1 else ([0.0, g0, H] if m == 2 else [0.0, g0, g0 + g1, H])
    dst = [mesh_block(cuts[k], cuts[k + 1], {"U235": stale, "XE135": stale}, power=stale, temp=stale, flat=stale, unset=stale) for k in range(m)]
    return assembly(src), src, assembly(dst), dst, H


def remesh_case(n, m, h0, h1, h2, g0, g1, a0, a1, a2, p0, p1, p2, t0, t1, t2, c, stale):
    hs, dens, pw, tm = [h0, h1, h2], [a0, a1, a2], [p0, p1, p2], [t0, t1, t2]
    assume(h0 > 0 and h1 > 0 and h2 > 0 and g0 > 0 and g1 > 0)
    assume(a0 >= 0 and a1 >= 0 and a2 >= 0)
    sa, src, da, dst, H = build(n, m, hs, g0, g1, dens, pw, tm, c, stale)
    assume(implies(m == 2, g0 < H) and implies(m == 3, g0 + g1 < H))
    mapper = new(ParamMapper, blockParamNames=NAMES, reactorParamNames=[], paramDefaults={},
                 isPeak={"power": False, "temp": False, "flat": False, "unset": False},
                 isVolIntegrated={"power": True, "temp": False, "flat": False, "unset": False})
    try:
        Converter.setAssemblyStateFromOverlaps(sa, da, mapper, mapNumberDensities=True)
    except ValueError:
        cover("refused")
        return  # a destination block thinner than 1e-10 of the source block it lies in (and >= 1e-6 cm) is refused loudly
    cover("mapped")
    atoms_src = 0.0
    power_src = 0.0
    power_abs = 0.0
    for k in range(n):
        atoms_src = atoms_src + dens[k] * hs[k]
        power_src = power_src + pw[k]
        power_abs = power_abs + abs(pw[k])
    atoms_dst = 0.0
    power_dst = 0.0
    for d in dst:
        Hd = d.p.ztop - d.p.zbottom
        info = sa.getBlocksBetweenElevations(d.p.zbottom, d.p.ztop)  # the overlaps (proved a partition in C11_assembly.py)
        if len(info) == 0:
            # skipped (thinner than 1e-6 cm and nothing reported): state left untouched
            assert Hd < 1e-6 and eq(d.p.power, stale) and eq(d.nd["U235"], stale)
            continue
        atoms = 0.0
        power = 0.0
        tempH = 0.0
        covered = 0.0
        for b, h in info:
            atoms = atoms + b.nd["U235"] * h
            power = power + b.p.power * h / b.p.height
            tempH = tempH + b.p.temp * h
            covered = covered + h
        assert eq(d.nd["U235"] * Hd, atoms), "atoms: N' x H = sum N_i x overlap_i"
        assert eq(d.nd["NA23"] * Hd, 2.0 * atoms + covered), "... for every nuclide"
        assert "XE135" not in d.nd, "a nuclide the sources do not have is cleared"
        assert eq(d.p.power, power), "integrated quantity: sum of the overlapped fractions of the source values"
        assert eq(d.p.temp * Hd, tempH), "other quantity: height-weighted mean of the overlapped source values"
        assert eq(d.p.flat * Hd, c * covered), "a constant profile stays constant (on the height that is covered)"
        assert implies(eq(covered, Hd), eq(d.p.flat, c)), "... exactly, when no sliver was dropped"
        assert eq(d.p.unset, stale), "an unset source value is not mapped"
        assert is_none(d._children[0].p.volume), "component volumes are recomputed"
        atoms_dst = atoms_dst + d.nd["U235"] * Hd
        power_dst = power_dst + d.p.power
    assert (atoms_dst <= atoms_src or (NATIVE and eq(atoms_dst, atoms_src))) and atoms_src - atoms_dst <= 1e-10 * m * atoms_src, \
        "atoms of the assembly conserved (up to dropped slivers)"
    assert abs(power_dst - power_src) <= 1e-10 * m * power_abs + (1e-9 * power_abs if NATIVE else 0.0), \
        "assembly total of an integrated quantity conserved (up to dropped slivers)"


DOC = """source: n blocks, destination: m blocks of any heights g0, g1, rest - same total height (shape in the lemma name).
    For every destination block:  N' x H = sum N_i x overlap_i  (atoms of every nuclide; a nuclide absent from the
    sources is cleared), integrated P' = sum P_i x overlap_i / h_i, averaged T' x H = sum T_i x overlap_i, a constant
    profile stays constant, an unset source value is not written, the component volume caches are reset.  Over the
    assembly: atoms and integrated totals are conserved up to 1e-10 x m (slivers dropped by getBlocksBetweenElevations)."""


@lemma(gen=dict(GEN, n=(2, 3)), timeout=120)
def remesh_onto_one_block(n: int, h0: float, h1: float, h2: float, g0: float, g1: float, a0: float, a1: float, a2: float, p0: float, p1: float,
                          p2: float, t0: float, t1: float, t2: float, c: float, stale: float):
    """n = 2..3 source blocks onto ONE destination block (coarsening)"""
    n = choose(n, 2, 3)
    remesh_case(n, 1, h0, h1, h2, g0, g1, a0, a1, a2, p0, p1, p2, t0, t1, t2, c, stale)


@lemma(gen=dict(GEN), timeout=120)
def remesh_two_blocks_onto_two(h0: float, h1: float, h2: float, g0: float, g1: float, a0: float, a1: float, a2: float, p0: float, p1: float,
                               p2: float, t0: float, t1: float, t2: float, c: float, stale: float):
    """2 source blocks onto 2 destination blocks with the cut anywhere (shifted / identical / nearly coincident)"""
    remesh_case(2, 2, h0, h1, h2, g0, g1, a0, a1, a2, p0, p1, p2, t0, t1, t2, c, stale)


@lemma(gen=dict(GEN), timeout=200)
def remesh_three_blocks_onto_two(h0: float, h1: float, h2: float, g0: float, g1: float, a0: float, a1: float, a2: float, p0: float, p1: float,
                                 p2: float, t0: float, t1: float, t2: float, c: float, stale: float):
    """3 source blocks onto 2 destination blocks"""
    remesh_case(3, 2, h0, h1, h2, g0, g1, a0, a1, a2, p0, p1, p2, t0, t1, t2, c, stale)


@lemma(gen=dict(GEN), timeout=200)
def remesh_two_blocks_onto_three(h0: float, h1: float, h2: float, g0: float, g1: float, a0: float, a1: float, a2: float, p0: float, p1: float,
                                 p2: float, t0: float, t1: float, t2: float, c: float, stale: float):
    """2 source blocks onto 3 destination blocks (refinement)"""
    remesh_case(2, 3, h0, h1, h2, g0, g1, a0, a1, a2, p0, p1, p2, t0, t1, t2, c, stale)


@lemma(gen=dict(GEN, m=(1, 3)), timeout=200)
def remesh_one_block_onto_any(m: int, h0: float, h1: float, h2: float, g0: float, g1: float, a0: float, a1: float, a2: float, p0: float, p1: float,
                              p2: float, t0: float, t1: float, t2: float, c: float, stale: float):
    """ONE source block onto m = 1..3 destination blocks (enumerated): pure refinement of a single block / the identical
    one-block mesh - the shapes the n >= 2 lemmas above leave out"""
    m = choose(m, 1, 3)
    remesh_case(1, m, h0, h1, h2, g0, g1, a0, a1, a2, p0, p1, p2, t0, t1, t2, c, stale)


def peak_case(n, m, h0, h1, h2, g0, k0, k1, k2, stale):
    hs, pk = [h0, h1, h2], [k0, k1, k2]
    assume(h0 > 0 and h1 > 0 and h2 > 0 and g0 > 0)
    src = []
    z = 0.0
    for k in range(n):
        src.append(mesh_block(z, z + hs[k], {}, peak=pk[k]))
        z = z + hs[k]
    H = z
    assume(implies(m == 2, g0 < H))
    cuts = [0.0, H] if m == 1 else [0.0, g0, H]
    dst = [mesh_block(cuts[k], cuts[k + 1], {}, peak=stale) for k in range(m)]
    sa, da = assembly(src), assembly(dst)
    mapper = new(ParamMapper, blockParamNames=["peak"], reactorParamNames=[], paramDefaults={}, isPeak={"peak": True}, isVolIntegrated={"peak": False})
    try:
        Converter.setAssemblyStateFromOverlaps(sa, da, mapper, mapNumberDensities=False)
    except ValueError:
        return
    cover("mapped")
    for d in dst:
        info = sa.getBlocksBetweenElevations(d.p.zbottom, d.p.ztop)
        if len(info) == 0:
            continue
        largest = info[0][0].p.peak
        for b, h in info:
            largest = max(largest, b.p.peak)
        assert eq(d.p.peak, largest), "a peak quantity takes the largest overlapped value"


@lemma(gen={"n": (2, 3), "m": (1, 2), "h0": (0.5, 80.0), "h1": (0.5, 80.0), "h2": (0.5, 80.0), "g0": (0.5, 80.0), "k0": (0.0, 9.0), "k1": (0.0, 9.0),
            "k2": (0.0, 9.0)}, timeout=120)
def peak_quantity_takes_the_largest_overlapped_value(n: int, m: int, h0: float, h1: float, h2: float, g0: float, k0: float, k1: float, k2: float,
                                                     stale: float):
    """n = 2..3 source blocks, m = 1..2 destination blocks (enumerated); NON-NEGATIVE peak values (for negative ones the
    code reports 0: known finding F132 `param.peak.negative`, stated without this hypothesis in
    contracts/pending/C11_uniformmesh_finding.py)."""
    n = choose(n, 2, 3)
    m = choose(m, 1, 2)
    assume(k0 >= 0 and k1 >= 0 and k2 >= 0)
    peak_case(n, m, h0, h1, h2, g0, k0, k1, k2, stale)


@lemma(gen={"n": (1, 3), "m": (1, 2), "h0": (0.5, 80.0), "h1": (0.5, 80.0), "h2": (0.5, 80.0), "g0": (0.5, 80.0), "k0": (-9.0, 9.0), "k1": (-9.0, 9.0),
            "k2": (-9.0, 9.0)}, timeout=120)
def peak_quantity_takes_the_largest_overlapped_value_of_any_sign(n: int, m: int, h0: float, h1: float, h2: float, g0: float, k0: float, k1: float,
                                                                 k2: float, stale: float):
    """the same WITHOUT the sign hypothesis (holds since the fix of F132 / F218: the running maximum starts at the first
    overlapped value, not at 0.0) and also for a ONE-block source: n = 1..3, m = 1..2 (enumerated), peak values of any sign."""
    n = choose(n, 1, 3)
    m = choose(m, 1, 2)
    peak_case(n, m, h0, h1, h2, g0, k0, k1, k2, stale)


@lemma(gen={"m": (1, 2), "h0": (0.5, 80.0), "h1": (0.5, 80.0), "g0": (0.5, 80.0), "a0": (0.0, 0.05), "a1": (0.0, 0.05), "p0": (0.0, 5.0), "p1": (0.0, 5.0)},
       timeout=200)
def mapping_back_restores_the_totals(m: int, h0: float, h1: float, g0: float, a0: float, a1: float, p0: float, p1: float, stale: float):
    """2 blocks -> m = 1..2 blocks (enumerated, cut anywhere) -> back onto the original 2-block mesh (a second assembly with
    the original heights and stale state): the assembly totals of atoms and of an integrated quantity (non-negative
    values) are those of the original, up to the slivers dropped in the two mappings (relative 1e-10 x 2 each way).
    Hypothesis: all blocks are at least 1e-6 cm thick (see the comment below)."""
    m = choose(m, 1, 2)
    assume(h0 > 0 and h1 > 0 and g0 > 0 and a0 >= 0 and a1 >= 0 and p0 >= 0 and p1 >= 0)
    H = h0 + h1
    # all blocks at least 1e-6 cm thick: a thinner one that receives no overlap is SKIPPED by the code and keeps
    # its stale state (asserted in the remesh_* lemmas) - stated without this hypothesis in pending/C11_uniformmesh_finding.py
    assume(h0 >= 1e-6 and h1 >= 1e-6 and implies(m == 2, g0 >= 1e-6 and H - g0 >= 1e-6))
    orig = [mesh_block(0.0, h0, {"U235": a0}, power=p0), mesh_block(h0, H, {"U235": a1}, power=p1)]
    cuts = [0.0, H] if m == 1 else [0.0, g0, H]
    mid = [mesh_block(cuts[k], cuts[k + 1], {"U235": stale}, power=stale) for k in range(m)]
    back = [mesh_block(0.0, h0, {"U235": stale}, power=stale), mesh_block(h0, H, {"U235": stale}, power=stale)]
    mapper = new(ParamMapper, blockParamNames=["power"], reactorParamNames=[], paramDefaults={}, isPeak={"power": False}, isVolIntegrated={"power": True})
    try:
        Converter.setAssemblyStateFromOverlaps(assembly(orig), assembly(mid), mapper, mapNumberDensities=True)
        Converter.setAssemblyStateFromOverlaps(assembly(mid), assembly(back), mapper, mapNumberDensities=True)
    except ValueError:
        return
    cover("mapped")
    atoms0 = a0 * h0 + a1 * h1
    atoms2 = back[0].nd["U235"] * h0 + back[1].nd["U235"] * h1
    pw0 = p0 + p1
    pw2 = back[0].p.power + back[1].p.power
    assert (atoms2 <= atoms0 or (NATIVE and eq(atoms2, atoms0))) and atoms0 - atoms2 <= 4e-10 * atoms0, "atoms restored"
    assert (pw2 <= pw0 or (NATIVE and eq(pw2, pw0))) and pw0 - pw2 <= 4e-10 * pw0, "integrated total restored"


@lemma(gen={"m": (1, 2), "h0": (0.5, 80.0), "h1": (0.5, 80.0), "g0": (0.5, 80.0), "p0": (-5.0, 5.0), "p1": (-5.0, 5.0)}, timeout=200)
def mapping_back_restores_a_signed_integrated_total(m: int, h0: float, h1: float, g0: float, p0: float, p1: float, stale: float):
    """mapping_back_restores_the_totals for an integrated quantity of ANY sign per block (e.g. a reactivity contribution; the
    two values may cancel): there and back the assembly total differs from the original by at most the dropped slivers,
    4e-10 x (|p0| + |p1|).  Same thickness hypothesis as above (F220)."""
    m = choose(m, 1, 2)
    assume(h0 > 0 and h1 > 0 and g0 > 0)
    H = h0 + h1
    assume(h0 >= 1e-6 and h1 >= 1e-6 and implies(m == 2, g0 >= 1e-6 and H - g0 >= 1e-6))
    orig = [mesh_block(0.0, h0, {}, power=p0), mesh_block(h0, H, {}, power=p1)]
    cuts = [0.0, H] if m == 1 else [0.0, g0, H]
    mid = [mesh_block(cuts[k], cuts[k + 1], {}, power=stale) for k in range(m)]
    back = [mesh_block(0.0, h0, {}, power=stale), mesh_block(h0, H, {}, power=stale)]
    mapper = new(ParamMapper, blockParamNames=["power"], reactorParamNames=[], paramDefaults={}, isPeak={"power": False}, isVolIntegrated={"power": True})
    try:
        Converter.setAssemblyStateFromOverlaps(assembly(orig), assembly(mid), mapper, mapNumberDensities=False)
        Converter.setAssemblyStateFromOverlaps(assembly(mid), assembly(back), mapper, mapNumberDensities=False)
    except ValueError:
        return
    cover("mapped")
    pw0 = p0 + p1
    pw2 = back[0].p.power + back[1].p.power
    assert abs(pw2 - pw0) <= 4e-10 * (abs(p0) + abs(p1)) + (1e-9 * (abs(p0) + abs(p1)) if NATIVE else 0.0), "integrated total restored"
