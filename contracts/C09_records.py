"""C09 - composite field methods of a CCCC record: matrices, lists, implicitly typed maps; frame check of the reader.

Real code: armi/nuclearDataIO/cccc/cccc.py IORecord.rwList / rwMatrix / rwDoubleMatrix / rwIntMatrix / _rwMatrix /
rwImplicitlyTypedMap, BinaryRecordWriter / BinaryRecordReader (open, close, rwInt, rwFloat, rwDouble, rwString) and
nuclearFileMetadata._Metadata as the map container.  struct / bytes / memstream are the trusted model A4
(pyvc/bytesmodel.py); single precision ('f') is exact for the values drawn natively (A1 symbolically).
Shapes are enumerated: matrices 2x2, 2x3, 1x2x2 (shape arguments as the formats pass them); contents are symbolic.
"""
import struct

import numpy as np

from spec import *

BinaryRecordWriter = repo("armi.nuclearDataIO.cccc.cccc:BinaryRecordWriter")
BinaryRecordReader = repo("armi.nuclearDataIO.cccc.cccc:BinaryRecordReader")
Metadata = repo("armi.nuclearDataIO.nuclearFileMetadata:_Metadata")

SHAPES = [(2, 2), (2, 3), (1, 2, 2)]
F32 = [0.5, -1.25, 3.0, 1024.0, 0.0, 7.0]  # exactly representable in single precision
GEN_F = {"k": (0, 2), "kind": (0, 2), "v0": F32, "v1": F32, "v2": F32, "v3": F32, "v4": F32, "v5": F32,
         "i0": (-99, 99), "i1": (-99, 99), "i2": (-99, 99), "i3": (-99, 99), "i4": (-99, 99), "i5": (-99, 99)}


def fortran_contents(shape, v):
    """array of the reversed ('FORTRAN') shape, filled so that element [index] = v[position in C order]"""
    fs = tuple(reversed(shape))
    if len(fs) == 2:
        return np.array([[v[a * fs[1] + b] for b in range(fs[1])] for a in range(fs[0])])
    return np.array([[[v[(a * fs[1] + b) * fs[2] + c] for c in range(fs[2])] for b in range(fs[1])] for a in range(fs[0])])


def file_order(shape, m):
    """the order the file specification prescribes: first shape argument outermost, last innermost
    (column-major order of the stored array): list of elements"""
    out = []
    if len(shape) == 2:
        for j in range(shape[0]):
            for i in range(shape[1]):
                out.append(m[i][j])
    else:
        for k in range(shape[0]):
            for j in range(shape[1]):
                for i in range(shape[2]):
                    out.append(m[i][j][k])
    return out


def rw(rec, kind, contents, shape):
    if kind == 0:
        return rec.rwMatrix(contents, *shape)
    if kind == 1:
        return rec.rwDoubleMatrix(contents, *shape)
    return rec.rwIntMatrix(contents, *shape)


@lemma(gen=GEN_F)
def matrix_written_then_read_is_the_same_matrix(k: int, kind: int, v0: float, v1: float, v2: float, v3: float, v4: float, v5: float,
                                                i0: int, i1: int, i2: int, i3: int, i4: int, i5: int):
    """rwMatrix (single), rwDoubleMatrix, rwIntMatrix for the shapes 2x2, 2x3, 1x2x2 and symbolic contents: the matrix
    read from the written record has the same shape and the same elements; the record is framed by its payload length
    (size x 4 or 8 bytes); the reader consumes exactly the record (frame accepted)."""
    k = choose(k, 0, 2)
    kind = choose(kind, 0, 2)
    assume(all([-2147483648 <= x and x <= 2147483647 for x in [i0, i1, i2, i3, i4, i5]]))
    shape = SHAPES[k]
    vals = [i0, i1, i2, i3, i4, i5] if kind == 2 else [v0, v1, v2, v3, v4, v5]
    m = fortran_contents(shape, vals)
    n = m.size
    st = memstream()
    with BinaryRecordWriter(st) as w:
        back = rw(w, kind, m, shape)
        assert w.numBytes == n * (8 if kind == 1 else 4), "byte count = number of elements x field size"
    assert same(back, m), "writing returns the matrix it was given"
    (head,) = struct.unpack("i", st.written(0))
    assert head == n * (8 if kind == 1 else 4), "leading count = payload length"
    st.seek(0)
    with BinaryRecordReader(st) as r:
        m2 = rw(r, kind, None, shape)
    assert m2.shape == tuple(reversed(shape)), "same shape as written"
    flat, flat2 = m.flatten(), m2.flatten()
    for j in range(n):
        assert eq(flat2[j], flat[j]), "same elements"


@lemma(gen=GEN_F)
def matrix_is_stored_first_index_fastest(k: int, v0: float, v1: float, v2: float, v3: float, v4: float, v5: float):
    """layout on the file: the payload of rwDoubleMatrix(contents, *shape), read back field by field, is the FORTRAN
    implied-do order ((M(I,J), I=1,NI), J=1,NJ) for shape = (NJ, NI) - checked against explicit nested loops"""
    k = choose(k, 0, 2)
    shape = SHAPES[k]
    m = fortran_contents(shape, [v0, v1, v2, v3, v4, v5])
    st = memstream()
    with BinaryRecordWriter(st) as w:
        w.rwDoubleMatrix(m, *shape)
    st.seek(0)
    with BinaryRecordReader(st) as r:
        fields = r.rwList(None, "double", m.size)
    expected = file_order(shape, m)
    assert len(fields) == len(expected)
    for j in range(len(expected)):
        assert eq(fields[j], expected[j]), "element order on the file"


@lemma(gen={"a": (-99, 99), "b": (-99, 99), "x": F32, "y": F32, "z": F32, "n0": (0, 1)})
def lists_written_then_read_are_the_same_lists(a: int, b: int, x: float, y: float, z: float, u: float, n0: int):
    """rwList for 'int', 'float', 'double' and 'string' items: same length, same items, in one record; byte count is the
    sum of the field sizes; an empty / None list on the reading side is replaced by `length` items read"""
    assume(-2147483648 <= a and a <= 2147483647 and -2147483648 <= b and b <= 2147483647)
    st = memstream()
    with BinaryRecordWriter(st) as w:
        w.rwList([a, b], "int", 2)
        w.rwList([x, y, z], "float", 3)
        w.rwList(np.array([u, x]), "double", 2)
        w.rwList(["U235AA", "FE", ""], "string", 3, 8)
        assert w.numBytes == 8 + 12 + 16 + 24
    st.seek(0)
    with BinaryRecordReader(st) as r:
        ints = r.rwList(None, "int", 2)
        floats = r.rwList([], "float", 3)
        doubles = r.rwList(None, "double", 2)
        names = r.rwList(None, "string", 3, 8)
    assert len(ints) == 2 and ints[0] == a and ints[1] == b
    assert len(floats) == 3 and eq(floats[0], x) and eq(floats[1], y) and eq(floats[2], z)
    assert len(doubles) == 2 and eq(doubles[0], u) and eq(doubles[1], x)
    assert len(names) == 3 and names[0] == "U235AA" and names[1] == "FE" and names[2] == ""


@lemma(gen={"ng": (-99, 99), "ich": (-99, 99), "keff": F32, "eps": F32})
def implicitly_typed_map_round_trip(ng: int, ich: int, keff: float, eps: float):
    """rwImplicitlyTypedMap: keys starting with I..N travel as 4-byte integers, the others as 4-byte reals, in key
    order; reading into an empty metadata container gives back every entry"""
    assume(-2147483648 <= ng and ng <= 2147483647 and -2147483648 <= ich and ich <= 2147483647)
    keys = ["NGROUP", "XKEFF", "ichist", "EPS"]
    st = memstream()
    with BinaryRecordWriter(st) as w:
        w.rwImplicitlyTypedMap(keys, {"NGROUP": ng, "XKEFF": keff, "ichist": ich, "EPS": eps})
        assert w.numBytes == 16
    st.seek(0)
    with BinaryRecordReader(st) as r:
        got = r.rwImplicitlyTypedMap(keys, Metadata())
    assert got["NGROUP"] == ng and got["ichist"] == ich
    assert eq(got["XKEFF"], keff) and eq(got["EPS"], eps)
    assert len(got) == 4
    # the same payload read field by field: int, real, int, real
    st.seek(0)
    with BinaryRecordReader(st) as r:
        assert r.rwInt(None) == ng
        assert eq(r.rwFloat(None), keff)
        assert r.rwInt(None) == ich
        assert eq(r.rwFloat(None), eps)


@lemma(gen={"n": [8, 8, 12, 4], "t": [8, 8, 12, 4], "a": (-99, 99), "b": (-99, 99)})
def reader_rejects_a_frame_whose_trailer_differs(n: int, t: int, a: int, b: int):
    """a record whose trailing byte count t differs from its leading count n is rejected by the reader (BufferError on
    leaving the record), an identical pair is accepted - for a payload of two integers that is read completely"""
    st = memstream()
    st.write(struct.pack("i", n))
    st.write(struct.pack("i", a))
    st.write(struct.pack("i", b))
    st.write(struct.pack("i", t))
    st.seek(0)
    try:
        with BinaryRecordReader(st) as r:
            assert r.numBytes == n
            assert r.rwInt(None) == a and r.rwInt(None) == b
        accepted = True
    except BufferError:
        accepted = False
    assert accepted == (t == n), "accepted iff leading and trailing counts are identical"
