"""Native side of the specification vocabulary (see pyvc/speclib.py for the symbolic side).

Harness files import * from here.  Run natively (overlay python with armi importable) the same harness
functions execute the *real* armi code on concrete inputs: cross-check of the engine and replay of
counterexamples.
"""
import importlib
import math
import os


class Skip(Exception):
    """assume() failed: the input is outside the lemma's hypotheses."""


NATIVE = True
_armi_ready = False


def _ready():
    global _armi_ready
    if not _armi_ready:
        import armi

        if not armi.isConfigured():
            armi.configure(permissive=True)
        _armi_ready = True


def lemma(*a, **kw):
    def deco(f):
        f._lemma_opts = kw
        return f

    if len(a) == 1 and callable(a[0]) and not kw:
        a[0]._lemma_opts = {}
        return a[0]
    return deco


def spec(f):
    return f


def repo(path):
    _ready()
    if ":" not in path:
        return importlib.import_module(path)
    mod, q = path.split(":", 1)
    o = importlib.import_module(mod)
    for p in q.split("."):
        o = getattr(o, p)
    return o


def assume(c):
    if not c:
        raise Skip()


def implies(a, b):
    return (not a) or bool(b)


def iff(a, b):
    return bool(a) == bool(b)


def eq(a, b, tol=1e-9):
    """Equality over the reals; natively: relative/absolute closeness (floating point)."""
    if isinstance(a, (tuple, list)) or getattr(a, "shape", ()) != ():
        a, b = list(a), list(b)
        return len(a) == len(b) and all(eq(x, y, tol) for x, y in zip(a, b))
    if a is None or b is None:
        return a is b
    if isinstance(a, (int, bool)) and isinstance(b, (int, bool)):
        return a == b
    return math.isclose(a, b, rel_tol=tol, abs_tol=tol)


def new(cls, **attrs):
    if getattr(cls, "__abstractmethods__", None):
        cls = type(cls.__name__, (cls,), {})
        cls.__abstractmethods__ = frozenset()
    o = cls.__new__(cls)
    for k, v in attrs.items():
        object.__setattr__(o, k, v)
    return o


def to_real(x):
    return float(x)


def cover(label="cover"):
    return None


def is_none(x):
    return x is None


def same(a, b):
    return a is b


# ---- symbolic-length inputs: natively drawn from the runner's RNG or taken from a replayed model
_inputs = {}
_rng = None


def _num(v):
    if isinstance(v, list) and len(v) == 2 and all(isinstance(x, int) for x in v):
        return v[0] / v[1]
    return v


def sym_list(kind="real", name="L", mono=False, maxlen=6):
    if name in _inputs:
        v = _inputs[name]
        if isinstance(v, dict):
            raise Skip()  # model with a huge list: not replayable concretely
        return [_num(x) for x in v]
    import random

    r = _rng or random
    n = r.randint(0, maxlen)
    if kind == "int":
        out = [r.randint(-9, 9) for _ in range(n)]
    elif kind == "bool":
        out = [r.random() < 0.5 for _ in range(n)]
    else:
        out = [r.choice([r.uniform(-10, 10), float(r.randint(-3, 3)), r.uniform(0, 1)]) for _ in range(n)]
    if mono:
        out = sorted(set(out))
    return out


def sym_int(name="n"):
    if name in _inputs:
        return _inputs[name]
    import random

    return (_rng or random).randint(-20, 20)


def sym_real(name="x"):
    if name in _inputs:
        return _num(_inputs[name])
    import random

    return (_rng or random).uniform(-10, 10)


def sym_bool(name="b"):
    if name in _inputs:
        return bool(_inputs[name])
    import random

    return (_rng or random).random() < 0.5


def psum(seq, k):
    return sum(seq[:k])


def spec_rng():
    import random

    return _rng or random


def uf(name, *args):
    raise RuntimeError("uf() is symbolic-only")


import io as _io


class MemStream(_io.BytesIO):
    """native counterpart of the engine's memstream(): records each write() call"""

    def __init__(self):
        super().__init__()
        self._writes = []

    def write(self, b):
        self._writes.append(bytes(b))
        return super().write(b)

    def nwrites(self):
        return len(self._writes)

    def written(self, k):
        return self._writes[k]


def memstream():
    return MemStream()


def blob(n):
    return bytes(n)


def forall(fn, *sorts):
    """natively: checked over a window that covers every list index the harnesses use"""
    import inspect

    n = len(inspect.signature(fn).parameters)
    import itertools

    rng = range(-8, 72) if n == 1 else range(-4, 12)
    return all(fn(*t) for t in itertools.product(rng, repeat=n))


def exists(fn, *sorts):
    import inspect
    import itertools

    n = len(inspect.signature(fn).parameters)
    rng = range(-8, 72) if n == 1 else range(-4, 12)
    return any(fn(*t) for t in itertools.product(rng, repeat=n))


def choose(x, lo, hi):
    if not (lo <= x <= hi):
        raise Skip()
    return x


def psum_monotone(seq, strict=False):
    return None


# ---- symbolic-only vocabulary (abstract heap): importable natively, never executed natively
def declare_field(name, kind, cls=None):
    return None


def _symbolic_only(*a, **k):
    raise RuntimeError("symbolic-only specification construct (lemma must be marked native=False)")


heap_obj = field_of = seq_len = seq_at = snapshot = in_snapshot = ufb = _symbolic_only
