"""Native side of the specification vocabulary (see pyvc/speclib.py for the symbolic side).

Harness files import * from here.  Run natively (overlay python with armi importable) the same harness
functions execute the *real* armi code on concrete inputs: cross-check of the engine and replay of
counterexamples.
"""
import importlib
import math
import os


class Skip(Exception):
    """assume() failed: the input is outside the lemma's hypotheses."""


NATIVE = True
_armi_ready = False


def _ready():
    global _armi_ready
    if not _armi_ready:
        import armi

        if not armi.isConfigured():
            armi.configure(permissive=True)
        _armi_ready = True


def lemma(*a, **kw):
    def deco(f):
        f._lemma_opts = kw
        return f

    if len(a) == 1 and callable(a[0]) and not kw:
        a[0]._lemma_opts = {}
        return a[0]
    return deco


def spec(f):
    return f


def repo(path):
    _ready()
    if ":" not in path:
        return importlib.import_module(path)
    mod, q = path.split(":", 1)
    o = importlib.import_module(mod)
    for p in q.split("."):
        o = getattr(o, p)
    return o


def assume(c):
    if not c:
        raise Skip()


def implies(a, b):
    return (not a) or bool(b)


def iff(a, b):
    return bool(a) == bool(b)


def eq(a, b, tol=1e-9):
    """Equality over the reals; natively: relative/absolute closeness (floating point)."""
    if isinstance(a, (tuple, list)) or hasattr(a, "shape"):
        a, b = list(a), list(b)
        return len(a) == len(b) and all(eq(x, y, tol) for x, y in zip(a, b))
    if a is None or b is None:
        return a is b
    if isinstance(a, (int, bool)) and isinstance(b, (int, bool)):
        return a == b
    return math.isclose(a, b, rel_tol=tol, abs_tol=tol)


def new(cls, **attrs):
    o = cls.__new__(cls)
    for k, v in attrs.items():
        object.__setattr__(o, k, v)
    return o


def to_real(x):
    return float(x)


def cover(label="cover"):
    return None


def is_none(x):
    return x is None


def same(a, b):
    return a is b
