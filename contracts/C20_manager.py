"""C20 - the cross-section group manager as a whole: groups of the core's blocks, which groups get a representative
block, which are pre-generated, and what happens to groups without an eligible member.

The manager code is the real one (makeCrossSectionGroups, _addXsGroupsFromBlocks, _getMissingBlueprintBlocks,
createRepresentativeBlocks, xsTypeIsPregenerated, fluxSolutionIsPregenerated, _modifyUnrepresentedXSIDs,
_getAlternateEnvGroup, _summarizeGroups, _getXsIDGroup, blockCollectionFactory and the BlockCollection constructor /
getCandidateBlocks).  Collaborator stand-ins, each with the contract assumed:
  MBlk     - Block: getMicroSuffix() = p.xsType + p.envGroup (Block.getMicroSuffix for one-letter types, proved in
             C20_collections.py); hasFlags(None) is True, hasFlags(list) = its type is in the list (Composite.hasFlags).
  TypeFlags- the Flags class: fromString(name) gives the flag of that block type (here the name itself).
  Opts     - XSModelingOptions: plain attributes.   Holder - reactor / core / blueprints: getBlocks() = the core's blocks,
             blueprints.assemblies = {} (no blueprint-only blocks: that rule is the known finding F192).
  representative_contract - for BlockCollection.createRepresentativeBlock (deepcopy; its content is proved in
             C20_xsgroups.py / C20_collections.py): needs an eligible member, returns a NEW block carrying the group's
             XS id, and fills avgNucTemperatures; the members are not touched.
  copy contracts - _copyPregenerated*File / _getPregeneratedXsFileLocationData (file system): recorded only.
"""
from spec import *

xsgm = repo("armi.physics.neutronics.crossSectionGroupManager")
Manager = repo("armi.physics.neutronics.crossSectionGroupManager:CrossSectionGroupManager")
nsettings = repo("armi.physics.neutronics.settings")

NUCS = ["U235", "FE56"]


class Params:
    def __getitem__(self, name):
        return getattr(self, name)


class Opts:
    pass


class Holder:
    def getBlocks(self, *args, **kwargs):
        return list(self.blocks)


class MBlk:
    def getMicroSuffix(self):
        return self.p.xsType + self.p.envGroup

    def hasFlags(self, typeSpec):
        return True if typeSpec is None else self.btype in typeSpec


class RepBlk:
    def getMicroSuffix(self):
        return self.xsID

    def __format__(self, spec):  # ArmiObject.__format__: the summary prints the block with a width
        return format("<rep %s>" % self.xsID, spec)


class TypeFlags:
    @staticmethod
    def fromString(name):
        return name


def representative_contract(self):
    cands = self.getCandidateBlocks()
    assert len(cands) > 0, "a representative block is only asked for when there is an eligible member"
    self.avgNucTemperatures = {"U235": 300.0}
    return new(RepBlk, xsID=cands[0].getMicroSuffix(), members=list(cands), p=new(Params, percentBu=0.0))


def copy_xs_contract(self, xsID):
    self.copiedXS.append(xsID)


def copy_flux_contract(self, xsID):
    self.copiedFlux.append(xsID)


def xs_files_contract(self, xsID):
    return [("/somewhere/ISO" + xsID, "ISO" + xsID)]


STUBS = {"armi.physics.neutronics.crossSectionGroupManager:BlockCollection.createRepresentativeBlock": "representative_contract",
         "armi.physics.neutronics.crossSectionGroupManager:CrossSectionGroupManager._copyPregeneratedXSFile": "copy_xs_contract",
         "armi.physics.neutronics.crossSectionGroupManager:CrossSectionGroupManager._copyPregeneratedFluxSolutionFile": "copy_flux_contract",
         "armi.physics.neutronics.crossSectionGroupManager:CrossSectionGroupManager._getPregeneratedXsFileLocationData": "xs_files_contract"}
OVERRIDES = {"armi.physics.neutronics.crossSectionGroupManager:Flags": "TypeFlags"}

TYPES, ENVS, BTYPES = ["A", "B"], ["A", "B"], ["fuel", "reflector"]
IDS = [t + e for t in TYPES for e in ENVS]


def manager(blocks, fuelOnly, pregenB, fluxA, representation):
    opts = {}
    for x in IDS:
        opts[x] = new(Opts, xsID=x, xsTempIsotope=None, blockRepresentation=representation, validBlockTypes=["fuel"] if fuelOnly else None,
                      averageByComponent=False, ductHeterogeneous=False, xsIsPregenerated=pregenB and x[0] == "B",
                      fluxIsPregenerated=fluxA and x[0] == "A")
    cs = {xsgm.CONF_CROSS_SECTION: opts, "tempGroups": [], nsettings.CONF_XS_BLOCK_REPRESENTATION: representation}
    r = new(Holder, core=new(Holder, blocks=blocks), blueprints=new(Holder, assemblies={}, allNuclidesInProblem=NUCS))
    return new(Manager, r=r, cs=cs, _envGroupUpdatesEnabled=False, _buGroupBounds=[1.0], _tempGroupBounds=[1.0], representativeBlocks={},
               avgNucTemperatures={}, _unrepresentedXSIDs=[], copiedXS=[], copiedFlux=[])


def core_blocks(n, ks):
    """block i: type, environment group and block type from the three bits of ks[i] (all 8 combinations enumerated)"""
    out = []
    for i in range(n):
        k = choose(ks[i], 0, 7)
        out.append(new(MBlk, btype=BTYPES[k % 2], name="b%d" % i, p=new(Params, xsType=TYPES[(k // 2) % 2], envGroup=ENVS[k // 4])))
    return out


GEN = {"n": [1, 2, 3], "k1": (0, 7), "k2": (0, 7), "k3": (0, 7)}


def partition_case(n, ks, fuelOnly, median):
    blocks = core_blocks(n, ks)
    m = manager(blocks, fuelOnly, False, False, xsgm.MEDIAN_BLOCK_COLLECTION if median else xsgm.AVERAGE_BLOCK_COLLECTION)
    groups = m.makeCrossSectionGroups()
    ids = list(groups.keys())
    assert ids == sorted(set(b.getMicroSuffix() for b in blocks)), "one group per XS id present in the core, ascending"
    assert sum(len(groups[x]) for x in ids) == n, "no block is lost or listed twice"
    for b in blocks:
        assert sum(1 for x in ids for c in groups[x] if same(c, b)) == 1, "every block is in exactly one group"
        assert any(same(c, b) for c in groups[b.p.xsType + b.p.envGroup]), "the group of its XS type and environment group"
    for x in ids:
        assert isinstance(groups[x], xsgm.MedianBlockCollection if median else xsgm.AverageBlockCollection)
        assert [c.name for c in groups[x].getCandidateBlocks()] == [b.name for b in blocks if b.getMicroSuffix() == x and (b.btype == "fuel" or not fuelOnly)]


@lemma(gen=GEN, overrides=OVERRIDES)
def every_core_block_is_in_exactly_one_group_named_by_type_and_environment(n: int, k1: int, k2: int, fuelOnly: bool, median: bool):
    """makeCrossSectionGroups for a core of 1..2 blocks (enumerated), each with any of 2 XS types x 2 environment groups
    x 2 block types (all 8^n combinations enumerated), block-type filter on or off, median or average collections:
    the groups partition the core's blocks by XS id; groups are listed in ascending order of their id; eligibility
    does not matter for membership, only for the candidates"""
    n = choose(n, 1, 2)
    partition_case(n, [k1, k2], fuelOnly, median)


@lemma(gen=GEN, overrides=OVERRIDES)
def three_core_blocks_are_partitioned_by_type_and_environment(k1: int, k2: int, k3: int, fuelOnly: bool):
    """the same for three blocks (all 512 combinations), average collections"""
    partition_case(3, [k1, k2, k3], fuelOnly, False)


def representative_case(n, ks, fuelOnly, pregenB, fluxA):
    blocks = core_blocks(n, ks)
    before = [(b.p.xsType, b.p.envGroup, b.btype) for b in blocks]
    m = manager(blocks, fuelOnly, pregenB, fluxA, xsgm.AVERAGE_BLOCK_COLLECTION)
    m.createRepresentativeBlocks()
    reps = m.representativeBlocks
    present = sorted(set(t + e for t, e, _ in before))
    for x in present:
        mine = [i for i in range(n) if before[i][0] + before[i][1] == x]
        eligible = [i for i in mine if before[i][2] == "fuel" or not fuelOnly]
        pregen = pregenB and x[0] == "B"
        assert (x in reps) == (not pregen and len(eligible) > 0), "a representative exactly for a generated group with an eligible member"
        assert (x in m.copiedXS) == pregen, "pre-generated: the file is fetched instead"
        assert (x in m._unrepresentedXSIDs) == (not pregen and len(eligible) == 0)
        if x in reps:
            assert reps[x].xsID == x and len(reps[x].members) == len(eligible), "built from the eligible members of this group"
            assert all(any(same(c, blocks[i]) for c in reps[x].members) for i in eligible)
            assert x in m.avgNucTemperatures and (x in m.copiedFlux) == (fluxA and x[0] == "A")
        else:
            assert x not in m.avgNucTemperatures and x not in m.copiedFlux
    assert list(reps.keys()) == sorted(reps.keys()) and all(x in present for x in reps), "ordered by XS id; nothing else"
    for i in range(n):
        t, e, bt = before[i]
        assert blocks[i].p.xsType == t and blocks[i].btype == bt, "XS type and block type are never changed"
        if (t + e) in m._unrepresentedXSIDs:
            alternatives = [x for x in reps if x[0] == t]
            if alternatives:
                assert blocks[i].getMicroSuffix() == alternatives[0], "moved to the first represented group of its XS type"
            else:
                assert blocks[i].p.envGroup == e, "nothing to borrow from: unchanged"
        else:
            assert blocks[i].p.envGroup == e, "blocks of represented / pre-generated groups are not changed"


@lemma(gen=GEN, stubs=STUBS, overrides=OVERRIDES)
def representative_blocks_exist_exactly_for_groups_with_an_eligible_member(n: int, k1: int, k2: int, fuelOnly: bool, pregenB: bool, fluxA: bool):
    """createRepresentativeBlocks for a core of 1..2 blocks (enumerated; all 8^n combinations of XS type, environment
    group and block type); block-type filter on or off, XS type B pre-generated or not, type A with a pre-generated
    flux solution or not (stubs: see module docstring).  A group gets a representative block exactly when it is
    not pre-generated and has an eligible member; the representative is built from THAT group's eligible members; a
    pre-generated group only has its file copied; a group without eligible member is recorded as unrepresented and
    its blocks are moved to the environment group of a represented group of the same XS type when there is one -
    no other block is changed."""
    n = choose(n, 1, 2)
    representative_case(n, [k1, k2], fuelOnly, pregenB, fluxA)


@lemma(gen=GEN, stubs=STUBS, overrides=OVERRIDES)
def representative_blocks_of_three_core_blocks(k1: int, k2: int, k3: int, pregenB: bool):
    """the same for three blocks (all 512 combinations) with the block-type filter on (so that groups without eligible
    member occur together with represented groups of the same type), type B pre-generated or not"""
    representative_case(3, [k1, k2, k3], True, pregenB, False)


# ------------------------------------------------------------------------------------------ free XS type letters
class TypedBlk:
    pass


class NotWindows:
    """stand-in for the module sys: a platform other than Windows (there a warning about letter case is logged)"""

    platform = "linux"


USED_POOL = ["A", "B", "a", "z"]
EXCLUDED_POOL = ["A", "C", "b", "z"]


@lemma(gen={"na": (0, 3), "a1": (0, 3), "a2": (0, 3), "a3": (0, 3), "x1": (0, 3), "howMany": (1, 3)},
       overrides={"armi.physics.neutronics.crossSectionGroupManager:sys": "NotWindows"})
def next_available_xs_types_are_unused_letters(na: int, a1: int, a2: int, a3: int, x1: int, howMany: int, exclude: bool, almostFull: bool):
    """getNextAvailableXsTypes: a core of 0..3 blocks (enumerated) whose XS types are any of A, B, a, z (enumerated),
    optionally one excluded letter out of A, C, b, z, 1..3 letters requested; or (almostFull) a core using all 52
    letters but 'q' and 'Z': the result has the requested number of DISTINCT admissible letters, none of them in use
    or excluded, namely the first free ones in sorted order; too few free letters -> ValueError"""
    letters = xsgm._ALLOWABLE_XS_TYPE_LIST
    na = choose(na, 0, 3)
    howMany = choose(howMany, 1, 3)
    if almostFull:
        used = [c for c in letters if c not in ("q", "Z")]
        excluded = None
    else:
        used = [USED_POOL[choose(a, 0, 3)] for a in [a1, a2, a3][:na]]
        excluded = [EXCLUDED_POOL[choose(x1, 0, 3)]] if exclude else None
    m = new(Manager, r=new(Holder, core=new(Holder, blocks=[new(TypedBlk, p=new(Params, xsType=t)) for t in used])))
    free = sorted(c for c in letters if c not in used and (excluded is None or c not in excluded))
    try:
        got = m.getNextAvailableXsTypes(howMany, excluded)
        refused = False
    except ValueError:
        refused = True
    assert refused == (len(free) < howMany)
    if not refused:
        assert got == free[:howMany], "the first free letters"
        assert len(set(got)) == howMany and all(c in letters and c not in used for c in got)


# ------------------------------------------------------------------------------------------ XS ids of a perturbed state
class CopyStandIn:
    """stand-in for the module copy: deepcopy of a representative block / of XS settings = a fresh object with equal
    attributes (the original is not changed)"""

    @staticmethod
    def deepcopy(x):
        if isinstance(x, RepBlk):
            return new(RepBlk, xsID=x.xsID, name=x.name, p=new(Params, percentBu=x.p.percentBu, xsType=x.p.xsType))
        return new(Opts, xsID=x.xsID, blockRepresentation=x.blockRepresentation, xsIsPregenerated=x.xsIsPregenerated)


def fuel_blocks(n, ks):
    """block i: XS type and environment group from the two bits of ks[i] (all 4 combinations enumerated)"""
    out = []
    for i in range(n):
        k = choose(ks[i], 0, 3)
        out.append(new(MBlk, btype="fuel", name="b%d" % i, p=new(Params, xsType=TYPES[k % 2], envGroup=ENVS[k // 2])))
    return out


def perturbed_case(n, ks, sel, pregenB):
    blocks = fuel_blocks(n, ks)
    before = [b.getMicroSuffix() for b in blocks]
    m = manager(blocks, False, pregenB, False, xsgm.AVERAGE_BLOCK_COLLECTION)
    originals = {}
    for x in sorted(set(before)):
        if not (pregenB and x[0] == "B"):
            originals[x] = new(RepBlk, xsID=x, name="AVG_" + x, p=new(Params, percentBu=1.0, xsType=x[0]))
    chosen = [i for i in range(n) if (sel // (2 ** i)) % 2 == 1]
    reps, origOf = m._getModifiedReprBlocks([blocks[i] for i in chosen], originals)
    moved = [i for i in chosen if before[i] in originals]
    for i in range(n):
        now = blocks[i].getMicroSuffix()
        if i in moved:
            assert now != before[i] and now not in before, "a fresh id, not in use in the core"
            assert now[1] == before[i][1] and origOf[now] == before[i], "same environment group; traced back to the old id"
            assert now in reps and reps[now].p.xsType == now[0] and reps[now].name == "AVG_" + now, "its new representative block"
            assert not same(reps[now], originals[before[i]]), "a copy"
            assert m.cs[xsgm.CONF_CROSS_SECTION][now].xsID == now, "settings for the new id"
        else:
            assert now == before[i], "other blocks keep their id"
    for i in moved:
        for j in moved:
            assert (blocks[i].getMicroSuffix() == blocks[j].getMicroSuffix()) == (before[i] == before[j]), "no two old ids collide"
            assert (blocks[i].p.xsType == blocks[j].p.xsType) == (before[i][0] == before[j][0]), "one new type per old type"
    assert sorted(reps.keys()) == sorted(set(blocks[i].getMicroSuffix() for i in moved)) and sorted(origOf.keys()) == sorted(reps.keys())
    for x in originals:
        assert originals[x].p.xsType == x[0] and originals[x].name == "AVG_" + x, "the original representatives are not changed"
        assert m.cs[xsgm.CONF_CROSS_SECTION][x].xsID == x


PERTURB = {"armi.physics.neutronics.crossSectionGroupManager:sys": "NotWindows", "armi.physics.neutronics.crossSectionGroupManager:copy": "CopyStandIn"}


@lemma(gen={"n": [1, 2, 3], "k1": (0, 3), "k2": (0, 3), "k3": (0, 3), "sel": (1, 7)}, overrides=PERTURB)
def perturbed_blocks_get_fresh_collision_free_xs_ids(n: int, k1: int, k2: int, k3: int, sel: int, pregenB: bool):
    """_getModifiedReprBlocks (with getNextAvailableXsTypes, xsTypeIsPregenerated; override: copy.deepcopy) for a core
    of 1..3 blocks (enumerated; 2 XS types x 2 environment groups each), any non-empty subset of them to be perturbed
    (`sel`, enumerated), representative blocks existing for the XS ids of type A - and of type B unless B is
    pre-generated: every perturbed block whose XS id has a representative moves to a NEW id = fresh type letter +
    its old environment letter; blocks of one old id share the new id, different old ids get different new ids, no new
    id is in use in the core; the new representative is a copy carrying the new type; the original representative,
    the settings of the old id and all other blocks are unchanged"""
    n = choose(n, 1, 3)
    sel = choose(sel, 1, 2 ** n - 1)
    perturbed_case(n, [k1, k2, k3], sel, pregenB)
