"""C10 - macroscopic group constants are the number-density-weighted sums of the microscopic ones.

The summation code is the real one (armi/nuclearDataIO/xsCollections.py).  Stand-ins (collaborators only):
  Library  - for IsotxsLibrary: getNuclide(name, suffix) returns the nuclide stored under name+suffix, KeyError
             otherwise (contract of _XSLibrary.getNuclide / __getitem__).
  Nuclide  - for XSNuclide: attributes name, micros, gammaXS, neutronHeating, gammaHeating, isotxsMetadata.
  Micro    - for a microscopic XSCollection: named group-constant arrays (numpy mini-model, symbolic contents).
Shapes are enumerated completely with choose: 1..3 nuclides x 1..2 energy groups; densities and microscopic data are
arbitrary reals ("for all values, shapes up to 3 nuclides x 2 groups").
"""
import numpy as np

from spec import *

xsc = repo("armi.nuclearDataIO.xsCollections")
units = repo("armi.utils.units")

NAMES = ["A", "B", "C"]
SFX = "AA"


class Micro:
    """stand-in for the microscopic XSCollection of one nuclide"""


class Nuclide:
    """stand-in for XSNuclide"""


class Library:
    """stand-in for IsotxsLibrary (see module docstring)"""

    def getNuclide(self, name, suffix):
        return self.nuclides[name + suffix]

    def getNuclides(self, suffix):
        return [n for lab, n in self.nuclides.items() if lab.endswith(suffix)]


def arr(vals, ng):
    return np.array([vals[g] for g in range(ng)])


def library(nn, ng, sig, nu=None, kappa=None, heat=None, suffix=SFX):
    """nn nuclides A, B, C (+ one nuclide of another suffix that must never be used)"""
    nucs = {}
    for i in range(nn):
        mic = new(Micro, fission=arr(sig[i], ng), nGamma=arr(sig[i], ng))
        if nu is not None:
            mic.neutronsPerFission = arr(nu[i], ng)
        n = new(Nuclide, name=NAMES[i], micros=mic, isotxsMetadata={})
        if kappa is not None:
            n.isotxsMetadata = {"efiss": kappa[i], "ecapt": kappa[i] + 1.0}  # distinct: the two must not be confused
        if heat is not None:
            n.neutronHeating = arr(heat[i], ng)
            n.gammaHeating = arr(heat[i], ng)
        nucs[NAMES[i] + suffix] = n
    return new(Library, nuclides=nucs)


def comp(nn, dens):
    return {NAMES[i]: dens[i] for i in range(nn)}


def wsum(nn, g, dens, sig, mult=None):
    """the specification: sum_i N_i * sigma_i[g] (* multiplier_i[g])"""
    tot = 0.0
    for i in range(nn):
        tot = tot + dens[i] * sig[i][g] * (1.0 if mult is None else mult[i][g])
    return tot


G = {"nn": (1, 3), "ng": (1, 2)}


# ----------------------------------------------------------------------------- computeMacroscopicGroupConstants
@lemma(gen=G)
def group_constants_are_density_weighted_sums(nn: int, ng: int, n1: float, n2: float, n3: float,
                                              a1: float, a2: float, b1: float, b2: float, c1: float, c2: float):
    """Sigma_g = sum_i N_i sigma_i,g for every composition that has a non-zero density (zero densities contribute
    nothing); the all-zero / empty composition is the separate lemma in contracts/pending/C10_macro_finding.py"""
    nn = choose(nn, 1, 3)
    ng = choose(ng, 1, 2)
    dens = [n1, n2, n3]
    sig = [[a1, a2], [b1, b2], [c1, c2]]
    assume(any([dens[i] != 0 for i in range(nn)]))
    lib = library(nn, ng, sig)
    m = xsc.computeMacroscopicGroupConstants("fission", comp(nn, dens), lib, SFX, libType="micros")
    assert m.shape == (ng,), "one value per energy group"
    for g in range(ng):
        assert eq(m[g], wsum(nn, g, dens, sig)), "macroscopic value = sum of density x microscopic value"


@lemma(gen=G)
def group_constants_with_a_multiplier(nn: int, ng: int, n1: float, n2: float, n3: float,
                                      a1: float, a2: float, b1: float, b2: float, c1: float, c2: float,
                                      u1: float, u2: float, v1: float, v2: float, w1: float, w2: float):
    """nu-Sigma_f: sum_i N_i sigma_i,g nu_i,g (multiplier taken per nuclide and group from the same collection)"""
    nn = choose(nn, 1, 3)
    ng = choose(ng, 1, 2)
    dens = [n1, n2, n3]
    sig = [[a1, a2], [b1, b2], [c1, c2]]
    nu = [[u1, u2], [v1, v2], [w1, w2]]
    assume(any([dens[i] != 0 for i in range(nn)]))
    lib = library(nn, ng, sig, nu=nu)
    m = xsc.computeMacroscopicGroupConstants("fission", comp(nn, dens), lib, SFX, libType="micros", multConstant="neutronsPerFission")
    assert m.shape == (ng,)
    for g in range(ng):
        assert eq(m[g], wsum(nn, g, dens, sig, nu))


@lemma(gen={"ng": (1, 2)})
def group_constants_are_linear_and_additive(ng: int, n1: float, n2: float, k: float, a1: float, a2: float, b1: float, b2: float):
    """linear in the densities (scaling by k), additive over nuclides"""
    ng = choose(ng, 1, 2)
    assume(n1 != 0 and n2 != 0 and k != 0)
    sig = [[a1, a2], [b1, b2]]
    lib = library(2, ng, sig)
    both = xsc.computeMacroscopicGroupConstants("fission", {"A": n1, "B": n2}, lib, SFX, libType="micros")
    onlyA = xsc.computeMacroscopicGroupConstants("fission", {"A": n1}, lib, SFX, libType="micros")
    onlyB = xsc.computeMacroscopicGroupConstants("fission", {"B": n2}, lib, SFX, libType="micros")
    scaled = xsc.computeMacroscopicGroupConstants("fission", {"A": k * n1, "B": k * n2}, lib, SFX, libType="micros")
    for g in range(ng):
        assert eq(both[g], onlyA[g] + onlyB[g]), "additive over nuclides"
        assert eq(scaled[g], k * both[g]), "homogeneous in the densities"
    # the library is not changed by computing macroscopic data
    assert eq(lib.nuclides["AAA"].micros.fission[0], a1) and eq(lib.nuclides["BAA"].micros.fission[0], b1)


@lemma(gen={"ng": (1, 2)})
def nuclide_missing_from_the_library_is_refused(ng: int, n1: float, n2: float, nx: float, a1: float, a2: float, b1: float, b2: float):
    """R_ARMI_NUCDATA_MACRO: a nuclide of the composition (non-zero density) without data under this suffix is an
    error (ValueError) - never a silently different sum; with zero density it contributes nothing.  'X' exists in
    the library only under another suffix, which must not be used."""
    ng = choose(ng, 1, 2)
    assume(n1 != 0)
    sig = [[a1, a2], [b1, b2]]
    lib = library(2, ng, sig)
    lib.nuclides["XAB"] = new(Nuclide, name="X", micros=new(Micro, fission=arr([1.0, 1.0], ng)))
    try:
        m = xsc.computeMacroscopicGroupConstants("fission", {"A": n1, "B": n2, "X": nx}, lib, SFX, libType="micros")
        raised = False
    except ValueError:
        raised = True
    assert raised == (nx != 0), "refused iff the missing nuclide is really present in the composition"
    if not raised:
        for g in range(ng):
            assert eq(m[g], n1 * sig[0][g] + n2 * sig[1][g])


# ----------------------------------------------------------------------------- energy deposition / generation constants
@lemma(gen=G)
def energy_deposition_constants_are_weighted_sums(nn: int, ng: int, n1: float, n2: float, n3: float,
                                                  h1: float, h2: float, i1: float, i2: float, j1: float, j2: float):
    """neutron / gamma energy deposition: J/eV x sum_i N_i heating_i,g"""
    nn = choose(nn, 1, 3)
    ng = choose(ng, 1, 2)
    dens = [n1, n2, n3]
    heat = [[h1, h2], [i1, i2], [j1, j2]]
    assume(any([dens[i] != 0 for i in range(nn)]))
    lib = library(nn, ng, heat, heat=heat)
    dn = xsc.computeNeutronEnergyDepositionConstants(comp(nn, dens), lib, SFX)
    dg = xsc.computeGammaEnergyDepositionConstants(comp(nn, dens), lib, SFX)
    assert dn.shape == (ng,) and dg.shape == (ng,)
    for g in range(ng):
        assert eq(dn[g], wsum(nn, g, dens, heat) * units.JOULES_PER_eV)
        assert eq(dg[g], wsum(nn, g, dens, heat) * units.JOULES_PER_eV)


@lemma(gen=G)
def fission_energy_generation_is_a_weighted_sum(nn: int, ng: int, n1: float, n2: float, n3: float,
                                                a1: float, a2: float, b1: float, b2: float, c1: float, c2: float,
                                                k1: float, k2: float, k3: float):
    """kappa_f Sigma_f: sum_i N_i kappa_i sigma_f,i,g with the per-nuclide energy per fission from the nuclide metadata"""
    nn = choose(nn, 1, 3)
    ng = choose(ng, 1, 2)
    dens = [n1, n2, n3]
    sig = [[a1, a2], [b1, b2], [c1, c2]]
    kap = [k1, k2, k3]
    assume(any([dens[i] != 0 for i in range(nn)]))
    lib = library(nn, ng, sig, kappa=kap)
    m = xsc.computeFissionEnergyGenerationConstants(comp(nn, dens), lib, SFX)
    assert m.shape == (ng,)
    for g in range(ng):
        assert eq(m[g], wsum(nn, g, dens, sig, [[kap[i], kap[i]] for i in range(3)]))


class CaptureMicro:
    """stand-in for a microscopic XSCollection with the five capture reactions"""


@lemma(gen={"nn": (1, 2), "ng": (1, 2)})
def capture_energy_generation_sums_all_capture_reactions(nn: int, ng: int, n1: float, n2: float, k1: float, k2: float,
                                                         g1: float, g2: float, al1: float, al2: float, p1: float, p2: float,
                                                         d1: float, d2: float, t1: float, t2: float, s: float):
    """kappa_c Sigma_c: sum over the five capture reactions r and nuclides i of N_i kappa_c,i sigma_r,i,g
    (nuclide B carries the data of A scaled by s: 1..2 nuclides x 1..2 groups x 5 reactions)"""
    nn = choose(nn, 1, 2)
    ng = choose(ng, 1, 2)
    dens = [n1, n2]
    kap = [k1, k2]
    base = {"nGamma": [g1, g2], "nalph": [al1, al2], "np": [p1, p2], "nd": [d1, d2], "nt": [t1, t2]}
    scale = [1.0, s]
    assume(any([dens[i] != 0 for i in range(nn)]))
    nucs = {}
    for i in range(nn):
        mic = new(CaptureMicro)
        for r in base:
            setattr(mic, r, arr([scale[i] * base[r][0], scale[i] * base[r][1]], ng))
        nucs[NAMES[i] + SFX] = new(Nuclide, name=NAMES[i], micros=mic, isotxsMetadata={"ecapt": kap[i], "efiss": kap[i] + 1.0})
    lib = new(Library, nuclides=nucs)
    m = xsc.computeCaptureEnergyGenerationConstants(comp(nn, dens), lib, SFX)
    assert m.shape == (ng,)
    for g in range(ng):
        expected = 0.0
        for i in range(nn):
            for r in base:
                expected = expected + dens[i] * kap[i] * scale[i] * base[r][g]
        assert eq(m[g], expected)


# ----------------------------------------------------------------------------- MacroscopicCrossSectionCreator and block chi
Creator = repo("armi.nuclearDataIO.xsCollections:MacroscopicCrossSectionCreator")
XSCollection = repo("armi.nuclearDataIO.xsCollections:XSCollection")


class Mat:
    """dense stand-in for scipy.sparse.csr_matrix (collaborator outside the engine).  Assumed contract = scipy's:
    M * scalar and M + M elementwise, 0 + M is M (start value of sum()), M.sum(axis=0).getA1() the column sums,
    M.diagonal() the diagonal."""

    def __init__(self, a):
        self.a = a

    def __mul__(self, k):
        return Mat(self.a * k)

    def __add__(self, other):
        return Mat(self.a + other.a)

    def __radd__(self, other):
        if isinstance(other, Mat):
            return Mat(other.a + self.a)
        if other == 0:
            return self
        raise NotImplementedError("adding a nonzero scalar to a sparse matrix is not supported")

    def sum(self, axis=None):
        n = self.a.shape[0]
        return Mat(np.array([sum([self.a[i][j] for i in range(n)]) for j in range(n)]))

    def getA1(self):
        return self.a

    def diagonal(self):
        return np.array([self.a[i][i] for i in range(self.a.shape[0])])


class DenseSparse:
    """stand-in for the module scipy.sparse as used by _initializeMacros: csr_matrix(shape) is the zero matrix"""

    @staticmethod
    def csr_matrix(shape):
        return Mat(np.zeros(shape))

    @staticmethod
    def issparse(x):
        return isinstance(x, Mat)


class Block:
    """stand-in for a Block: composition and cross-section suffix (contracts of getNuclides / getMicroSuffix /
    getNuclideNumberDensities / getNumberDensities: the stored name -> density map)"""

    def getNuclides(self):
        return list(self.dens)

    def getMicroSuffix(self):
        return SFX

    def getNuclideNumberDensities(self, names):
        return [self.dens[n] for n in names]

    def getNumberDensities(self):
        return dict(self.dens)


VEC = ["nGamma", "nalph", "np", "nd", "nt", "fission", "n2n"]


def full_library(nn, ng, base, scale, sc):
    """nuclide i carries: vector reaction r = scale[i] * base[r]; nu, chi; total/transport; three scatter matrices
    (entries sc[name][row][col], scaled); nuclide 'Z' of another suffix must be ignored"""
    nucs = {}
    for i in range(nn):
        mic = new(Micro)
        for r in VEC + ["neutronsPerFission", "chi", "total", "transport"]:
            setattr(mic, r, arr([scale[i] * base[r][0], scale[i] * base[r][1]], ng))
        for m in ["elasticScatter", "inelasticScatter", "n2nScatter"]:
            setattr(mic, m, Mat(np.array([[scale[i] * sc[m][a][b] for b in range(ng)] for a in range(ng)])))
        nucs[NAMES[i] + SFX] = new(Nuclide, name=NAMES[i], micros=mic)
    return new(Library, nuclides=nucs, numGroups=ng)


@lemma(gen={"nn": (1, 2), "ng": (1, 2), "n1": (1e-4, 0.1), "n2": (1e-4, 0.1), "s": (0.1, 5.0), "tr1": (0.1, 20.0), "tr2": (0.1, 20.0)},
       overrides={"armi.nuclearDataIO.xsCollections:sparse": "DenseSparse"})
def creator_builds_weighted_sums_and_derived_quantities(
        nn: int, ng: int, n1: float, n2: float, s: float,
        g1: float, g2: float, al1: float, al2: float, p1: float, p2: float, d1: float, d2: float, t1: float, t2: float,
        f1: float, f2: float, w1: float, w2: float, nu1: float, nu2: float, tr1: float, tr2: float,
        e11: float, e12: float, e21: float, e22: float, i11: float, i12: float, i21: float, i22: float,
        m11: float, m12: float, m21: float, m22: float):
    """createMacrosFromMicros (real _initializeMacros, _convertBasicXS, _computeAbsorptionXS, _convertScatterMatrices,
    _computeDiffusionConstants, _buildTotalScatterMatrix, _computeRemovalXS, getTotalScatterMatrix):
    every vector reaction and scatter matrix = sum_i N_i x micro_i; absorption = capture + fission + n2n;
    total scatter = elastic + inelastic + 2 n2n; removal = absorption - n2n + out-scatter (column sum - diagonal).
    1..2 nuclides (the second carries the first's data scaled by s) x 1..2 groups; positive densities."""
    nn = choose(nn, 1, 2)
    ng = choose(ng, 1, 2)
    dens = [n1, n2]
    scale = [1.0, s]
    assume(n1 > 0 and n2 > 0)
    assume(tr1 > 0 and tr2 > 0 and s > 0)  # transport > 0: diffusion constant 1/(3 transport) is defined
    base = {"nGamma": [g1, g2], "nalph": [al1, al2], "np": [p1, p2], "nd": [d1, d2], "nt": [t1, t2], "fission": [f1, f2],
            "n2n": [w1, w2], "neutronsPerFission": [nu1, nu2], "chi": [1.0, 0.0], "total": [tr1, tr2], "transport": [tr1, tr2]}
    sc = {"elasticScatter": [[e11, e12], [e21, e22]], "inelasticScatter": [[i11, i12], [i21, i22]], "n2nScatter": [[m11, m12], [m21, m22]]}
    lib = full_library(nn, ng, base, scale, sc)
    blk = new(Block, dens={NAMES[i]: dens[i] for i in range(nn)})
    mc = Creator()
    m = mc.createMacrosFromMicros(lib, blk)
    w = sum([dens[i] * scale[i] for i in range(nn)])  # sum_i N_i x (scale of nuclide i)
    w2s = sum([dens[i] * scale[i] * scale[i] for i in range(nn)])
    for g in range(ng):
        for r in VEC + ["total", "transport"]:
            assert eq(m[r][g], w * base[r][g]), "vector reaction = density-weighted sum"
        assert eq(m.nuSigF[g], w2s * base["fission"][g] * base["neutronsPerFission"][g]), "nu-fission = sum N nu sigma_f"
        assert eq(m.absorption[g], w * sum([base[r][g] for r in VEC])), "absorption = capture + fission + n2n"
        assert eq(m.diffusionConstants[g] * 3.0 * m.transport[g], 1.0)
        for h in range(ng):
            for name in ["elasticScatter", "inelasticScatter", "n2nScatter"]:
                assert eq(m[name].a[g][h], w * sc[name][g][h]), "scatter matrix = density-weighted sum"
            assert eq(m.totalScatter.a[g][h], w * (sc["elasticScatter"][g][h] + sc["inelasticScatter"][g][h] + 2.0 * sc["n2nScatter"][g][h]))
        out = sum([m.totalScatter.a[h][g] for h in range(ng)]) - m.totalScatter.a[g][g]
        assert eq(m.removal[g], m.absorption[g] - m.n2n[g] + out), "removal = absorption - n2n + out-scatter"


def chi_case(nn, ng, dens, chi, q, f, u):
    nucs = {}
    for i in range(nn):
        mic = new(Micro, chi=arr(chi[i], ng), fission=arr([q[i] * f[0], q[i] * f[1]], ng), neutronsPerFission=arr(u, ng))
        nucs[NAMES[i] + SFX] = new(Nuclide, name=NAMES[i], micros=mic)
    lib = new(Library, nuclides=nucs, numGroups=ng)
    inBlock = min(nn, 2)  # C (if present in the library) is not part of the composition
    blk = new(Block, dens={NAMES[i]: dens[i] for i in range(inBlock)})
    F = [q[i] * sum([u[g] * f[g] for g in range(ng)]) for i in range(3)]
    return lib, blk, inBlock, F


@lemma(gen={"nn": (1, 3), "ng": (1, 2)})
def block_chi_is_the_fission_source_weighted_average(nn: int, ng: int, n1: float, n2: float,
                                                     x1: float, x2: float, y1: float, y2: float, z1: float, z2: float,
                                                     f1: float, f2: float, u1: float, u2: float, q2: float, q3: float):
    """computeBlockAverageChi: chi_g x sum_n N_n F_n = sum_n chi_g,n N_n F_n with F_n = sum_g' nu_n,g' sigma_f,n,g'
    (DIF3D eq. 3.4b); the zero vector when there is no fission source; a library nuclide absent from the block
    contributes nothing.  1..3 library nuclides (fission data of B, C = those of A scaled by q2, q3; own spectra)
    x 1..2 groups; nuclide C is in the library but not in the block."""
    nn = choose(nn, 1, 3)
    ng = choose(ng, 1, 2)
    dens = [n1, n2]
    chi = [[x1, x2], [y1, y2], [z1, z2]]
    lib, blk, inBlock, F = chi_case(nn, ng, dens, chi, [1.0, q2, q3], [f1, f2], [u1, u2])
    c = xsc.computeBlockAverageChi(blk, lib)
    assert c.shape == (ng,)
    den = sum([dens[i] * F[i] for i in range(inBlock)])
    for g in range(ng):
        num = sum([chi[i][g] * dens[i] * F[i] for i in range(inBlock)])
        if den != 0:
            assert eq(c[g] * den, num), "fission-source-weighted average of the nuclide spectra"
        else:
            assert eq(c[g], 0.0), "no fission source: zero spectrum"


@lemma(gen={"nn": (1, 2), "k": (0.1, 10.0)})
def block_chi_is_normalised_and_scale_free(nn: int, n1: float, n2: float, x1: float, y1: float,
                                           f1: float, f2: float, u1: float, u2: float, q2: float, k: float):
    """two groups, 1..2 nuclides with normalised spectra (x, 1-x): the block spectrum is normalised whenever there is a
    fission source, and does not depend on a common scaling k != 0 of the densities"""
    nn = choose(nn, 1, 2)
    dens = [n1, n2]
    chi = [[x1, 1.0 - x1], [y1, 1.0 - y1], [0.0, 0.0]]
    lib, blk, inBlock, F = chi_case(nn, 2, dens, chi, [1.0, q2, 0.0], [f1, f2], [u1, u2])
    c = xsc.computeBlockAverageChi(blk, lib)
    den = sum([dens[i] * F[i] for i in range(inBlock)])
    if den != 0:
        assert eq(c[0] + c[1], 1.0), "an average of normalised spectra is normalised"
    assume(k != 0)
    c2 = xsc.computeBlockAverageChi(new(Block, dens={NAMES[i]: k * dens[i] for i in range(inBlock)}), lib)
    assert eq(c2[0], c[0]) and eq(c2[1], c[1]), "independent of a common scaling of the densities"


@lemma(gen={"ng": (1, 2), "n1": (1e-4, 0.1), "s": (0.1, 5.0), "tr1": (0.1, 20.0), "tr2": (0.1, 20.0)},
       overrides={"armi.nuclearDataIO.xsCollections:sparse": "DenseSparse"})
def library_nuclide_absent_from_the_block_contributes_nothing(
        ng: int, n1: float, s: float, g1: float, g2: float, f1: float, f2: float, nu1: float, nu2: float, tr1: float, tr2: float,
        e11: float, e12: float, e21: float, e22: float):
    """createMacrosFromMicros on a library that also holds nuclide B (same suffix, data = A's scaled by s) which the block
    does not contain: every macroscopic vector, scatter matrix, derived quantity and chi equals N_A x (A's data) -
    additivity over nuclides with a zero term.  1..2 groups."""
    ng = choose(ng, 1, 2)
    assume(n1 > 0 and tr1 > 0 and tr2 > 0 and s > 0)
    base = {"nGamma": [g1, g2], "nalph": [0.0, 0.0], "np": [0.0, 0.0], "nd": [0.0, 0.0], "nt": [0.0, 0.0], "fission": [f1, f2],
            "n2n": [0.0, 0.0], "neutronsPerFission": [nu1, nu2], "chi": [1.0, 0.0], "total": [tr1, tr2], "transport": [tr1, tr2]}
    sc = {"elasticScatter": [[e11, e12], [e21, e22]], "inelasticScatter": [[0.0, 0.0], [0.0, 0.0]], "n2nScatter": [[0.0, 0.0], [0.0, 0.0]]}
    lib = full_library(2, ng, base, [1.0, s], sc)
    m = Creator().createMacrosFromMicros(lib, new(Block, dens={"A": n1}))
    for g in range(ng):
        assert eq(m.nGamma[g], n1 * base["nGamma"][g]) and eq(m.fission[g], n1 * base["fission"][g])
        assert eq(m.nuSigF[g], n1 * base["fission"][g] * base["neutronsPerFission"][g])
        assert eq(m.absorption[g], n1 * (base["nGamma"][g] + base["fission"][g]))
        for h in range(ng):
            assert eq(m.elasticScatter.a[g][h], n1 * sc["elasticScatter"][g][h])
            assert eq(m.totalScatter.a[g][h], n1 * sc["elasticScatter"][g][h])
    nuF = sum([base["neutronsPerFission"][g] * base["fission"][g] for g in range(ng)])
    if nuF != 0:
        assert eq(m.chi[0], 1.0), "chi is that of the only fissioning nuclide present"
    else:
        assert eq(m.chi[0], 0.0)


# ----------------------------------------------------------------------------- multiplier library, gamma data, odd shapes
class SizedLibrary(Library):
    """Library stand-in with the length of the real one (_XSLibrary.__len__ = number of nuclides): the code under
    contract tests `if multLib:`"""

    def __len__(self):
        return len(self.nuclides)


@lemma(gen={"nn": (1, 3), "ng": (1, 2), "nm": (1, 3)})
def group_constants_with_a_multiplier_library(nn: int, ng: int, nm: int, n1: float, n2: float, n3: float,
                                              a1: float, a2: float, b1: float, b2: float, c1: float, c2: float,
                                              u1: float, u2: float, v1: float, v2: float, w1: float, w2: float, z: float):
    """multLib (gamma production: the multiplier comes from ANOTHER library): Sigma_g = sum_i N_i sigma_i,g m_i,g with
    sigma from `lib` and m from `multLib`; a nuclide without data in multLib contributes nothing (documented: reported,
    not an error).  1..3 nuclides x 1..2 groups; multLib holds the LAST nm >= 1 of them (enumerated), so that the sum
    starts with a skipped nuclide; lib carries a decoy multiplier z + 7 that must not be used."""
    nn = choose(nn, 1, 3)
    ng = choose(ng, 1, 2)
    nm = choose(nm, 1, nn)
    dens = [n1, n2, n3]
    sig = [[a1, a2], [b1, b2], [c1, c2]]
    mul = [[u1, u2], [v1, v2], [w1, w2]]
    inMult = [i >= nn - nm for i in range(3)]
    assume(any([dens[i] != 0 and inMult[i] for i in range(nn)]))
    lib = library(nn, ng, sig, nu=[[z + 7.0, z + 7.0]] * 3)
    mnucs = {}
    for i in range(nn):
        if inMult[i]:
            mnucs[NAMES[i] + SFX] = new(Nuclide, name=NAMES[i], micros=new(Micro, neutronsPerFission=arr(mul[i], ng)), isotxsMetadata={})
    multLib = new(SizedLibrary, nuclides=mnucs)
    m = xsc.computeMacroscopicGroupConstants("fission", comp(nn, dens), lib, SFX, libType="micros", multConstant="neutronsPerFission", multLib=multLib)
    assert m.shape == (ng,)
    for g in range(ng):
        expected = 0.0
        for i in range(nn):
            if inMult[i]:
                expected = expected + dens[i] * sig[i][g] * mul[i][g]
        assert eq(m[g], expected), "sum over the nuclides the multiplier library knows of N x sigma x multiplier"
    assert eq(lib.nuclides["AAA"].micros.fission[0], a1), "the libraries are not changed"


@lemma(gen=G)
def gamma_group_constants_come_from_the_gamma_collection(nn: int, ng: int, n1: float, n2: float, n3: float,
                                                         a1: float, a2: float, b1: float, b2: float, c1: float, c2: float,
                                                         k1: float, k2: float, k3: float, z: float):
    """libType='gammaXS': the gamma cross sections of the nuclides (their own collection, next to the neutron one which
    carries decoy values z) are summed; with a multiplier found in the nuclide metadata (not in the gamma collection)
    that scalar per nuclide is used.  1..3 nuclides x 1..2 groups."""
    nn = choose(nn, 1, 3)
    ng = choose(ng, 1, 2)
    dens = [n1, n2, n3]
    sig = [[a1, a2], [b1, b2], [c1, c2]]
    kap = [k1, k2, k3]
    assume(any([dens[i] != 0 for i in range(nn)]))
    nucs = {}
    for i in range(nn):
        nucs[NAMES[i] + SFX] = new(Nuclide, name=NAMES[i], micros=new(Micro, total=arr([z, z + 1.0], ng), scale=arr([z, z], ng)),
                                   gammaXS=new(Micro, total=arr(sig[i], ng)), isotxsMetadata={"scale": kap[i]})
    lib = new(Library, nuclides=nucs)
    m = xsc.computeMacroscopicGroupConstants("total", comp(nn, dens), lib, SFX, libType="gammaXS")
    mk = xsc.computeMacroscopicGroupConstants("total", comp(nn, dens), lib, SFX, libType="gammaXS", multConstant="scale")
    assert m.shape == (ng,) and mk.shape == (ng,)
    for g in range(ng):
        assert eq(m[g], wsum(nn, g, dens, sig)), "gamma data, not neutron data"
        assert eq(mk[g], wsum(nn, g, dens, sig, [[kap[i], kap[i]] for i in range(3)])), "per-nuclide scalar from the metadata"
    assert xsc._getLibTypeSuffix("micros") == "" and xsc._getLibTypeSuffix("gammaXS") == "Gamma" and xsc._getLibTypeSuffix("other") is None


@lemma(gen={"ng": (1, 2), "nz": (1, 3)})
def nuclide_without_data_of_another_length_contributes_nothing(ng: int, nz: int, n1: float, n2: float, a1: float, a2: float):
    """a nuclide whose constants are all zero but stored with another number of groups (dummy / default data) adds
    nothing - the result keeps the shape of the real data.  1..2 groups for A, 1..3 zero entries for B (enumerated)."""
    ng = choose(ng, 1, 2)
    nz = choose(nz, 1, 3)
    assume(n1 != 0)
    lib = library(1, ng, [[a1, a2]])
    lib.nuclides["B" + SFX] = new(Nuclide, name="B", micros=new(Micro, fission=np.zeros(nz)), isotxsMetadata={})
    m = xsc.computeMacroscopicGroupConstants("fission", {"A": n1, "B": n2}, lib, SFX, libType="micros")
    assert m.shape == (ng,)
    for g in range(ng):
        assert eq(m[g], n1 * [a1, a2][g])


# ----------------------------------------------------------------------------- one-group collapse, default data
GC = {"ng": (1, 4), "s1": (0.0, 50.0), "s2": (0.0, 50.0), "s3": (0.0, 50.0), "s4": (0.0, 50.0), "p1": [0.0, 1.0, 2.5e14], "p2": [0.0, 3.0, 1e13],
      "p3": [0.5, 7.0, 4e12], "p4": [0.0, 2.0, 5e14], "k": (0.1, 100.0)}


@lemma(gen=GC)
def collapsed_cross_section_is_the_flux_weighted_mean(ng: int, s1: float, s2: float, s3: float, s4: float, p1: float, p2: float, p3: float,
                                                      p4: float, k: float):
    """XSCollection.collapseCrossSection for 1..4 groups (enumerated), cross sections arbitrary, weights (flux) >= 0 and
    not all zero: sigma x sum_g phi_g = sum_g sigma_g phi_g; hence between the smallest and the largest sigma_g of the
    groups with flux, the common value when those agree, and unchanged by rescaling the flux"""
    ng = choose(ng, 1, 4)
    sig, phi = [s1, s2, s3, s4][:ng], [p1, p2, p3, p4][:ng]
    assume(all(p >= 0 for p in phi) and any(p > 0 for p in phi) and k > 0)
    one = XSCollection.collapseCrossSection(sig, phi)
    assert eq(one * sum(phi), sum(s * p for s, p in zip(sig, phi))), "flux-weighted mean"
    tol = 1e-9 * (1.0 + abs(one)) if NATIVE else 0.0
    assert any(p > 0 and s <= one + tol for s, p in zip(sig, phi)) and any(p > 0 and s >= one - tol for s, p in zip(sig, phi)), "between min and max"
    for s0, p0 in zip(sig, phi):
        assert implies(p0 > 0 and all(implies(p > 0, s == s0) for s, p in zip(sig, phi)), eq(one, s0)), "the common value"
    assert eq(XSCollection.collapseCrossSection(sig, [k * p for p in phi]), one), "independent of the flux normalisation"
    assert eq(XSCollection.collapseCrossSection(np.array(sig), np.array(phi)), one), "arrays or lists"


@lemma(gen={"n": (1, 4), "m": (1, 4)})
def default_cross_sections_are_zero_vectors(n: int, m: int):
    """XSCollection.getDefaultXs(numGroups) for 1..4 groups (two sizes in one run, enumerated): a vector of numGroups
    zeros; asking again gives the same data, and a request for another size does not disturb it"""
    n = choose(n, 1, 4)
    m = choose(m, 1, 4)
    a = XSCollection.getDefaultXs(n)
    b = XSCollection.getDefaultXs(m)
    a2 = XSCollection.getDefaultXs(n)
    assert a.shape == (n,) and b.shape == (m,) and a2.shape == (n,)
    assert all(eq(a[g], 0.0) for g in range(n)) and all(eq(b[g], 0.0) for g in range(m)) and all(eq(a2[g], 0.0) for g in range(n))


# ----------------------------------------------------------------------------- comparing two collections
def vec_collection(ng, vals):
    """a real XSCollection (real constructor) with the vector data fission, nGamma, total (no matrices)"""
    c = XSCollection(parent=None)
    c.fission, c.nGamma, c.total = arr(vals[0], ng), arr(vals[1], ng), arr(vals[2], ng)
    return c


@lemma(gen={"ng": (1, 2)}, overrides={"armi.nuclearDataIO.xsCollections:sparse": "DenseSparse"})
def collections_compare_equal_exactly_when_their_data_agree(ng: int, a1: float, a2: float, b1: float, b2: float, c1: float, c2: float,
                                                            x1: float, x2: float, y1: float, y2: float, z1: float, z2: float):
    """XSCollection.compare (with utils.properties.areEqual / numpyHackForEqual) at zero tolerance on two collections
    holding three vector reactions of 1..2 groups (enumerated): True exactly when every value agrees"""
    ng = choose(ng, 1, 2)
    A = vec_collection(ng, [[a1, a2], [b1, b2], [c1, c2]])
    B = vec_collection(ng, [[x1, x2], [y1, y2], [z1, z2]])
    same_data = all([[a1, a2][g] == [x1, x2][g] and [b1, b2][g] == [y1, y2][g] and [c1, c2][g] == [z1, z2][g] for g in range(ng)])
    assert A.compare(B, None) == same_data
    assert A.compare(A, None), "a collection equals itself"


# ----------------------------------------------------------------------------- merging two collections
ATTRS = ["fission", "nGamma", "total"]


def masked_collection(mask, vals, tag):
    c = XSCollection(parent=tag)
    for k in range(3):
        if (mask // (2 ** k)) % 2 == 1:
            c[ATTRS[k]] = np.array([vals[k], vals[k] + 1.0])
    return c


def leading(c):
    return [None if c[a] is None else c[a][0] for a in ATTRS]


@lemma(gen={"ma": (0, 7), "mb": (0, 7)})
def collection_merge_takes_the_data_of_the_only_assigned_side_or_refuses(ma: int, mb: int, x0: float, x1: float, x2: float, y0: float, y1: float,
                                                                         y2: float):
    """XSCollection.merge for every pair of subsets of three reactions assigned on the two sides (8 x 8, enumerated),
    values symbolic: nothing assigned on one side -> the result holds exactly the other side's data, identical to
    its source; data on both sides -> AttributeError and the target is unchanged (the documented rule: 'can only merge
    if one hasn't been assigned at all' - never a silent combination, whether the reactions overlap or not)"""
    ma = choose(ma, 0, 7)
    mb = choose(mb, 0, 7)
    A, B = masked_collection(ma, [x0, x1, x2], "A"), masked_collection(mb, [y0, y1, y2], "B")
    a0, b0 = leading(A), leading(B)
    try:
        A.merge(B)
        refused = False
    except AttributeError:
        refused = True
    assert refused == (ma != 0 and mb != 0)
    got = leading(A)
    want = a0 if (refused or mb == 0) else b0
    for k in range(3):
        assert (got[k] is None) == (want[k] is None) and (want[k] is None or eq(got[k], want[k])), "identical to its source / unchanged"
    assert all((p is None) == (q is None) and (p is None or eq(p, q)) for p, q in zip(leading(B), b0)), "the source is not changed"


@lemma(gen={"ng": (1, 2), "n1": (1e-4, 0.1), "n2": (1e-4, 0.1), "s": (0.1, 5.0), "tr1": (0.1, 20.0), "tr2": (0.1, 20.0)},
       overrides={"armi.nuclearDataIO.xsCollections:sparse": "DenseSparse"})
def one_creator_used_again_after_the_library_grew_sees_the_new_nuclide(
        ng: int, n1: float, n2: float, s: float, g1: float, g2: float, f1: float, f2: float, nu1: float, nu2: float, tr1: float, tr2: float,
        e11: float, e12: float, e21: float, e22: float, i11: float, i12: float, i21: float, i22: float, m11: float, m12: float, m21: float, m22: float):
    """ONE MacroscopicCrossSectionCreator and ONE library object used twice: macros for a composition of the nuclides the
    library holds, then the library grows IN PLACE by a nuclide of the same suffix (as IsotxsLibrary.merge does) and
    macros are built again for a composition containing the new nuclide: every vector reaction AND every scatter
    matrix (hence total scatter and removal) is the density-weighted sum over the CURRENT nuclides - nothing computed
    for the earlier call may be reused."""
    ng = choose(ng, 1, 2)
    assume(n1 > 0 and n2 > 0 and tr1 > 0 and tr2 > 0 and s > 0)
    zero = [0.0, 0.0]
    base = {"nGamma": [g1, g2], "nalph": zero, "np": zero, "nd": zero, "nt": zero, "fission": [f1, f2], "n2n": zero,
            "neutronsPerFission": [nu1, nu2], "chi": [1.0, 0.0], "total": [tr1, tr2], "transport": [tr1, tr2]}
    sc = {"elasticScatter": [[e11, e12], [e21, e22]], "inelasticScatter": [[i11, i12], [i21, i22]], "n2nScatter": [[m11, m12], [m21, m22]]}
    lib = full_library(1, ng, base, [1.0, s], sc)
    both = full_library(2, ng, base, [1.0, s], sc)
    mc = Creator()
    m1 = mc.createMacrosFromMicros(lib, new(Block, dens={"A": n1}))
    for g in range(ng):
        for h in range(ng):
            assert eq(m1["elasticScatter"].a[g][h], n1 * sc["elasticScatter"][g][h])
    lib.nuclides["B" + SFX] = both.nuclides["B" + SFX]  # the same library object now holds a second nuclide
    m2 = mc.createMacrosFromMicros(lib, new(Block, dens={"A": n1, "B": n2}))
    w = n1 + n2 * s
    for g in range(ng):
        assert eq(m2["nGamma"][g], w * base["nGamma"][g]) and eq(m2["fission"][g], w * base["fission"][g]), "vector reactions see the new nuclide"
        for h in range(ng):
            for name in ["elasticScatter", "inelasticScatter", "n2nScatter"]:
                assert eq(m2[name].a[g][h], w * sc[name][g][h]), "and so do the scatter matrices"
            assert eq(m2.totalScatter.a[g][h], w * (sc["elasticScatter"][g][h] + sc["inelasticScatter"][g][h] + 2.0 * sc["n2nScatter"][g][h]))
        out = sum([m2.totalScatter.a[h][g] for h in range(ng)]) - m2.totalScatter.a[g][g]
        assert eq(m2.removal[g], m2.absorption[g] - m2.n2n[g] + out)
    m3 = mc.createMacrosFromMicros(lib, new(Block, dens={"B": n2}))  # a composition of the NEW nuclide alone
    for g in range(ng):
        for h in range(ng):
            assert eq(m3["elasticScatter"].a[g][h], n2 * s * sc["elasticScatter"][g][h]), "the new nuclide alone: not zero"


@lemma(gen={"ng": (1, 2), "n1": (1e-4, 0.1), "n2": (1e-4, 0.1), "tr1": (0.1, 20.0), "tr2": (0.1, 20.0)},
       overrides={"armi.nuclearDataIO.xsCollections:sparse": "DenseSparse"})
def one_creator_used_for_two_blocks_gives_each_block_its_own_constants(
        ng: int, n1: float, n2: float, g1: float, g2: float, al1: float, al2: float, f1: float, f2: float, w1: float, w2: float,
        nu1: float, nu2: float, tr1: float, tr2: float,
        e11: float, e12: float, e21: float, e22: float, i11: float, i12: float, i21: float, i22: float, m11: float, m12: float, m21: float, m22: float):
    """ONE MacroscopicCrossSectionCreator building the constants of two blocks one after the other (what
    createMacrosOnBlocklist does): the second block's vectors - the accumulated absorption and the removal derived
    from it included - are the density-weighted sums of ITS composition alone, and the constants already handed out for
    the first block are not altered by the second call (no storage shared between the two results)."""
    ng = choose(ng, 1, 2)
    assume(n1 > 0 and n2 > 0 and tr1 > 0 and tr2 > 0)
    zero = [0.0, 0.0]
    base = {"nGamma": [g1, g2], "nalph": [al1, al2], "np": zero, "nd": zero, "nt": zero, "fission": [f1, f2], "n2n": [w1, w2],
            "neutronsPerFission": [nu1, nu2], "chi": [1.0, 0.0], "total": [tr1, tr2], "transport": [tr1, tr2]}
    sc = {"elasticScatter": [[e11, e12], [e21, e22]], "inelasticScatter": [[i11, i12], [i21, i22]], "n2nScatter": [[m11, m12], [m21, m22]]}
    lib = full_library(1, ng, base, [1.0, 1.0], sc)
    mc = Creator()
    m1 = mc.createMacrosFromMicros(lib, new(Block, dens={"A": n1}))
    m2 = mc.createMacrosFromMicros(lib, new(Block, dens={"A": n2}))
    assert m1 is not m2, "each call returns its own collection"
    for m, n in ((m2, n2), (m1, n1)):
        for g in range(ng):
            for r in VEC + ["total", "transport"]:
                assert eq(m[r][g], n * base[r][g]), "vector reaction = density-weighted sum of this block alone"
            assert eq(m.absorption[g], n * sum([base[r][g] for r in VEC])), "absorption = capture + fission + n2n of this block alone"
            assert eq(m.nuSigF[g], n * base["fission"][g] * base["neutronsPerFission"][g])
            out = sum([m.totalScatter.a[h][g] for h in range(ng)]) - m.totalScatter.a[g][g]
            assert eq(m.removal[g], n * sum([base[r][g] for r in VEC]) - n * base["n2n"][g] + out), "removal of this block alone"
            for h in range(ng):
                assert eq(m["elasticScatter"].a[g][h], n * sc["elasticScatter"][g][h])


# ----------------------------------------------------------------------------- widened hypotheses (assumption review)
@lemma(gen={"ng": (1, 2), "z": (0, 2), "n1": (1e-4, 0.1), "n2": (1e-4, 0.1), "s": (-5.0, 5.0), "tr1": (0.1, 20.0), "tr2": (0.1, 20.0)},
       overrides={"armi.nuclearDataIO.xsCollections:sparse": "DenseSparse"})
def creator_with_zero_density_nuclides_and_any_data_scale(
        ng: int, z: int, n1: float, n2: float, s: float,
        g1: float, g2: float, al1: float, al2: float, p1: float, p2: float, d1: float, d2: float, t1: float, t2: float,
        f1: float, f2: float, w1: float, w2: float, nu1: float, nu2: float, tr1: float, tr2: float,
        e11: float, e12: float, e21: float, e22: float, i11: float, i12: float, i21: float, i22: float,
        m11: float, m12: float, m21: float, m22: float):
    """creator_builds_weighted_sums_and_derived_quantities assumes every density > 0 and a data scale s > 0.  A block
    routinely lists nuclides of density ZERO (z = 1: A is zero, z = 2: B is zero, z = 0: none; a block where all are zero
    is the known empty-composition finding), and the second nuclide's data may be any multiple of the first's (s = 0,
    s < 0).  Hypotheses kept: (P) densities >= 0 - createMacrosFromMicros documents that it only uses densities above
    minimumNuclideDensity (default 0), so a negative 'density' is outside its domain; (S) the macroscopic transport
    cross section is non-zero, so that the diffusion constant 1 / (3 transport) exists."""
    ng = choose(ng, 1, 2)
    z = choose(z, 0, 2)
    assume(n1 > 0 and n2 > 0)
    dens = [0.0 if z == 1 else n1, 0.0 if z == 2 else n2]
    scale = [1.0, s]
    w = dens[0] + dens[1] * s  # sum_i N_i x (scale of nuclide i)
    assume(tr1 != 0 and tr2 != 0 and w != 0)
    base = {"nGamma": [g1, g2], "nalph": [al1, al2], "np": [p1, p2], "nd": [d1, d2], "nt": [t1, t2], "fission": [f1, f2],
            "n2n": [w1, w2], "neutronsPerFission": [nu1, nu2], "chi": [1.0, 0.0], "total": [tr1, tr2], "transport": [tr1, tr2]}
    sc = {"elasticScatter": [[e11, e12], [e21, e22]], "inelasticScatter": [[i11, i12], [i21, i22]], "n2nScatter": [[m11, m12], [m21, m22]]}
    lib = full_library(2, ng, base, scale, sc)
    blk = new(Block, dens={NAMES[i]: dens[i] for i in range(2)})
    m = Creator().createMacrosFromMicros(lib, blk)
    w2s = dens[0] + dens[1] * s * s
    for g in range(ng):
        for r in VEC + ["total", "transport"]:
            assert eq(m[r][g], w * base[r][g]), "vector reaction = density-weighted sum"
        assert eq(m.nuSigF[g], w2s * base["fission"][g] * base["neutronsPerFission"][g]), "nu-fission = sum N nu sigma_f"
        assert eq(m.absorption[g], w * sum([base[r][g] for r in VEC])), "absorption = capture + fission + n2n"
        assert eq(m.diffusionConstants[g] * 3.0 * m.transport[g], 1.0)
        for h in range(ng):
            for name in ["elasticScatter", "inelasticScatter", "n2nScatter"]:
                assert eq(m[name].a[g][h], w * sc[name][g][h]), "scatter matrix = density-weighted sum"
            assert eq(m.totalScatter.a[g][h], w * (sc["elasticScatter"][g][h] + sc["inelasticScatter"][g][h] + 2.0 * sc["n2nScatter"][g][h]))
        out = sum([m.totalScatter.a[h][g] for h in range(ng)]) - m.totalScatter.a[g][g]
        assert eq(m.removal[g], m.absorption[g] - m.n2n[g] + out), "removal = absorption - n2n + out-scatter"
    assert eq(blk.dens["A"], dens[0]) and eq(blk.dens["B"], dens[1]), "the composition is not changed"
