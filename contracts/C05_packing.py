"""C05 - parameter encoding: ragged arrays (JaggedArray), None <-> sentinel, dictionaries of numbers.

The lemmas run the real armi/bookkeeping/db/jaggedArray.py, layout.py (replaceNones...) and database.py
(packSpecialData / unpackSpecialData) inside the engine's numpy mini-model (A5: fixed small shapes, elements are
mathematical ints / reals).  Shapes are enumerated with choose(...), contents are symbolic.
"""
import numpy as np

from spec import *

JaggedArray = repo("armi.bookkeeping.db.jaggedArray:JaggedArray")


def entry(kind, v):
    """kind 0: None, 1: empty list, 2: list of 1, 3: list of 2, 4: tuple of 3, 5: 1-d array of 2, 6: 2x2 array,
    7: nested list 1x2, 8: tuple of lists 3x1"""
    if kind == 0:
        return None
    if kind == 1:
        return []
    if kind == 2:
        return [v[0]]
    if kind == 3:
        return [v[0], v[1]]
    if kind == 4:
        return (v[0], v[1], v[2])
    if kind == 5:
        return np.array([v[0], v[1]])
    if kind == 6:
        return np.array([[v[0], v[1]], [v[2], v[3]]])
    if kind == 7:
        return [[v[0], v[1]]]
    return ([v[0]], [v[1]], [v[2]])


def shape_of_kind(kind):
    return {2: (1,), 3: (2,), 4: (3,), 5: (2,), 6: (2, 2), 7: (1, 2), 8: (3, 1)}[kind]


def flat_of_kind(kind, v):
    return {2: [v[0]], 3: [v[0], v[1]], 4: [v[0], v[1], v[2]], 5: [v[0], v[1]], 6: [v[0], v[1], v[2], v[3]],
            7: [v[0], v[1]], 8: [v[0], v[1], v[2]]}[kind]


def check_entry(kind, got, v, numkind):
    """the documented normalisations: sequences come back as arrays; an empty entry among ragged ones comes back unset"""
    if kind <= 1:
        assert got is None, "unset (or empty) position comes back unset"
        return
    assert got is not None, "a set position stays set"
    assert isinstance(got, np.ndarray), "sequences come back as arrays"
    assert tuple(got.shape) == shape_of_kind(kind), "same shape"
    assert got.dtype.kind == numkind, "same numeric kind"
    want = flat_of_kind(kind, v)
    flat = list(got.flatten())
    assert len(flat) == len(want)
    for g, w in zip(flat, want):
        assert eq(g, w), "same values in the same (row-major) order"


def reals(tag, n=4):
    return [sym_real("%s%d" % (tag, m)) for m in range(n)]


def ints(tag, n=4):
    return [sym_int("%s%d" % (tag, m)) for m in range(n)]


def jagged_round_trip(n, kinds, vals, numkind):
    data = [entry(kinds[m], vals[m]) for m in range(n)]
    ja = JaggedArray(data, "p")
    # what is stored: the flat buffer as dataset, offsets / shapes / noneLocations as attributes
    back = JaggedArray.fromH5(ja.flattenedArray, ja.offsets, ja.shapes, ja.nones, ja.flattenedArray.dtype, "p").unpack()
    assert len(back) == n, "one entry per object"
    for m in range(n):
        check_entry(kinds[m], back[m], vals[m], numkind)


RAG1 = [0, 1, 2, 3, 4, 5]
RAG2 = [0, 1, 6, 7, 8]


@lemma(gen={"n": [2, 3], "k0": RAG1, "k1": RAG1, "k2": RAG1})
def ragged_rows_of_reals_round_trip(n: int, k0: int, k1: int, k2: int):
    """JaggedArray(data) -> (flattenedArray, offsets, shapes, nones, dtype) -> JaggedArray.fromH5(...).unpack() for 2..3
    entries, each None / [] / list of 1 / list of 2 / tuple of 3 / 1-d array of 2 (all 6^2 + 6^3 combinations),
    contents symbolic reals"""
    n = choose(n, 2, 3)
    k0 = choose(k0, 0, 5)
    k1 = choose(k1, 0, 5)
    k2 = choose(k2, 0, 5 if n > 2 else 0)
    kinds = [k0, k1, k2][:n]
    jagged_round_trip(n, kinds, [reals("u"), reals("v"), reals("w")][:n], "f")


@lemma(gen={"n": [2, 3], "k0": RAG1, "k1": RAG1, "k2": RAG1})
def ragged_rows_of_ints_round_trip(n: int, k0: int, k1: int, k2: int):
    """the same with integer contents (numeric kind: the values come back as the same integers)"""
    n = choose(n, 2, 3)
    k0 = choose(k0, 0, 5)
    k1 = choose(k1, 0, 5)
    k2 = choose(k2, 0, 5 if n > 2 else 0)
    jagged_round_trip(n, [k0, k1, k2][:n], [ints("u"), ints("v"), ints("w")][:n], "i")


def pick2(k):
    return RAG2[k]


@lemma(gen={"n": [2, 3], "k0": (0, 4), "k1": (0, 4), "k2": (0, 4)})
def ragged_two_dimensional_entries_round_trip(n: int, k0: int, k1: int, k2: int):
    """entries None / [] / 2x2 array / 1x2 nested list / 3x1 tuple of lists (5^2 + 5^3 combinations), symbolic reals:
    shapes and row-major order are kept"""
    n = choose(n, 2, 3)
    k0 = choose(k0, 0, 4)
    k1 = choose(k1, 0, 4)
    k2 = choose(k2, 0, 4 if n > 2 else 0)
    jagged_round_trip(n, [pick2(k0), pick2(k1), pick2(k2)][:n], [reals("u"), reals("v"), reals("w")][:n], "f")


@lemma(gen={"k0": [2, 3, 4, 5], "k1": [6, 7, 8], "first": [True, False]})
def entries_of_different_rank_are_rejected_at_write_time(k0: int, k1: int, first: bool):
    """a collection mixing 1-d and 2-d entries cannot be represented (the shapes table would be ragged): JaggedArray
    refuses it with ValueError instead of storing something else"""
    k0 = choose(k0, 2, 5)
    k1 = choose(k1, 6, 8)
    a, b = entry(k0, reals("u")), entry(k1, reals("v"))
    try:
        JaggedArray([a, b] if first else [b, a], "p")
        raised = False
    except ValueError:
        raised = True
    assert raised


# ----------------------------------------------------------------------------- packSpecialData / unpackSpecialData
database = repo("armi.bookkeeping.db.database")


@lemma(gen={"n": [2, 3], "k0": RAG1, "k1": RAG1, "k2": RAG1})
def ragged_rows_through_pack_and_unpack_special_data(n: int, k0: int, k1: int, k2: int):
    """the write path of Database._writeParams for a ragged parameter: JaggedArray(values) -> packSpecialData ->
    (dataset, attributes) -> unpackSpecialData -> .tolist() (what _readParams does); entries as in
    ragged_rows_of_reals_round_trip.  A collection in which nothing is set is not written at all (data None)."""
    n = choose(n, 2, 3)
    k0 = choose(k0, 0, 5)
    k1 = choose(k1, 0, 5)
    k2 = choose(k2, 0, 5 if n > 2 else 0)
    kinds = [k0, k1, k2][:n]
    vals = [reals("u"), reals("v"), reals("w")][:n]
    values = [entry(kinds[m], vals[m]) for m in range(n)]
    data, attrs = database.packSpecialData(JaggedArray(values, "p"), "p")
    if all(k <= 1 for k in kinds):
        cover("nothing set")
        return
    assert data is not None and data.dtype != "O", "a plain numeric dataset"
    back = database.unpackSpecialData(data, attrs, "p").tolist()
    assert len(back) == n, "one entry per object"
    for m in range(n):
        check_entry(kinds[m], back[m], vals[m], "f")


KEYS = ["alpha", "b", "zeta"]


def subset(mask, nkeys):
    return [KEYS[q] for q in range(nkeys) if (mask // (2 ** q)) % 2 == 1]


def dict_round_trip(n, masks, nkeys):
    vals = [reals("u"), reals("v"), reals("w")][:n]
    values = [{KEYS[q]: vals[m][q] for q in range(nkeys) if KEYS[q] in subset(masks[m], nkeys)} for m in range(n)]
    data, attrs = database.packSpecialData(np.array(values), "p")
    assert data is not None and data.dtype != "O", "a plain numeric dataset"
    back = database.unpackSpecialData(data, attrs, "p")
    assert len(back) == n, "one entry per object"
    for m in range(n):
        got = back[m]
        assert isinstance(got, dict)
        assert len(got) == len(values[m]), "no key appears or disappears"
        for q in range(nkeys):
            if KEYS[q] in values[m]:
                assert KEYS[q] in got and eq(got[KEYS[q]], vals[m][q]), "same value under the same key"
            else:
                assert KEYS[q] not in got


@lemma(gen={"n": [1, 2, 3], "m0": (0, 3), "m1": (0, 3), "m2": (0, 3)})
def dictionaries_of_reals_round_trip_two_keys(n: int, m0: int, m1: int, m2: int):
    """1..3 objects, each a dictionary over any subset of two keys (4^n key patterns, including empty dictionaries and
    differing key sets), values symbolic reals: packSpecialData (dict branch: union of keys as attribute, one row per
    object) -> unpackSpecialData returns dictionaries with the same keys and values"""
    n = choose(n, 1, 3)
    m0 = choose(m0, 0, 3)
    m1 = choose(m1, 0, 3 if n > 1 else 0)
    m2 = choose(m2, 0, 3 if n > 2 else 0)
    dict_round_trip(n, [m0, m1, m2][:n], 2)


@lemma(gen={"m0": (0, 7), "m1": (0, 7)})
def dictionaries_of_reals_round_trip_three_keys(m0: int, m1: int):
    """two objects, any subsets of three keys (64 patterns)"""
    m0 = choose(m0, 0, 7)
    m1 = choose(m1, 0, 7)
    dict_round_trip(2, [m0, m1], 3)


@lemma(gen={"n": [2, 3], "pos": [0, 1, 2], "mask": (0, 3)})
def dictionaries_with_an_unset_entry_are_stored_faithfully_or_rejected(n: int, pos: int, mask: int, x: float, y: float):
    """a collection of dictionaries in which one position is unset (None): either packSpecialData refuses it with an
    error at write time, or what it stores reads back as the same dictionaries with None at the same position - never
    something else (on the current code the first happens: TypeError)"""
    n = choose(n, 2, 3)
    pos = choose(pos, 0, n - 1)
    mask = choose(mask, 0, 3)
    d = {KEYS[q]: (x, y)[q] for q in range(2) if KEYS[q] in subset(mask, 2)}
    values = [None if m == pos else dict(d) for m in range(n)]
    try:
        data, attrs = database.packSpecialData(np.array(values), "p")
        stored_ok = True
    except Exception:
        stored_ok = False
    faithful = True
    if stored_ok:
        back = database.unpackSpecialData(data, attrs, "p")
        faithful = len(back) == n
        for m in range(n):
            if m == pos:
                faithful = faithful and back[m] is None
            else:
                faithful = faithful and isinstance(back[m], dict) and len(back[m]) == len(d)
                for q in range(2):
                    faithful = faithful and (KEYS[q] in back[m]) == (KEYS[q] in d)
                    if KEYS[q] in d:
                        faithful = faithful and eq(back[m][KEYS[q]], (x, y)[q])
    else:
        cover("rejected at write time")
    assert (not stored_ok) or faithful, "refused with an error, or read back the same"


# ----------------------------------------------------------------------------- None <-> sentinel
layout = repo("armi.bookkeeping.db.layout")
INT_SENTINEL = -(2 ** 63) + 2  # NONE_MAP[int]; a stored value equal to it is known finding `sentinel-collision`


def unset_pattern(n, mask):
    return [(mask // (2 ** m)) % 2 == 1 for m in range(n)]


@lemma(gen={"n": [1, 2, 3, 4], "mask": (0, 15), "a": (-50, 50), "b": (-50, 50), "c": (-50, 50), "d": (-50, 50)})
def integers_with_unset_positions_round_trip(n: int, mask: int, a: int, b: int, c: int, d: int):
    """1..4 objects, every pattern of unset positions (2^n), integer values symbolic and different from the documented
    sentinel: replaceNonesWithNonsense gives a plain integer array (no object dtype) and replaceNonsenseWithNones gives
    back None exactly at the unset positions and the same integers elsewhere.  All positions unset: see below."""
    n = choose(n, 1, 4)
    mask = choose(mask, 0, 2 ** n - 1)
    unset = unset_pattern(n, mask)
    assume(not all(unset))
    vals = [a, b, c, d][:n]
    for v in vals:
        assume(v != INT_SENTINEL)
    values = [None if unset[m] else vals[m] for m in range(n)]
    stored = layout.replaceNonesWithNonsense(np.array(values, dtype=object), "p")
    assert stored.dtype.kind == "i" and stored.shape == (n,), "a plain integer dataset of the same length"
    back = layout.replaceNonsenseWithNones(stored, "p")
    assert len(back) == n
    for m in range(n):
        if unset[m]:
            assert back[m] is None, "unset stays unset"
        else:
            assert back[m] is not None and back[m] == vals[m], "a value stays the same integer"


@lemma(gen={"n": [1, 2, 3, 4], "mask": (0, 15)})
def reals_with_unset_positions_round_trip(n: int, mask: int, a: float, b: float, c: float, d: float):
    """the same for real values (sentinel NaN; under A1 no stored real is NaN), including ALL positions unset (then
    the column is written as reals)"""
    n = choose(n, 1, 4)
    mask = choose(mask, 0, 2 ** n - 1)
    unset = unset_pattern(n, mask)
    vals = [a, b, c, d][:n]
    values = [None if unset[m] else vals[m] for m in range(n)]
    stored = layout.replaceNonesWithNonsense(np.array(values, dtype=object), "p")
    assert stored.dtype.kind == "f" and stored.shape == (n,), "a plain real dataset of the same length"
    back = layout.replaceNonsenseWithNones(stored, "p")
    assert len(back) == n
    for m in range(n):
        if unset[m]:
            assert back[m] is None, "unset stays unset"
        else:
            assert back[m] is not None and eq(back[m], vals[m]), "a value stays the same"


@lemma(gen={"n": [2, 3], "mask": (1, 6), "isint": [True, False], "a": (-50, 50), "b": (-50, 50), "c": (-50, 50)})
def numbers_with_unset_positions_through_pack_and_unpack_special_data(n: int, mask: int, isint: bool, a: int, b: int, c: int,
                                                                      x: float, y: float, z: float):
    """the write path of Database._writeParams for a scalar parameter with some (not all) values unset:
    np.array(values) (object dtype) -> packSpecialData -> (plain numeric dataset, attributes) -> unpackSpecialData;
    2..3 objects, every proper pattern of unset positions, integer (not the sentinel) or real values"""
    n = choose(n, 2, 3)
    mask = choose(mask, 1, 2 ** n - 2)
    unset = unset_pattern(n, mask)
    vals = [a, b, c][:n] if isint else [x, y, z][:n]
    if isint:
        for v in vals:
            assume(v != INT_SENTINEL)
    values = [None if unset[m] else vals[m] for m in range(n)]
    data, attrs = database.packSpecialData(np.array(values), "p")
    assert data is not None and data.dtype.kind == ("i" if isint else "f"), "a plain dataset of the values' numeric kind"
    back = database.unpackSpecialData(data, attrs, "p")
    assert len(back) == n
    for m in range(n):
        if unset[m]:
            assert back[m] is None, "unset stays unset"
        else:
            assert back[m] is not None and eq(back[m], vals[m]), "a value stays the same"


# ----------------------------------------------------------------------------- the numpy model against numpy
@lemma(gen={"i": (-100, 100)})
def numpy_model_agrees_with_numpy_on_what_the_lemmas_use(x: float, i: int):
    """cross-check of the trusted numpy mini-model (A5) additions used above: every assertion is evaluated by the model
    (symbolic run) and by numpy itself (native run)"""
    a = np.array([x, 1.0])
    b = np.array([i, 2])
    c = np.array([x, None])
    assert a.dtype != "O" and b.dtype != "O" and c.dtype == "O"
    assert a.dtype.kind == "f" and b.dtype.kind == "i" and c.dtype.kind == "O"
    assert a.dtype == np.array([1.5]).dtype and a.dtype != b.dtype
    v = np.ndarray((2,), dtype=a.dtype, buffer=a[0:])
    assert v[0] == x and v.shape == (2,)
    w = np.ndarray(np.array([1, 2]), dtype=b.dtype, buffer=b)
    assert w.shape == (1, 2) and w[0][0] == i
    try:
        np.ndarray((3,), dtype=a.dtype, buffer=a[0:])
        small = False
    except TypeError:
        small = True
    assert small, "buffer too small"
    try:
        np.array([[1, 2], [3]])
        ragged = False
    except ValueError:
        ragged = True
    assert ragged, "inhomogeneous nested sequence"
    o = np.ndarray(2, dtype=np.dtype("O"))
    assert o[0] is None and o[1] is None and o.dtype == "O"
    o[:] = b
    assert o[0] == i and o.dtype == "O"
    o[np.array([True, False])] = None
    assert o[0] is None and o[1] == 2
    c[np.array([1])] = 7
    assert c.dtype == "O" and c[1] == 7, "an object array stays one"
    assert c.astype(float).dtype.kind == "f"
    assert np.array([i, 3], dtype=object).astype(int).dtype.kind == "i"
    assert len(np.where([False, True, True])[0]) == 2 and np.where([False, True, True])[0][0] == 1
    assert np.where([])[0].dtype.kind == "i" and len(np.where([False])[0]) == 0
    n = np.array([x, np.nan, float("nan")])
    assert n.dtype.kind == "f" and not np.isnan(n)[0] and np.isnan(n)[1] and np.isnan(n)[2] and np.isnan(n[1])
    assert np.issubdtype(a.dtype, np.floating) and not np.issubdtype(b.dtype, np.floating)
    assert np.issubdtype(b.dtype, np.integer) and not np.issubdtype(b.dtype, np.unsignedinteger)
    assert not np.issubdtype(c.dtype, np.integer) and not np.issubdtype(c.dtype, np.str_)
    assert np.iinfo(b.dtype).min == -(2 ** 63) and np.iinfo(np.uint8).max == 255 and np.iinfo(np.int16).min == -32768
    assert np.iinfo(int).max == 2 ** 63 - 1 and np.iinfo(np.uint).max == 2 ** 64 - 1
    k = np.array(["b", "alpha"]).astype("S")
    assert k.dtype.kind == "S" and np.char.decode(k)[1] == "alpha" and np.char.decode(k).dtype.kind == "U"
    d = np.array([{"q": x}, None])
    assert d.dtype == "O" and d.shape == (2,) and d[1] is None and d[0]["q"] == x
    assert np.array([[], []]).shape == (2, 0) and np.array([]).dtype.kind == "f"
    r = np.reshape(np.repeat(i, 4), (2, 2))
    assert r.shape == (2, 2) and r[1][1] == i and r.dtype.kind == "i" and next(r.flat) == i
    g = np.array([np.array([x, 2.0]), None, [i, 3]], dtype=object)
    assert g.shape == (3,) and g.dtype == "O" and g[1] is None and g[0][0] == x and g[2][0] == i
    g[2] = np.array(g[2])
    assert isinstance(g[2], np.ndarray) and g[2][1] == 3 and g.shape == (3,)
    h = np.array([[x, x + 1.0], [x - 1.0, x + 2.0]]) == x
    assert h.shape == (2, 2) and h[0].any() and not h[0].all() and not h[1].any()
    # flatten / ravel walk an array in LOGICAL row-major order, whatever its memory layout (a transposed view here)
    t = np.array([[x, 1.0, 2.0], [3.0, 4.0, 5.0]])
    ft = t.T.flatten()
    assert ft.shape == (6,) and ft[0] == x and ft[1] == 3.0 and ft[2] == 1.0 and ft[5] == 5.0 and ft.dtype.kind == "f"
    assert t.T.ravel()[1] == 3.0 and t.T.ravel(order="C")[4] == 2.0 and t.flatten(order="C")[1] == 1.0
    assert np.array(t.T)[0][1] == 3.0 and np.array(t.T).shape == (3, 2) and np.array([[i, 2], [3, 4]]).T.flatten().dtype.kind == "i"


@lemma(gen={"n": [2, 3], "mask": (1, 6), "isint": [True, False], "a": (-50, 50), "b": (-50, 50), "c": (-50, 50), "d": (-50, 50), "e": (-50, 50), "f": (-50, 50)})
def equal_shape_arrays_with_unset_positions_through_pack_and_unpack_special_data(
    n: int, mask: int, isint: bool, a: int, b: int, c: int, d: int, e: int, f: int,
    u: float, v: float, w: float, x: float, y: float, z: float):
    """an object array whose entries are None or arrays of two numbers (same shape everywhere): packSpecialData ->
    (rectangular numeric dataset, sentinel rows at the unset positions) -> unpackSpecialData; 2..3 objects, every proper
    pattern of unset positions, integer (no element equal to the sentinel) or real contents"""
    n = choose(n, 2, 3)
    mask = choose(mask, 1, 2 ** n - 2)
    unset = unset_pattern(n, mask)
    vals = [[a, b], [c, d], [e, f]][:n] if isint else [[u, v], [w, x], [y, z]][:n]
    if isint:
        for row in vals:
            assume(row[0] != INT_SENTINEL and row[1] != INT_SENTINEL)
    values = np.array([None if unset[m] else np.array(vals[m]) for m in range(n)], dtype=object)
    data, attrs = database.packSpecialData(values, "p")
    assert data is not None and data.dtype.kind == ("i" if isint else "f") and data.shape == (n, 2), "a rectangular numeric dataset"
    back = database.unpackSpecialData(data, attrs, "p")
    assert len(back) == n
    for m in range(n):
        if unset[m]:
            assert back[m] is None, "unset stays unset"
        else:
            assert back[m] is not None and tuple(back[m].shape) == (2,)
            assert eq(back[m][0], vals[m][0]) and eq(back[m][1], vals[m][1]), "same values"
