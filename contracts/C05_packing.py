"""C05 - parameter encoding: ragged arrays (JaggedArray), None <-> sentinel, dictionaries of numbers.

The lemmas run the real armi/bookkeeping/db/jaggedArray.py, layout.py (replaceNones...) and database.py
(packSpecialData / unpackSpecialData) inside the engine's numpy mini-model (A5: fixed small shapes, elements are
mathematical ints / reals).  Shapes are enumerated with choose(...), contents are symbolic.
"""
import numpy as np

from spec import *

JaggedArray = repo("armi.bookkeeping.db.jaggedArray:JaggedArray")


def entry(kind, v):
    """kind 0: None, 1: empty list, 2: list of 1, 3: list of 2, 4: tuple of 3, 5: 1-d array of 2, 6: 2x2 array,
    7: nested list 1x2, 8: tuple of lists 3x1"""
    if kind == 0:
        return None
    if kind == 1:
        return []
    if kind == 2:
        return [v[0]]
    if kind == 3:
        return [v[0], v[1]]
    if kind == 4:
        return (v[0], v[1], v[2])
    if kind == 5:
        return np.array([v[0], v[1]])
    if kind == 6:
        return np.array([[v[0], v[1]], [v[2], v[3]]])
    if kind == 7:
        return [[v[0], v[1]]]
    return ([v[0]], [v[1]], [v[2]])


def shape_of_kind(kind):
    return {2: (1,), 3: (2,), 4: (3,), 5: (2,), 6: (2, 2), 7: (1, 2), 8: (3, 1)}[kind]


def flat_of_kind(kind, v):
    return {2: [v[0]], 3: [v[0], v[1]], 4: [v[0], v[1], v[2]], 5: [v[0], v[1]], 6: [v[0], v[1], v[2], v[3]],
            7: [v[0], v[1]], 8: [v[0], v[1], v[2]]}[kind]


def check_entry(kind, got, v, numkind):
    """the documented normalisations: sequences come back as arrays; an empty entry among ragged ones comes back unset"""
    if kind <= 1:
        assert got is None, "unset (or empty) position comes back unset"
        return
    assert got is not None, "a set position stays set"
    assert isinstance(got, np.ndarray), "sequences come back as arrays"
    assert tuple(got.shape) == shape_of_kind(kind), "same shape"
    assert got.dtype.kind == numkind, "same numeric kind"
    want = flat_of_kind(kind, v)
    flat = list(got.flatten())
    assert len(flat) == len(want)
    for g, w in zip(flat, want):
        assert eq(g, w), "same values in the same (row-major) order"


def reals(tag, n=4):
    return [sym_real("%s%d" % (tag, m)) for m in range(n)]


def ints(tag, n=4):
    return [sym_int("%s%d" % (tag, m)) for m in range(n)]


def jagged_round_trip(n, kinds, vals, numkind):
    data = [entry(kinds[m], vals[m]) for m in range(n)]
    ja = JaggedArray(data, "p")
    # what is stored: the flat buffer as dataset, offsets / shapes / noneLocations as attributes
    back = JaggedArray.fromH5(ja.flattenedArray, ja.offsets, ja.shapes, ja.nones, ja.flattenedArray.dtype, "p").unpack()
    assert len(back) == n, "one entry per object"
    for m in range(n):
        check_entry(kinds[m], back[m], vals[m], numkind)


RAG1 = [0, 1, 2, 3, 4, 5]
RAG2 = [0, 1, 6, 7, 8]


@lemma(gen={"n": [2, 3], "k0": RAG1, "k1": RAG1, "k2": RAG1})
def ragged_rows_of_reals_round_trip(n: int, k0: int, k1: int, k2: int):
    """JaggedArray(data) -> (flattenedArray, offsets, shapes, nones, dtype) -> JaggedArray.fromH5(...).unpack() for 2..3
    entries, each None / [] / list of 1 / list of 2 / tuple of 3 / 1-d array of 2 (all 6^2 + 6^3 combinations),
    contents symbolic reals"""
    n = choose(n, 2, 3)
    k0 = choose(k0, 0, 5)
    k1 = choose(k1, 0, 5)
    k2 = choose(k2, 0, 5 if n > 2 else 0)
    kinds = [k0, k1, k2][:n]
    jagged_round_trip(n, kinds, [reals("u"), reals("v"), reals("w")][:n], "f")


@lemma(gen={"n": [2, 3], "k0": RAG1, "k1": RAG1, "k2": RAG1})
def ragged_rows_of_ints_round_trip(n: int, k0: int, k1: int, k2: int):
    """the same with integer contents (numeric kind: the values come back as the same integers)"""
    n = choose(n, 2, 3)
    k0 = choose(k0, 0, 5)
    k1 = choose(k1, 0, 5)
    k2 = choose(k2, 0, 5 if n > 2 else 0)
    jagged_round_trip(n, [k0, k1, k2][:n], [ints("u"), ints("v"), ints("w")][:n], "i")


def pick2(k):
    return RAG2[k]


@lemma(gen={"n": [2, 3], "k0": (0, 4), "k1": (0, 4), "k2": (0, 4)})
def ragged_two_dimensional_entries_round_trip(n: int, k0: int, k1: int, k2: int):
    """entries None / [] / 2x2 array / 1x2 nested list / 3x1 tuple of lists (5^2 + 5^3 combinations), symbolic reals:
    shapes and row-major order are kept"""
    n = choose(n, 2, 3)
    k0 = choose(k0, 0, 4)
    k1 = choose(k1, 0, 4)
    k2 = choose(k2, 0, 4 if n > 2 else 0)
    jagged_round_trip(n, [pick2(k0), pick2(k1), pick2(k2)][:n], [reals("u"), reals("v"), reals("w")][:n], "f")


@lemma(gen={"k0": [2, 3, 4, 5], "k1": [6, 7, 8], "first": [True, False]})
def entries_of_different_rank_are_rejected_at_write_time(k0: int, k1: int, first: bool):
    """a collection mixing 1-d and 2-d entries cannot be represented (the shapes table would be ragged): JaggedArray
    refuses it with ValueError instead of storing something else"""
    k0 = choose(k0, 2, 5)
    k1 = choose(k1, 6, 8)
    a, b = entry(k0, reals("u")), entry(k1, reals("v"))
    try:
        JaggedArray([a, b] if first else [b, a], "p")
        raised = False
    except ValueError:
        raised = True
    assert raised


# ----------------------------------------------------------------------------- packSpecialData / unpackSpecialData
database = repo("armi.bookkeeping.db.database")


@lemma(gen={"n": [2, 3], "k0": RAG1, "k1": RAG1, "k2": RAG1})
def ragged_rows_through_pack_and_unpack_special_data(n: int, k0: int, k1: int, k2: int):
    """the write path of Database._writeParams for a ragged parameter: JaggedArray(values) -> packSpecialData ->
    (dataset, attributes) -> unpackSpecialData -> .tolist() (what _readParams does); entries as in
    ragged_rows_of_reals_round_trip.  A collection in which nothing is set is not written at all (data None)."""
    n = choose(n, 2, 3)
    k0 = choose(k0, 0, 5)
    k1 = choose(k1, 0, 5)
    k2 = choose(k2, 0, 5 if n > 2 else 0)
    kinds = [k0, k1, k2][:n]
    vals = [reals("u"), reals("v"), reals("w")][:n]
    values = [entry(kinds[m], vals[m]) for m in range(n)]
    data, attrs = database.packSpecialData(JaggedArray(values, "p"), "p")
    if all(k <= 1 for k in kinds):
        cover("nothing set")
        return
    assert data is not None and data.dtype != "O", "a plain numeric dataset"
    back = database.unpackSpecialData(data, attrs, "p").tolist()
    assert len(back) == n, "one entry per object"
    for m in range(n):
        check_entry(kinds[m], back[m], vals[m], "f")
