"""C16 - a Component inside a retainState scope: dimensions, temperature and number densities come back, LINKED dimensions stay links.

Component.backUp / restoreBackup take the dimension links (tuples holding ANOTHER component) out of the parameter
collection before it is pickled and put them back afterwards.  Executed symbolically on a real `Circle` object:
Component.backUp / restoreBackup / _getLinkedDimsAndValues / _restoreLinkedDims, Composite.backUp / restoreBackup /
retainState, StateRetainer, ParameterCollection.backUp / restoreBackup / __getitem__ / __delitem__ / __setattr__ /
__getstate__ / __setstate__, Parameter.__init__ (REAL constructor) / setter / __get__ / __set__ / backUp / restoreBackup,
ParameterDefinitionCollection.__init__ / add / lock / __getitem__ / __iter__ (REAL).

Stand-ins / hypotheses: `PCC` is a harness subclass of the real ParameterCollection whose class attributes
(_allFields, _slots, one descriptor per parameter) are set to what applyParameters builds; `CircleProbe` subclasses
the real Circle only to state DIMENSION_NAMES, which the ComponentType metaclass derives from Circle.__init__'s
signature (natively the metaclass computes the same tuple).  Pickle of plain data is the engine model; a state that
still contained a link (an object) could not be pickled by the model -> the lemma would be undecided, not ok.
"""
from spec import *

ParameterCollection = repo("armi.reactor.parameters.parameterCollections:ParameterCollection")
Parameter = repo("armi.reactor.parameters.parameterDefinitions:Parameter")
PDC = repo("armi.reactor.parameters.parameterDefinitions:ParameterDefinitionCollection")
NoDefault = repo("armi.reactor.parameters.parameterDefinitions:NoDefault")
SINCE_ANYTHING = repo("armi.reactor.parameters.parameterDefinitions:SINCE_ANYTHING")
Circle = repo("armi.reactor.components.basicShapes:Circle")
DimensionLink = repo("armi.reactor.components.component:_DimensionLink")


class PCC(ParameterCollection):
    """the parameter collection class of the circle (set up by mk_class)"""


class CircleProbe(Circle):
    DIMENSION_NAMES = ("od", "id", "mult", "modArea")


NAMES = ("od", "id", "mult", "modArea", "temperatureInC", "numberDensities")


def mk_class():
    pdc = PDC()
    defs = []
    for nm in NAMES:
        pd = Parameter(nm, "cm", "a parameter of the circle", None, True, None, NoDefault, set())  # the REAL constructor
        pd.collectionType = PCC
        pdc.add(pd)
        setattr(PCC, nm, pd)  # the descriptor binding applyParameters makes
        defs.append(pd)
    pdc.lock()
    PCC.pDefs = pdc
    PCC._allFields = sorted(["_backup", "_hist", "assigned"] + [pd.fieldName for pd in defs])
    PCC._slots = set(PCC._allFields) | set(NAMES) | {"readOnly"}
    return defs


def mk_circle(name, a, od, idim, mult, T, n):
    pc = new(PCC, _backup=None, _hist={}, assigned=a, readOnly=False, _p_od=od, _p_id=idim, _p_mult=mult, _p_modArea=None,
             _p_temperatureInC=T, _p_numberDensities={"U235": n})
    return new(CircleProbe, name=name, parent=None, _children=[], cached={}, _backupCache=None, p=pc, spatialGrid=None, material=None)


@lemma(gen={"a0": (0, 63), "mult": (1, 300)})
def component_scope_restores_dimensions_and_keeps_links(a0: int, fuelOd: float, cladOd: float, mult: int, T0: float, n0: float, newOd: float, newT: float, newN: float,
                                                        keepT: bool):
    """clad.id is LINKED to fuel.od.  Inside a retainState scope on the clad: its od, temperature and number densities are
    re-assigned / updated (the link itself is left alone - re-assigning it: contracts/pending/C16_component_finding.py).
    Afterwards: id is the very same link object (still resolving to the fuel), od / T / number densities are the entry
    values (T kept when asked), nothing is left behind."""
    defs = mk_class()
    fuel = mk_circle("fuel", 0, fuelOd, 0.0, mult, T0, n0)
    link = DimensionLink((fuel, "od"))
    clad = mk_circle("clad", a0, cladOd, link, mult, T0, n0)
    assert same(clad.p["id"], link), "reading the dimension hands out the link"
    with clad.retainState([defs[4]] if keepT else []):
        assert same(clad.p._p_id, link), "the link is in place inside the scope as well"
        clad.p.od = newOd
        clad.p.temperatureInC = newT
        clad.p._p_numberDensities["U235"] = newN
        clad.p.assigned = SINCE_ANYTHING
    assert same(clad.p._p_id, link), "the linked dimension is the same link after the scope"
    assert same(clad.p["id"].getLinkedComponent(), fuel) and clad.p["id"][1] == "od"
    assert clad.p.od == cladOd, "own dimension as at entry"
    assert clad.p.temperatureInC == (newT if keepT else T0), "temperature as at entry unless kept"
    assert clad.p._p_numberDensities["U235"] == n0, "number densities as at entry"
    assert clad.p.mult == mult and clad.p._p_modArea is None
    assert clad.p._backup is None and clad._backupCache is None
    assert fuel.p.od == fuelOd and fuel.p.assigned == 0, "the component linked to is not part of the scope"
