"""C17 - nested cross-section settings: XSModelingOptions / XSSettings / XSSettingDef survive serialisation to plain
dicts and back (the kernel of the write/read cycle: YAML only sees the plain dicts), reject what the schema cannot hold,
and fill defaults without touching what the user set.

Real code executed: XSModelingOptions.__init__ / __iter__ / serialize / validate / setDefaults / xsType / envGroup /
xsIsPregenerated / fluxIsPregenerated, XSSettings.__init__ / __getitem__ / setDefaults / _getDefault,
serializeXSSettings, xsSettingsValidator, XSSettingDef.__init__ / dump, Setting.__init__ / _setSchema / setValue /
value / default / isDefault, XSGeometryTypes.getStr / _mapping, and the module-level schema literals _SINGLE_XS_SCHEMA /
_XS_SCHEMA (evaluated from the source text with the stand-in below).
Stand-in (collaborator outside the engine): `Vol` for the voluptuous package.  Contract assumed: Schema(x)(v) validates
v against x; a dict schema accepts a dict whose every key matches a schema key (Optional(literal) by equality first,
then validator keys) and whose value passes that key's value schema, returns the validated copy and refuses any other
key ("extra keys not allowed"); a list schema accepts a list whose every entry passes one of the listed schemas; a type
(str / bool / int / float) accepts exactly its instances; All(a, b, ...) chains; In(c) accepts members of c;
Length(min, max) bounds len(v); Coerce(T)(v) = T(v) or Invalid.  In the NATIVE run the module keeps the schema objects
it built from the real voluptuous at import time, so the cross-check compares this stand-in with the real package.
"""
from spec import *

xs = repo("armi.physics.neutronics.crossSectionSettings")
XSModelingOptions = repo("armi.physics.neutronics.crossSectionSettings:XSModelingOptions")

if NATIVE:
    import voluptuous

    Invalid = voluptuous.Invalid
else:

    class Invalid(Exception):
        pass


class VolError:
    Invalid = Invalid


class Optional:
    def __init__(self, schema):
        self.schema = schema


def _validate(schema, v):
    """voluptuous' compilation of a schema VALUE: dict -> mapping, list -> sequence of alternatives, type -> isinstance,
    callable -> call"""
    if isinstance(schema, dict):
        return _validate_mapping(schema, v)
    if isinstance(schema, list):
        if not isinstance(v, list):
            raise Invalid("expected a list")
        out = []
        for x in v:
            done = False
            for alt in schema:
                if not done:
                    try:
                        y = _validate(alt, x)
                        done = True
                    except Invalid:
                        pass
            if not done:
                raise Invalid("invalid list value")
            out.append(y)
        return out
    if schema is str or schema is bool or schema is int or schema is float:
        if not isinstance(v, schema):
            raise Invalid("expected " + schema.__name__)
        return v
    return schema(v)


def _validate_mapping(schema, data):
    if not isinstance(data, dict):
        raise Invalid("expected a dictionary")
    out = {}
    for key, value in data.items():
        matched = False
        # literal (marker) keys first, then validator keys - as voluptuous orders its candidates
        for skey, svalue in schema.items():
            if not matched and isinstance(skey, Optional) and skey.schema == key:
                matched = True
                out[key] = _validate(svalue, value)
        for skey, svalue in schema.items():
            if not matched and not isinstance(skey, Optional):
                try:
                    newKey = _validate(skey, key)
                    ok = True
                except Invalid:
                    ok = False
                if ok:
                    matched = True
                    out[newKey] = _validate(svalue, value)
        if not matched:
            raise Invalid("extra keys not allowed")
    return out


class Schema:
    def __init__(self, schema):
        self.schema = schema

    def __call__(self, v):
        return _validate(self.schema, v)


class All:
    def __init__(self, *validators):
        self.validators = validators

    def __call__(self, v):
        for s in self.validators:
            v = _validate(s, v)
        return v


class In:
    def __init__(self, container):
        self.container = container

    def __call__(self, v):
        if v not in self.container:
            raise Invalid("value is not allowed")
        return v


class Length:
    def __init__(self, min=None, max=None):
        self.min = min
        self.max = max

    def __call__(self, v):
        if self.min is not None and len(v) < self.min:
            raise Invalid("too short")
        if self.max is not None and len(v) > self.max:
            raise Invalid("too long")
        return v


class Coerce:
    def __init__(self, type):
        self.type = type

    def __call__(self, v):
        try:
            return self.type(v)
        except (ValueError, TypeError):
            raise Invalid("expected " + self.type.__name__)


class Vol:
    """stand-in for the voluptuous package as used by crossSectionSettings"""

    error = VolError
    Invalid = Invalid
    Schema = Schema
    Optional = Optional
    All = All
    In = In
    Length = Length
    Coerce = Coerce


OV = {"armi.physics.neutronics.crossSectionSettings:vol": "Vol"}
OV2 = {"armi.physics.neutronics.crossSectionSettings:vol": "Vol", "armi.settings.setting:vol": "Vol"}

# every attribute of XSModelingOptions except xsID
FIELDS = (
    "geometry", "xsFileLocation", "fluxFileLocation", "validBlockTypes", "blockRepresentation", "driverID",
    "criticalBuckling", "nuclideReactionDriver", "externalDriver", "useHomogenizedBlockComposition", "numInternalRings",
    "numExternalRings", "mergeIntoClad", "mergeIntoFuel", "meshSubdivisionsPerCm", "xsExecuteExclusive", "xsPriority",
    "xsMaxAtomNumber", "averageByComponent", "minDriverDensity", "ductHeterogeneous", "traceIsotopeThreshold",
    "xsTempIsotope",
)
# the constructor gives these five a value that is not None: "unset" means left at that default
CTOR_DEFAULTS = {"averageByComponent": False, "minDriverDensity": 0.0, "ductHeterogeneous": False,
                 "traceIsotopeThreshold": 0.0, "xsTempIsotope": "U238"}


def same_value(x, y):
    """equality of two option values: None only equals None; text / lists of text / truth values exactly; numbers by eq"""
    if x is None or y is None:
        return x is None and y is None
    if isinstance(x, (str, list, bool)):
        return x == y
    return eq(x, y)


def bit(mask, k):
    return (mask // 2 ** k) % 2 == 1


def round_trip(o):
    """options -> plain dict (as written to a settings file) -> options (as read back)"""
    container = xs.XSSettings()
    container[o.xsID] = o
    plain = xs.serializeXSSettings(container)
    return plain, xs.xsSettingsValidator(plain)


NUMERIC = ("numInternalRings", "numExternalRings", "xsMaxAtomNumber", "meshSubdivisionsPerCm", "xsPriority",
           "minDriverDensity", "traceIsotopeThreshold")


@lemma(overrides=OV, gen={"mask": (0, 127), "i1": (-3, 9), "i2": (-3, 9), "i3": (-3, 120), "f1": (-2.0, 9.0), "f2": (-2.0, 9.0),
                          "f3": (-2.0, 9.0), "f4": (-2.0, 9.0), "z": (0, 127)})
def numeric_options_survive_the_round_trip(mask: int, z: int, i1: int, i2: int, i3: int, f1: float, f2: float, f3: float, f4: float):
    """every subset (mask, 2^7) of the 7 numeric fields set, values symbolic (so 0 / 0.0 are covered for every field
    at once; natively `z` forces zeros); the other fields unset"""
    mask = choose(mask, 0, 127)
    if NATIVE:
        i1, i2, i3 = [0 if bit(z, k) else v for k, v in enumerate((i1, i2, i3))]
        f1, f2, f3, f4 = [0.0 if bit(z, 3 + k) else v for k, v in enumerate((f1, f2, f3, f4))]
    vals = (i1, i2, i3, f1, f2, f3, f4)
    kw = {"geometry": "1D cylinder"}
    for k in range(7):
        if bit(mask, k):
            kw[NUMERIC[k]] = vals[k]
    o = XSModelingOptions("AA", **kw)
    plain, back = round_trip(o)
    d = plain["AA"]
    assert list(plain.keys()) == ["AA"] and "xsID" not in d
    for k in range(7):
        name = NUMERIC[k]
        if bit(mask, k):
            assert name in d and same_value(d[name], vals[k]), "a field that is set - also to zero - is written with its value"
        elif name in CTOR_DEFAULTS:
            assert name in d and same_value(d[name], CTOR_DEFAULTS[name]), "left at the constructor default: written as such"
        else:
            assert name not in d, "an unset (None) field is omitted"
    o2 = back["AA"]
    assert list(back.keys()) == ["AA"] and o2.xsID == "AA" and isinstance(back, xs.XSSettings)
    for name in FIELDS:
        assert same_value(getattr(o, name), getattr(o2, name)), "every option field reads back equal (None as None)"


TRUTH = ("criticalBuckling", "externalDriver", "useHomogenizedBlockComposition", "xsExecuteExclusive", "averageByComponent",
         "ductHeterogeneous")


@lemma(overrides=OV, gen={"mask": (0, 63)})
def truth_valued_options_survive_the_round_trip(mask: int, b1: bool, b2: bool, b3: bool, b4: bool, b5: bool, b6: bool):
    """every subset (2^6) of the 6 truth-valued fields set, values symbolic (False is the falsy-but-set case)"""
    mask = choose(mask, 0, 63)
    vals = (b1, b2, b3, b4, b5, b6)
    kw = {"geometry": "2D hex"}
    for k in range(6):
        if bit(mask, k):
            kw[TRUTH[k]] = vals[k]
    o = XSModelingOptions("BC", **kw)
    plain, back = round_trip(o)
    d = plain["BC"]
    for k in range(6):
        name = TRUTH[k]
        if bit(mask, k):
            assert name in d and d[name] == vals[k], "a field that is set - also to False - is written with its value"
        elif name in CTOR_DEFAULTS:
            assert name in d and d[name] == False
        else:
            assert name not in d, "an unset (None) field is omitted"
    o2 = back["BC"]
    assert o2.xsID == "BC"
    for name in FIELDS:
        assert same_value(getattr(o, name), getattr(o2, name)), "every option field reads back equal (None as None)"


TEXT = ("geometry", "xsFileLocation", "fluxFileLocation", "validBlockTypes", "blockRepresentation", "driverID",
        "nuclideReactionDriver", "mergeIntoClad", "mergeIntoFuel", "xsTempIsotope")
TEXT_VALUES = (
    # (a value, the falsy-but-set value of the same type)
    ("0D", "1D slab"), (["a.isotxs", "b.isotxs"], []), ("flux.ascii", ""), (["fuel", "control"], []), ("Average", "Median"),
    ("AB", ""), ("U235", ""), (["gap", "bond"], []), (["liner"], []), ("PU239", ""),
)


def text_round_trip(mask, falsy):
    kw = {}
    for k in range(10):
        if bit(mask, k):
            kw[TEXT[k]] = TEXT_VALUES[k][falsy]
    o = XSModelingOptions("ZA", **kw)
    container = xs.XSSettings()
    container["ZA"] = o
    plain = xs.serializeXSSettings(container)
    d = plain["ZA"]
    for k in range(10):
        name = TEXT[k]
        if bit(mask, k):
            assert name in d and d[name] == TEXT_VALUES[k][falsy], "a field that is set - also to '' or [] - is written with its value"
        elif name in CTOR_DEFAULTS:
            assert d[name] == CTOR_DEFAULTS[name]
        else:
            assert name not in d, "an unset (None) field is omitted"
    valid = bit(mask, 0) or (bit(mask, 1) and not bit(mask, 2))  # a geometry, or a cross-section file and no flux file
    try:
        back = xs.xsSettingsValidator(plain)
        accepted = True
    except ValueError:
        accepted = False
    assert accepted == valid, "read back exactly when a geometry or (only) a cross-section file location is given"
    if accepted:
        o2 = back["ZA"]
        assert o2.xsID == "ZA"
        for name in FIELDS:
            assert same_value(getattr(o, name), getattr(o2, name)), "every option field reads back equal (None as None)"


@lemma(overrides=OV, gen={"mask": (0, 1023)})
def text_and_list_options_survive_the_round_trip_or_are_refused(mask: int):
    """every subset (2^10) of the 10 text / list-of-text fields set to an ordinary value; all values concrete.  Options
    without a geometry and without a cross-section file (or with a flux file but no geometry) are not valid and must
    be refused when read."""
    text_round_trip(choose(mask, 0, 1023), 0)


@lemma(overrides=OV, gen={"mask": (0, 1023)})
def empty_text_and_empty_lists_are_values_not_absence(mask: int):
    """the same 2^10 subsets with every set field at its falsy value: '' for text, [] for lists (geometry and block
    representation: another admissible option)"""
    text_round_trip(choose(mask, 0, 1023), 1)


@lemma(overrides=OV, gen={"g": (0, 3), "r": (0, 5), "rings": (-3, 9)})
def every_geometry_and_block_representation_is_accepted(g: int, r: int, rings: int, mesh: float):
    """the 4 geometry names x the 6 block representations, two ids in one container"""
    g = choose(g, 0, 3)
    r = choose(r, 0, 5)
    geom = ("0D", "1D slab", "1D cylinder", "2D hex")[g]
    rep = ("Median", "Average", "FluxWeightedAverage", "ComponentAverage1DSlab", "ComponentAverage1DCylinder",
           "ComponentAverage1DCylinderDuctHeterogeneous")[r]
    container = xs.XSSettings()
    container["AA"] = XSModelingOptions("AA", geometry=geom, blockRepresentation=rep, numExternalRings=rings)
    container["B"] = XSModelingOptions("B", xsFileLocation=["lib.isotxs"], blockRepresentation=rep, meshSubdivisionsPerCm=mesh)
    plain = xs.serializeXSSettings(container)
    back = xs.xsSettingsValidator(plain)
    assert sorted(back.keys()) == ["AA", "B"], "one entry per cross-section id, under the same id"
    for xsID in ("AA", "B"):
        assert back[xsID].xsID == xsID
        for name in FIELDS:
            assert same_value(getattr(container[xsID], name), getattr(back[xsID], name))


@lemma(overrides=OV, gen={"rings": (-3, 9), "case": (0, 5), "mesh": (-2.0, 3.0)})
def plain_dict_input_is_serialised_like_options(rings: int, mesh: float, b: bool, case: int):
    """serializeXSSettings on the dict-of-dicts form a settings file delivers"""
    src = {"AA": {"xsID": "AA", "geometry": "0D", "numInternalRings": rings, "meshSubdivisionsPerCm": mesh, "criticalBuckling": b,
                  "driverID": None, "mergeIntoFuel": [], "fluxFileLocation": ""},
           "AB": {}, "AC": None}
    out = xs.serializeXSSettings(src)
    assert list(out.keys()) == ["AA"], "empty / None entries are skipped"
    d = out["AA"]
    assert sorted(d.keys()) == sorted(["criticalBuckling", "fluxFileLocation", "geometry", "meshSubdivisionsPerCm", "mergeIntoFuel", "numInternalRings"]), \
        "xsID and None values are omitted, falsy values are kept"
    assert d["numInternalRings"] == rings and eq(d["meshSubdivisionsPerCm"], mesh) and d["criticalBuckling"] == b
    assert d["mergeIntoFuel"] == [] and d["fluxFileLocation"] == "" and d["geometry"] == "0D"
    assert src["AA"]["xsID"] == "AA" and src["AA"]["driverID"] is None and len(src) == 3, "the input is not modified"
    src["AB"] = {"driverID": None, "xsID": "AB"}
    back = xs.xsSettingsValidator(src)
    assert list(back.keys()) == ["AA"], "an entry none of whose fields is set is no entry (it is neither read as options nor an error)"
    assert back["AA"].numInternalRings == rings and back["AA"].fluxFileLocation == "" and back["AA"].driverID is None
    case = choose(case, 0, 5)
    bad = (None, 3, "AA", [("AA", {})], {"AA": 3}, {"AA": [1]})[case]
    try:
        xs.serializeXSSettings(bad)
        ok = True
    except TypeError:
        ok = False
    assert not ok, "anything but a dict of dicts / options is refused"


def refused(plain):
    try:
        xs.xsSettingsValidator(plain)
        return False
    except Invalid:
        return True


@lemma(overrides=OV, gen={"case": (0, 15), "rings": (-3, 9)})
def values_the_schema_cannot_hold_are_refused(case: int, rings: int, mesh: float):
    """one near-miss per schema clause (16 cases, concrete shapes; the numeric values of the good part symbolic)"""
    case = choose(case, 0, 15)
    good = {"geometry": "1D cylinder", "numInternalRings": rings, "meshSubdivisionsPerCm": mesh}
    assert not refused({"AA": good}), "the base entry is valid"
    bad = dict(good)
    key = "AA"
    if case == 0:
        bad["noSuchOption"] = 1  # unknown key
    elif case == 1:
        bad["geometry"] = None  # None means unset (dropped before the schema sees it) ...
        bad["numberOfRings"] = rings  # ... but a misspelt key with a value is refused
    elif case == 2:
        key = "AAA"  # id longer than two characters
    elif case == 3:
        key = ""  # empty id
    elif case == 4:
        bad["geometry"] = "3D"  # not in the option list
    elif case == 5:
        bad["blockRepresentation"] = "Mean"  # not in the option list
    elif case == 6:
        bad["criticalBuckling"] = "yes"  # text for a truth value
    elif case == 7:
        bad["criticalBuckling"] = rings  # a number for a truth value
    elif case == 8:
        bad["driverID"] = rings  # a number for text
    elif case == 9:
        bad["mergeIntoClad"] = "gap"  # text for a list of text
    elif case == 10:
        bad["validBlockTypes"] = ["fuel", 3]  # a list with a non-text entry
    elif case == 11:
        bad["numExternalRings"] = "two"  # text that is not an integer
    elif case == 12:
        bad["xsPriority"] = [1.0]  # a list for a number
    elif case == 13:
        bad["xsTempIsotope"] = ["U238"]  # a list for text
    elif case == 14:
        bad["geometry"] = 0  # a number for an option name
    else:
        bad["xsFileLocation"] = [["a"]]  # nested list
    assert refused({key: bad}), "a key or value the schema does not admit is rejected with an error"
    if case != 2 and case != 3:
        assert refused({"AB": good, key: bad}), "also next to a valid entry"


@lemma(overrides=OV2, gen={"rings": (-3, 9), "prio": (-2.0, 9.0), "bad": (0, 2)})
def setting_definition_dump_and_load_are_inverse(rings: int, prio: float, b: bool, bad: int):
    """XSSettingDef (the Setting that holds the container): setValue(plain) -> value -> dump() -> setValue on a fresh
    definition gives equal options; an invalid value is rejected and leaves the previous value in place"""
    sd = xs.XSSettingDef("crossSectionControl")
    assert sd.isDefault() and len(sd.value) == 0 and sd.dump() == {}
    plain = {"AA": {"geometry": "0D", "numInternalRings": rings, "xsPriority": prio, "criticalBuckling": b, "mergeIntoFuel": []},
             "BA": {"xsFileLocation": ["x.isotxs"], "xsExecuteExclusive": b}}
    sd.setValue(plain)
    assert isinstance(sd.value, xs.XSSettings) and sorted(sd.value.keys()) == ["AA", "BA"]
    assert not sd.isDefault() and len(sd.default) == 0, "the default is not aliased by the value"
    written = sd.dump()
    for xsID in ("AA", "BA"):
        for name in plain[xsID]:
            assert same_value(written[xsID][name], plain[xsID][name]), "what was set is written - falsy values included"
        assert "xsID" not in written[xsID] and "driverID" not in written[xsID]
    sd2 = xs.XSSettingDef("crossSectionControl")
    sd2.setValue(written)
    for xsID in ("AA", "BA"):
        assert sd2.value[xsID].xsID == xsID
        for name in FIELDS:
            assert same_value(getattr(sd.value[xsID], name), getattr(sd2.value[xsID], name)), "dump -> load gives equal options"
    assert sd2.dump() == written, "and writing again gives the same plain form"
    before = sd2.value
    bad = choose(bad, 0, 2)
    wrong = ({"AA": {"geometry": "0D", "bogus": 1}}, {"AAA": {"geometry": "0D"}}, {"AA": {"geometry": "0D", "criticalBuckling": 2}})[bad]
    try:
        sd2.setValue(wrong)
        ok = True
    except Invalid:
        ok = False
    assert not ok and sd2.value is before and sorted(sd2.value.keys()) == ["AA", "BA"], "a rejected value leaves the previous value in place"
    assert sd2.value["AA"].numInternalRings == rings


def stored(ids):
    c = xs.XSSettings()
    for k, xsID in enumerate(ids):
        c[xsID] = XSModelingOptions(xsID, geometry="1D slab", xsPriority=k)
    return c


IDS = ("AA", "AB", "AD", "BB", "YZ", "ZA")
ASKED = ("AA", "AB", "AC", "AE", "BA", "BB", "BC", "YA", "YZ", "ZB", "CA", "A0")


RANK0 = 0  # armi.context.MPI_RANK of the primary (or only) process - the module computes it from mpi4py at import time
OVRANK = {"armi.context:MPI_RANK": "RANK0"}


@lemma(overrides=OVRANK, gen={"mask": (0, 63), "q": (0, 11)})
def lookup_of_a_missing_id_uses_the_lowest_earlier_sibling_or_a_default(mask: int, q: int):
    """XSSettings[xsID] for every subset (2^6) of six stored ids x 12 asked ids (concrete text).  Reference, from the
    method's documentation: the stored entry if there is one; else the entry of the same type letter with the LOWEST
    environment-group letter among those below the asked one; else a fresh 0D default carrying the asked id - which
    needs setDefaults to have been called."""
    mask = choose(mask, 0, 63)
    q = choose(q, 0, 11)
    ids = [IDS[k] for k in range(6) if bit(mask, k)]
    asked = ASKED[q]
    c = stored(ids)
    siblings = sorted([i for i in ids if i[0] == asked[0] and i[1] < asked[1]])
    if asked in ids:
        assert c[asked] is dict.__getitem__(c, asked) and c[asked].xsID == asked, "a stored id gives its own entry"
    elif siblings:
        assert c[asked] is dict.__getitem__(c, siblings[0]), "the lowest earlier sibling of the same type stands in"
        assert asked not in c.keys(), "looking up does not store anything"
    else:
        try:
            c[asked]
            ok = True
        except ValueError:
            ok = False
        assert not ok, "no default can be made before setDefaults was called"
        c.setDefaults("Average", ["fuel"])
        o = c[asked]
        assert o.xsID == asked and o.geometry == "0D", "a fresh 0D entry under the asked id"
        assert o.blockRepresentation == "Average" and o.validBlockTypes == ["fuel"], "with the defaults given to setDefaults"
        assert o.criticalBuckling == True and o.driverID == "" and o.xsExecuteExclusive == False and o.xsPriority == 5
        for i in ids:
            assert o is not dict.__getitem__(c, i), "never one of the unrelated stored entries"
    assert sorted(c.keys()) == sorted(ids), "the container is unchanged"


GEOMS = ("0D", "1D slab", "1D cylinder", "2D hex", None)  # None: pre-generated cross sections (a file location, no geometry)
# block representations a geometry admits (the ValueError text of setDefaults names them)
ALLOWED = (("Median", "Average", "FluxWeightedAverage"), ("ComponentAverage1DSlab",), ("ComponentAverage1DCylinder",),
           ("Median", "Average", "FluxWeightedAverage"), ("Median", "Average", "FluxWeightedAverage"))
REPS = ("Median", "Average", "FluxWeightedAverage", "ComponentAverage1DSlab", "ComponentAverage1DCylinder")
# reference table of the recommended values per geometry (transcribed once from setDefaults; `REP` = the case-wide
# block representation handed in, `VBT` = the resolved valid block types); fields not listed get no default
REFERENCE = (
    {"criticalBuckling": True, "driverID": "", "blockRepresentation": "REP", "validBlockTypes": "VBT"},
    {"meshSubdivisionsPerCm": 1.0, "blockRepresentation": "ComponentAverage1DSlab", "validBlockTypes": "VBT"},
    {"driverID": "", "mergeIntoClad": ["gap"], "mergeIntoFuel": [], "meshSubdivisionsPerCm": 1.0, "numInternalRings": 0,
     "numExternalRings": 1, "useHomogenizedBlockComposition": False, "blockRepresentation": "ComponentAverage1DCylinder",
     "validBlockTypes": "VBT", "ductHeterogeneous": False, "traceIsotopeThreshold": 0.0},
    {"criticalBuckling": False, "externalDriver": True, "driverID": "", "numExternalRings": 1, "blockRepresentation": "REP"},
    {"blockRepresentation": "REP"},
)
EXECUTION = {"xsExecuteExclusive": False, "xsPriority": 5, "averageByComponent": False}
USER = ("blockRepresentation", "criticalBuckling", "numExternalRings", "meshSubdivisionsPerCm", "xsPriority", "validBlockTypes")


def defaults_case(g, mask, vbt, rep, b, rings, mesh, prio):
    caseRep = REPS[rep]
    caseVbt = (True, False, None, ["fuel", "blanket"])[vbt]
    resolved = (None, ["fuel"], None, ["fuel", "blanket"])[vbt]  # True / None: all block types; False: just fuel; a list: that list
    userVals = (ALLOWED[g][0], b, rings, mesh, prio, ["control"])
    kw = {"xsFileLocation": ["lib.isotxs"]} if GEOMS[g] is None else {"geometry": GEOMS[g]}
    for k in range(6):
        if bit(mask, k):
            kw[USER[k]] = userVals[k]
    o = XSModelingOptions("AA", **kw)
    before = {name: getattr(o, name) for name in FIELDS}
    o.setDefaults(caseRep, caseVbt)
    for name in FIELDS:
        was = before[name]
        now = getattr(o, name)
        if was is not None:
            assert same_value(now, was), "a field that has a value - also 0 / False / [] - is never overwritten by a default"
        elif name in REFERENCE[g]:
            want = REFERENCE[g][name]
            want = caseRep if want == "REP" else (resolved if want == "VBT" else want)
            assert same_value(now, want), "an unset field with a recommended value for this geometry gets it"
        elif name in EXECUTION:
            assert same_value(now, EXECUTION[name])
        else:
            assert now is None, "a field without a recommended value for this geometry stays unset"
    assert o.xsID == "AA"
    after = {name: getattr(o, name) for name in FIELDS}
    o.setDefaults(caseRep, caseVbt)
    for name in FIELDS:
        assert same_value(getattr(o, name), after[name]), "setting defaults again changes nothing"


@lemma(gen={"g": (0, 4), "mask": (0, 63), "rings": (-3, 9), "mesh": (-2.0, 9.0), "prio": (-2.0, 9.0)})
def defaults_fill_exactly_the_unset_fields(g: int, mask: int, b: bool, rings: int, mesh: float, prio: float):
    """XSModelingOptions.setDefaults for the 4 geometries + pre-generated x every subset (2^6) of six user-set fields
    (block representation, buckling, external rings, mesh, priority, valid block types; values symbolic)"""
    defaults_case(choose(g, 0, 4), choose(mask, 0, 63), 1, 1, b, rings, mesh, prio)


@lemma(gen={"g": (0, 4), "u": (0, 3), "vbt": (0, 3), "rep": (0, 2), "rings": (-3, 9), "mesh": (-2.0, 9.0), "prio": (-2.0, 9.0)})
def case_wide_defaults_reach_only_unset_fields(g: int, u: int, vbt: int, rep: int, b: bool, rings: int, mesh: float, prio: float):
    """the same for the 4 kinds of the case-wide validBlockTypes (True / False / None / a list) x 3 case-wide block
    representations x {block representation, valid block types} set by the user or not x 5 geometry kinds"""
    u = choose(u, 0, 3)
    defaults_case(choose(g, 0, 4), (1 if bit(u, 0) else 0) + (32 if bit(u, 1) else 0) + 4, choose(vbt, 0, 3), choose(rep, 0, 2), b, rings, mesh, prio)


@lemma(overrides=OV, gen={"g": (0, 4), "rep": (0, 4), "rings": (-3, 9), "mesh": (-2.0, 9.0), "vbt": (0, 3)})
def options_with_defaults_still_survive_the_round_trip(g: int, rep: int, vbt: int, rings: int, mesh: float):
    """after setDefaults (4 geometries + pre-generated x 5 case-wide representations x 4 kinds of validBlockTypes) the
    options are written and read back equal: what the defaults filled in is written like a user value"""
    g = choose(g, 0, 4)
    rep = choose(rep, 0, 4)
    vbt = choose(vbt, 0, 3)
    kw = {"xsFileLocation": ["lib.isotxs"]} if GEOMS[g] is None else {"geometry": GEOMS[g]}
    o = XSModelingOptions("CB", numInternalRings=rings, minDriverDensity=mesh, **kw)
    o.setDefaults(REPS[rep], (True, False, None, ["fuel", "blanket"])[vbt])
    plain, back = round_trip(o)
    for name in FIELDS:
        assert same_value(getattr(o, name), getattr(back["CB"], name)), "every option field reads back equal (None as None)"
        assert (name in plain["CB"]) == (getattr(o, name) is not None), "written exactly when it has a value"


@lemma(gen={"g": (0, 4), "rep": (0, 5), "caseRep": (0, 5)})
def a_block_representation_the_geometry_does_not_admit_is_refused(g: int, rep: int, caseRep: int):
    """5 geometry kinds x 6 user representations x 6 case-wide ones: a user-set representation outside the list the
    geometry admits is refused with ValueError, an admitted one is kept; the case-wide one is only a default"""
    g = choose(g, 0, 4)
    rep = choose(rep, 0, 5)
    caseRep = choose(caseRep, 0, 5)
    allReps = REPS + ("ComponentAverage1DCylinderDuctHeterogeneous",)
    kw = {"xsFileLocation": ["lib.isotxs"]} if GEOMS[g] is None else {"geometry": GEOMS[g]}
    o = XSModelingOptions("AA", blockRepresentation=allReps[rep], **kw)
    try:
        o.setDefaults(allReps[caseRep], None)
        ok = True
    except ValueError:
        ok = False
    assert ok == (allReps[rep] in ALLOWED[g]), "accepted exactly when the geometry admits the representation"
    assert o.blockRepresentation == allReps[rep], "the user's value is not replaced"


@lemma(gen={"mask": (0, 3)})
def options_without_geometry_or_file_location_are_refused(mask: int):
    """validate(): the 4 combinations of cross-section file / flux file without a geometry, and with one"""
    mask = choose(mask, 0, 3)
    kw = {}
    if bit(mask, 0):
        kw["xsFileLocation"] = ["lib.isotxs"]
    if bit(mask, 1):
        kw["fluxFileLocation"] = "flux.ascii"
    o = XSModelingOptions("AA", **kw)
    try:
        o.validate()
        ok = True
    except ValueError:
        ok = False
    assert ok == (mask == 1), "without a geometry only a cross-section file alone is enough"
    o.geometry = "0D"
    o.validate()
    c = xs.XSSettings()
    c["AA"] = XSModelingOptions("AA", **kw)
    try:
        c.setDefaults("Median", True)
        ok2 = True
    except ValueError:
        ok2 = False
    assert ok2 == (mask == 1), "the container's setDefaults validates every entry"


# ----------------------------------------------------------------------------- engine models used above, checked against Python
from enum import Enum  # noqa: E402


class Shelf(dict):
    """a dict subclass in the style of XSSettings: own __init__ / __getitem__, everything else inherited from dict"""

    def __init__(self, *args, **kwargs):
        dict.__init__(self, *args, **kwargs)
        self.misses = 0

    def __getitem__(self, key):
        if key in self:
            return dict.__getitem__(self, key)
        self.misses += 1
        return None


class Plain(dict):
    pass


class Colour(Enum):
    RED = 1
    GREEN = 2
    BLUE = 4

    @classmethod
    def names(cls):
        return [m.name for m in cls]


class Mark:
    def __init__(self, name, *parts):
        self.name = name
        self.parts = parts


MARKED = {Mark("first", Mark("inner")): 1, Mark("second"): 2, "plain": 3}  # a module-level constant with objects as keys


@lemma(gen={"a": (-5, 5), "b": (-5, 5)})
def dict_subclass_and_enum_models_agree_with_python(a: int, b: int):
    """the same assertions run on the engine's model (dict payload of a dict subclass, enum class iteration /
    subscription) and, natively, on Python itself"""
    s = Shelf({"x": a}, y=b)
    assert isinstance(s, dict) and isinstance(s, Shelf) and not isinstance({}, Shelf)
    assert len(s) == 2 and bool(s) and list(s.keys()) == ["x", "y"] and list(s.values()) == [a, b]
    assert s["x"] == a and s["nope"] is None and s.misses == 1 and "nope" not in s, "the class's own __getitem__ is used"
    assert s.get("nope", 7) == 7 and s.get("y") == b, "dict.get does not go through __getitem__"
    s["z"] = a + b
    assert list(s.items()) == [("x", a), ("y", b), ("z", a + b)] and [k for k in s] == ["x", "y", "z"]
    assert s == {"x": a, "y": b, "z": a + b} and {"x": a, "y": b, "z": a + b} == s, "compares as its mapping"
    del s["x"]
    assert "x" not in s and len(s) == 2 and s.pop("y") == b and s.setdefault("w", 3) == 3
    s.update({"q": 1}, r=2)
    assert sorted(s) == ["q", "r", "w", "z"]
    e = Shelf()
    assert not e and len(e) == 0 and e == {} and e.misses == 0
    p = Plain(k=a)
    assert p["k"] == a and Plain() == {} and p != Plain() and Plain([("u", 1)]) == {"u": 1}
    try:
        p["missing"]
        ok = True
    except KeyError:
        ok = False
    assert not ok
    import copy

    q = copy.copy(p)
    q["extra"] = 1
    dq = copy.deepcopy(p)
    dq["k"] = a + 1
    assert "extra" not in p and p["k"] == a and q["k"] == a and isinstance(q, Plain) and isinstance(dq, Plain), "copies are new mappings"
    dict.__setitem__(p, "m", b)
    assert dict.__contains__(p, "m") and dict.__len__(p) == 2
    assert list(Colour) == [Colour.RED, Colour.GREEN, Colour.BLUE] and Colour.names() == ["RED", "GREEN", "BLUE"]
    assert Colour["GREEN"] is Colour.GREEN and Colour.BLUE.value == 4 and Colour.RED in list(Colour)
    try:
        Colour["PINK"]
        ok = True
    except KeyError:
        ok = False
    assert not ok
    keys = list(MARKED.keys())
    assert [k.name for k in keys[:2]] == ["first", "second"] and keys[2] == "plain" and isinstance(keys[0], Mark)
    assert keys[0].parts[0].name == "inner" and isinstance(keys[0].parts[0], Mark), "objects inside tuples of a constant's objects"
    assert MARKED[keys[1]] == 2 and MARKED["plain"] == 3 and keys[0] in MARKED and Mark("first") not in MARKED
    table = {Colour.RED: "r", Colour.GREEN: "g"}
    assert table[Colour[Colour.RED.name]] == "r" and Colour.BLUE not in table
