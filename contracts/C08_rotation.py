"""C08, last clause - rotating a hex block / assembly moves its pins, free-coordinate children, per-corner / per-edge
data, displacement vector and orientation accordingly: lemmas over the real HexBlock.rotate / HexAssembly.rotate.

Conventions taken from the documentation of the code (NOT from what the code does):
* `rad` is the angle of COUNTER-CLOCKWISE rotation (HexBlock.rotate, HexAssembly.rotate, Block.rotate docstrings);
* per-corner / per-edge parameters have six entries "one value for each corner, starting at the upper right and moving
  counter clockwise" (doc/user/spatial_block_parameters.rst): entry m sits at polar angle a0 + m x 60 degrees, so a
  counter-clockwise rotation by k x 60 degrees carries the value at entry m to entry (m + k) mod 6 - for corners and
  edges alike;
* `p.orientation` is the "triple representing rotations counterclockwise around each spatial axis" in degrees
  ("a hex assembly rotated by 1/6th has orientation (0,0,60.0)"); getRotationNum is its z entry in 60-degree steps mod 6;
* `displacementX/Y` is the displacement vector: it rotates as a vector.

Objects: real HexBlock / HexAssembly / Composite children allocated with new() (no __init__), real HexGrid (attributes
as established by the real constructor, see C07 constructors lemma; unit steps from the real _getRawUnitSteps), real
IndexLocation / MultiIndexLocation / CoordinateLocation built by their constructors.
Stand-ins (collaborators): PMap - a ParameterCollection viewed as a name -> value map (the view used in C02/C03/C11),
with PDefs / Names standing for `p.paramDefs.atLocation(loc).names` (contract: the names of the parameters defined at
that ParamLocation; natively checked against the real block parameter definitions in
`corner_and_edge_parameter_names_are_the_real_ones`).
The step count k is enumerated completely over a stated range with choose() (k x pi / 3 is then an exact multiple of
pi / 3: the engine knows sin / cos there); every content (indices, coordinates, six-vectors, displacement, orientation,
pitch) is symbolic.
"""
import math

import numpy as np

from spec import *

HexGrid = repo("armi.reactor.grids.hexagonal:HexGrid")
IndexLocation = repo("armi.reactor.grids.locations:IndexLocation")
MultiIndexLocation = repo("armi.reactor.grids.locations:MultiIndexLocation")
CoordinateLocation = repo("armi.reactor.grids.locations:CoordinateLocation")
HexBlock = repo("armi.reactor.blocks:HexBlock")
Block = repo("armi.reactor.blocks:Block")
HexAssembly = repo("armi.reactor.assemblies:HexAssembly")
Assembly = repo("armi.reactor.assemblies:Assembly")
Composite = repo("armi.reactor.composites:Composite")
ParamLocation = repo("armi.reactor.parameters.parameterDefinitions:ParamLocation")
hexagon = repo("armi.utils.hexagon")

SQRT3 = hexagon.SQRT3

CORNER_NAMES = ["THcornTemp", "cornerFastFlux", "pointsCornerFastFluxFr", "pointsCornerDpa", "pointsCornerDpaRate"]
EDGE_NAMES = ["THedgeTemp", "pointsEdgeFastFluxFr", "pointsEdgeDpa", "pointsEdgeDpaRate"]


class Names:
    pass


class PDefs:
    """stand-in for ParameterDefinitionCollection: atLocation(loc).names = names of the parameters defined at loc"""

    def atLocation(self, loc):
        if loc == ParamLocation.CORNERS:
            return new(Names, names=list(CORNER_NAMES))
        if loc == ParamLocation.EDGES:
            return new(Names, names=list(EDGE_NAMES))
        return new(Names, names=[])


class PMap:
    """Abstract view of a ParameterCollection: a name -> value map (trusted model of `self.p`)."""

    def __getitem__(self, k):
        return getattr(self, k)

    def __setitem__(self, k, v):
        setattr(self, k, v)

    def get(self, k, d=None):
        return getattr(self, k, d)


def hexgrid(pitch, cornersUp):
    us = HexGrid._getRawUnitSteps(pitch, cornersUp)
    return new(
        HexGrid,
        _unitSteps=np.array(us),
        _bounds=(None, None, None),
        _stepDims=((0, 1, 2),),
        _boundDims=((),),
        _offset=np.zeros(3),
        _unitStepLimits=((-3, 3), (-3, 3), (0, 1)),
        _symmetry="",
        _isAxialOnly=False,
        armiObject=None,
        _locations={},
    )


def rot60(x, y):
    """coordinates rotated by 60 degrees counter-clockwise"""
    return x / 2.0 - SQRT3 / 2.0 * y, SQRT3 / 2.0 * x + y / 2.0


def rotk(x, y, k):
    """coordinates rotated by k x 60 degrees counter-clockwise (k a concrete int of either sign)"""
    for _ in range(k % 6):
        x, y = rot60(x, y)
    return x, y


def params(o0, o1, o2, dx, dy, corner, edge, **more):
    """the boundary / orientation / displacement part of a block's parameters"""
    d = dict(
        paramDefs=new(PDefs),
        orientation=np.array((o0, o1, o2)),
        displacementX=dx,
        displacementY=dy,
        THcornTemp=None,
        cornerFastFlux=corner,
        pointsCornerFastFluxFr=None,
        pointsCornerDpa=None,
        pointsCornerDpaRate=None,
        THedgeTemp=None,
        pointsEdgeFastFluxFr=None,
        pointsEdgeDpa=edge,
        pointsEdgeDpaRate=None,
    )
    d.update(more)
    return new(PMap, **d)


KGEN = {
    "k": (-40, 40),
    "a": (-20, 20),
    "b": (-20, 20),
    "pitch": (0.05, 40.0),
    "i": (-9, 9),
    "j": (-9, 9),
    "m": (-9, 9),
    "n": (-9, 9),
    "rotNum": (0, 5),
}


def hasFlags_contract(self, typeID, exact=False):
    """assumed contract of ArmiObject.hasFlags(Flags.CLAD): a pure boolean attribute of the child (bit operations on
    Flags are outside the subset)"""
    return self.isClad


HASFLAGS = {"armi.reactor.composites:ArmiObject.hasFlags": "hasFlags_contract"}


def turned_by(p, o2, k):
    """orientation (degrees about z) advanced by k x 60 degrees modulo 360"""
    turned = (p.orientation[2] - o2 - 60 * k) / 360
    if NATIVE:
        return eq(turned, round(turned))
    return turned == int(turned)


# ----------------------------------------------------------------------------- HexBlock.rotate, every integer k
def check_block_rotation(k, pitch, cornersUp, i, j, m, n, cx, cy, cz, corner, ev, dx, dy, o0, o1, o2):
    """HexBlock.rotate(k x pi / 3) for EVERY integer k (symbolic; only the residue k mod 6 is split into its six cases),
    every pitch, every content; the grid orientation is fixed by the calling lemma (both are covered).

    pins (an IndexLocation child and both entries of a MultiIndexLocation child): the cell CENTRE is rotated by k x 60
    degrees counter-clockwise, axial index and grid kept, and getPinCoordinates() (real; clad children selected through
    the hasFlags contract) lists the rotated centres in the same pin order; free-coordinate child: (x, y) rotated, z
    kept; a child without location stays so; corner list and edge array: the value at entry q is found at entry
    (q + k) mod 6, same direction for corners and edges, container kind kept; displacement rotated as a vector;
    orientation: z entry advanced by k x 60 degrees modulo 360, x / y entries kept.  k mod 6 = 0 (k = 0, 6, -6, ...)
    is therefore the identity.  Natively the step count derived from the floating-point angle may be 6 instead of 0
    (DESIGN 1.4): every statement here is insensitive to that.
    """
    r = choose(k % 6, 0, 5)
    assume(pitch > 0)
    g = hexgrid(pitch, cornersUp)
    pin = new(Composite, spatialLocator=IndexLocation(i, j, 2, g), isClad=True)
    multi = MultiIndexLocation(g)
    multi.append(IndexLocation(i, j, 0, g))
    multi.append(IndexLocation(m, n, 1, g))
    pins = new(Composite, spatialLocator=multi, isClad=True)
    free = new(Composite, spatialLocator=CoordinateLocation(cx, cy, cz, g), isClad=False)
    nowhere = new(Composite, spatialLocator=None, isClad=False)
    edge = np.array(list(ev))
    p = params(o0, o1, o2, dx, dy, list(corner), np.array(list(ev)))
    b = new(HexBlock, spatialGrid=g, _children=[pin, pins, free, nowhere], p=p)
    x1, y1 = g.getCoordinates((i, j, 0))[:2]
    x2, y2 = g.getCoordinates((m, n, 0))[:2]
    before = b.getPinCoordinates()
    assert len(before) == 3 and eq(tuple(before[0][:2]), (x1, y1)) and eq(tuple(before[2][:2]), (x2, y2))

    b.rotate(k * math.pi / 3)

    # pins
    pl = pin.spatialLocator
    assert isinstance(pl, IndexLocation) and pl.grid is g and pl.k == 2
    assert eq(tuple(pl.getLocalCoordinates()[:2]), rotk(x1, y1, r)), "pin centre rotated by k x 60 degrees ccw"
    ml = pins.spatialLocator
    assert isinstance(ml, MultiIndexLocation) and len(ml) == 2 and ml.grid is g
    assert eq(tuple(ml[0].getLocalCoordinates()[:2]), rotk(x1, y1, r)) and ml[0].k == 0 and ml[0].grid is g
    assert eq(tuple(ml[1].getLocalCoordinates()[:2]), rotk(x2, y2, r)) and ml[1].k == 1 and ml[1].grid is g
    after = b.getPinCoordinates()
    assert len(after) == 3
    for t in range(3):
        assert eq(tuple(after[t][:2]), rotk(before[t][0], before[t][1], r)), "getPinCoordinates: same pins, rotated"
        assert eq(after[t][2], before[t][2])
    # free-coordinate child
    fl = free.spatialLocator
    assert isinstance(fl, CoordinateLocation) and fl.grid is g
    assert eq((fl.i, fl.j), rotk(cx, cy, r)) and eq(fl.k, cz), "free child rotated about the z axis"
    assert nowhere.spatialLocator is None
    assert b.spatialGrid is g
    # per-corner / per-edge data
    assert isinstance(p.cornerFastFlux, list) and len(p.cornerFastFlux) == 6
    assert isinstance(p.pointsEdgeDpa, np.ndarray) and len(p.pointsEdgeDpa) == 6
    for q in range(6):
        assert eq(p.cornerFastFlux[(q + r) % 6], corner[q]), "corner value q is found at corner q + k"
        assert eq(p.pointsEdgeDpa[(q + r) % 6], edge[q]), "edge value q is found at edge q + k"
    # displacement and orientation
    assert eq((p.displacementX, p.displacementY), rotk(dx, dy, r)), "displacement rotated as a vector"
    assert eq(p.orientation[0], o0) and eq(p.orientation[1], o1)
    assert turned_by(p, o2, k), "orientation advanced by k x 60 degrees modulo 360"


@lemma(gen=KGEN, stubs=HASFLAGS)
def hex_block_rotate_for_every_integer_step_count_corners_up_grid(
    k: int, pitch: float, i: int, j: int, m: int, n: int, cx: float, cy: float, cz: float,
    c0: float, c1: float, c2: float, c3: float, c4: float, c5: float,
    e0: float, e1: float, e2: float, e3: float, e4: float, e5: float,
    dx: float, dy: float, o0: float, o1: float, o2: float,
):
    """check_block_rotation (see its docstring) for a block whose pin grid is corners-up (the grid a flats-up hex block
    gets from autoCreateSpatialGrids)"""
    check_block_rotation(k, pitch, True, i, j, m, n, cx, cy, cz, [c0, c1, c2, c3, c4, c5], [e0, e1, e2, e3, e4, e5], dx, dy, o0, o1, o2)


@lemma(gen=KGEN, stubs=HASFLAGS)
def hex_block_rotate_for_every_integer_step_count_flats_up_grid(
    k: int, pitch: float, i: int, j: int, m: int, n: int, cx: float, cy: float, cz: float,
    c0: float, c1: float, c2: float, c3: float, c4: float, c5: float,
    e0: float, e1: float, e2: float, e3: float, e4: float, e5: float,
    dx: float, dy: float, o0: float, o1: float, o2: float,
):
    """check_block_rotation (see its docstring) for a block whose pin grid is flats-up"""
    check_block_rotation(k, pitch, False, i, j, m, n, cx, cy, cz, [c0, c1, c2, c3, c4, c5], [e0, e1, e2, e3, e4, e5], dx, dy, o0, o1, o2)


def small_block(g, i, j, cx, cy, corner, dx, dy, o2):
    pin = new(Composite, spatialLocator=IndexLocation(i, j, 0, g))
    free = new(Composite, spatialLocator=CoordinateLocation(cx, cy, 0.0, g))
    p = params(0.0, 0.0, o2, dx, dy, list(corner), None)
    return new(HexBlock, spatialGrid=g, _children=[pin, free], p=p), pin, free, p


def same_block_state(s1, s2):
    """pin cell, free coordinates, corner vector, displacement equal; orientation equal modulo 360"""
    b1, pin1, free1, p1 = s1
    b2, pin2, free2, p2 = s2
    ok = pin1.spatialLocator.i == pin2.spatialLocator.i and pin1.spatialLocator.j == pin2.spatialLocator.j
    ok = ok and eq(free1.spatialLocator.i, free2.spatialLocator.i) and eq(free1.spatialLocator.j, free2.spatialLocator.j)
    for q in range(6):
        ok = ok and eq(p1.cornerFastFlux[q], p2.cornerFastFlux[q])
    ok = ok and eq(p1.displacementX, p2.displacementX) and eq(p1.displacementY, p2.displacementY)
    d = (p1.orientation[2] - p2.orientation[2]) / 360
    return ok and (eq(d, round(d)) if NATIVE else d == int(d))


def check_composition(a, b, i, j, cx, cy, corner, dx, dy, o2):
    """rotate(a x 60) then rotate(b x 60) leaves the state rotate((a + b) x 60) leaves, for integers a, b (symbolic;
    the residues a mod 6, b mod 6 are split): pin cell, free-child coordinates, corner vector, displacement identical,
    orientation identical modulo 360.  A total of a multiple of six steps is the identity."""
    choose(a % 6, 0, 5)
    choose(b % 6, 0, 5)
    g = hexgrid(1.0, True)
    two = small_block(g, i, j, cx, cy, corner, dx, dy, o2)
    one = small_block(g, i, j, cx, cy, corner, dx, dy, o2)
    two[0].rotate(a * math.pi / 3)
    two[0].rotate(b * math.pi / 3)
    one[0].rotate((a + b) * math.pi / 3)
    assert same_block_state(two, one), "rotate(a) then rotate(b) = rotate(a + b)"
    if (a + b) % 6 == 0:
        ref = small_block(g, i, j, cx, cy, corner, dx, dy, o2)
        assert same_block_state(two, ref), "a total of a multiple of six steps is the identity"


@lemma(gen=KGEN)
def hex_block_rotations_compose_additively_first_residues_0_to_2(
    a: int, b: int, i: int, j: int, cx: float, cy: float,
    c0: float, c1: float, c2: float, c3: float, c4: float, c5: float, dx: float, dy: float, o2: float,
):
    """check_composition for ALL integers a, b with a mod 6 in {0, 1, 2} (the other half: next lemma; 18 cases each)"""
    assume(a % 6 <= 2)
    check_composition(a, b, i, j, cx, cy, [c0, c1, c2, c3, c4, c5], dx, dy, o2)


@lemma(gen=KGEN)
def hex_block_rotations_compose_additively_first_residues_3_to_5(
    a: int, b: int, i: int, j: int, cx: float, cy: float,
    c0: float, c1: float, c2: float, c3: float, c4: float, c5: float, dx: float, dy: float, o2: float,
):
    """check_composition for ALL integers a, b with a mod 6 in {3, 4, 5}"""
    assume(a % 6 >= 3)
    check_composition(a, b, i, j, cx, cy, [c0, c1, c2, c3, c4, c5], dx, dy, o2)


@lemma(gen=KGEN)
def full_turn_is_the_identity(
    pitch: float, cornersUp: bool, i: int, j: int, cx: float, cy: float,
    c0: float, c1: float, c2: float, c3: float, c4: float, c5: float, dx: float, dy: float, o2: float,
):
    """rotate(2 pi) (the `2 * PI` of the docstring), rotate(-2 pi), rotate(0) and six times rotate(pi / 3) each leave
    the block as it was (orientation modulo 360)."""
    assume(pitch > 0)
    g = hexgrid(pitch, cornersUp)
    corner = [c0, c1, c2, c3, c4, c5]
    ref = small_block(g, i, j, cx, cy, corner, dx, dy, o2)
    for rad in (2 * math.pi, -2 * math.pi, 0.0, math.radians(360)):
        s = small_block(g, i, j, cx, cy, corner, dx, dy, o2)
        s[0].rotate(rad)
        assert same_block_state(s, ref)
    s = small_block(g, i, j, cx, cy, corner, dx, dy, o2)
    for _ in range(6):
        s[0].rotate(math.pi / 3)
    assert same_block_state(s, ref), "six steps of 60 degrees"
    assert eq(s[3].orientation[2], o2 + 360) or NATIVE


# ----------------------------------------------------------------------------- the pieces
@lemma(gen=KGEN)
def boundary_parameters_all_roll_the_same_way(
    rotNum: int, seven: bool,
    a0: float, a1: float, a2: float, a3: float, a4: float, a5: float,
    b0: float, b1: float, b2: float, b3: float, b4: float, b5: float,
    s: float, t: int, z0: float, z1: float, z2: float, z3: float, z4: float, z5: float,
):
    """HexBlock._rotateBoundaryParameters(rotNum), rotNum in 0..5 (its documented range; symbolic).

    EVERY parameter located at CORNERS or EDGES that holds six entries - list or array - has the value of entry q at
    entry (q + rotNum) mod 6 afterwards (corners and edges in the same direction, kind of container kept); a parameter
    that is None, a scalar, an empty list or a list / array of another length (five, seven) is left alone; a six-vector
    that is NOT located on the boundary is left alone.
    """
    assume(0 <= rotNum and rotNum <= 5)
    va = [a0, a1, a2, a3, a4, a5]
    vb = [b0, b1, b2, b3, b4, b5]
    vz = [z0, z1, z2, z3, z4, z5]
    p = params(
        0.0, 0.0, 0.0, None, None, None, None,
        THcornTemp=list(va),
        cornerFastFlux=np.array(list(vb)),
        pointsCornerFastFluxFr=list(vb),
        pointsCornerDpa=np.array([a0, a1, a2, a3, a4, a5, s]) if seven else [],
        pointsCornerDpaRate=s,
        THedgeTemp=np.array(list(va)),
        pointsEdgeFastFluxFr=[a0, a1, a2, a3, a4],
        pointsEdgeDpa=list(vb),
        pointsEdgeDpaRate=t,
        pinMgFluxes=list(vz),
    )
    b = new(HexBlock, spatialGrid=None, _children=[], p=p)
    b._rotateBoundaryParameters(rotNum)
    assert isinstance(p.THcornTemp, list) and isinstance(p.pointsCornerFastFluxFr, list) and isinstance(p.pointsEdgeDpa, list)
    assert isinstance(p.cornerFastFlux, np.ndarray) and isinstance(p.THedgeTemp, np.ndarray)
    assert len(p.THcornTemp) == 6 and len(p.cornerFastFlux) == 6 and len(p.pointsCornerFastFluxFr) == 6
    assert len(p.THedgeTemp) == 6 and len(p.pointsEdgeDpa) == 6
    for q in range(6):
        w = (q + rotNum) % 6
        assert eq(p.THcornTemp[w], va[q]) and eq(p.cornerFastFlux[w], vb[q]) and eq(p.pointsCornerFastFluxFr[w], vb[q])
        assert eq(p.THedgeTemp[w], va[q]) and eq(p.pointsEdgeDpa[w], vb[q]), "edges roll like corners"
    if seven:
        assert isinstance(p.pointsCornerDpa, np.ndarray) and eq(list(p.pointsCornerDpa), [a0, a1, a2, a3, a4, a5, s]), "seven entries: left alone"
    else:
        assert isinstance(p.pointsCornerDpa, list) and len(p.pointsCornerDpa) == 0
    assert eq(p.pointsCornerDpaRate, s) and p.pointsEdgeDpaRate == t
    assert eq(p.pointsEdgeFastFluxFr, [a0, a1, a2, a3, a4]), "five entries: no rotation defined, left alone"
    assert eq(p.pinMgFluxes, vz), "not a boundary parameter"


@lemma(gen=KGEN)
def boundary_parameter_of_unexpected_type_is_refused(rotNum: int):
    """a boundary parameter that is neither a sequence, a number nor None (here a string) is refused with TypeError"""
    assume(0 <= rotNum and rotNum <= 5)
    # type / xsType / envGroup, name, parent, spatialLocator are only read by Block.__repr__ inside the error message
    p = params(0.0, 0.0, 0.0, None, None, None, None, THedgeTemp="bad data", type="b", xsType="A", envGroup="A")
    b = new(HexBlock, spatialGrid=None, _children=[], p=p, name="b", parent=None, spatialLocator=None)
    try:
        b._rotateBoundaryParameters(rotNum)
        ok = True
    except TypeError:
        ok = False
    assert not ok


@lemma(gen={"rad": (-20.0, 20.0)})
def displacement_rotates_as_a_vector_for_any_angle(rad: float, dx: float, dy: float):
    """HexBlock._rotateDisplacement for EVERY real angle: (x, y) -> (x cos - y sin, x sin + y cos) with the cos / sin of
    that angle (counter-clockwise), length preserved; nothing happens while a component of the vector is undefined."""
    p = params(0.0, 0.0, 0.0, dx, dy, None, None)
    b = new(HexBlock, spatialGrid=None, _children=[], p=p)
    b._rotateDisplacement(rad)
    c, s = math.cos(rad), math.sin(rad)
    assert eq(p.displacementX, dx * c - dy * s) and eq(p.displacementY, dx * s + dy * c)
    assert eq(p.displacementX * p.displacementX + p.displacementY * p.displacementY, dx * dx + dy * dy), "length kept"
    assert eq(p.displacementX * dx + p.displacementY * dy, c * (dx * dx + dy * dy)), "angle to the old vector is rad"
    assert eq(dx * p.displacementY - dy * p.displacementX, s * (dx * dx + dy * dy)), "turned counter-clockwise"
    for which in (0, 1):
        p2 = params(0.0, 0.0, 0.0, None if which == 0 else dx, None if which == 1 else dy, None, None)
        b2 = new(HexBlock, spatialGrid=None, _children=[], p=p2)
        b2._rotateDisplacement(rad)
        if which == 0:
            assert p2.displacementX is None and eq(p2.displacementY, dy)
        else:
            assert p2.displacementY is None and eq(p2.displacementX, dx)


@lemma(gen=KGEN)
def block_without_pin_grid_rotates_its_data_only(
    k: int, i: int, j: int, cx: float, cy: float,
    c0: float, c1: float, c2: float, c3: float, c4: float, c5: float, dx: float, dy: float, o2: float,
):
    """a block that has no spatialGrid: children keep their locators (they live in nobody's grid), boundary data,
    displacement and orientation still follow the rotation; every integer k"""
    r = choose(k % 6, 0, 5)
    g = hexgrid(1.0, True)
    li = IndexLocation(i, j, 0, g)
    lf = CoordinateLocation(cx, cy, 0.0, g)
    pin = new(Composite, spatialLocator=li)
    free = new(Composite, spatialLocator=lf)
    corner = [c0, c1, c2, c3, c4, c5]
    p = params(0.0, 0.0, o2, dx, dy, list(corner), None)
    b = new(HexBlock, spatialGrid=None, _children=[pin, free], p=p)
    b.rotate(k * math.pi / 3)
    assert pin.spatialLocator is li and free.spatialLocator is lf
    assert (li.i, li.j) == (i, j) and eq((lf.i, lf.j), (cx, cy))
    for q in range(6):
        assert eq(p.cornerFastFlux[(q + r) % 6], corner[q])
    assert eq((p.displacementX, p.displacementY), rotk(dx, dy, r))
    assert turned_by(p, o2, k)


@lemma(gen=dict(KGEN, t=(-30, 30)))
def rotation_number_follows_the_orientation(k: int, t: int, dx: float, dy: float):
    """orientation as setRotationNum(t) leaves it (t x 60 degrees about z, any integer t), then rotate(k x pi / 3) for
    any integer k: getRotationNum() - the number of 60-degree steps counter-clockwise - is (t + k) mod 6"""
    choose(k % 6, 0, 5)
    p = params(0.0, 0.0, 0.0, dx, dy, None, None)
    b = new(HexBlock, spatialGrid=None, _children=[], p=p)
    b.setRotationNum(t)
    assert eq(p.orientation[2], 60 * t)
    assert eq(b.getRotationNum(), t % 6)
    b.rotate(k * math.pi / 3)
    assert eq(b.getRotationNum(), (t + k) % 6)


@lemma(gen=KGEN)
def child_with_a_foreign_locator_is_refused(k: int, i: int, j: int):
    """a child whose spatialLocator is not a location object makes the rotation fail loudly (TypeError)"""
    r = choose(k % 6, 0, 5)
    g = hexgrid(1.0, True)
    odd = new(Composite, spatialLocator=(i, j, 0), name="odd")
    # type / xsType / envGroup, name, parent, spatialLocator are only read by Block.__repr__ inside the error message
    p = params(0.0, 0.0, 0.0, None, None, None, None, type="b", xsType="A", envGroup="A")
    b = new(HexBlock, spatialGrid=g, _children=[odd], p=p, name="b", parent=None, spatialLocator=None)
    try:
        b._rotateChildLocations(k * math.pi / 3, r)
        ok = True
    except TypeError:
        ok = False
    assert not ok
    assert odd.spatialLocator == (i, j, 0)


# ----------------------------------------------------------------------------- assemblies
def assembly_of(blocks):
    return new(HexAssembly, _children=blocks, p=new(PMap, assemNum=1), name="A", parent=None, spatialGrid=None, spatialLocator=None)


@lemma(gen=dict(KGEN, nb=(1, 3)))
def hex_assembly_rotates_every_block_for_every_multiple_of_60(
    k: int, nb: int, i: int, j: int, m: int, n: int, cx: float, cy: float,
    c0: float, c1: float, c2: float, c3: float, c4: float, c5: float, dx: float, dy: float, o2: float, o3: float,
):
    """HexAssembly.rotate(k x pi / 3) for EVERY integer k (residue split), nb = 1..3 blocks (enumerated): never
    refused, and every block ends in the state its own HexBlock.rotate(k x pi / 3) gives (twin blocks rotated
    directly; what that state is: hex_block_rotate_for_every_integer_step_count).  The blocks differ in pins,
    orientation and data; the last one has no pin grid."""
    choose(k % 6, 0, 5)
    nb = choose(nb, 1, 3)
    g = hexgrid(1.0, True)
    corner = [c0, c1, c2, c3, c4, c5]

    def trio():
        s1 = small_block(g, i, j, cx, cy, corner, dx, dy, o2)
        s2 = small_block(g, m, n, cy, cx, [c5, c4, c3, c2, c1, c0], dy, dx, o3)
        s3 = small_block(g, i, j, cx, cy, corner, dx, dy, o3)
        s3[0].spatialGrid = None
        return [s1, s2, s3][:nb]

    states = trio()
    twins = trio()
    a = assembly_of([s[0] for s in states])
    a.rotate(k * math.pi / 3)
    for t in twins:
        t[0].rotate(k * math.pi / 3)
    for q in range(nb):
        assert same_block_state(states[q], twins[q]), "block q is rotated as by its own rotate"
        assert eq(states[q][3].orientation[2], twins[q][3].orientation[2])
    assert len(a) == nb and all([a[q] is states[q][0] for q in range(nb)]), "same blocks, same order"


TOL = 2e-9  # radians: closer than this to a multiple of 60 degrees the (floating-point) answer is left open


@lemma(gen=dict(KGEN, f=(0.0005, 0.9995)))
def hex_assembly_refuses_other_angles_and_changes_nothing(
    k: int, f: float, i: int, j: int, cx: float, cy: float,
    c0: float, c1: float, c2: float, c3: float, c4: float, c5: float, dx: float, dy: float, o2: float,
):
    """rad = (k + f) x pi / 3 with an integer k and 0 < f < 1 - EVERY angle that is not a multiple of 60 degrees -, at
    least 2e-9 rad away from the two neighbouring multiples (closer, the floating-point tolerance of the code
    decides): HexAssembly.rotate raises ValueError and no block has changed at all (not even modulo a full turn)."""
    assume(0 < f and f < 1)
    rad = (k + f) * math.pi / 3
    assume(f * math.pi / 3 > TOL and (1 - f) * math.pi / 3 > TOL)
    g = hexgrid(1.0, True)
    corner = [c0, c1, c2, c3, c4, c5]
    s = small_block(g, i, j, cx, cy, corner, dx, dy, o2)
    a = assembly_of([s[0]])
    try:
        a.rotate(rad)
        refused = False
    except ValueError:
        refused = True
    assert refused, "not a multiple of 60 degrees"
    assert (s[1].spatialLocator.i, s[1].spatialLocator.j) == (i, j)
    assert (s[2].spatialLocator.i, s[2].spatialLocator.j) == (cx, cy)
    assert s[3].cornerFastFlux == corner
    assert (s[3].displacementX, s[3].displacementY) == (dx, dy) and s[3].orientation[2] == o2


CartesianBlock = repo("armi.reactor.blocks:CartesianBlock")
CartesianAssembly = repo("armi.reactor.assemblies:CartesianAssembly")


@lemma(gen={"rad": (-20.0, 20.0)})
def a_block_that_is_not_hexagonal_does_not_pretend_to_rotate(rad: float, dx: float, dy: float):
    """Block.rotate (inherited by CartesianBlock) and Assembly.rotate over such blocks: NotImplementedError, for every
    angle, and nothing is changed - sixty-degree rotation is defined for hexagonal blocks only"""
    p = params(0.0, 0.0, 0.0, dx, dy, None, None)
    b = new(CartesianBlock, spatialGrid=None, _children=[], p=p)
    a = new(CartesianAssembly, _children=[b], p=new(PMap, assemNum=1), name="A", parent=None, spatialGrid=None, spatialLocator=None)
    for target in (b, a):
        try:
            target.rotate(rad)
            ok = True
        except NotImplementedError:
            ok = False
        assert not ok
    assert (p.displacementX, p.displacementY) == (dx, dy) and p.orientation[2] == 0.0


class GridlessBlock(HexBlock):
    """probe: a HexBlock whose autoCreateSpatialGrids (needs components, pitches, multiplicities) is replaced by a
    recorder with a prescribed outcome: 0 = builds a grid, 1 = ValueError, 2 = NotImplementedError, 3 = KeyError"""

    def autoCreateSpatialGrids(self, systemSpatialGrid=None):
        self.calls.append(systemSpatialGrid)
        if self.outcome == 1:
            raise ValueError("multiplicities")
        if self.outcome == 2:
            raise NotImplementedError("no grid for this block type")
        if self.outcome == 3:
            raise KeyError("something else")
        self.spatialGrid = "built"


@lemma(gen={"o1": (0, 3), "o2": (0, 2)})
def orient_blocks_builds_the_missing_grids_only(o1: int, o2: int):
    """Assembly.orientBlocks(parentGrid), three blocks (GridlessBlock probes): a block that has a grid keeps it and is
    not asked; every block without one is asked exactly once, with the PARENT's grid (the pin grid's orientation is
    derived from it); a block that cannot build one (ValueError / NotImplementedError) does not stop the others; any
    other error is not swallowed."""
    o1 = choose(o1, 0, 3)
    o2 = choose(o2, 0, 2)
    parentGrid = hexgrid(1.0, False)
    has = new(GridlessBlock, spatialGrid="mine", calls=[], outcome=0, _children=[])
    b1 = new(GridlessBlock, spatialGrid=None, calls=[], outcome=o1, _children=[])
    b2 = new(GridlessBlock, spatialGrid=None, calls=[], outcome=o2, _children=[])
    a = assembly_of([b1, has, b2])
    try:
        a.orientBlocks(parentGrid)
        raised = False
    except KeyError:
        raised = True
    assert raised == (o1 == 3)
    assert has.spatialGrid == "mine" and len(has.calls) == 0
    assert len(b1.calls) == 1 and b1.calls[0] is parentGrid
    assert (b1.spatialGrid == "built") == (o1 == 0) and (b1.spatialGrid is None) == (o1 != 0)
    if not raised:
        assert len(b2.calls) == 1 and b2.calls[0] is parentGrid
        assert (b2.spatialGrid == "built") == (o2 == 0)
    else:
        assert len(b2.calls) == 0 and b2.spatialGrid is None


# ----------------------------------------------------------------------------- utils/hexagon.py: the unit hexagon
@lemma(gen={"k": (-7, 7)})
def unit_hexagon_corners_turn_rigidly(k: int):
    """hexagon.corners(rotation in degrees), k = -7..7 enumerated: the six points lie at distance 1 / sqrt(3) (unit
    pitch) from the origin, corners(0) has flats perpendicular to the y axis, and corners(60 k)[q] is corners(0)[q]
    rotated by k x 60 degrees counter-clockwise - which is corners(0)[(q - k) mod 6], because THIS helper lists the
    corners clockwise from the upper right one."""
    k = choose(k, -7, 7)
    base = hexagon.corners()
    turned = hexagon.corners(60 * k)
    assert len(base) == 6 and len(turned) == 6
    assert eq(max([pt[1] for pt in base]), 0.5) and eq(min([pt[1] for pt in base]), -0.5), "flat to flat = 1 along y"
    for q in range(6):
        assert eq(base[q][0] * base[q][0] + base[q][1] * base[q][1], 1.0 / 3.0)
        assert eq(tuple(turned[q]), rotk(base[q][0], base[q][1], k)), "rigid ccw rotation"
        assert eq(tuple(turned[q]), tuple(base[(q - k) % 6])), "a ccw turn moves a corner to the previous slot"
        assert eq(tuple(base[(q + 5) % 6]), rot60(base[q][0], base[q][1])), "clockwise numbering"


@lemma
def corner_and_edge_parameter_names_are_the_real_ones():
    """the PDefs stand-in lists exactly the block parameters armi defines at CORNERS / EDGES (native check of the
    stand-in against HexBlock's real parameter definitions); symbolically: the stand-in answers per location."""
    d = new(PDefs)
    assert d.atLocation(ParamLocation.CORNERS).names == CORNER_NAMES
    assert d.atLocation(ParamLocation.EDGES).names == EDGE_NAMES
    assert d.atLocation(ParamLocation.TOP).names == []
    if NATIVE:
        real = HexBlock.paramCollectionType.pDefs
        assert sorted(real.atLocation(ParamLocation.CORNERS).names) == sorted(CORNER_NAMES)
        assert sorted(real.atLocation(ParamLocation.EDGES).names) == sorted(EDGE_NAMES)


# ----------------------------------------------------------------------------- the engine models used above, against Python
@lemma(gen={"k": (-13, 13)})
def engine_models_of_pi_multiples_agree_with_python(k: int):
    """Trusted-base check: the same assertions run on the engine's models (exact sin / cos at multiples of pi / 6,
    quotient / remainder of multiples of pi) and natively on math (floating point: closeness; a remainder may land
    next to the divisor instead of next to 0).  k = -13..13 enumerated."""
    k = choose(k, -13, 13)
    h = math.sqrt(3) / 2
    rad = k * math.pi / 3
    assert eq(math.cos(rad), [1.0, 0.5, -0.5, -1.0, -0.5, 0.5][k % 6]) and eq(math.sin(rad), [0.0, h, h, 0.0, -h, -h][k % 6])
    assert eq(math.cos(k * math.pi / 2), [1.0, 0.0, -1.0, 0.0][k % 4]) and eq(math.sin(k * math.pi / 2), [0.0, 1.0, 0.0, -1.0][k % 4])
    assert eq(math.cos(k * math.pi / 6), [1.0, h, 0.5, 0.0, -0.5, -h, -1.0, -h, -0.5, 0.0, 0.5, h][k % 12])
    assert eq(math.sin(math.radians(30 * k)), [0.0, 0.5, h, 1.0, h, 0.5, 0.0, -0.5, -h, -1.0, -h, -0.5][k % 12])
    assert eq(rad / (math.pi / 3), k) and eq(rad / math.radians(60), k)
    m = rad % (2 * math.pi)
    assert eq(m, (k % 6) * math.pi / 3) or (NATIVE and k % 6 == 0 and eq(m, 2 * math.pi))
    fl = rad // (2 * math.pi)
    assert eq(fl, k // 6) or (NATIVE and k % 6 == 0 and eq(fl, k // 6 - 1))
    m3 = (-rad) % (-math.pi / 2)
    assert -math.pi / 2 < m3 and m3 <= 0 and eq(m3, -(((2 * k) % 3) * math.pi / 6)) or (NATIVE and (2 * k) % 3 == 0)
    assert eq(np.rint(k + 0.5), 2 * ((k + 1) // 2)) and eq(np.rint(k), k)


@lemma(gen={"rs": (-7, 7), "x": (-50.0, 50.0)})
def engine_models_of_array_rolls_agree_with_python(rs: int, x: float, a0: float, a1: float, a2: float, a3: float, a4: float, a5: float):
    """second half of the trusted-base check: np.concatenate, 1-d array slices with a symbolic bound, np.rint"""
    assume(-7 <= rs and rs <= 7)
    items = [a0, a1, a2, a3, a4, a5]
    v = np.array(items)
    rolled = np.concatenate((v[rs:], v[:rs]))
    assert isinstance(rolled, np.ndarray) and len(rolled) == 6
    asList = items[rs:] + items[:rs]
    for q in range(6):
        assert eq(rolled[q], asList[q])
    assert len(v[rs:]) == len(items[rs:]) and len(v[:rs]) == len(items[:rs])
    assert eq(list(np.concatenate(([a0, a1], v[:2], (a5,)))), [a0, a1, a0, a1, a5])
    # rint
    assert eq(np.rint(x), round(x))
    assert eq(list(np.rint(np.array([x, 2.5, -0.5]))), [round(x), 2.0, 0.0])
