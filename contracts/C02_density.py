"""C02 - unit conversions of densityTools are mutual inverses; mass fractions sum to one.

The nuclide table is abstract: three nuclides with arbitrary positive atomic weights (values unbounded; the number
of nuclides in a composition is bounded by 3 in these lemmas - stated as shape-bounded in the evidence).
"""
from spec import *

densityTools = repo("armi.utils.densityTools")


class Nuc:
    pass


W1 = 1.0079
W2 = 235.04
W3 = 15.9949


def weight_contract(nucName):
    """contract of nucDir.getAtomicWeight: the weight recorded for that nuclide in the table"""
    return TABLE[nucName].weight


def table(w1, w2, w3):
    return {"A": new(Nuc, weight=w1), "B": new(Nuc, weight=w2), "C": new(Nuc, weight=w3)}


TABLE = {"A": new(Nuc, weight=uf("w1")), "B": new(Nuc, weight=uf("w2")), "C": new(Nuc, weight=uf("w3"))} if not NATIVE else {
    "A": new(Nuc, weight=W1), "B": new(Nuc, weight=W2), "C": new(Nuc, weight=W3)}

OV = {"armi.nucDirectory.nuclideBases:byName": "TABLE"}
ST = {"armi.nucDirectory.nucDir:getAtomicWeight": "weight_contract"}
GEN = {"a": (0.0, 0.6), "b": (0.0, 0.6), "c": (0.0, 5.0), "rho": (0.1, 20.0)}


def weights_positive():
    assume(TABLE["A"].weight > 0 and TABLE["B"].weight > 0 and TABLE["C"].weight > 0)


@lemma(overrides=OV, stubs=ST, gen=GEN)
def mass_fractions_sum_to_one(a: float, b: float, c: float):
    weights_positive()
    assume(a >= 0 and b >= 0 and c >= 0)  # (P) number densities are not negative
    mf = densityTools.getMassFractions({"A": a, "B": b, "C": c})
    total = mf["A"] + mf["B"] + mf["C"]
    if a + b + c > 0:
        assert eq(total, 1.0), "mass fractions sum to one"
        assert mf["A"] >= 0 and mf["B"] >= 0 and mf["C"] >= 0
    else:
        assert eq(total, 0.0)


@lemma(overrides=OV, stubs=ST, gen=GEN)
def number_densities_and_mass_fractions_are_inverse(a: float, b: float, rho: float):
    weights_positive()
    c = 1.0 - a - b
    assume(a >= 0 and b >= 0 and c >= 0 and rho > 0)
    nd = densityTools.getNDensFromMasses(rho, {"A": a, "B": b, "C": c})
    back = densityTools.getMassFractions(nd)
    assert eq(back["A"], a) and eq(back["B"], b) and eq(back["C"], c), "getMassFractions inverts getNDensFromMasses"
    assert eq(densityTools.calculateMassDensity(nd), rho), "calculateMassDensity inverts getNDensFromMasses"


@lemma(overrides=OV, stubs=ST, gen=GEN)
def normalised_input_gives_the_same_densities(a: float, b: float, c: float, rho: float):
    weights_positive()
    # (P) fractions not negative, (S) not all zero (their sum is the divisor of the normalisation); whichever nuclide carries the mass
    assume(a >= 0 and b >= 0 and c >= 0 and a + b + c > 0 and rho > 0)
    s = a + b + c
    nd1 = densityTools.getNDensFromMasses(rho, {"A": a, "B": b, "C": c}, normalize=1.0)
    nd2 = densityTools.getNDensFromMasses(rho, {"A": a / s, "B": b / s, "C": c / s})
    assert eq(nd1["A"], nd2["A"]) and eq(nd1["B"], nd2["B"]) and eq(nd1["C"], nd2["C"])
    assert eq(densityTools.calculateMassDensity(nd1), rho)


@lemma(overrides=OV, stubs=ST, gen={"N": (0.0, 0.1), "V": (0.01, 500.0)})
def mass_in_grams_and_number_density_are_inverse(N: float, V: float):
    weights_positive()
    assume(N > 0 and V > 0)
    m = densityTools.getMassInGrams("B", V, N)
    assert m > 0
    assert eq(densityTools.calculateNumberDensity("B", m, V), N), "calculateNumberDensity inverts getMassInGrams"
    assert eq(densityTools.getMassInGrams("B", V, 0.0), 0.0)
    assert eq(densityTools.getMassInGrams("B", V, None), 0.0)
    # linear in volume and density
    assert eq(densityTools.getMassInGrams("B", 2.0 * V, N), 2.0 * m)


@lemma(overrides=OV, stubs=ST, gen={"N": [0.0, 0.0, 1e-9, 0.003, 0.1], "V": (-200.0, 500.0)})
def mass_in_grams_and_number_density_are_inverse_for_signed_volumes(N: float, V: float):
    """the same without sign hypotheses: the volume may be NEGATIVE (gap components), the density zero; the only
    hypothesis is (S) the divisor of calculateNumberDensity, V != 0"""
    weights_positive()
    assume(N >= 0 and V != 0)
    m = densityTools.getMassInGrams("B", V, N)
    assert (m > 0) == (N > 0 and V > 0) and (m < 0) == (N > 0 and V < 0), "the mass has the sign of the volume"
    assert eq(densityTools.calculateNumberDensity("B", m, V), N), "calculateNumberDensity inverts getMassInGrams"
    assert eq(densityTools.getMassInGrams("B", -V, N), -m) and eq(densityTools.getMassInGrams("B", 2.0 * V, N), 2.0 * m)


@lemma(overrides=OV, stubs=ST)
def zero_volume_is_refused_unless_empty(m: float):
    weights_positive()
    try:
        r = densityTools.calculateNumberDensity("A", m, 0.0)
        ok = True
    except ValueError:
        ok = False
    assert ok == eq(m, 0.0)
